package c02

import (
	"encoding/json"
	"fmt"
	"testing"

	"pgregory.net/rapid"

	"verif/internal/ev"
	"verif/internal/sstcp"
)

var recLong = ev.New("C02", "long-sessions",
	"rapid: configuration class (no >64KiB prefix) x direction x a session with n small application writes (1..16 bytes, one chunk = one frame = two "+
		"seals each) in the tampered direction, n in 140..300 (mostly), 520..800 (sometimes) or about 33 000 (rarely, crosses the 65 536-seal carry) x "+
		"operator {a recorded copy of chunk k inserted at position k+d, chunks k and k+d exchanged} for d in {1, 2, 127, 128, 254, 255, 256, 510, "+
		"32640, 32768, random} x k anywhere. Same oracle as tamper-live: the reader delivers exactly the chunks before the first altered one, then fails "+
		"with a non-EOF error; nothing of a replayed or displaced chunk is ever delivered. Non-trivial: the reader consumed the altered chunk; distinct "+
		"key = class+direction+operator+distance+chunk-count class").
	Require("c2s/replay-at", "c2s/swap-at", "s2c/replay-at", "s2c/swap-at", "d=1", "d=2", "d=127", "d=128", "d=254", "d=255", "d=256", "d=510", "d=random",
		"chunks>=140", "chunks>=520")

// TestLongSessions: replay / reordering at the distances where a broken nonce counter would repeat itself.
func TestLongSessions(t *testing.T) {
	rapid.Check(t, func(rt *rapid.T) {
		class := drawClass(rt)
		if class.Prefix == sstcp.PrefixBig {
			class.Prefix = sstcp.PrefixShort
		}
		p := casePlan{Class: class, Seed: rapid.Uint64().Draw(rt, "seed")}
		p.TargetKind = rapid.IntRange(0, 3).Draw(rt, "target")
		p.Dir = rapid.IntRange(0, 1).Draw(rt, "dir")
		p.PLen = at([]int{0, 3, 900}, rapid.IntRange(0, 2).Draw(rt, "plen"))
		var n int
		switch c := rapid.IntRange(0, 39).Draw(rt, "nclass"); {
		case c == 17:
			n = 32900 + rapid.IntRange(0, 400).Draw(rt, "n")
		case c < 10:
			n = rapid.IntRange(520, 800).Draw(rt, "n")
		default:
			n = rapid.IntRange(140, 300).Draw(rt, "n")
		}
		sizeSeed := rapid.IntRange(0, 1<<16).Draw(rt, "sizes")
		long := make([]int, n)
		for i := range long {
			long[i] = 1 + (sizeSeed+i*7)%16
		}
		if p.Dir == dirC2S {
			p.CWrites, p.SWrites = long, []int{5}
		} else {
			p.CWrites, p.SWrites = []int{5}, long
		}
		p.SBuf = at(readBufs, rapid.IntRange(0, len(readBufs)-1).Draw(rt, "sbuf"))
		p.CBuf = at(readBufs, rapid.IntRange(0, len(readBufs)-1).Draw(rt, "cbuf"))
		p.SPath = rapid.IntRange(0, 1).Draw(rt, "spath")
		p.CPath = rapid.IntRange(0, 1).Draw(rt, "cpath")
		p.SCoalesce = rapid.Bool().Draw(rt, "scoalesce")
		p.CCoalesce = rapid.Bool().Draw(rt, "ccoalesce")
		p.Op = opSpec{
			Kind:     at([]int{opReplayAt, opSwapAt, opReplayAt}, rapid.IntRange(0, 2).Draw(rt, "op")),
			DistSel:  rapid.IntRange(0, len(replayDistances)-1).Draw(rt, "dist"),
			K:        rapid.IntRange(0, 1<<20).Draw(rt, "k"),
			OffSel:   rapid.IntRange(0, 1<<20).Draw(rt, "off"),
			AbsFrame: -1,
		}
		r := runCase(&p)
		if r.violation != "" {
			p.CWrites, p.SWrites = nil, nil // keep the message readable; sizes follow from n and sizeSeed
			b, _ := json.Marshal(p)
			rt.Fatalf("%s | chunks=%d sizeSeed=%d plan=%s detail=%v", r.violation, n, sizeSeed, b, r.detail)
		}
		for _, l := range r.labels {
			if len(l) > 11 && l[4:11] == "region-" { // "c2s/region-d=255"
				r.labels = append(r.labels, l[11:])
				break
			}
		}
		if n >= 140 {
			r.labels = append(r.labels, "chunks>=140")
		}
		if n >= 520 {
			r.labels = append(r.labels, "chunks>=520")
		}
		if n >= 32900 {
			r.labels = append(r.labels, "chunks>=32900")
		}
		recLong.Case(fmt.Sprintf("%s|%d", r.key, n/128), r.nontriv, r.labels...)
		if r.nontriv {
			recLong.Sample(map[string]any{"class": class.String(), "dir": p.Dir, "op": opNames[p.Op.Kind], "chunks": n, "key": r.key, "detail": r.detail})
		}
	})
}
