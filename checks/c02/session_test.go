package c02

import (
	"bytes"
	"errors"
	"fmt"
	"io"

	"github.com/database64128/shadowsocks-go/conn"
	"github.com/database64128/shadowsocks-go/netio"
	"github.com/database64128/shadowsocks-go/ss2022"
	"go.uber.org/zap"

	"verif/internal/sstcp"
)

// Everything in this file runs in one goroutine: the owned transport never blocks a writer and a
// reader only ever reads after the harness queued its whole (tampered) input followed by EOF, so
// the harness is a store-and-forward man in the middle and every case is deterministic.

var nop = zap.NewNop()

const (
	dirC2S = 0 // tamper with what the client sends; the server is the reader under test
	dirS2C = 1 // tamper with what the server sends; the client is the reader under test
)

// tamper operators
const (
	opFlip         = iota // flip one bit
	opCut                 // truncate the stream at an offset, then EOF
	opDrop                // drop one frame
	opDup                 // deliver one frame twice
	opSwap                // exchange two adjacent frames
	opSpliceFrame         // replace one frame by a frame of a second session
	opSpliceHead          // first frame = own first frame up to a structural boundary ++ other session's first frame from there
	opSwapStream          // deliver the other session's whole stream instead (response swap / foreign key)
	opInsert              // insert one byte
	opDelete              // delete one byte
	opAppend              // append garbage after the last frame
	opGarbageChunk        // insert 18 random bytes (a fake length chunk) before a frame
	opOverwrite           // overwrite a run of bytes with random bytes
	opKinds

	// long-session operators (TestLongSessions only)
	opReplayAt = opKinds     // a recorded copy of frame k is inserted before frame k+d
	opSwapAt   = opKinds + 1 // frames k and k+d are exchanged

	// opFeedReplay: frames before position i are genuine; then one damaged unit (a frame whose payload chunk has a
	// flipped bit, or an 18-byte garbage length chunk, or a frame whose length chunk has a flipped bit); then the
	// attacker keeps feeding the reader a byte-exact recording: this session's own stream from its very first byte,
	// or from its first data chunk, or another session's stream (same key) from its first byte.
	opFeedReplay = opKinds + 2
)

var feedSources = [...]string{"own-stream-from-offset-0", "own-stream-from-first-data-chunk", "other-session-same-key-from-offset-0"}

// replayDistances: distances in frames (= chunks = two seals each) at which a nonce counter that loses a carry
// or wraps early would repeat: 128 frames = 256 seals, 255 frames = 510 seals, 32768 frames = 65536 seals, ...
var replayDistances = []int{1, 2, 127, 128, 254, 255, 256, 510, 0 /* random */, 32768, 32640}

var opNames = [...]string{"flip", "cut", "drop", "dup", "swap", "splice-frame", "splice-head", "swap-stream", "insert", "delete", "append", "garbage-chunk", "overwrite", "replay-at", "swap-at", "feed-replay"}

// opSpec is the abstract description of one tamper; offsets are resolved against the actual
// frames of the session (whose lengths depend on the client's random padding).
type opSpec struct {
	Kind      int  `json:"kind"`
	Foreign   bool `json:"foreign"`    // the second session is keyed differently (server does not hold its key)
	RegionSel int  `json:"region_sel"` // which structural region (index into the region list, modulo)
	OffMode   int  `json:"off_mode"`   // 0 first byte, 1 second, 2 last, 3 last-1, otherwise OffSel modulo length
	OffSel    int  `json:"off_sel"`
	Bit       int  `json:"bit"`
	FrameSel  int  `json:"frame_sel"`
	Frame2Sel int  `json:"frame2_sel"`
	N         int  `json:"n"`
	K         int  `json:"k"`         // long sessions: frame index selector
	DistSel   int  `json:"dist"`      // long sessions: index into replayDistances
	AbsFrame  int  `json:"abs_frame"` // >= 0: explicit frame/offset (exhaustive mode); RegionSel/Off* ignored
	AbsOff    int  `json:"abs_off"`
}

type casePlan struct {
	Class      sstcp.Class `json:"class"`
	Seed       uint64      `json:"seed"`
	TargetKind int         `json:"target_kind"`
	PLen       int         `json:"initial_payload"`
	CWrites    []int       `json:"client_writes"`
	SWrites    []int       `json:"server_writes"`
	SBuf       int         `json:"server_read_buf"`
	CBuf       int         `json:"client_read_buf"`
	SPath      int         `json:"server_path"` // 0 Read loop, 1 WriteTo
	CPath      int         `json:"client_path"`
	SPlan      []int       `json:"server_transport_plan"`
	CPlan      []int       `json:"client_transport_plan"`
	SCoalesce  bool        `json:"server_coalesce"`
	CCoalesce  bool        `json:"client_coalesce"`
	Dir        int         `json:"dir"`
	Op         opSpec      `json:"op"`
	Later      int         `json:"later_handshakes"` // further HandleStream calls on the same server before a fallback payload is compared (0 = 1)

	recorded *clientSide // exhaustive mode, request direction: replay this recorded client session instead of dialling
}

type result struct {
	violation string
	nontriv   bool
	labels    []string
	key       string
	detail    map[string]any
}

func (r *result) fail(sig, format string, a ...any) {
	if r.violation == "" {
		r.violation = "SIG=C02/" + sig + " " + fmt.Sprintf(format, a...)
	}
}

func (r *result) label(l ...string) { r.labels = append(r.labels, l...) }

// half-session state of one genuine client
type clientSide struct {
	w      *sstcp.World
	target conn.Addr
	app    []byte     // everything the client application wrote: initial payload ++ writes
	conn   netio.Conn // nil for a recorded session that is replayed
	link   *sstcp.Link
	frames [][]byte // what the client wrote, one frame per Conn.Write
}

// replay returns a copy of a recorded client session on a fresh link (request direction only).
func (cs *clientSide) replay() *clientSide {
	c := *cs
	c.conn = nil
	c.link = sstcp.NewLink()
	return &c
}

func dialClient(w *sstcp.World, p *casePlan, salt uint64) (*clientSide, error) {
	cs := &clientSide{w: w, target: sstcp.Target(p.TargetKind, p.Seed^salt)}
	total := p.PLen
	for _, n := range p.CWrites {
		total += n
	}
	cs.app = sstcp.Bytes(total, p.Seed^salt^0xC11E)
	var err error
	cs.conn, cs.link, err = w.Dial(cs.target, cs.app[:p.PLen])
	if err != nil {
		return nil, err
	}
	off := p.PLen
	for _, n := range p.CWrites {
		if _, err := cs.conn.Write(cs.app[off : off+n]); err != nil {
			return nil, err
		}
		off += n
	}
	cs.frames = cs.link.C.Written()
	return cs, nil
}

// drained is what an application reader got out of a connection.
type drained struct {
	pre     []byte // bytes returned up to and including the call that returned the first error
	post    []byte // bytes returned by two more Read calls after that
	err     error  // first error (io.EOF for a clean end)
	stalled bool   // many consecutive (0, nil) reads
}

func drain(c io.Reader, path, bufSize int) (d drained) {
	if bufSize < 1 {
		bufSize = 1
	}
	if wt, ok := c.(io.WriterTo); ok && path == 1 {
		var sink bytes.Buffer
		_, err := wt.WriteTo(&sink)
		d.pre = sink.Bytes()
		if err == nil {
			err = io.EOF // WriterTo reports a clean end as nil
		}
		d.err = err
	} else {
		buf := make([]byte, bufSize)
		zero := 0
		for {
			n, err := c.Read(buf)
			d.pre = append(d.pre, buf[:n]...)
			if err != nil {
				d.err = err
				break
			}
			if n == 0 {
				if zero++; zero > 8 {
					d.stalled = true
					break
				}
			} else {
				zero = 0
			}
		}
	}
	buf := make([]byte, bufSize)
	for i := 0; i < 4; i++ { // the application keeps reading although a Read failed
		n, _ := c.Read(buf)
		d.post = append(d.post, buf[:n]...)
	}
	return d
}

func isEOF(err error) bool { return errors.Is(err, io.EOF) }

// unit is one authenticated unit of a stream: it ends at stream offset end and, once it has been
// opened successfully, releases app application bytes to the reader.
type unit struct {
	end int
	app int
}

func maxApp(units []unit, firstBad int) int {
	n := 0
	for _, u := range units {
		if u.end <= firstBad {
			n += u.app
		}
	}
	return n
}

func isBoundary(units []unit, off int) bool {
	if off == 0 {
		return true
	}
	for _, u := range units {
		if u.end == off {
			return true
		}
	}
	return false
}

func firstDiff(t, s []byte) int {
	n := min(len(t), len(s))
	for i := 0; i < n; i++ {
		if t[i] != s[i] {
			return i
		}
	}
	return n
}

// c2sUnits describes the genuine client stream as the server sees it (after the relays).
func c2sUnits(w *sstcp.World, frames [][]byte, appLen int) []unit {
	later := 0
	for _, f := range frames[1:] {
		later += len(f) - sstcp.LenChunkLen - sstcp.TagSize
	}
	f0 := len(frames[0]) - w.StrippedLen()
	us := []unit{{end: w.ServerFixedEnd(), app: 0}, {end: f0, app: appLen - later}}
	off := f0
	for _, f := range frames[1:] {
		us = append(us, unit{end: off + sstcp.LenChunkLen, app: 0}, unit{end: off + len(f), app: len(f) - sstcp.LenChunkLen - sstcp.TagSize})
		off += len(f)
	}
	return us
}

func s2cUnits(w *sstcp.World, frames [][]byte) []unit {
	if len(frames) == 0 {
		return nil
	}
	he := w.RespHeaderEnd()
	us := []unit{{end: he, app: 0}, {end: len(frames[0]), app: len(frames[0]) - he - sstcp.TagSize}}
	off := len(frames[0])
	for _, f := range frames[1:] {
		us = append(us, unit{end: off + sstcp.LenChunkLen, app: 0}, unit{end: off + len(f), app: len(f) - sstcp.LenChunkLen - sstcp.TagSize})
		off += len(f)
	}
	return us
}

// located is a resolved position of a tamper.
type located struct {
	frame, off int
	region     string
}

type namedRegion struct {
	frame int
	sstcp.Region
}

func regionsOf(w *sstcp.World, dir int, frames [][]byte) []namedRegion {
	var rs []namedRegion
	if len(frames) == 0 {
		return rs
	}
	var r0 []sstcp.Region
	if dir == dirC2S {
		r0 = w.ReqRegions(len(frames[0]))
	} else {
		r0 = w.RespRegions(len(frames[0]))
	}
	for _, r := range r0 {
		rs = append(rs, namedRegion{0, r})
	}
	for i := 1; i < len(frames) && i <= 3; i++ {
		rs = append(rs, namedRegion{i, sstcp.Region{Name: "len", Start: 0, End: sstcp.LenChunkLen}},
			namedRegion{i, sstcp.Region{Name: "payload", Start: sstcp.LenChunkLen, End: len(frames[i])}})
	}
	return rs
}

func regionAt(w *sstcp.World, dir int, frames [][]byte, frame, off int) string {
	if frame == 0 {
		var r0 []sstcp.Region
		if dir == dirC2S {
			r0 = w.ReqRegions(len(frames[0]))
		} else {
			r0 = w.RespRegions(len(frames[0]))
		}
		for _, r := range r0 {
			if off >= r.Start && off < r.End {
				return r.Name
			}
		}
		return "end"
	}
	if off < sstcp.LenChunkLen {
		return "len"
	}
	return "payload"
}

func locate(w *sstcp.World, dir int, frames [][]byte, op opSpec) located {
	if op.AbsFrame >= 0 {
		f := op.AbsFrame % len(frames)
		o := op.AbsOff
		if o >= len(frames[f]) {
			o = len(frames[f]) - 1
		}
		return located{f, o, regionAt(w, dir, frames, f, o)}
	}
	rs := regionsOf(w, dir, frames)
	r := rs[op.RegionSel%len(rs)]
	l := r.End - r.Start
	var o int
	switch op.OffMode {
	case 0:
		o = 0
	case 1:
		o = min(1, l-1)
	case 2:
		o = l - 1
	case 3:
		o = max(l-2, 0)
	default:
		o = op.OffSel % l
	}
	return located{r.frame, r.Start + o, r.Name}
}

func cloneFrames(fs [][]byte) [][]byte {
	out := make([][]byte, len(fs))
	for i, f := range fs {
		out[i] = append([]byte(nil), f...)
	}
	return out
}

// apply builds the tampered frame list from the genuine frames x (and the second session's frames y).
// It returns the frames, the region name the tamper sits in and ok=false if the operator is not
// applicable to this session (the caller then records the case as skipped).
func apply(w *sstcp.World, dir int, op opSpec, seed uint64, x, y [][]byte) (t [][]byte, region string, ok bool) {
	if len(x) == 0 {
		return nil, "", false
	}
	t = cloneFrames(x)
	fi := op.FrameSel % len(x)
	switch op.Kind {
	case opFlip:
		l := locate(w, dir, x, op)
		t[l.frame][l.off] ^= 1 << (uint(op.Bit) % 8)
		return t, l.region, true
	case opOverwrite:
		l := locate(w, dir, x, op)
		n := min(1+op.N%64, len(t[l.frame])-l.off)
		g := sstcp.Bytes(n, seed^0x0E)
		g[0] = t[l.frame][l.off] ^ 0x5A // make sure the first byte differs
		copy(t[l.frame][l.off:], g)
		return t, l.region, true
	case opCut:
		l := locate(w, dir, x, op)
		t = t[:l.frame+1]
		t[l.frame] = t[l.frame][:l.off]
		return t, l.region, true
	case opInsert:
		l := locate(w, dir, x, op)
		f := t[l.frame]
		nf := append(append(append([]byte(nil), f[:l.off]...), f[l.off]^0xA5), f[l.off:]...)
		t[l.frame] = nf
		return t, l.region, true
	case opDelete:
		l := locate(w, dir, x, op)
		f := t[l.frame]
		t[l.frame] = append(append([]byte(nil), f[:l.off]...), f[l.off+1:]...)
		return t, l.region, true
	case opDrop:
		return append(t[:fi:fi], t[fi+1:]...), frameName(fi), true
	case opDup:
		out := append([][]byte(nil), t[:fi+1]...)
		out = append(out, append([]byte(nil), x[fi]...))
		return append(out, t[fi+1:]...), frameName(fi), true
	case opSwap:
		if len(x) < 2 {
			return nil, "", false
		}
		fi = op.FrameSel % (len(x) - 1)
		t[fi], t[fi+1] = t[fi+1], t[fi]
		return t, frameName(fi), true
	case opAppend:
		return append(t, sstcp.Bytes(1+op.N%100, seed^0xA99)), "end", true
	case opGarbageChunk:
		out := append([][]byte(nil), t[:fi]...)
		out = append(out, sstcp.Bytes(sstcp.LenChunkLen, seed^0x6A2))
		return append(out, t[fi:]...), frameName(fi), true
	case opSpliceFrame:
		if len(y) == 0 {
			return nil, "", false
		}
		fj := op.Frame2Sel % len(y)
		if dir == dirC2S && !op.Foreign && fi == 0 {
			// a complete first frame of a second genuine client under a key the server holds is a
			// genuine handshake of that client, not an altered one: not in the property's domain
			if len(x) < 2 {
				return append(t, append([]byte(nil), y[fj]...)), "end", true
			}
			fi = 1 + op.FrameSel%(len(x)-1)
		}
		t[fi] = append([]byte(nil), y[fj]...)
		return t, frameName(fi), true
	case opSpliceHead:
		if len(y) == 0 {
			return nil, "", false
		}
		var bounds []int
		var rs []sstcp.Region
		if dir == dirC2S {
			rs = w.ReqRegions(len(x[0]))
		} else {
			rs = w.RespRegions(len(x[0]))
		}
		for _, r := range rs {
			bounds = append(bounds, r.End, r.Start+(r.End-r.Start)/2)
		}
		k := bounds[op.RegionSel%len(bounds)]
		lo := 0
		if !op.Foreign {
			// keep at least one byte of the own salt (see opSpliceFrame): with an equal prefix and the
			// other session's complete salt onwards this would be the other client's genuine handshake
			if dir == dirC2S {
				lo = len(w.ReqPrefix) + 1
			} else {
				lo = len(w.RespPrefix) + 1
			}
		}
		k = max(k, lo)
		if k >= len(x[0]) || k >= len(y[0]) {
			k = min(len(x[0]), len(y[0])) - 1
		}
		if !op.Foreign && bytes.Equal(x[0][:k], y[0][:k]) {
			// the own head happens to equal the other session's head up to the splice point (one
			// retained salt byte collides with probability 1/256): the result is byte for byte the
			// other genuine client's handshake/response, which is outside the attacker's domain
			// (see opSpliceFrame). Harness false alarm found by the thorough tier; excluded here.
			return nil, "", false
		}
		t[0] = append(append([]byte(nil), x[0][:k]...), y[0][k:]...)
		return t, regionAt(w, dir, x, 0, k), true
	case opFeedReplay:
		src := op.RegionSel % len(feedSources)
		if src == 2 && len(y) == 0 {
			return nil, "", false
		}
		i := 1 + op.FrameSel%len(x) // 1..len(x): at least the first frame is delivered untouched
		out := append([][]byte(nil), t[:i]...)
		switch dmg := op.N % 3; {
		case dmg == 0 && i < len(x) && len(x[i]) > sstcp.LenChunkLen+1: // whole frame consumed: the recording that follows is aligned
			f := append([]byte(nil), x[i]...)
			f[sstcp.LenChunkLen+op.OffSel%(len(f)-sstcp.LenChunkLen)] ^= 1 << (uint(op.Bit) % 8)
			out = append(out, f)
		case dmg == 2 && i < len(x): // only the length chunk is consumed: what follows is misaligned
			f := append([]byte(nil), x[i]...)
			f[op.OffSel%sstcp.LenChunkLen] ^= 1 << (uint(op.Bit) % 8)
			out = append(out, f)
		default:
			out = append(out, sstcp.Bytes(sstcp.LenChunkLen, seed^0xFEED))
		}
		switch src {
		case 0:
			out = append(out, cloneFrames(x)...)
		case 1:
			out = append(out, cloneFrames(x[1:])...)
		default:
			out = append(out, cloneFrames(y)...)
		}
		return out, feedSources[src], true
	case opReplayAt, opSwapAt:
		// frames 1.. are data chunks (frame 0 is the handshake / response header + first chunk)
		n := len(x)
		if n < 4 {
			return nil, "", false
		}
		d := replayDistances[op.DistSel%len(replayDistances)]
		maxD := n - 1 // replay: k+d <= n with k >= 1
		if op.Kind == opSwapAt {
			maxD = n - 2 // swap: k+d <= n-1
		}
		dname := fmt.Sprintf("d=%d", d)
		if d == 0 || d > maxD {
			d = 1 + op.OffSel%maxD
			dname = "d=random"
		}
		k := 1 + op.K%(maxD-d+1)
		if op.Kind == opSwapAt {
			t[k], t[k+d] = t[k+d], t[k]
			return t, dname, true
		}
		out := make([][]byte, 0, n+1)
		out = append(out, t[:k+d]...)
		out = append(out, append([]byte(nil), x[k]...))
		out = append(out, t[k+d:]...)
		return out, dname, true
	case opSwapStream:
		if len(y) == 0 || (dir == dirC2S && !op.Foreign) {
			return nil, "", false
		}
		return cloneFrames(y), "stream", true
	}
	return nil, "", false
}

func frameName(i int) string {
	if i == 0 {
		return "frame0"
	}
	return "frameN"
}

func nonEmpty(fs [][]byte) [][]byte {
	var out [][]byte
	for _, f := range fs {
		if len(f) > 0 {
			out = append(out, f)
		}
	}
	return out
}

// serverSide is the outcome of presenting a client stream to the real server.
type serverSide struct {
	err       error
	req       netio.ConnRequest
	payload   []byte // copy of req.Payload taken before anything else happens
	delivered int    // bytes the server consumed from the transport when HandleStream returned
	conn      netio.Conn
	read      drained
}

// presentToServer queues the (relayed) stream on the server end of the link and runs the real
// HandleStream; if a request comes out it drains the connection the way the plan says.
func presentToServer(w *sstcp.World, server *ss2022.StreamServer, link *sstcp.Link, frames [][]byte, p *casePlan) (ss serverSide) {
	firstMin := 0
	if !w.Class.Segmented {
		firstMin = w.ServerFixedEnd()
	}
	link.S.SetReadPlan(p.SPlan, firstMin, p.SCoalesce)
	for _, f := range frames {
		link.S.Inject(f)
	}
	link.S.EndInput()
	ss.req, ss.err = server.HandleStream(link.S, nop)
	ss.delivered = int(link.S.DeliveredToMe())
	ss.payload = append([]byte(nil), ss.req.Payload...)
	if ss.err != nil || ss.req.PendingConn == nil {
		return
	}
	ss.conn, ss.err = ss.req.Proceed()
	if ss.err != nil {
		return
	}
	if !ss.req.Addr.Equals(sstcp.FallbackAddr) {
		ss.read = drain(ss.conn, p.SPath, p.SBuf)
	}
	return
}

// serverWrites lets the server application write the plan's response writes; returns the frames.
func serverWrites(c netio.Conn, link *sstcp.Link, app []byte, sizes []int) ([][]byte, error) {
	off := 0
	for _, n := range sizes {
		if _, err := c.Write(app[off : off+n]); err != nil {
			return nil, err
		}
		off += n
	}
	return link.S.Written(), nil
}

func presentToClient(w *sstcp.World, cs *clientSide, frames [][]byte, p *casePlan) drained {
	firstMin := 0
	if !w.Class.Segmented {
		firstMin = w.RespHeaderEnd()
	}
	cs.link.C.SetReadPlan(p.CPlan, firstMin, p.CCoalesce)
	for _, f := range frames {
		cs.link.C.Inject(f)
	}
	cs.link.C.EndInput()
	return drain(cs.conn, p.CPath, p.CBuf)
}

func sum(xs []int) int {
	n := 0
	for _, x := range xs {
		n += x
	}
	return n
}

// judgeData applies the data-phase oracle to what a reader got. genuine is the application byte
// stream of the genuine peer, units the layout of the genuine wire stream s, t the stream that
// was actually delivered, consumedTo how many bytes of t the reader consumed.
func judgeData(r *result, who string, d drained, genuine []byte, units []unit, s, t []byte, consumedTo int) {
	fb := firstDiff(t, s)
	pureCut := len(t) < len(s) && fb == len(t)
	same := len(t) == len(s) && fb == len(t)
	limit := maxApp(units, fb)
	if d.stalled {
		r.fail("reader-stalled", "%s: reader kept returning (0, nil)", who)
	}
	if len(d.pre) > len(genuine) || !bytes.Equal(d.pre, genuine[:len(d.pre)]) {
		r.fail("not-a-prefix", "%s: reader returned %d bytes that are not a prefix of what the genuine peer wrote (first difference at %d)", who, len(d.pre), firstDiff(d.pre, genuine))
		return
	}
	if len(d.pre) > limit {
		r.fail("delivered-past-tamper", "%s: reader returned %d application bytes but only %d are carried by units that end before the first altered byte (stream offset %d)", who, len(d.pre), limit, fb)
		return
	}
	all := append(append([]byte(nil), d.pre...), d.post...)
	if len(all) > len(genuine) || !bytes.Equal(all, genuine[:len(all)]) {
		r.fail("not-a-prefix-after-error", "%s: reads after the first error (%v) returned bytes that do not continue the genuine stream", who, d.err)
		return
	}
	switch {
	case same:
		if len(d.pre) != len(genuine) || !isEOF(d.err) {
			r.fail("untouched-stream-not-delivered", "%s: untouched stream: got %d of %d bytes, err=%v", who, len(d.pre), len(genuine), d.err)
		}
		r.label("untouched")
	case pureCut:
		reached := consumedTo == len(t)
		if reached {
			r.nontriv = true
			if isBoundary(units, len(t)) {
				r.label("cut-at-unit-boundary")
			} else {
				r.label("cut-inside-unit")
				if d.err == nil || isEOF(d.err) {
					r.fail("cut-inside-unit-reads-as-clean-end", "%s: stream cut at offset %d inside an authenticated unit, reader saw err=%v", who, len(t), d.err)
				}
			}
		}
	default:
		if consumedTo > fb {
			r.nontriv = true
			if d.err == nil || isEOF(d.err) {
				r.fail("altered-read-no-error", "%s: reader consumed altered bytes (first at stream offset %d, consumed %d) but saw err=%v", who, fb, consumedTo, d.err)
			}
		}
	}
	if len(d.pre) == limit {
		r.label("delivered-all-before-tamper")
	}
}

// world memoises the last few key/prefix universes (a World is immutable once built; the
// enumeration reuses one per class, rapid cases use a new one each).
var worldCache = map[[3]any]*sstcp.World{}

func world(c sstcp.Class, prefixSeed, keySeed uint64) (*sstcp.World, error) {
	k := [3]any{c, prefixSeed, keySeed}
	if w, ok := worldCache[k]; ok {
		return w, nil
	}
	w, err := sstcp.NewWorld(c, prefixSeed, keySeed)
	if err != nil {
		return nil, err
	}
	if len(worldCache) >= 4 {
		clear(worldCache)
	}
	worldCache[k] = w
	return w, nil
}

// runCase executes one plan against the real client and server and judges it.
func runCaseUnbounded(p *casePlan) (r result) {
	r.detail = map[string]any{}
	if p.Op.Kind == opFeedReplay {
		p.Op.Foreign = false // the recording is always one made under the key in use
	}
	w, err := world(p.Class, p.Seed, p.Seed^0xA5A5)
	if err != nil {
		r.fail("harness", "world: %v", err)
		return
	}
	other := w
	if p.Op.Foreign {
		// foreign world: same prefixes, different keys
		if other, err = world(p.Class, p.Seed, p.Seed^0x5A5A5A); err != nil {
			r.fail("harness", "world: %v", err)
			return
		}
	}
	needB := p.Op.Kind == opSpliceFrame || p.Op.Kind == opSpliceHead || p.Op.Kind == opSwapStream ||
		(p.Op.Kind == opFeedReplay && p.Op.RegionSel%len(feedSources) == 2)

	server := w.NewServer()
	dirName := [...]string{"c2s", "s2c"}[p.Dir]
	opName := opNames[p.Op.Kind]
	if p.Op.Foreign && needB {
		opName += "-foreign-key"
	}
	r.label("dir-"+dirName, dirName+"/"+opName, "class-"+p.Class.String())

	var a *clientSide
	if p.recorded != nil && p.Dir == dirC2S {
		a = p.recorded.replay()
	} else if a, err = dialClient(w, p, 0); err != nil {
		r.fail("harness", "dial: %v", err)
		return
	}
	aFrames := a.frames
	sWire := sstcp.Join(aFrames)
	sRelayed, ok := w.Relay(sWire)
	if !ok {
		r.fail("relay-rejected-genuine", "the identity-header relays (server-side primitives) rejected the genuine client's request")
		return
	}
	appS := sstcp.Bytes(sum(p.SWrites), p.Seed^0x5E2)

	if p.Dir == dirC2S {
		var bFrames [][]byte
		if needB {
			b, err := dialClient(other, p, 0xB0B)
			if err != nil {
				r.fail("harness", "dial B: %v", err)
				return
			}
			bFrames = b.frames
		}
		tFrames, region, ok := apply(w, p.Dir, p.Op, p.Seed, aFrames, bFrames)
		if !ok {
			r.label("skipped-not-applicable")
			r.key = "skip"
			return
		}
		tFrames = nonEmpty(tFrames)
		r.label(dirName + "/region-" + region)
		tWire := sstcp.Join(tFrames)
		tRelayed, relayOK := w.Relay(tWire)
		if !relayOK {
			// a relay in front of the server refused (or starved on) the stream: nothing reaches the server
			need := len(w.ReqPrefix) + p.Class.KeyLen + w.StrippedLen()
			if fb := firstDiff(tWire, sWire); fb >= need {
				r.fail("harness", "relay rejected a stream whose first %d bytes are genuine", need)
			}
			r.nontriv = true
			r.label("outcome-relay-rejected")
			r.key = fmt.Sprintf("%v|%s|%s|%s|relay", p.Class, dirName, opName, region)
			return
		}
		if w.StrippedLen() > 0 {
			if firstDiff(tWire, sWire) < len(w.ReqPrefix)+p.Class.KeyLen+w.StrippedLen() && bytes.Equal(tRelayed, sRelayed) {
				r.fail("relay-accepted-altered-identity-header", "an outer identity header was altered but still named the next hop")
				return
			}
			tFrames = [][]byte{tRelayed} // relays do not preserve segment boundaries
		}
		units := c2sUnits(w, aFrames, len(a.app))
		f0 := units[1].end
		fb := firstDiff(tRelayed, sRelayed)
		pureCut := len(tRelayed) < len(sRelayed) && fb == len(tRelayed)
		ss := presentToServer(w, server, a.link, tFrames, p)
		r.detail["first_altered_offset"] = fb
		r.detail["handshake_len"] = f0
		r.detail["server_consumed"] = ss.delivered
		accepted := ss.err == nil && ss.conn != nil && !ss.req.Addr.Equals(sstcp.FallbackAddr)
		fallback := ss.err == nil && ss.conn != nil && ss.req.Addr.Equals(sstcp.FallbackAddr)
		outcome := "rejected"
		switch {
		case fallback:
			outcome = "fallback"
			if !p.Class.Fallback {
				r.fail("fallback-without-configuration", "request for the fallback address although none is configured")
			}
			if fb >= f0 {
				r.fail("genuine-handshake-refused", "untouched handshake (first altered offset %d >= %d) handed to the fallback", fb, f0)
			}
			if ss.req.Username != "" {
				r.fail("fallback-request-carries-user", "%s in %s: the unauthenticated connection handed to the fallback is attributed to user %q (handshake altered at offset %d, fixed part ends at %d)",
					opName, region, ss.req.Username, fb, w.ServerFixedEnd())
			}
			if p.Class.NIPSK > 0 && fb >= w.ServerFixedEnd()-sstcp.FixedReqLen-sstcp.TagSize && fb < w.ServerFixedEnd() {
				// salt and identity header are genuine (the user lookup succeeds), the sealed fixed-length header is not
				r.label("fallback-after-successful-user-lookup")
			}
			// The fallback destination consumes Payload later, while the server keeps serving other connections:
			// run further handshakes (genuine ones of other clients and garbage of about the same length) on the
			// same server before looking at the live Payload slice.
			later := 1 + (max(p.Later, 1)-1)%3
			for i := 0; i < later; i++ {
				lk := sstcp.NewLink()
				var frames [][]byte
				if (int(p.Seed)+i+p.Later)%3 != 0 {
					if o, err := dialClient(w, p, uint64(0x1A7E0+i)); err == nil {
						lk, frames = o.link, nonEmptyRelayed(w, o.frames, func() []byte { b, _ := w.Relay(sstcp.Join(o.frames)); return b }())
					}
				}
				if frames == nil {
					frames = [][]byte{sstcp.Bytes(max(len(tRelayed), w.ServerFixedEnd()+40), p.Seed^uint64(0x6A7BA6E+i))}
				}
				_ = presentToServer(w, server, lk, frames, &casePlan{Class: p.Class, SBuf: 4096})
			}
			r.label("fallback-payload-compared-after-later-handshakes")
			if live := ss.req.Payload; len(live) == len(ss.payload) && !bytes.Equal(live, ss.payload) {
				r.fail("fallback-payload-changed-by-later-connections", "the fallback request's Payload (%d bytes) was intact when HandleStream returned but differs at offset %d after %d further connections were handled by the same server",
					len(live), firstDiff(live, ss.payload), later)
			}
			if ss.delivered > len(tRelayed) || len(ss.payload) != ss.delivered || !bytes.Equal(ss.payload, tRelayed[:ss.delivered]) {
				r.fail("fallback-payload-differs", "fallback payload (%d bytes) is not byte-for-byte what the transport delivered (%d bytes; first difference at %d)",
					len(ss.payload), ss.delivered, firstDiff(ss.payload, tRelayed))
			} else {
				rest, _ := io.ReadAll(ss.conn)
				if !bytes.Equal(rest, tRelayed[ss.delivered:]) {
					r.fail("fallback-remainder-differs", "bytes left on the connection for the fallback differ from what was sent after the first %d", ss.delivered)
				}
			}
			r.nontriv = ss.delivered > fb || (pureCut && ss.delivered == fb)
		case accepted:
			outcome = "accepted"
			if fb < f0 {
				r.fail("altered-handshake-accepted", "%s in %s: handshake altered at offset %d of %d but the server produced a request for %v (client target %v)", opName, region, fb, f0, ss.req.Addr, a.target)
				break
			}
			if !ss.req.Addr.Equals(a.target) {
				r.fail("wrong-target", "request address %v, client asked for %v", ss.req.Addr, a.target)
			}
			if want := map[bool]string{true: w.UserName, false: ""}[p.Class.NIPSK > 0]; ss.req.Username != want {
				r.fail("wrong-user", "request attributed to user %q, the client's key belongs to %q", ss.req.Username, want)
			}
			got := drained{pre: append(append([]byte(nil), ss.payload...), ss.read.pre...), post: ss.read.post, err: ss.read.err, stalled: ss.read.stalled}
			if len(ss.payload) != units[1].app {
				r.fail("initial-payload-length", "request carries %d initial payload bytes, the client put %d into the handshake", len(ss.payload), units[1].app)
			}
			judgeData(&r, "server", got, a.app, units, sRelayed, tRelayed, int(a.link.S.DeliveredToMe()))
			if p.Op.Kind == opFeedReplay && got.err != nil && !isEOF(got.err) {
				r.label("server-fed-replayed-request-after-auth-failure")
			}
		default:
			if fb >= f0 {
				r.fail("genuine-handshake-refused", "untouched handshake (first altered offset %d >= %d) refused: %v", fb, f0, ss.err)
			}
			r.nontriv = ss.delivered > fb || (pureCut && ss.delivered == fb)
		}
		r.label("outcome-" + outcome)
		r.key = fmt.Sprintf("%v|%s|%s|%s|%s|%v", p.Class, dirName, opName, region, outcome, r.nontriv)
		// control: the untouched response direction still works end to end
		if accepted && r.violation == "" && len(p.SWrites) > 0 && a.conn != nil {
			g, err := serverWrites(ss.conn, a.link, appS, p.SWrites)
			if err != nil {
				r.fail("control-session-failed", "server write: %v", err)
				return
			}
			d := presentToClient(w, a, g, p)
			if !bytes.Equal(d.pre, appS) || !isEOF(d.err) {
				r.fail("control-session-failed", "untouched response direction: client got %d of %d bytes, err=%v", len(d.pre), len(appS), d.err)
			}
		}
		return
	}

	// ---- dirS2C: the request direction is untouched (control), the response is tampered with
	ss := presentToServer(w, server, a.link, nonEmptyRelayed(w, aFrames, sRelayed), p)
	if ss.err != nil || ss.conn == nil || !ss.req.Addr.Equals(a.target) {
		r.fail("control-session-failed", "genuine request not accepted: err=%v addr=%v", ss.err, ss.req.Addr)
		return
	}
	if got := append(ss.payload, ss.read.pre...); !bytes.Equal(got, a.app) || !isEOF(ss.read.err) {
		r.fail("control-session-failed", "untouched request direction: server got %d of %d bytes, err=%v", len(got), len(a.app), ss.read.err)
		return
	}
	gFrames, err := serverWrites(ss.conn, a.link, appS, p.SWrites)
	if err != nil {
		r.fail("harness", "server write: %v", err)
		return
	}
	var hFrames [][]byte // the second session's response
	if needB {
		b, err := dialClient(other, p, 0xB0B)
		if err != nil {
			r.fail("harness", "dial B: %v", err)
			return
		}
		srvB := server // same key: same server, as two clients of one server would be
		if p.Op.Foreign {
			srvB = other.NewServer()
		}
		bRelayed, ok := other.Relay(sstcp.Join(b.frames))
		if !ok {
			r.fail("relay-rejected-genuine", "relays rejected the second genuine client")
			return
		}
		bs := presentToServer(other, srvB, b.link, nonEmptyRelayed(other, b.frames, bRelayed), p)
		if bs.err != nil || bs.conn == nil || !bs.req.Addr.Equals(b.target) {
			r.fail("control-session-failed", "second genuine request not accepted: %v", bs.err)
			return
		}
		appB := sstcp.Bytes(sum(p.SWrites), p.Seed^0xB5E2)
		if hFrames, err = serverWrites(bs.conn, b.link, appB, p.SWrites); err != nil {
			r.fail("harness", "server write B: %v", err)
			return
		}
	}
	tFrames, region, ok := apply(w, p.Dir, p.Op, p.Seed, gFrames, hFrames)
	if !ok {
		r.label("skipped-not-applicable")
		r.key = "skip"
		return
	}
	tFrames = nonEmpty(tFrames)
	r.label(dirName + "/region-" + region)
	sG, tG := sstcp.Join(gFrames), sstcp.Join(tFrames)
	units := s2cUnits(w, gFrames)
	d := presentToClient(w, a, tFrames, p)
	consumed := int(a.link.C.DeliveredToMe())
	r.detail["first_altered_offset"] = firstDiff(tG, sG)
	r.detail["client_consumed"] = consumed
	judgeData(&r, "client", d, appS, units, sG, tG, consumed)
	if p.Op.Kind == opFeedReplay && d.err != nil && !isEOF(d.err) && consumed > firstDiff(tG, sG) {
		// a Read failed on the damaged unit and the application read on while the transport kept delivering a recording
		r.label("client-fed-replayed-response-after-auth-failure", "client-fed-"+region)
	}
	outcome := "error"
	if isEOF(d.err) {
		outcome = "eof"
	}
	if (p.Op.Kind == opSwapStream || (p.Op.Kind == opSpliceFrame && p.Op.FrameSel%len(gFrames) == 0)) && len(d.pre)+len(d.post) > 0 {
		r.fail("foreign-response-accepted", "client returned %d bytes of a response that belongs to another request", len(d.pre)+len(d.post))
	}
	if p.Op.Kind == opSwapStream && !p.Op.Foreign && errors.Is(d.err, ss2022.ErrClientSaltMismatch) {
		r.label("client-salt-mismatch-detected")
	}
	r.label("outcome-" + outcome)
	r.key = fmt.Sprintf("%v|%s|%s|%s|%s|%v", p.Class, dirName, opName, region, outcome, r.nontriv)
	return
}

// nonEmptyRelayed returns what the server end receives for an untouched client stream.
func nonEmptyRelayed(w *sstcp.World, frames [][]byte, relayed []byte) [][]byte {
	if w.StrippedLen() > 0 {
		return [][]byte{relayed}
	}
	return nonEmpty(frames)
}
