package c02

import (
	"encoding/json"
	"fmt"
	"sync/atomic"
	"time"
)

// Completion bound: a call into the code under test that never returns (e.g. HandleStream on the shared server
// blocking on a lock) ends as a failure of the case with a signature, not as a stage timeout. The case runs in
// its own goroutine, the test goroutine waits on the real clock: 20 s + 1 ms per application write (work grows
// with the session), so load alone never trips it; after the first miss the following cases (shrinking) get a
// short bound. The abandoned goroutine is left behind - the run fails anyway.

var hangSeen atomic.Bool

func runCase(p *casePlan) (r result) {
	work := len(p.CWrites) + len(p.SWrites) + (p.PLen+sum(p.CWrites)+sum(p.SWrites))/4096
	budget := 20*time.Second + time.Duration(work)*time.Millisecond
	if hangSeen.Load() {
		budget = 3*time.Second + time.Duration(work)*time.Millisecond
	}
	done := make(chan result, 1)
	go func() { done <- runCaseUnbounded(p) }()
	timer := time.NewTimer(budget)
	defer timer.Stop()
	select {
	case r = <-done:
		return r
	case <-timer.C:
		hangSeen.Store(true)
		q := *p
		if len(q.CWrites)+len(q.SWrites) > 64 {
			q.CWrites, q.SWrites = nil, nil
		}
		b, _ := json.Marshal(q)
		return result{violation: fmt.Sprintf("SIG=C02/presentation-did-not-return the code under test did not return within %v (real time) | plan=%s", budget, b), detail: map[string]any{}}
	}
}
