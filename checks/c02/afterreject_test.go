package c02

import (
	"bytes"
	"encoding/binary"
	"fmt"
	"testing"
	"time"

	"verif/internal/ev"
	"verif/internal/sstcp"
)

const sigAfterReject = "C02/bytes-returned-after-rejected-response"

var recAfter = ev.New("C02", "read-after-rejected-response",
	"directed enumeration: for key 16/32 x prefix none/short x segmented or not x application buffer {1, 4096, 70000} x m in {1, 2, 7, 300}: a response "+
		"recorded from a second session under the same key whose first write is the two bytes 00 02 (then a write of m bytes) is served to the client; the "+
		"client application keeps calling Read after the first error (up to 6 calls). Oracle: no call ever returns a byte (the genuine server wrote nothing "+
		"to this client). Non-trivial: the first call failed and at least one later call was made; distinct key = class+buffer+m")

// TestReadAfterRejectedResponse: "a client never accepts a response that is not bound to its own request" must
// also hold for an application that keeps reading after the first failed Read. The crafted second-session
// response makes the bytes that follow the rejected header look like a well-formed length chunk.
func TestReadAfterRejectedResponse(t *testing.T) {
	done := make(chan struct{})
	go func() {
		defer close(done)
		readAfterRejectedResponse(t)
	}()
	select {
	case <-done:
	case <-time.After(60 * time.Second): // 96 tiny sessions normally take a fraction of a second
		t.Fatalf("SIG=C02/presentation-did-not-return the directed sessions did not finish within 60s (real time)")
	}
}

func readAfterRejectedResponse(t *testing.T) {
	for _, keyLen := range []int{16, 32} {
		for _, pfx := range []int{sstcp.PrefixNone, sstcp.PrefixShort} {
			for _, seg := range []bool{true, false} {
				for _, bufSize := range []int{1, 4096, 70000} {
					for _, m := range []int{1, 2, 7, 300} {
						class := sstcp.Class{KeyLen: keyLen, Prefix: pfx, Segmented: seg}
						seed := uint64(keyLen*1000 + pfx*100 + bufSize + m)
						w, err := world(class, seed, seed^0xA5A5)
						if err != nil {
							t.Fatal(err)
						}
						server := w.NewServer()
						p := &casePlan{Class: class, Seed: seed, PLen: 3, SBuf: 4096}
						a, err := dialClient(w, p, 0)
						if err != nil {
							t.Fatal(err)
						}
						b, err := dialClient(w, p, 0xB0B)
						if err != nil {
							t.Fatal(err)
						}
						sb := presentToServer(w, server, b.link, b.frames, p)
						if sb.err != nil || sb.conn == nil {
							t.Fatalf("SIG=C02/control-session-failed second session refused: %v", sb.err)
						}
						second := sstcp.Bytes(m, seed)
						if _, err := sb.conn.Write([]byte{0x00, 0x02}); err != nil {
							t.Fatal(err)
						}
						if _, err := sb.conn.Write(second); err != nil {
							t.Fatal(err)
						}
						firstMin := 0
						if !seg {
							firstMin = w.RespHeaderEnd()
						}
						a.link.C.SetReadPlan(nil, firstMin, false)
						for _, f := range b.link.S.Written() {
							a.link.C.Inject(f)
						}
						a.link.C.EndInput()
						buf := make([]byte, bufSize)
						var got []byte
						var errs []string
						for i := 0; i < 6; i++ {
							n, err := a.conn.Read(buf)
							got = append(got, buf[:n]...)
							errs = append(errs, fmt.Sprint(err))
							if i == 0 && err == nil {
								t.Fatalf("SIG=C02/foreign-response-accepted first Read of a response bound to another request returned n=%d err=nil (class %v)", n, class)
							}
						}
						var lenField [2]byte
						binary.BigEndian.PutUint16(lenField[:], uint16(m))
						if len(got) > 0 {
							what := "bytes of the foreign response"
							if bytes.Equal(got, lenField[:]) {
								what = "the plaintext of the foreign response's second length chunk"
							}
							if ev.IsKnown("C02", sigAfterReject) {
								recAfter.KnownHit(sigAfterReject)
							} else {
								t.Fatalf("SIG=%s class %v buf=%d: after the first Read failed (%s) later Reads returned % x (%s); errors per call: %v",
									sigAfterReject, class, bufSize, errs[0], got, what, errs)
							}
						}
						recAfter.Case(fmt.Sprintf("%v|%d|%d", class, bufSize, m), true, "first-read-rejected")
					}
				}
			}
		}
	}
	recAfter.Sample(map[string]any{"scenario": "second session's response (first write 00 02) served to the client; 6 Read calls"})
}
