package c02

import (
	"encoding/json"
	"fmt"
	"os"
	"strconv"
	"testing"
	"time"

	"pgregory.net/rapid"

	"verif/internal/ev"
	"verif/internal/sstcp"
)

// ---- generator -------------------------------------------------------------------------------

func at[T any](xs []T, i int) T { return xs[i%len(xs)] }

func seq(n int) []int {
	out := make([]int, n)
	for i := range out {
		out[i] = i
	}
	return out
}

func drawClass(rt *rapid.T) sstcp.Class {
	return sstcp.Class{
		KeyLen:    at([]int{16, 32}, rapid.IntRange(0, 1).Draw(rt, "keylen")),
		NIPSK:     at([]int{0, 1, 0, 1, 0, 1, 2, 3}, rapid.IntRange(0, 7).Draw(rt, "nipsk")),
		Prefix:    at([]int{0, 1, 0, 1, 0, 1, 2}, rapid.IntRange(0, 6).Draw(rt, "prefix")),
		Segmented: rapid.Bool().Draw(rt, "segmented"),
		Fallback:  rapid.Bool().Draw(rt, "fallback"),
	}
}

var (
	payloadLens = []int{0, 1, 17, 899, 900, 901, 4000, 0, 3, 70000}
	writeLens   = []int{1, 100, 33, 4096, 1, 65535, 65536, 70000}
	readBufs    = []int{4096, 65551, 17, 18, 65535, 70000, 1, 100000}
	transPlans  = [][]int{nil, {1}, {1, 2, 5}, {17, 18}, {65536}, nil, {100, 1}}
)

func drawWrites(rt *rapid.T, name string, lo, hi int) []int {
	n := rapid.IntRange(lo, hi).Draw(rt, name+"-n")
	out := make([]int, n)
	for i := range out {
		out[i] = at(writeLens, rapid.IntRange(0, len(writeLens)-1).Draw(rt, name))
	}
	return out
}

func drawCase(rt *rapid.T) casePlan {
	p := casePlan{Class: drawClass(rt), Seed: rapid.Uint64().Draw(rt, "seed")}
	p.TargetKind = rapid.IntRange(0, 3).Draw(rt, "target")
	p.Dir = rapid.IntRange(0, 1).Draw(rt, "dir")
	p.PLen = at(payloadLens, rapid.IntRange(0, len(payloadLens)-1).Draw(rt, "plen"))
	p.CWrites = drawWrites(rt, "cwrite", 0, 3)
	p.SWrites = drawWrites(rt, "swrite", p.Dir, 3) // the tampered direction needs at least one frame
	p.SBuf = at(readBufs, rapid.IntRange(0, len(readBufs)-1).Draw(rt, "sbuf"))
	p.CBuf = at(readBufs, rapid.IntRange(0, len(readBufs)-1).Draw(rt, "cbuf"))
	p.SPath = rapid.IntRange(0, 1).Draw(rt, "spath")
	p.CPath = rapid.IntRange(0, 1).Draw(rt, "cpath")
	p.SPlan = at(transPlans, rapid.IntRange(0, len(transPlans)-1).Draw(rt, "splan"))
	p.CPlan = at(transPlans, rapid.IntRange(0, len(transPlans)-1).Draw(rt, "cplan"))
	p.SCoalesce = rapid.Bool().Draw(rt, "scoalesce")
	p.CCoalesce = rapid.Bool().Draw(rt, "ccoalesce")
	p.Op = opSpec{
		Kind:      at(append(seq(opKinds), opFeedReplay, opFeedReplay), rapid.IntRange(0, opKinds+1).Draw(rt, "op")),
		Foreign:   rapid.Bool().Draw(rt, "foreign"),
		RegionSel: rapid.IntRange(0, 15).Draw(rt, "region"),
		OffMode:   rapid.IntRange(0, 7).Draw(rt, "offmode"),
		OffSel:    rapid.IntRange(0, 1<<20).Draw(rt, "off"),
		Bit:       rapid.IntRange(0, 7).Draw(rt, "bit"),
		FrameSel:  rapid.IntRange(0, 7).Draw(rt, "frame"),
		Frame2Sel: rapid.IntRange(0, 7).Draw(rt, "frame2"),
		N:         rapid.IntRange(0, 255).Draw(rt, "n"),
		AbsFrame:  -1,
	}
	p.Later = rapid.IntRange(1, 3).Draw(rt, "later")
	return p
}

// ---- the property ----------------------------------------------------------------------------

var recTamper = ev.New("C02", "tamper-live",
	"rapid: configuration class (key 16/32 x 0..3 iPSKs x prefix none/short/>64KiB x segmented header allowed or not x fallback or not) x target x initial "+
		"payload length x application writes both ways x reader buffer/copy path x transport fragmentation x direction x tamper operator "+
		"(bit flip, cut, drop/dup/swap of frames, frame or handshake-part or whole-stream splice from a second session under the same or a foreign key, "+
		"insert/delete/overwrite bytes, appended or inserted garbage, feed-replay = after one damaged unit the reader is fed a byte-exact recording of this session's own stream from offset 0 / from its first data chunk / of another same-key session, and keeps reading (4 more Reads after the first error)) x structural position (prefix, salt, identity headers, fixed header, variable header, "+
		"length chunk, payload chunk, response header, first response chunk; first/second/last bytes or anywhere). The real client and server run over the "+
		"owned transport; the harness is a store-and-forward man in the middle. Oracle: reader output is a prefix of the genuine peer's bytes and stops "+
		"before the first unit touched; a reader that consumed an altered byte (or a unit cut short) ends with a non-EOF error; an altered/foreign handshake "+
		"yields an error or the fallback request whose payload+remainder equal the delivered bytes; a foreign response yields zero bytes. "+
		"Non-trivial: the reader consumed at least one altered byte (or reached the cut); distinct key = class+direction+operator+region+outcome").
	Require("c2s/flip", "c2s/cut", "c2s/drop", "c2s/dup", "c2s/swap", "c2s/splice-frame", "c2s/splice-frame-foreign-key", "c2s/splice-head",
		"c2s/splice-head-foreign-key", "c2s/swap-stream-foreign-key", "c2s/insert", "c2s/delete", "c2s/append", "c2s/garbage-chunk", "c2s/overwrite",
		"s2c/flip", "s2c/cut", "s2c/drop", "s2c/dup", "s2c/swap", "s2c/splice-frame", "s2c/splice-frame-foreign-key", "s2c/splice-head",
		"s2c/splice-head-foreign-key", "s2c/swap-stream", "s2c/swap-stream-foreign-key", "s2c/insert", "s2c/delete", "s2c/append", "s2c/garbage-chunk", "s2c/overwrite",
		"c2s/region-prefix", "c2s/region-salt", "c2s/region-eih", "c2s/region-fixed", "c2s/region-var", "c2s/region-len", "c2s/region-payload",
		"s2c/region-prefix", "s2c/region-salt", "s2c/region-resphdr", "s2c/region-payload0", "s2c/region-len", "s2c/region-payload",
		"outcome-fallback", "fallback-after-successful-user-lookup", "fallback-payload-compared-after-later-handshakes", "outcome-rejected", "outcome-accepted", "outcome-relay-rejected", "outcome-error", "cut-inside-unit", "cut-at-unit-boundary",
		"client-salt-mismatch-detected",
		"c2s/feed-replay", "s2c/feed-replay", "client-fed-replayed-response-after-auth-failure", "server-fed-replayed-request-after-auth-failure",
		"client-fed-own-stream-from-offset-0", "client-fed-own-stream-from-first-data-chunk", "client-fed-other-session-same-key-from-offset-0")

func record(rec *ev.Recorder, p *casePlan, r result) {
	rec.Case(r.key, r.nontriv, r.labels...)
	if r.nontriv {
		rec.Sample(map[string]any{"class": p.Class.String(), "dir": p.Dir, "op": opNames[p.Op.Kind], "foreign": p.Op.Foreign, "key": r.key, "detail": r.detail})
	}
}

func TestTamperLive(t *testing.T) {
	rapid.Check(t, func(rt *rapid.T) {
		p := drawCase(rt)
		r := runCase(&p)
		if r.violation != "" {
			b, _ := json.Marshal(p)
			rt.Fatalf("%s | plan=%s detail=%v", r.violation, b, r.detail)
		}
		record(recTamper, &p, r)
	})
}

// ---- exhaustive over every byte position of the handshakes -----------------------------------------

var recExh = ev.New("C02", "tamper-exhaustive",
	"enumeration: for every configuration class (2 key lengths x 0..3 iPSKs x 3 prefixes x segmented/not x fallback/not = 96) a live session with a short "+
		"initial payload (random padding), one client write and two server writes; bit flip and cut at every byte position (stride VERIF_C02_STRIDE, "+
		"all 8 bits in salt/identity/fixed/response headers when stride is 1) of the client's first frame, of the server's first frame and of the second frame "+
		"(length chunk + payload chunk) in each direction; positions inside a >64KiB prefix are sampled (first/last bytes, around 64KiB, every 1021st). "+
		"Same oracle as tamper-live. Non-trivial: reader consumed the altered byte / reached the cut; distinct key = class+direction+operator+frame+offset")

func envInt(name string, def int) int {
	if v, err := strconv.Atoi(os.Getenv(name)); err == nil && v > 0 {
		return v
	}
	return def
}

func TestTamperExhaustive(t *testing.T) {
	stride := envInt("VERIF_C02_STRIDE", 1)
	shard, shards := 0, 1
	if v, err := strconv.Atoi(os.Getenv("VERIF_SHARD")); err == nil {
		shard = v
	}
	shards = envInt("VERIF_SHARDS", 1)
	seed0 := uint64(envInt("VERIF_SEED", 0)) + 1
	classes := sstcp.AllClasses(sstcp.MaxOuterIPSKs)
	var total, nontriv int64
	for ci, class := range classes {
		if ci%shards != shard {
			continue
		}
		base := casePlan{Class: class, Seed: seed0*7919 + uint64(ci), TargetKind: ci, PLen: 3, CWrites: []int{40}, SWrites: []int{24, 10},
			SBuf: 4096, CBuf: 4096, SPath: ci % 2, CPath: (ci / 2) % 2}
		w, err := world(class, base.Seed, base.Seed^0xA5A5)
		if err != nil {
			t.Fatal(err)
		}
		for dir := 0; dir <= 1; dir++ {
			// request direction: one recorded client session per class is replayed to a fresh server for every
			// position (its first frame contains the client's random padding); response direction: a live
			// session per position (the response is bound to the request, its frame lengths are fixed)
			var lens []int
			var pfx int
			var rec *clientSide
			var recAt time.Time
			if dir == dirC2S {
				if rec, err = dialClient(w, &base, 0); err != nil {
					t.Fatal(err)
				}
				recAt = time.Now()
				for _, f := range rec.frames {
					lens = append(lens, len(f))
				}
				pfx = len(w.ReqPrefix)
			} else {
				lens = []int{w.RespHeaderEnd() + 24 + sstcp.TagSize, sstcp.LenChunkLen + 10 + sstcp.TagSize}
				pfx = len(w.RespPrefix)
			}
			for frame, flen := range lens {
				phase := (ci + dir) % stride
				for off := 0; off < flen; off++ {
					inBigPrefix := frame == 0 && class.Prefix == sstcp.PrefixBig && off < pfx
					switch {
					case inBigPrefix:
						if !(off < 2 || off >= pfx-2 || (off >= 65534 && off <= 65570) || off%1021 == 0) {
							continue
						}
					case stride > 1 && off%stride != phase && off > 1 && off < flen-2:
						// keep every stride-th byte plus the first and last two bytes of the frame
						if !atStructuralEdge(w, dir, frame, off) {
							continue
						}
					}
					bits := []int{(off + ci) % 8}
					if stride == 1 && frame == 0 && !inBigPrefix && inHeaderRegion(w, dir, off) {
						bits = []int{0, 1, 2, 3, 4, 5, 6, 7}
					}
					for _, kind := range []int{opFlip, opCut} {
						for bi, bit := range bits {
							if kind == opCut && bi > 0 {
								break
							}
							if rec != nil && time.Since(recAt) > 8*time.Second {
								// The recorded request carries a timestamp the server accepts for 30 s only: on a slow or loaded
								// machine a class can take longer than that. Record a fresh session (new random padding); the
								// enumeration continues at the same offset, bounded by the new frame length.
								if rec, err = dialClient(w, &base, 0); err != nil {
									t.Fatal(err)
								}
								recAt = time.Now()
								if frame < len(rec.frames) {
									flen = len(rec.frames[frame])
								}
								if off >= flen {
									break
								}
							}
							p := base
							p.recorded = rec
							p.Dir = dir
							p.Op = opSpec{Kind: kind, Bit: bit, AbsFrame: frame, AbsOff: off}
							p.Later = 1 + (off+ci)%3
							r := runCase(&p)
							if r.violation != "" {
								b, _ := json.Marshal(p)
								t.Fatalf("%s | plan=%s detail=%v", r.violation, b, r.detail)
							}
							total++
							if r.nontriv {
								nontriv++
							}
							key := ""
							if r.nontriv {
								key = fmt.Sprintf("%v|%d|%d|%d|%d", class, dir, kind, frame, off)
							}
							recExh.Case(key, r.nontriv, r.labels...)
						}
					}
				}
			}
		}
	}
	recExh.Exhaustive(stride == 1)
	recExh.Extra(fmt.Sprintf("shard%d_cases", shard), total)
	recExh.Extra("stride", stride)
	recExh.Sample(map[string]any{"classes": len(classes), "stride": stride, "cases": total, "nontrivial": nontriv})
}

// inHeaderRegion: salt / identity headers / fixed header (request) or salt / response header (response).
func inHeaderRegion(w *sstcp.World, dir, off int) bool {
	if dir == dirC2S {
		return off >= len(w.ReqPrefix) && off < w.ReqFixedEnd()
	}
	return off >= len(w.RespPrefix) && off < w.RespHeaderEnd()
}

// atStructuralEdge: first or last byte of a structural region of the first frame / of the length chunk.
func atStructuralEdge(w *sstcp.World, dir, frame, off int) bool {
	if frame > 0 {
		return off == sstcp.LenChunkLen-1 || off == sstcp.LenChunkLen
	}
	var edges []int
	if dir == dirC2S {
		p, s := len(w.ReqPrefix), w.Class.KeyLen
		edges = []int{p, p + s, p + s + sstcp.IdentityLen*w.Class.NIPSK, w.ReqFixedEnd() - sstcp.TagSize, w.ReqFixedEnd()}
	} else {
		p, s := len(w.RespPrefix), w.Class.KeyLen
		edges = []int{p, p + s, w.RespHeaderEnd() - sstcp.TagSize, w.RespHeaderEnd()}
	}
	for _, e := range edges {
		if off == e || off == e-1 {
			return true
		}
	}
	return false
}

// TestReplayPlan re-runs a plan stored as JSON in $VERIF_REPLAY.
func TestReplayPlan(t *testing.T) {
	path := os.Getenv("VERIF_REPLAY")
	if path == "" {
		t.Skip("VERIF_REPLAY not set")
	}
	b, err := os.ReadFile(path)
	if err != nil {
		t.Skip(err)
	}
	var p casePlan
	if err := json.Unmarshal(b, &p); err != nil {
		t.Skipf("not a plan: %v", err)
	}
	if r := runCase(&p); r.violation != "" {
		t.Fatalf("%s detail=%v", r.violation, r.detail)
	}
}
