package c02

import (
	"testing"

	"verif/internal/ev"
)

func TestMain(m *testing.M) { ev.Main(m) }
