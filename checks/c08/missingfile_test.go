package c08

import (
	"encoding/json"
	"fmt"
	"os"
	"sort"
	"strings"
	"testing"
	"time"

	"pgregory.net/rapid"

	"verif/internal/credx"
	"verif/internal/ev"
)

// A reload that cannot open the store file (removed, renamed away, a dangling symlink or a
// directory in its place, unreadable) must answer with an error, leave the three views as they
// were, and must not wedge the manager: every later management operation on that server still
// completes. Real time (a handler stuck on a lock would freeze a fake clock), every API call
// runs in a goroutine with a generous completion bound.

const (
	sigNoReturn  = "management-operation-did-not-return"
	opBound      = 20 * time.Second
	missingLabel = "reload-with-missing-store-file-then-more-operations"
)

type mfStep struct {
	Op   string `json:"op"` // add update delete list reload reload-all
	Name string `json:"name,omitempty"`
	Key  int    `json:"key"`
}

type mfPlan struct {
	KeyLen  int            `json:"key_len"`
	Mode    credx.Mode     `json:"mode"`
	Initial map[string]int `json:"initial"`
	Before  []mfStep       `json:"before"`
	Break   string         `json:"break"` // remove rename dangling-symlink directory chmod-000
	After   []mfStep       `json:"after"` // while the file is unavailable
	Restore map[string]int `json:"restore"`
}

func (p mfPlan) String() string { b, _ := json.Marshal(p); return string(b) }

var recMissing = ev.New("C08", "reload-with-unavailable-store-file",
	"rapid, real time: initial store over 4 names x 4 keys; 0-2 changes; the store file is made unavailable (removed / renamed away / replaced by a "+
		"dangling symlink / replaced by a directory / chmod 000 when that is effective for the test's user); POST reload-users must answer with an "+
		"error and leave API list and real TCP/UDP clients unchanged; then 1-5 further operations (add/update/delete/list/reload again/"+
		"cred.Manager.ReloadAll as the signal handler would) checked against the model; then the file is restored with a valid document and a "+
		"reload must apply it. Every management call runs in a goroutine with a 20 s completion bound. Non-trivial: a change was "+
		"acknowledged after the failed reload").
	Require(missingLabel, "break/remove", "break/rename", "break/dangling-symlink", "break/directory")

// bounded runs f (a management call taking microseconds) and reports whether it returned in time.
func bounded(f func()) bool {
	done := make(chan struct{})
	go func() { f(); close(done) }()
	select {
	case <-done:
		return true
	case <-time.After(opBound):
		return false
	}
}

func drawMFSteps(rt *rapid.T, label string, lo, hi int, withReload bool) []mfStep {
	var out []mfStep
	for i, n := 0, rapid.IntRange(lo, hi).Draw(rt, label+"-n"); i < n; i++ {
		ops := []string{"add", "add", "update", "delete", "delete", "list"}
		if withReload {
			ops = append(ops, "reload", "reload-all")
		}
		out = append(out, mfStep{Op: rapid.SampledFrom(ops).Draw(rt, label+"-op"), Name: rapid.SampledFrom(names).Draw(rt, label+"-name"),
			Key: rapid.IntRange(0, nKeys-1).Draw(rt, label+"-key")})
	}
	return out
}

func runMFPlan(p mfPlan) (violation string, labels []string, nontrivial bool) {
	kl := p.KeyLen
	c, err := newCRig(kl, p.Mode)
	if err != nil {
		return "HARNESS " + err.Error(), nil, false
	}
	defer c.close()
	r := c.rig
	model := usersOf(kl, p.Initial)
	var history []string
	fail := func(sig, format string, a ...any) string {
		return fmt.Sprintf("SIG=C08/%s ", sig) + fmt.Sprintf(format, a...) + fmt.Sprintf("\n  history: %s\n  model: %s", strings.Join(history, "; "), credx.Show(model, kl))
	}
	stuck := func(what string) string {
		// show the consequence: the data path still works, the management path is dead
		var cons []string
		for n, k := range model {
			if p.Mode.HasTCP() {
				cons = append(cons, fmt.Sprintf("tcp client of %s accepted=%v", n, r.ProbeTCP(k).OK))
			}
			break
		}
		return fail(sigNoReturn, "%s did not return within %v (the handler's work is microseconds); %s", what, opBound, strings.Join(cons, "; "))
	}
	views := func(where string) string {
		var listed map[string][]byte
		var lerr error
		if !bounded(func() { listed, lerr = r.List() }) {
			return stuck("GET users " + where)
		}
		if lerr != nil {
			return fail("api-list-broken", "%s: %v", where, lerr)
		}
		if !credx.SameUsers(listed, model) {
			return fail("api-list-mismatch", "%s: API lists %s", where, credx.Show(listed, kl))
		}
		if d := liveViewKeys(r, kl, p.Mode, model, []int{0, 1, 2, 3, strangerKey}); d != "" {
			return fail("live-set-mismatch", "%s: %s", where, d)
		}
		return ""
	}
	// initial state through the documented path
	if err := c.put(model); err != nil {
		return "HARNESS " + err.Error(), nil, false
	}
	if code, _ := r.Reload(); !accepted(code) {
		return "HARNESS initial reload", nil, false
	}
	holder := func(key []byte) bool {
		for _, k := range model {
			if string(k) == string(key) {
				return true
			}
		}
		return false
	}
	fileOK := true
	apply := func(s mfStep) string {
		key := credx.Key(kl, s.Key)
		var code int
		var body []byte
		switch s.Op {
		case "add":
			_, exists := model[s.Name]
			wantOK := !exists && !holder(key)
			if !bounded(func() { code, body = r.Add(s.Name, key) }) {
				return stuck(fmt.Sprintf("POST users {%s,k%d}", s.Name, s.Key))
			}
			history = append(history, fmt.Sprintf("add(%s,k%d)->%d", s.Name, s.Key, code))
			if wantOK != accepted(code) {
				return fail("status-mismatch/add", "add(%s,k%d) answered %d %s, expected accepted=%v", s.Name, s.Key, code, body, wantOK)
			}
			if wantOK {
				model[s.Name] = key
				if !fileOK {
					nontrivial = true
				}
			}
		case "update":
			cur, exists := model[s.Name]
			wantOK := exists && string(cur) != string(key) && !holder(key)
			if !bounded(func() { code, body = r.Update(s.Name, key) }) {
				return stuck(fmt.Sprintf("PATCH users/%s {k%d}", s.Name, s.Key))
			}
			history = append(history, fmt.Sprintf("update(%s,k%d)->%d", s.Name, s.Key, code))
			if wantOK != accepted(code) {
				return fail("status-mismatch/update", "update(%s,k%d) answered %d %s, expected accepted=%v", s.Name, s.Key, code, body, wantOK)
			}
			if wantOK {
				model[s.Name] = key
				if !fileOK {
					nontrivial = true
				}
			}
		case "delete":
			_, exists := model[s.Name]
			if !bounded(func() { code, body = r.Delete(s.Name) }) {
				return stuck("DELETE users/" + s.Name)
			}
			history = append(history, fmt.Sprintf("delete(%s)->%d", s.Name, code))
			if exists != accepted(code) {
				return fail("status-mismatch/delete", "delete(%s) answered %d %s, user exists: %v", s.Name, code, body, exists)
			}
			if exists {
				delete(model, s.Name)
				if !fileOK {
					nontrivial = true
				}
			}
		case "list":
			history = append(history, "list")
		case "reload":
			if !bounded(func() { code, body = r.Reload() }) {
				return stuck("POST reload-users")
			}
			history = append(history, fmt.Sprintf("reload->%d", code))
			if !fileOK && code < 400 {
				return fail("unavailable-file-reload-accepted", "POST reload-users answered %d although the store file cannot be opened (%s)", code, p.Break)
			}
			if fileOK && !accepted(code) {
				return fail("valid-file-refused", "POST reload-users answered %d %s", code, body)
			}
		case "reload-all":
			// what the reload signal does for every managed server
			if !bounded(func() { r.Mgr.ReloadAll() }) {
				return stuck("cred.Manager.ReloadAll()")
			}
			history = append(history, "ReloadAll()")
		}
		return views("after " + history[len(history)-1])
	}
	for _, s := range p.Before {
		if v := apply(s); v != "" {
			return v, nil, false
		}
	}
	// make the store file unavailable
	away := c.path + ".moved-away"
	switch p.Break {
	case "remove":
		err = os.Remove(c.path)
	case "rename":
		err = os.Rename(c.path, away)
	case "dangling-symlink":
		if err = os.Remove(c.path); err == nil {
			err = os.Symlink(c.path+".does-not-exist", c.path)
		}
	case "directory":
		if err = os.Remove(c.path); err == nil {
			err = os.Mkdir(c.path, 0o755)
		}
	case "chmod-000":
		err = os.Chmod(c.path, 0)
	}
	if err != nil {
		return "HARNESS break: " + err.Error(), nil, false
	}
	fileOK = false
	history = append(history, "store file: "+p.Break)
	if v := apply(mfStep{Op: "reload"}); v != "" {
		return v, nil, false
	}
	for _, s := range p.After {
		if v := apply(s); v != "" {
			return v, nil, false
		}
	}
	// restore: a valid document at the path again
	os.Remove(away)
	if fi, err := os.Lstat(c.path); err == nil && (fi.IsDir() || fi.Mode()&os.ModeSymlink != 0 || fi.Mode().Perm() == 0) {
		os.Remove(c.path)
	}
	restored := usersOf(kl, p.Restore)
	if err := c.put(restored); err != nil {
		return "HARNESS restore: " + err.Error(), nil, false
	}
	fileOK = true
	history = append(history, "store file restored with "+credx.Show(restored, kl))
	var code int
	var body []byte
	if !bounded(func() { code, body = r.Reload() }) {
		return stuck("POST reload-users after the file was restored"), nil, false
	}
	history = append(history, fmt.Sprintf("reload->%d", code))
	if !accepted(code) {
		return fail("valid-file-refused", "after the file was restored POST reload-users answered %d %s", code, body), nil, false
	}
	model = restored
	if v := views("after the restore + reload"); v != "" {
		return v, nil, false
	}
	labels = []string{"break/" + p.Break, "mode/" + p.Mode.String(), fmt.Sprintf("keylen/%d", kl)}
	if nontrivial {
		labels = append(labels, missingLabel)
	}
	sort.Strings(labels)
	return "", labels, nontrivial
}

func TestReloadWithUnavailableStoreFile(t *testing.T) {
	breaks := []string{"remove", "rename", "dangling-symlink", "directory"}
	if os.Geteuid() != 0 {
		breaks = append(breaks, "chmod-000") // only meaningful when permissions bind the test's user
	}
	rapid.Check(t, func(rt *rapid.T) {
		p := mfPlan{
			KeyLen:  rapid.SampledFrom([]int{16, 32}).Draw(rt, "kl"),
			Mode:    rapid.SampledFrom([]credx.Mode{credx.TCPOnly, credx.UDPOnly, credx.Both}).Draw(rt, "mode"),
			Initial: drawUsers(rt, "init", true),
			Before:  drawMFSteps(rt, "before", 0, 2, false),
			Break:   rapid.SampledFrom(breaks).Draw(rt, "break"),
			After:   drawMFSteps(rt, "after", 1, 5, true),
			Restore: drawUsers(rt, "restore", true),
		}
		v, labels, nt := runMFPlan(p)
		if v != "" {
			if strings.Contains(v, "SIG=C08/"+sigNoReturn) && isKnown(sigNoReturn) {
				recMissing.KnownHit(listedSig(sigNoReturn))
				return
			}
			rt.Fatalf("%s\n  plan: %s", v, p)
		}
		var ops []string
		for _, s := range p.After {
			ops = append(ops, s.Op)
		}
		recMissing.Case(fmt.Sprintf("%s/%v/%s", p.Break, p.Mode, strings.Join(ops, ",")), nt, labels...)
	})
}
