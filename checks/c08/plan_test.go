package c08

import (
	"bytes"
	"context"
	"encoding/base64"
	"encoding/json"
	"fmt"
	"os"
	"path/filepath"
	"sort"
	"strings"
	"sync"
	"testing"
	"testing/synctest"
	"time"

	"pgregory.net/rapid"

	"verif/internal/credx"
	"verif/internal/ev"
)

// ---- universe

var names = []string{"alice", "bob", "carol", "dave"}

const nKeys = 4       // universe keys k0..k3
const strangerKey = 5 // a key never given to anybody: must always be refused

// ---- plan (everything a case does is drawn first, then executed inside a fake-time bubble)

type fileSpec struct {
	Users   map[string]int `json:"users"`             // name -> key index (duplicates allowed: the file is then invalid)
	BadLen  string         `json:"bad_len,omitempty"` // this user's key gets a wrong length
	CutAt   int            `json:"cut_at,omitempty"`  // >0: keep only this many bytes (clamped inside the document)
	Compact bool           `json:"compact,omitempty"`
	Garbage bool           `json:"garbage,omitempty"` // a JSON array instead of an object
}

type step struct {
	Op     string    `json:"op"` // add update delete reload restore pending-reload refused-reload restart
	Name   string    `json:"name,omitempty"`
	Key    int       `json:"key"`            // universe index; <0: wrong-length key (-1: one short, -2: one long, -3: other cipher's length, -4: empty)
	File   *fileSpec `json:"file,omitempty"` // reload: edit the file to this first
	Settle bool      `json:"settle"`         // let the 5 s save debounce elapse after the step and compare the file too
	Bad    *badSpec  `json:"bad,omitempty"`  // refused-reload: the semantically bad file
}

// badSpec: a file that is valid JSON but has one entry the server must refuse.
type badSpec struct {
	Kind    string `json:"kind"`  // bad-length dup-key bad-base64
	NGood   int    `json:"ngood"` // good entries in the file (1..3)
	Pos     string `json:"pos"`   // first middle last: where the bad entry stands
	Rot     int    `json:"rot"`   // which keys the good entries get
	Compact bool   `json:"compact,omitempty"`
}

func (b *badSpec) bytes(kl int) (content []byte, goodBefore int) {
	order := []string{"dave", "carol", "bob", "alice"}
	var good []credx.Entry
	for i := 0; i < b.NGood; i++ {
		good = append(good, credx.Entry{Name: order[i], Value: base64.StdEncoding.EncodeToString(credx.Key(kl, (i+b.Rot)%nKeys))})
	}
	pos := map[string]int{"first": 0, "middle": (b.NGood + 1) / 2, "last": b.NGood}[b.Pos]
	return credx.SemanticallyBadStore(kl, good, order[b.NGood], b.Kind, pos, !b.Compact), pos
}

type plan struct {
	KeyLen  int            `json:"key_len"`
	Mode    credx.Mode     `json:"mode"`
	Initial map[string]int `json:"initial"`
	Steps   []step         `json:"steps"`
}

func (p plan) String() string { b, _ := json.Marshal(p); return string(b) }

func keyOf(keyLen, idx int) []byte {
	switch idx {
	case -1:
		return credx.Key(keyLen, 0)[:keyLen-1]
	case -2:
		return append(credx.Key(keyLen, 0), 0x55)
	case -3:
		return credx.Key(48-keyLen, 0)
	case -4:
		return []byte{}
	}
	return credx.Key(keyLen, idx)
}

func drawUsers(rt *rapid.T, label string, distinct bool) map[string]int {
	m := map[string]int{}
	perm := rapid.Permutation([]int{0, 1, 2, 3}).Draw(rt, label+"-perm")
	for i, n := range names {
		if !rapid.Bool().Draw(rt, label+"-has-"+n) {
			continue
		}
		if distinct {
			m[n] = perm[i]
		} else {
			m[n] = rapid.IntRange(0, nKeys-1).Draw(rt, label+"-key-"+n)
		}
	}
	return m
}

func drawPlan(rt *rapid.T, maxSteps int) plan {
	p := plan{
		KeyLen:  rapid.SampledFrom([]int{16, 32}).Draw(rt, "keyLen"),
		Mode:    rapid.SampledFrom([]credx.Mode{credx.TCPOnly, credx.UDPOnly, credx.Both}).Draw(rt, "mode"),
		Initial: drawUsers(rt, "init", true),
	}
	n := rapid.IntRange(1, maxSteps).Draw(rt, "nsteps")
	for i := 0; i < n; i++ {
		var s step
		switch k := rapid.IntRange(0, 99).Draw(rt, "opkind"); {
		case k < 28:
			s.Op = "add"
		case k < 51:
			s.Op = "update"
		case k < 69:
			s.Op = "delete"
		case k < 81:
			s.Op = "reload"
		case k < 87:
			s.Op = "restore" // put an earlier *loaded* document back byte for byte, then reload
		case k < 92:
			s.Op = "pending-reload" // a change, then at once a reload of the file nobody touched
		case k < 96:
			s.Op = "refused-reload" // a file with one semantically bad entry, reload (refused), a change, the save
		default:
			s.Op = "restart"
		}
		switch s.Op {
		case "pending-reload":
			s.Name = rapid.SampledFrom(names).Draw(rt, "name")
			s.Key = rapid.IntRange(0, nKeys-1).Draw(rt, "key")
		case "refused-reload":
			s.Name = rapid.SampledFrom(names).Draw(rt, "name")
			s.Key = rapid.IntRange(0, nKeys-1).Draw(rt, "key")
			s.Bad = &badSpec{
				Kind:    rapid.SampledFrom([]string{"bad-length", "dup-key", "bad-base64"}).Draw(rt, "badkind"),
				NGood:   rapid.IntRange(1, 3).Draw(rt, "ngood"),
				Pos:     rapid.SampledFrom([]string{"first", "middle", "last"}).Draw(rt, "badpos"),
				Rot:     rapid.IntRange(0, nKeys-1).Draw(rt, "rot"),
				Compact: rapid.Bool().Draw(rt, "compact"),
			}
		case "add", "update", "delete":
			s.Name = rapid.SampledFrom(names).Draw(rt, "name")
			if s.Op == "add" && rapid.IntRange(0, 19).Draw(rt, "emptyname") == 0 {
				s.Name = ""
			}
			if s.Op != "delete" {
				s.Key = rapid.IntRange(0, nKeys-1).Draw(rt, "key")
				if rapid.IntRange(0, 11).Draw(rt, "badkey") == 0 {
					s.Key = -rapid.IntRange(1, 4).Draw(rt, "badkeykind")
				}
			}
		case "reload":
			f := &fileSpec{Compact: rapid.Bool().Draw(rt, "compact")}
			switch k := rapid.IntRange(0, 99).Draw(rt, "filekind"); {
			case k < 55:
				f.Users = drawUsers(rt, "file", true)
			case k < 75:
				f.Users = drawUsers(rt, "file", false) // duplicates likely
			case k < 83:
				f.Users = drawUsers(rt, "file", true)
				f.BadLen = rapid.SampledFrom(names).Draw(rt, "badlen")
				if _, ok := f.Users[f.BadLen]; !ok {
					f.Users[f.BadLen] = 0
				}
			case k < 93:
				f.Users = drawUsers(rt, "file", true)
				f.CutAt = rapid.IntRange(1, 400).Draw(rt, "cut")
			default:
				f.Garbage = true
			}
			if rapid.IntRange(0, 9).Draw(rt, "noedit") == 0 {
				f = nil // reload without touching the file
			}
			s.File = f
		}
		s.Settle = rapid.IntRange(0, 3).Draw(rt, "settle") != 0
		p.Steps = append(p.Steps, s)
	}
	return p
}

func (f *fileSpec) bytes(keyLen int) []byte {
	if f.Garbage {
		return []byte("[\"alice\"]\n")
	}
	users := map[string][]byte{}
	for n, k := range f.Users {
		users[n] = credx.Key(keyLen, k)
		if n == f.BadLen {
			users[n] = users[n][:keyLen-3]
		}
	}
	b := credx.EncodeStore(users, !f.Compact)
	if f.CutAt > 0 {
		cut := 1 + (f.CutAt-1)%(len(b)-2) // 1..len-2: strictly inside, the closing brace is lost
		b = b[:cut]
	}
	return b
}

// ---- executor

type outcome struct {
	violation string   // "SIG=C08/… details" or ""
	known     string   // signature of a listed finding that ended the plan early
	trace     []string // op/outcome classes, for the distinct key
	labels    map[string]bool
	nontriv   bool
}

type executor struct {
	p          plan
	dir, path  string
	rig        *credx.Rig
	cancel     context.CancelFunc
	model      map[string][]byte // name -> key: the reference state
	pending    bool              // an acknowledged change has not been through a settle yet
	harnessDoc []byte            // non-nil: the harness wrote these bytes and no save has happened since
	syncBytes  []byte            // file bytes at the last successful load or completed save
	source     map[string]string // where each user's current entry came from: file-loaded (start-up), reloaded, api-added, api-updated
	loaded     [][]byte          // every document the server has loaded successfully so far (start-up and reloads)
	savedSince bool              // the server has rewritten the file since its last successful load
	out        *outcome
	history    []string
}

func (x *executor) start() error {
	rig, err := credx.NewRig(x.path, x.p.KeyLen, x.p.Mode, nil)
	if err != nil {
		return err
	}
	ctx, cancel := context.WithCancel(context.Background())
	rig.Start(ctx)
	x.rig, x.cancel = rig, cancel
	return nil
}

func (x *executor) stop() {
	if x.rig != nil {
		x.cancel()
		x.rig.Stop()
		x.rig = nil
	}
}

func (x *executor) owner(key []byte) (string, bool) {
	for n, k := range x.model {
		if bytes.Equal(k, key) {
			return n, true
		}
	}
	return "", false
}

func (x *executor) failf(sig, format string, a ...any) string {
	return fmt.Sprintf("SIG=C08/%s ", sig) + fmt.Sprintf(format, a...) +
		fmt.Sprintf("\n  keyLen=%d stores=%v initial=%v\n  history: %s\n  model now: %s",
			x.p.KeyLen, x.p.Mode, x.p.Initial, strings.Join(x.history, "; "), credx.Show(x.model, x.p.KeyLen))
}

// settle lets the save debounce (5 s) elapse on the bubble's clock.
func (x *executor) settle() {
	time.Sleep(6 * time.Second)
	synctest.Wait()
	if x.pending {
		x.pending = false
		x.savedSince = true
		x.harnessDoc = nil
		if b, err := os.ReadFile(x.path); err == nil {
			x.syncBytes = b
		}
	}
}

// views compares the three views with the model. withFile: a settle has just happened.
func (x *executor) views(withFile bool) string {
	kl := x.p.KeyLen
	// view 1: what real clients get
	for i := 0; i <= strangerKey; i++ {
		if i >= nKeys && i != strangerKey {
			continue
		}
		key := credx.Key(kl, i)
		want, listed := x.owner(key)
		for _, tr := range []string{"tcp", "udp"} {
			var pr credx.Probe
			if tr == "tcp" {
				if !x.p.Mode.HasTCP() {
					continue
				}
				pr = x.rig.ProbeTCP(key)
			} else {
				if !x.p.Mode.HasUDP() {
					continue
				}
				pr = x.rig.ProbeUDP(key)
			}
			switch {
			case listed && pr.OK && pr.User == want && !pr.ReplyOK:
				return x.failf("reply-round-trip-failed", "%s client with k%d (user %s, entry %s, on a %s server) was accepted but the server's reply did not make the round trip: %s",
					tr, i, want, x.source[want], serverClass(x.p.Mode), pr.ReplyErr)
			case listed && !pr.OK:
				return x.failf("listed-key-refused", "%s client with k%d (user %s in the current set) was refused: %s", tr, i, want, pr.Err)
			case listed && pr.User != want:
				return x.failf("wrong-attribution", "%s client with k%d attributed to %q, want %q", tr, i, pr.User, want)
			case !listed && pr.OK:
				return x.failf("accepted-key-not-in-set", "%s client with k%d (not in the current set) was accepted as %q", tr, i, pr.User)
			case !listed && !pr.NotFound:
				return x.failf("refusal-reason", "%s client with k%d refused for an unexpected reason: %s", tr, i, pr.Err)
			}
			if listed && pr.ReplyOK {
				l := serverClass(x.p.Mode) + "-server/" + x.source[want] + "-user/"
				if x.p.Mode == credx.Both {
					l += tr + "-"
				}
				x.lab(l + "reply-round-trip")
			}
		}
	}
	// view 2: what the API lists
	listed, err := x.rig.List()
	if err != nil {
		return x.failf("api-list-broken", "%v", err)
	}
	if !credx.SameUsers(listed, x.model) {
		return x.failf("api-list-mismatch", "API lists %s", credx.Show(listed, kl))
	}
	// view 3: the store file
	if withFile {
		b, err := os.ReadFile(x.path)
		if err != nil {
			return x.failf("file-unreadable", "%v", err)
		}
		if x.harnessDoc != nil {
			if !bytes.Equal(b, x.harnessDoc) {
				return x.failf("file-rewritten-without-change", "no change was acknowledged since the operator wrote the file, yet it changed: %q -> %q", x.harnessDoc, b)
			}
		} else {
			got, complete, err := credx.DecodeStore(b, kl)
			if err != nil || !complete {
				return x.failf("file-not-loadable", "saved store file does not decode: err=%v complete=%v content=%q", err, complete, b)
			}
			if !credx.SameUsers(got, x.model) {
				return x.failf("file-mismatch", "store file holds %s", credx.Show(got, kl))
			}
		}
	}
	return ""
}

// serverClass names the transport class of the managed server.
func serverClass(m credx.Mode) string {
	return map[credx.Mode]string{credx.TCPOnly: "tcp-only", credx.UDPOnly: "udp-only", credx.Both: "tcp+udp"}[m]
}

func accepted(code int) bool { return code >= 200 && code < 300 }
func rejected(code int) bool { return code >= 400 && code < 500 }

func (x *executor) lab(l string) { x.out.labels[l] = true }

// run executes the plan; must be called inside a synctest bubble.
func (x *executor) run() {
	kl := x.p.KeyLen
	init := map[string][]byte{}
	for n, k := range x.p.Initial {
		init[n] = credx.Key(kl, k)
	}
	doc := credx.EncodeStore(init, true)
	if err := credx.WriteStore(x.path, doc); err != nil {
		x.out.violation = "HARNESS write: " + err.Error()
		return
	}
	x.model = init
	x.source = map[string]string{}
	for n := range init {
		x.source[n] = "file-loaded"
	}
	x.syncBytes = doc
	x.loaded = append(x.loaded, doc)
	x.harnessDoc = doc
	if err := x.start(); err != nil {
		x.out.violation = x.failf("startup-failed", "valid store %q refused at start-up: %v", doc, err)
		return
	}
	defer x.stop()
	if v := x.views(true); v != "" {
		x.out.violation = v
		return
	}
	for i, s := range x.p.Steps {
		var desc, class string
		switch s.Op {
		case "add", "update":
			key := keyOf(kl, s.Key)
			desc = fmt.Sprintf("%s(%s,%s)", s.Op, s.Name, credx.KeyName(key, kl))
			_, exists := x.model[s.Name]
			holder, held := x.owner(key)
			badLen := len(key) != kl
			var wantOK bool
			var why string
			if s.Op == "add" {
				switch {
				case s.Name == "":
					why = "empty-name"
				case badLen:
					why = "bad-length"
				case exists:
					why = "dup-name"
				case held:
					why = "dup-key"
				default:
					wantOK = true
				}
			} else {
				switch {
				case badLen:
					why = "bad-length"
				case !exists:
					why = "unknown-user"
				case held && holder == s.Name:
					why = "same-key"
				case held:
					why = "dup-key"
				default:
					wantOK = true
				}
			}
			if why == "dup-key" {
				x.lab("dupkey-attempt")
				x.out.nontriv = true
			}
			var code int
			var body []byte
			if s.Op == "add" {
				code, body = x.rig.Add(s.Name, key)
			} else {
				code, body = x.rig.Update(s.Name, key)
			}
			x.history = append(x.history, fmt.Sprintf("%s->%d", desc, code))
			switch {
			case wantOK && accepted(code):
				class = s.Op + "-ok"
				if s.Op == "update" {
					x.lab("rotated-key-probed")
					x.out.nontriv = true
				}
				x.model[s.Name] = key
				x.source[s.Name] = map[string]string{"add": "api-added", "update": "api-updated"}[s.Op]
				x.pending = true
			case !wantOK && rejected(code):
				class = s.Op + "-rej-" + why
			case !wantOK && why == "dup-key" && accepted(code):
				// Two users now share one key: the server can attribute the key to one of them only,
				// and the store it will save cannot be loaded again. Show the consequence.
				sig := "duplicate-upsk-accepted"
				detail := x.dupConsequence(s, holder, key)
				if !isKnown(sig) {
					x.out.violation = x.failf(sig, "%s answered %d although %s already has that key. %s", desc, code, holder, detail)
					return
				}
				// Listed finding: count it, bring the server back in line with the model (the
				// consequence demonstration above already removed the second holder; rotating the
				// first holder's key away and back re-creates its live entry) and carry on. If the
				// repair does not take, the plan ends here.
				x.out.known = sig
				class = s.Op + "-DUPKEY-ACCEPTED(known)"
				if !x.repairAfterDup(s, holder, key) {
					x.out.trace = append(x.out.trace, class)
					return
				}
				x.pending = true
			default:
				x.out.violation = x.failf("status-mismatch/"+s.Op, "%s answered %d %q, expected %s (%s)", desc, code, body,
					map[bool]string{true: "2xx", false: "4xx"}[wantOK], why)
				return
			}
		case "delete":
			desc = fmt.Sprintf("delete(%s)", s.Name)
			_, exists := x.model[s.Name]
			code, body := x.rig.Delete(s.Name)
			x.history = append(x.history, fmt.Sprintf("%s->%d", desc, code))
			switch {
			case exists && accepted(code):
				class = "delete-ok"
				x.lab("deleted-key-probed")
				x.out.nontriv = true
				delete(x.model, s.Name)
				x.pending = true
			case !exists && rejected(code):
				class = "delete-rej-unknown"
			default:
				x.out.violation = x.failf("status-mismatch/delete", "%s answered %d %q (user exists in model: %v)", desc, code, body, exists)
				return
			}
		case "refused-reload":
			content, goodBefore := s.Bad.bytes(kl)
			if _, _, derr := credx.DecodeStore(content, kl); derr == nil {
				x.out.violation = "HARNESS the bad file decodes: " + string(content)
				return
			}
			if err := credx.WriteStore(x.path, content); err != nil {
				x.out.violation = "HARNESS write: " + err.Error()
				return
			}
			x.harnessDoc = content
			code, _ := x.rig.Reload()
			x.history = append(x.history, fmt.Sprintf("reload(%q: %s entry %s, %d good entries before it)->%d", content, s.Bad.Kind, s.Bad.Pos, goodBefore, code))
			if code < 400 {
				x.out.violation = x.failf("invalid-file-accepted", "a store whose %s entry is %s was answered %d", s.Bad.Pos, s.Bad.Kind, code)
				return
			}
			// the refused reload must have left everything exactly as it was
			if v := x.views(false); v != "" {
				x.out.violation = strings.Replace(v, "SIG=C08/", "SIG=C08/refused-reload-changed-state/", 1)
				return
			}
			// now a change: its debounced save must write (previous set +- the change)
			if !x.toggle(s) {
				return
			}
			x.settle()
			if v := x.views(true); v != "" {
				x.out.violation = strings.Replace(v, "SIG=C08/", "SIG=C08/after-refused-reload/", 1)
				return
			}
			class = "refused-reload-" + s.Bad.Kind + "-then-change-saved"
			x.lab("refused-reload-then-change-then-save")
			x.lab("refused/" + s.Bad.Kind)
			x.lab("refused-pos/" + s.Bad.Pos)
			if goodBefore >= 1 {
				x.lab("refused/" + s.Bad.Kind + "/after-good-entries")
			}
			x.out.nontriv = true
		case "pending-reload":
			// an acknowledged change that is still cooling down, then a reload of the file nobody touched
			if !x.toggle(s) {
				return
			}
			var stop bool
			if class, stop = x.doReload(step{Op: "reload"}); stop {
				return
			}
			class = "pending-" + class
		case "reload", "restore":
			var stop bool
			if class, stop = x.doReload(s); stop {
				return
			}
		case "restart":
			x.settle()
			if v := x.views(true); v != "" {
				x.out.violation = v
				return
			}
			if x.harnessDoc != nil {
				if _, _, err := credx.DecodeStore(x.harnessDoc, kl); err != nil {
					class = "restart-skipped-operator-file-invalid"
					break
				}
			}
			x.stop()
			x.history = append(x.history, "restart")
			if err := x.start(); err != nil {
				b, _ := os.ReadFile(x.path)
				x.out.violation = x.failf("restart-failed", "the server's own saved store %q is refused at start-up: %v", b, err)
				return
			}
			class = "restart"
			for n := range x.model {
				x.source[n] = "file-loaded"
			}
			x.savedSince = false // a fresh instance's content cache is what it has just loaded
			x.lab("restart")
		}
		x.out.trace = append(x.out.trace, class)
		x.lab("op/" + class)
		settle := s.Settle || i == len(x.p.Steps)-1
		if settle {
			x.settle()
		}
		if v := x.views(settle); v != "" {
			x.out.violation = v
			return
		}
	}
}

// toggle acknowledges one valid change on s.Name: delete it if it exists, else add it with
// s.Key (or the first free universe key). false: a violation was recorded.
func (x *executor) toggle(s step) bool {
	kl := x.p.KeyLen
	key := keyOf(kl, s.Key)
	var code int
	if _, exists := x.model[s.Name]; exists {
		code, _ = x.rig.Delete(s.Name)
		x.history = append(x.history, fmt.Sprintf("delete(%s)->%d", s.Name, code))
		delete(x.model, s.Name)
	} else {
		if _, held := x.owner(key); held || len(key) != kl {
			for k := 0; k < nKeys; k++ {
				if _, h := x.owner(credx.Key(kl, k)); !h {
					key = credx.Key(kl, k)
				}
			}
		}
		code, _ = x.rig.Add(s.Name, key)
		x.history = append(x.history, fmt.Sprintf("add(%s,%s)->%d", s.Name, credx.KeyName(key, kl), code))
		x.model[s.Name] = key
		x.source[s.Name] = "api-added"
	}
	if !accepted(code) {
		x.out.violation = x.failf("status-mismatch/pending-change", "a valid change was answered %d", code)
		return false
	}
	x.pending = true
	return true
}

// doReload executes a reload / restore step. stop: a violation was recorded.
func (x *executor) doReload(s step) (class string, stop bool) {
	kl := x.p.KeyLen
	var desc string
	var content []byte
	restored := false
	if s.Op == "restore" {
		// let a pending save happen, then put back the newest earlier-loaded document whose
		// bytes differ from what is in the file now
		x.settle()
		cur, err := os.ReadFile(x.path)
		if err != nil {
			x.out.violation = "HARNESS read: " + err.Error()
			return class, true
		}
		for j := len(x.loaded) - 1; j >= 0 && content == nil; j-- {
			if !bytes.Equal(x.loaded[j], cur) {
				content = x.loaded[j]
			}
		}
		if content == nil {
			return "restore-skipped-nothing-to-restore", false
		}
		if err := credx.WriteStore(x.path, content); err != nil {
			x.out.violation = "HARNESS write: " + err.Error()
			return class, true
		}
		x.harnessDoc = content
		restored = true
		if x.savedSince {
			x.lab("restore-loaded-content-after-save")
			x.out.nontriv = true
		}
	} else if s.File != nil {
		content = s.File.bytes(kl)
		if err := credx.WriteStore(x.path, content); err != nil {
			x.out.violation = "HARNESS write: " + err.Error()
			return class, true
		}
		x.harnessDoc = content
	} else {
		var err error
		if content, err = os.ReadFile(x.path); err != nil {
			x.out.violation = "HARNESS read: " + err.Error()
			return class, true
		}
	}
	want, _, derr := credx.DecodeStore(content, kl)
	code, body := x.rig.Reload()
	desc = fmt.Sprintf("reload(%q)", content)
	if restored {
		desc = fmt.Sprintf("restore-earlier-loaded-file+reload(%q)", content)
	} else if s.File == nil {
		desc = "reload(untouched file)"
	}
	x.history = append(x.history, fmt.Sprintf("%s->%d", desc, code))
	switch {
	case derr != nil && code >= 400:
		class = "reload-rej"
		x.lab("reload-invalid-rejected")
	case derr == nil && accepted(code):
		// A file whose bytes are exactly what the server last read or wrote is "unchanged": the
		// reload must not alter anything — in particular it must not throw away an acknowledged
		// change whose save is still cooling down (the three views are compared right after).
		if bytes.Equal(content, x.syncBytes) {
			class = "reload-unmodified-noop"
			x.lab("reload-of-unmodified-file")
			if x.pending {
				x.lab("reload-of-unmodified-file-with-change-pending")
				x.out.nontriv = true
				if x.savedSince {
					x.lab("reload-of-unmodified-file-with-change-pending-after-an-earlier-save")
				}
			}
			return class, false
		}
		class = "reload-ok"
		if !credx.SameUsers(want, x.model) {
			x.lab("reload-edited")
			x.out.nontriv = true
			class = "reload-ok-changed"
		}
		x.model = want
		for n := range want {
			x.source[n] = "reloaded"
		}
		x.syncBytes = content
		x.loaded = append(x.loaded, content)
		x.savedSince = false
		if restored {
			class = "restore-" + class
		}
	case derr != nil:
		x.out.violation = x.failf("invalid-file-accepted", "%s answered %d but the file is invalid: %v", desc, code, derr)
		return class, true
	default:
		x.out.violation = x.failf("valid-file-refused", "%s answered %d %q but the file is a valid store", desc, code, body)
		return class, true
	}
	return class, false
}

// dupConsequence demonstrates what the accepted duplicate leads to: remove the second holder
// again and the first one is still listed and saved but locked out; the saved store with both
// holders cannot be loaded by a restarting server.
func (x *executor) dupConsequence(s step, first string, key []byte) string {
	kl := x.p.KeyLen
	var sb strings.Builder
	x.settle()
	if b, err := os.ReadFile(x.path); err == nil {
		if _, _, derr := credx.DecodeStore(b, kl); derr != nil {
			fmt.Fprintf(&sb, "Saved store is now invalid (%v)", derr)
			p2 := filepath.Join(x.dir, "restart-probe.json")
			_ = os.WriteFile(p2, b, 0o644)
			if _, err := credx.NewRig(p2, kl, x.p.Mode, nil); err != nil {
				fmt.Fprintf(&sb, " and a server restarted on it fails: %v. ", err)
			} else {
				sb.WriteString(" yet a restart accepts it. ")
			}
		}
	}
	code, _ := x.rig.Delete(s.Name)
	fmt.Fprintf(&sb, "Then delete(%s)->%d: ", s.Name, code)
	if l, err := x.rig.List(); err == nil {
		fmt.Fprintf(&sb, "API lists %s; ", credx.Show(l, kl))
	}
	if x.p.Mode.HasTCP() {
		pr := x.rig.ProbeTCP(key)
		fmt.Fprintf(&sb, "tcp client of %s with %s: ok=%v user=%q err=%q; ", first, credx.KeyName(key, kl), pr.OK, pr.User, pr.Err)
	}
	if x.p.Mode.HasUDP() {
		pr := x.rig.ProbeUDP(key)
		fmt.Fprintf(&sb, "udp client of %s with %s: ok=%v user=%q err=%q; ", first, credx.KeyName(key, kl), pr.OK, pr.User, pr.Err)
	}
	return sb.String()
}

// repairAfterDup undoes an accepted duplicate-key request (only used while that finding is
// listed as open, so that the rest of the plan still runs against a server that agrees with the
// model). dupConsequence has already deleted s.Name.
func (x *executor) repairAfterDup(s step, holder string, key []byte) bool {
	kl := x.p.KeyLen
	if old, existed := x.model[s.Name]; existed { // it was an update: give the user its old key back
		if code, _ := x.rig.Add(s.Name, old); !accepted(code) {
			return false
		}
	}
	tmp := credx.Key(kl, 7)
	if code, _ := x.rig.Update(holder, tmp); !accepted(code) {
		return false
	}
	if code, _ := x.rig.Update(holder, key); !accepted(code) {
		return false
	}
	x.history = append(x.history, "(repair after listed finding)")
	return x.views(false) == ""
}

func runPlan(t *testing.T, p plan) *outcome {
	out := &outcome{labels: map[string]bool{}}
	dir, err := os.MkdirTemp(workDir(), "verif-c08-")
	if err != nil {
		out.violation = "HARNESS tempdir: " + err.Error()
		return out
	}
	defer os.RemoveAll(dir)
	x := &executor{p: p, dir: dir, path: filepath.Join(dir, "upsks.json"), out: out}
	synctest.Test(t, func(t *testing.T) { x.run() })
	return out
}

var scratchOnce sync.Once
var scratchBase string

// workDir is where per-case store directories are created (see credx.ScratchBase).
func workDir() string {
	scratchOnce.Do(func() { scratchBase = credx.ScratchBase("verif-c08-") })
	return scratchBase
}

// ---- the property

var recSeq = ev.New("C08", "sequential-plans",
	"rapid stateful plans: key size {16,32} x stores {tcp,udp,both}; initial store over 4 names x 4 keys; 1..12 steps of "+
		"add/update/delete through the ssm handlers (names incl. empty, keys incl. wrong lengths), edit-file-then-POST reload-users "+
		"(valid, duplicate-key, wrong-length, truncated, non-object, untouched), restore-an-earlier-loaded-document-byte-for-byte-then-reload "+
		"(after the debounce save), change-then-at-once-reload-of-the-untouched-file (must be a no-op at every phase), save-then-restart; after every step a real client per "+
		"universe key (+1 never-issued key) per transport, GET users, and (after the 5 s debounce on a fake clock) the decoded store "+
		"file are compared with a name->key model. Non-trivial: an accepted delete or key rotation followed by a handshake with the old key, "+
		"a duplicate-key attempt, or a reload that changes the set. Distinct key = key size + stores + op/outcome trace").
	Require(
		"udp-only-server/file-loaded-user/reply-round-trip", "udp-only-server/reloaded-user/reply-round-trip",
		"udp-only-server/api-added-user/reply-round-trip", "udp-only-server/api-updated-user/reply-round-trip",
		"tcp-only-server/file-loaded-user/reply-round-trip", "tcp-only-server/reloaded-user/reply-round-trip",
		"tcp-only-server/api-added-user/reply-round-trip", "tcp-only-server/api-updated-user/reply-round-trip",
		"tcp+udp-server/api-added-user/udp-reply-round-trip", "tcp+udp-server/api-updated-user/udp-reply-round-trip",
		"tcp+udp-server/reloaded-user/udp-reply-round-trip", "tcp+udp-server/file-loaded-user/udp-reply-round-trip",
		"deleted-key-probed", "rotated-key-probed", "dupkey-attempt", "reload-edited", "restore-loaded-content-after-save", "refused-reload-then-change-then-save", "refused/bad-length", "refused/dup-key", "refused/bad-base64",
		"refused/bad-length/after-good-entries", "refused/dup-key/after-good-entries", "refused/bad-base64/after-good-entries", "refused-pos/first", "refused-pos/middle", "refused-pos/last", "reload-of-unmodified-file-with-change-pending-after-an-earlier-save", "reload-invalid-rejected", "restart",
		"mode/tcp", "mode/udp", "mode/both", "keylen/16", "keylen/32")

func finishCase(rec *ev.Recorder, p plan, out *outcome) {
	if out.known != "" {
		rec.KnownHit(listedSig(out.known))
	}
	labels := []string{"mode/" + p.Mode.String(), fmt.Sprintf("keylen/%d", p.KeyLen)}
	for l := range out.labels {
		labels = append(labels, l)
	}
	sort.Strings(labels)
	key := fmt.Sprintf("%d/%v/%s", p.KeyLen, p.Mode, strings.Join(out.trace, ","))
	rec.Case(key, out.nontriv, labels...)
	if out.nontriv {
		rec.Sample(map[string]any{"plan": p, "trace": out.trace})
	}
}

func TestSequentialPlans(t *testing.T) {
	rapid.Check(t, func(rt *rapid.T) {
		p := drawPlan(rt, 12)
		out := runPlan(t, p)
		if out.violation != "" {
			rt.Fatalf("%s\n  plan: %s", out.violation, p)
		}
		finishCase(recSeq, p, out)
	})
}
