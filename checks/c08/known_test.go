package c08

import (
	"verif/internal/credx"
	"verif/internal/ev"
)

// isKnown: is this signature listed as an open finding (either spelling, "sig" or "C08/sig")?
func isKnown(sig string) bool { _, ok := credx.Listed(ev.IsKnown, "C08", sig); return ok }

// listedSig returns the spelling under which the finding is listed (for hit counting).
func listedSig(sig string) string { s, _ := credx.Listed(ev.IsKnown, "C08", sig); return s }
