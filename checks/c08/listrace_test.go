package c08

import (
	"bytes"
	"context"
	"fmt"
	"os"
	"path/filepath"
	"runtime"
	"strconv"
	"sync"
	"testing"
	"time"

	"verif/internal/credx"
	"verif/internal/ev"
)

// The API list under concurrent writes. GET users on a large store takes milliseconds (copy,
// sort, encode); an implementation that memoises the listing can install a snapshot taken before
// a write after that write's invalidation. Reads that overlap a write may see either side; the
// read issued after every request has returned (quiescent) must show the acknowledged set.

const sigStaleList = "api-list-stale-after-concurrent-write"

var recListRace = ev.New("C08", "list-under-concurrent-writes",
	"one live, started server with N users (default 20 000); time-boxed rounds: 2-4 goroutines issue GET users; after a delay swept over "+
		"0..4 ms (so that the listings are being built/sorted; a write just before the round makes sure nothing memoised is valid) a writer issues 1-3 of DELETE / PATCH / POST on a few hot users through the "+
		"ssm handlers; when every request has returned, one more GET users must equal the model (all N users compared), GET users/{name} and "+
		"real TCP/UDP clients of the hot users must agree with it; at the end the debounce-saved file must decode to the same set. Non-trivial: "+
		"a write was acknowledged while at least one list request was in flight").
	Require("write-acknowledged-while-list-in-flight")

func TestListUnderConcurrentWrites(t *testing.T) {
	budget := time.Duration(envIntC08("VERIF_C08_LISTRACE_MS", 4000)) * time.Millisecond
	n := envIntC08("VERIF_C08_LISTRACE_USERS", 20000)
	seed := 0
	if v, err := strconv.Atoi(os.Getenv("VERIF_SEED")); err == nil {
		seed = v
	}
	if v, err := strconv.Atoi(os.Getenv("VERIF_SHARD")); err == nil {
		seed += 7 * v
	}
	kl := []int{16, 32}[seed%2]
	mode := []credx.Mode{credx.Both, credx.TCPOnly, credx.UDPOnly}[seed%3]
	dir, err := os.MkdirTemp(workDir(), "verif-c08-l-")
	if err != nil {
		t.Fatal(err)
	}
	defer os.RemoveAll(dir)
	path := filepath.Join(dir, "upsks.json")
	model := make(map[string][]byte, n+8)
	for i := 0; i < n; i++ {
		model[fmt.Sprintf("user%05d", i)] = credx.Key(kl, 10000+i)
	}
	hot := []string{"user00000", "user00001", fmt.Sprintf("user%05d", n/2), fmt.Sprintf("user%05d", n-1), "zz-extra-a", "zz-extra-b"}
	if err := credx.WriteStore(path, credx.EncodeStore(model, true)); err != nil {
		t.Fatal(err)
	}
	rig, err := credx.NewRig(path, kl, mode, nil)
	if err != nil {
		t.Fatalf("HARNESS %v", err)
	}
	ctx, cancel := context.WithCancel(context.Background())
	rig.Start(ctx)
	defer func() { cancel(); rig.Stop() }()

	delays := []time.Duration{0, 200 * time.Microsecond, 500 * time.Microsecond, time.Millisecond, 2 * time.Millisecond, 4 * time.Millisecond}
	freshKey := 200000
	deadline := time.Now().Add(budget)
	rounds := 0
	for ; time.Now().Before(deadline); rounds++ {
		nReaders := 2 + (rounds+seed)%3
		delay := delays[(rounds+seed)%len(delays)]
		// a write before the list requests start: a memoising implementation then has nothing valid
		// cached and every list request of this round builds its listing afresh
		var history []string
		write := func(w int) {
			name := hot[(rounds*3+w+seed)%len(hot)]
			var code int
			var what string
			if _, exists := model[name]; !exists {
				freshKey++
				code, _ = rig.Add(name, credx.Key(kl, freshKey))
				what = "POST " + name
				if accepted(code) {
					model[name] = credx.Key(kl, freshKey)
				}
			} else if (rounds+w)%2 == 0 {
				code, _ = rig.Delete(name)
				what = "DELETE " + name
				if accepted(code) {
					delete(model, name)
				}
			} else {
				freshKey++
				code, _ = rig.Update(name, credx.Key(kl, freshKey))
				what = "PATCH " + name
				if accepted(code) {
					model[name] = credx.Key(kl, freshKey)
				}
			}
			if !accepted(code) {
				t.Fatalf("SIG=C08/status-mismatch/list-race %s (valid against the model) answered %d", what, code)
			}
			history = append(history, fmt.Sprintf("%s->%d", what, code))
		}
		write(5)
		history = append(history, "| list requests start |")
		var wg sync.WaitGroup
		var inFlight sync.WaitGroup
		done := make([]chan struct{}, nReaders)
		for i := range done {
			done[i] = make(chan struct{})
			inFlight.Add(1)
			wg.Go(func() {
				inFlight.Done()
				rig.Do("GET", "/servers/"+credx.ServerName+"/users", nil)
				close(done[i])
			})
		}
		inFlight.Wait()
		for t0 := time.Now(); time.Since(t0) < delay; {
			runtime.Gosched()
		}
		// 1-3 writes on hot users
		overlapped := false
		for w := 0; w <= (rounds/2)%3; w++ {
			write(w)
			for _, d := range done {
				select {
				case <-d:
				default:
					overlapped = true
				}
			}
		}
		wg.Wait()
		// quiescent: nothing is in flight
		listed, err := rig.List()
		if err != nil {
			t.Fatalf("SIG=C08/api-list-broken %v", err)
		}
		if !credx.SameUsers(listed, model) {
			var diffs []string
			for _, h := range hot {
				lk, lok := listed[h]
				mk, mok := model[h]
				if lok != mok || !bytes.Equal(lk, mk) {
					code, gk := rig.GetUser(h)
					diffs = append(diffs, fmt.Sprintf("%s: listed=%v(key %x…) acknowledged=%v(key %x…) GET users/%s -> %d (key %x…)", h, lok, head(lk), mok, head(mk), h, code, head(gk)))
				}
			}
			t.Fatalf("SIG=C08/%s %d-user store, %d list requests in flight, writes %v acknowledged %v after they were issued; after ALL requests returned GET users lists %d users, the acknowledged set has %d; differences: %v",
				sigStaleList, n, nReaders, history, delay, len(listed), len(model), diffs)
		}
		var keys [][]byte
		for _, h := range hot {
			code, gk := rig.GetUser(h)
			mk, mok := model[h]
			if mok != (code == 200) || (mok && !bytes.Equal(gk, mk)) {
				t.Fatalf("SIG=C08/api-user-mismatch GET users/%s -> %d, acknowledged present=%v", h, code, mok)
			}
			if mok {
				keys = append(keys, mk)
			}
		}
		for _, k := range keys {
			owner := ""
			for _, h := range hot {
				if bytes.Equal(model[h], k) {
					owner = h
				}
			}
			if mode.HasTCP() {
				if pr := rig.ProbeTCP(k); !pr.OK || pr.User != owner || !pr.ReplyOK {
					t.Fatalf("SIG=C08/listed-key-refused tcp client of %s: %+v", owner, pr)
				}
			}
			if mode.HasUDP() {
				if pr := rig.ProbeUDP(k); !pr.OK || pr.User != owner || !pr.ReplyOK {
					t.Fatalf("SIG=C08/listed-key-refused udp client of %s: %+v", owner, pr)
				}
			}
		}
		labels := []string{fmt.Sprintf("readers/%d", nReaders), fmt.Sprintf("delay/%v", delay)}
		if overlapped {
			labels = append(labels, "write-acknowledged-while-list-in-flight")
		}
		recListRace.Case(fmt.Sprintf("%d/%v/%d/%v", nReaders, delay, len(history), overlapped), overlapped, labels...)
	}
	// third view: after the debounce the saved file holds the acknowledged set
	time.Sleep(5300 * time.Millisecond)
	limit := time.Now().Add(30 * time.Second)
	for {
		b, _ := os.ReadFile(path)
		got, complete, derr := credx.DecodeStore(b, kl)
		if derr == nil && complete && credx.SameUsers(got, model) {
			break
		}
		if time.Now().After(limit) {
			t.Fatalf("SIG=C08/file-mismatch store file (%d users, decode error %v) does not hold the %d acknowledged users 30 s after the last change", len(got), derr, len(model))
		}
		time.Sleep(300 * time.Millisecond)
	}
	recListRace.Extra("rounds", rounds)
}

func head(b []byte) []byte {
	if len(b) > 4 {
		return b[:4]
	}
	return b
}
