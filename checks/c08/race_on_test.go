//go:build race

package c08

const raceBuild = true
