package c08

import (
	"encoding/json"
	"fmt"
	"os"
	"path/filepath"
	"sort"
	"strings"
	"testing"

	"pgregory.net/rapid"

	"verif/internal/credx"
	"verif/internal/ev"
)

// Several multi-user servers share ONE credential manager (as in any configuration with more
// than one ss2022 server that has a uPSK store). A reload request addressed to all of them
// (cred.Manager.ReloadAll; SIGUSR1 on a real service) must reach every server: each server
// whose file is loadable applies it, a server whose file cannot be loaded keeps its previous
// set, and neither affects the others. The manager iterates a map, so every plan is repeated.

const sigReloadSkipped = "reload-all-skips-servers"

type msServer struct {
	KeyLen  int            `json:"key_len"`
	Mode    credx.Mode     `json:"mode"`
	Initial map[string]int `json:"initial"`
	Edit    string         `json:"edit"` // valid, untouched, bad-json, bad-length, dup-key
	File    map[string]int `json:"file,omitempty"`
}

type msPlan struct {
	Servers []msServer `json:"servers"`
	Reps    int        `json:"reps"`
}

func (p msPlan) String() string { b, _ := json.Marshal(p); return string(b) }

var recMulti = ev.New("C08", "reload-all-servers",
	"rapid: 2-4 multi-user servers (own key size, stores, store file) registered with one cred.Manager; each file is then edited to a "+
		"new valid set, left untouched, or made unloadable (truncated JSON / wrong key length / duplicate key) - at least one unloadable and at "+
		"least one valid edit per plan; cred.Manager.ReloadAll(); afterwards, per server: API list, real TCP/UDP clients per universe key and "+
		"GET of each user must equal the file's set if it was loadable, the previous set otherwise. Each plan repeated 4-10 times on fresh "+
		"managers (map iteration order). Non-trivial: a valid edit changed a server's set while another server's file was unloadable").
	Require("servers/2", "servers/3", "servers/4", "bad/bad-json", "bad/bad-length", "bad/dup-key")

func drawMSPlan(rt *rapid.T) msPlan {
	n := rapid.IntRange(2, 4).Draw(rt, "servers")
	p := msPlan{Reps: rapid.IntRange(4, 10).Draw(rt, "reps")}
	bad := rapid.IntRange(0, n-1).Draw(rt, "bad")
	good := (bad + 1 + rapid.IntRange(0, n-2).Draw(rt, "good")) % n
	for i := 0; i < n; i++ {
		s := msServer{
			KeyLen:  rapid.SampledFrom([]int{16, 32}).Draw(rt, "kl"),
			Mode:    rapid.SampledFrom([]credx.Mode{credx.TCPOnly, credx.UDPOnly, credx.Both}).Draw(rt, "mode"),
			Initial: drawUsers(rt, fmt.Sprintf("init%d", i), true),
		}
		switch {
		case i == bad:
			s.Edit = rapid.SampledFrom([]string{"bad-json", "bad-length", "dup-key"}).Draw(rt, "badkind")
		case i == good:
			s.Edit = "valid"
		default:
			s.Edit = rapid.SampledFrom([]string{"valid", "valid", "untouched", "bad-json"}).Draw(rt, "edit")
		}
		if s.Edit == "valid" {
			s.File = drawUsers(rt, fmt.Sprintf("file%d", i), true)
			// make sure the edit really changes the set
			if len(s.File) == len(s.Initial) {
				same := true
				for n, k := range s.File {
					if ik, ok := s.Initial[n]; !ok || ik != k {
						same = false
					}
				}
				if same {
					if _, has := s.File["alice"]; has {
						delete(s.File, "alice")
					} else {
						s.File["alice"] = (s.Initial["bob"] + 1 + s.Initial["carol"] + s.Initial["dave"]) % nKeys
						for _, k := range s.Initial {
							if k == s.File["alice"] {
								s.File = map[string]int{"alice": s.File["alice"]}
							}
						}
					}
				}
			}
		}
		p.Servers = append(p.Servers, s)
	}
	return p
}

// runMSRep: one repetition. trigger performs the reload-everything request.
func runMSRep(p msPlan, dir string, rep int) (violation string) {
	var specs []credx.ServerSpec
	for i, s := range p.Servers {
		path := filepath.Join(dir, fmt.Sprintf("rep%d-upsks-%d.json", rep, i))
		if err := credx.WriteStore(path, credx.EncodeStore(usersOf(s.KeyLen, s.Initial), true)); err != nil {
			return "HARNESS " + err.Error()
		}
		specs = append(specs, credx.ServerSpec{Name: fmt.Sprintf("srv%d", i), Path: path, KeyLen: s.KeyLen, Mode: s.Mode})
	}
	rigs, err := credx.NewMultiRig(specs, nil)
	if err != nil {
		return "SIG=C08/startup-failed valid stores refused: " + err.Error()
	}
	want := make([]map[string][]byte, len(rigs))
	var edits []string
	for i, s := range p.Servers {
		prev := usersOf(s.KeyLen, s.Initial)
		want[i] = prev
		var content []byte
		switch s.Edit {
		case "untouched":
			edits = append(edits, fmt.Sprintf("srv%d untouched", i))
			continue
		case "valid":
			want[i] = usersOf(s.KeyLen, s.File)
			content = credx.EncodeStore(want[i], true)
		case "bad-json":
			content = credx.EncodeStore(map[string][]byte{"mallory": credx.Key(s.KeyLen, 6)}, true)
			content = content[:len(content)-3]
		case "bad-length":
			content = credx.EncodeStore(map[string][]byte{"mallory": credx.Key(s.KeyLen, 6)[:s.KeyLen-2]}, true)
		case "dup-key":
			content = credx.EncodeStore(map[string][]byte{"mallory": credx.Key(s.KeyLen, 6), "mallet": credx.Key(s.KeyLen, 6)}, true)
		}
		if err := credx.WriteStore(specs[i].Path, content); err != nil {
			return "HARNESS " + err.Error()
		}
		edits = append(edits, fmt.Sprintf("srv%d %s -> %s", i, s.Edit, credx.Show(want[i], s.KeyLen)))
	}
	rigs[0].Mgr.ReloadAll()
	for i, r := range rigs {
		s := p.Servers[i]
		listed, err := r.List()
		if err != nil {
			return "SIG=C08/api-list-broken " + err.Error()
		}
		if !credx.SameUsers(listed, want[i]) {
			return fmt.Sprintf("SIG=C08/%s %d servers on one credential manager; files: [%s]; ReloadAll(); srv%d (file edit: %s) lists %s, expected %s",
				sigReloadSkipped, len(rigs), strings.Join(edits, "; "), i, s.Edit, credx.Show(listed, s.KeyLen), credx.Show(want[i], s.KeyLen))
		}
		if d := liveViewKeys(r, s.KeyLen, s.Mode, listed, []int{0, 1, 2, 3, 6}); d != "" {
			return fmt.Sprintf("SIG=C08/%s files: [%s]; ReloadAll(); srv%d (file edit: %s): %s", sigReloadSkipped, strings.Join(edits, "; "), i, s.Edit, d)
		}
	}
	return ""
}

func TestReloadAllReachesEveryServer(t *testing.T) {
	dir, err := os.MkdirTemp(workDir(), "verif-c08-m-")
	if err != nil {
		t.Fatal(err)
	}
	defer os.RemoveAll(dir)
	rapid.Check(t, func(rt *rapid.T) {
		p := drawMSPlan(rt)
		for rep := 0; rep < p.Reps; rep++ {
			if v := runMSRep(p, dir, rep); v != "" {
				if strings.Contains(v, "SIG=C08/"+sigReloadSkipped) && isKnown(sigReloadSkipped) {
					recMulti.KnownHit(listedSig(sigReloadSkipped))
					continue
				}
				rt.Fatalf("%s\n  (repetition %d of %d)\n  plan: %s", v, rep, p.Reps, p)
			}
		}
		labels := []string{fmt.Sprintf("servers/%d", len(p.Servers))}
		var kinds []string
		for _, s := range p.Servers {
			kinds = append(kinds, s.Edit)
			if strings.HasPrefix(s.Edit, "bad") || s.Edit == "dup-key" {
				labels = append(labels, "bad/"+s.Edit)
			}
		}
		sort.Strings(labels)
		for rep := 0; rep < p.Reps; rep++ {
			recMulti.Case(strings.Join(kinds, ","), true, labels...)
		}
	})
}
