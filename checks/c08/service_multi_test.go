package c08

import (
	"bytes"
	"context"
	"encoding/base64"
	"encoding/json"
	"fmt"
	"io"
	"net"
	"net/http"
	"os"
	"path/filepath"
	"strconv"
	"strings"
	"sync"
	"syscall"
	"testing"
	"time"

	"github.com/database64128/shadowsocks-go/service"
	"go.uber.org/zap"
	"go.uber.org/zap/zapcore"

	"verif/internal/credx"
	"verif/internal/ev"
)

// Real-service variant of reload-all-servers: one service.Manager with 3-4 multi-user ss2022
// servers (TCP listeners, API server), files edited (one made unloadable), SIGUSR1 to the
// process. Outcome lines of the service's log tell when the handler is done (bounded wait).

var recSvcMulti = ev.New("C08", "service-sigusr1-many-servers",
	"real service.Manager from JSON on loopback with 3-4 multi-user servers (TCP listeners) and the API server; one store file is made "+
		"unloadable (truncated JSON / wrong key length / duplicate key, rotating), the others are edited to new valid sets; SIGUSR1 to the "+
		"process; then per server GET users over HTTP and real TCP clients through the relay to an echo server must show the file's set "+
		"where it was loadable and the previous set where it was not. Each case repeated (map order). Non-trivial: always").
	Require("signal-with-one-unloadable-store")

type msvc struct {
	kl       int
	n        int
	paths    []string
	ports    []int
	apiPort  int
	echo     net.Listener
	cancel   context.CancelFunc
	done     chan bool
	mu       sync.Mutex
	outcomes int
	cond     *sync.Cond
}

func startMultiSvc(t *testing.T, kl, n int, dir string, initial []map[string][]byte) (*msvc, error) {
	s := &msvc{kl: kl, n: n, done: make(chan bool, 1)}
	s.cond = sync.NewCond(&s.mu)
	var err error
	if s.echo, err = net.Listen("tcp", "127.0.0.1:0"); err != nil {
		return nil, err
	}
	go func() {
		for {
			c, err := s.echo.Accept()
			if err != nil {
				return
			}
			go func() { io.Copy(c, c); c.Close() }()
		}
	}()
	var servers []string
	proto := map[int]string{16: "2022-blake3-aes-128-gcm", 32: "2022-blake3-aes-256-gcm"}[kl]
	for i := 0; i < n; i++ {
		p := filepath.Join(dir, fmt.Sprintf("upsks-%d.json", i))
		if err := writeAtomically(p, credx.EncodeStore(initial[i], true)); err != nil {
			return nil, err
		}
		s.paths = append(s.paths, p)
		s.ports = append(s.ports, freePort(t))
		servers = append(servers, fmt.Sprintf(`{"name":"srv%d","protocol":%q,"tcpListeners":[{"network":"tcp","address":"127.0.0.1:%d"}],"mtu":1500,"psk":%q,"uPSKStorePath":%q}`,
			i, proto, s.ports[i], base64.StdEncoding.EncodeToString(credx.IPSK(kl)), p))
	}
	s.apiPort = freePort(t)
	cfgJSON := fmt.Sprintf(`{"servers":[%s],"api":{"enabled":true,"listeners":[{"network":"tcp","address":"127.0.0.1:%d"}]}}`, strings.Join(servers, ","), s.apiPort)
	var cfg service.Config
	if err := json.Unmarshal([]byte(cfgJSON), &cfg); err != nil {
		return nil, err
	}
	core := zapcore.NewCore(zapcore.NewJSONEncoder(zap.NewProductionEncoderConfig()), zapcore.AddSync(io.Discard), zap.InfoLevel)
	logger := zap.New(core, zap.Hooks(func(e zapcore.Entry) error {
		if strings.Contains(e.Message, "eload") && strings.Contains(e.Message, "credentials") {
			s.mu.Lock()
			s.outcomes++
			s.cond.Broadcast()
			s.mu.Unlock()
		}
		return nil
	}))
	m, err := cfg.Manager(logger)
	if err != nil {
		t.Fatalf("SIG=C08/service/startup-failed service.Config.Manager refuses valid stores: %v", err)
	}
	ctx, cancel := context.WithCancel(context.Background())
	s.cancel = cancel
	go func() { ok := m.Run(ctx); m.Close(); s.done <- ok }()
	deadline := time.Now().Add(30 * time.Second)
	for {
		select {
		case ok := <-s.done:
			s.done <- ok
			s.stop()
			return nil, fmt.Errorf("service.Manager.Run returned %v before the API answered (port taken?)", ok)
		default:
		}
		if l, err := s.list(0); err == nil && credx.SameUsers(l, initial[0]) {
			if l2, err := s.list(n - 1); err == nil && credx.SameUsers(l2, initial[n-1]) {
				return s, nil
			}
		}
		if time.Now().After(deadline) {
			s.stop()
			return nil, fmt.Errorf("API server did not answer within 30 s")
		}
		time.Sleep(20 * time.Millisecond)
	}
}

func (s *msvc) stop() {
	s.cancel()
	select {
	case <-s.done:
	case <-time.After(60 * time.Second):
	}
	s.echo.Close()
}

func (s *msvc) list(i int) (map[string][]byte, error) {
	c := http.Client{Timeout: 20 * time.Second}
	resp, err := c.Get(fmt.Sprintf("http://127.0.0.1:%d/api/ssm/v1/servers/srv%d/users", s.apiPort, i))
	if err != nil {
		return nil, err
	}
	defer resp.Body.Close()
	b, _ := io.ReadAll(resp.Body)
	if resp.StatusCode != 200 {
		return nil, fmt.Errorf("status %d %s", resp.StatusCode, b)
	}
	return credx.DecodeList(b)
}

// signalAndWait sends SIGUSR1 and waits until the service has logged an outcome for every
// server, or until no further outcome arrives for 3 s after the first one (an implementation
// that stops early logs fewer lines; the views are compared either way).
func (s *msvc) signalAndWait() error {
	s.mu.Lock()
	base := s.outcomes
	s.mu.Unlock()
	if err := syscall.Kill(os.Getpid(), syscall.SIGUSR1); err != nil {
		return err
	}
	hard := time.Now().Add(30 * time.Second)
	var firstSeen time.Time
	for {
		s.mu.Lock()
		got := s.outcomes - base
		s.mu.Unlock()
		if got >= s.n {
			return nil
		}
		if got > 0 && firstSeen.IsZero() {
			firstSeen = time.Now()
		}
		if !firstSeen.IsZero() && time.Since(firstSeen) > 3*time.Second {
			return nil
		}
		if time.Now().After(hard) {
			return fmt.Errorf("no reload outcome logged within 30 s of SIGUSR1")
		}
		time.Sleep(5 * time.Millisecond)
	}
}

func TestServiceSIGUSR1ManyServers(t *testing.T) {
	cases := envIntC08("VERIF_C08_MULTISVC_CASES", 6)
	seed := 0
	if v, err := strconv.Atoi(os.Getenv("VERIF_SEED")); err == nil {
		seed = v
	}
	badKinds := []string{"bad-json", "bad-length", "dup-key"}
	for c := 0; c < cases; c++ {
		kl := []int{16, 32}[(c+seed)%2]
		n := 3 + (c+seed)%2
		bad := (c*2 + seed) % n
		kind := badKinds[(c+seed)%3]
		dir, err := os.MkdirTemp(workDir(), "verif-c08-sm-")
		if err != nil {
			t.Fatal(err)
		}
		initial := make([]map[string][]byte, n)
		want := make([]map[string][]byte, n)
		for i := range initial {
			initial[i] = map[string][]byte{"alice": credx.Key(kl, i%nKeys), "gone-after-reload": credx.Key(kl, (i+1)%nKeys)}
			want[i] = initial[i]
		}
		var s *msvc
		for attempt := 0; attempt < 5 && s == nil; attempt++ {
			if s, err = startMultiSvc(t, kl, n, dir, initial); err != nil {
				t.Logf("HARNESS: start attempt %d: %v", attempt, err)
				s = nil
			}
		}
		if s == nil {
			os.RemoveAll(dir)
			t.Skipf("HARNESS: service did not come up: %v", err)
		}
		var edits []string
		for i := 0; i < n; i++ {
			var content []byte
			if i == bad {
				switch kind {
				case "bad-json":
					content = credx.EncodeStore(map[string][]byte{"mallory": credx.Key(kl, 6)}, true)
					content = content[:len(content)-3]
				case "bad-length":
					content = credx.EncodeStore(map[string][]byte{"mallory": credx.Key(kl, 6)[:kl-1]}, true)
				case "dup-key":
					content = credx.EncodeStore(map[string][]byte{"mallory": credx.Key(kl, 6), "mallet": credx.Key(kl, 6)}, true)
				}
				edits = append(edits, fmt.Sprintf("srv%d %s", i, kind))
			} else {
				want[i] = map[string][]byte{"alice": credx.Key(kl, i%nKeys), fmt.Sprintf("new%d", i): credx.Key(kl, (i+2)%nKeys)}
				content = credx.EncodeStore(want[i], true)
				edits = append(edits, fmt.Sprintf("srv%d -> %s", i, credx.Show(want[i], kl)))
			}
			if err := writeAtomically(s.paths[i], content); err != nil {
				t.Fatal(err)
			}
		}
		v := ""
		if err := s.signalAndWait(); err != nil {
			v = "SIG=C08/service/sigusr1-no-outcome " + err.Error()
		}
		echo := s.echo.Addr().(*net.TCPAddr).AddrPort()
		for i := 0; i < n && v == ""; i++ {
			listed, err := s.list(i)
			if err != nil {
				v = "SIG=C08/service/api-list-broken " + err.Error()
				break
			}
			if !credx.SameUsers(listed, want[i]) {
				v = fmt.Sprintf("SIG=C08/%s real service with %d servers; files: [%s]; SIGUSR1; srv%d lists %s, expected %s", sigReloadSkipped, n, strings.Join(edits, "; "), i, credx.Show(listed, kl), credx.Show(want[i], kl))
				break
			}
			for k := 0; k < nKeys; k++ {
				key := credx.Key(kl, k)
				expect := false
				for _, wk := range want[i] {
					if bytes.Equal(wk, key) {
						expect = true
					}
				}
				if got, why := tcpProbe(kl, s.ports[i], echo, key, expect); got != expect {
					v = fmt.Sprintf("SIG=C08/%s real service; files: [%s]; SIGUSR1; srv%d: tcp client with k%d accepted=%v, expected %v (%s)", sigReloadSkipped, strings.Join(edits, "; "), i, k, got, expect, why)
					break
				}
			}
		}
		s.stop()
		os.RemoveAll(dir)
		if v != "" {
			if strings.Contains(v, "SIG=C08/"+sigReloadSkipped) && isKnown(sigReloadSkipped) {
				recSvcMulti.KnownHit(listedSig(sigReloadSkipped))
				continue
			}
			t.Fatalf("%s", v)
		}
		recSvcMulti.Case(fmt.Sprintf("%d/%d/%s/%d", kl, n, kind, bad), true, "signal-with-one-unloadable-store", fmt.Sprintf("servers/%d", n), "bad/"+kind)
	}
}
