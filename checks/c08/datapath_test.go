package c08

import (
	"bytes"
	"context"
	"encoding/json"
	"fmt"
	"net/http"
	"os"
	"path/filepath"
	"runtime"
	"sort"
	"strconv"
	"sync"
	"sync/atomic"
	"testing"
	"time"

	"github.com/database64128/shadowsocks-go/ss2022"
	"pgregory.net/rapid"

	"verif/internal/credx"
	"verif/internal/ev"
)

// Round 6, gap 3: the data path runs WHILE the user set is being managed. 2-4 goroutines issue
// management requests (POST / PATCH / DELETE / GET of their own users through the ssm handlers,
// or edit-file + POST reload-users) and at the same time 2-8 goroutines keep opening real TCP
// connections / UDP sessions (full round trips) for bystander users that nobody modifies. Every
// bystander's key is in the set at every moment, so every one of those handshakes must be
// accepted and attributed to the right user, and the process must stay alive (the Go runtime
// aborts with "fatal error: concurrent map read and map write" when a lookup map is read while
// it is written: the plan is journaled first, the driver reports the crash with the journal as
// replay). Real time, real parallelism.

type dpPlan struct {
	KeyLen     int        `json:"key_len"`
	Mode       credx.Mode `json:"mode"`
	Kind       string     `json:"kind"`       // api: only API writers; reload: one operator doing edit+reload; mixed: API writers and the operator
	Bystanders int        `json:"bystanders"` // 2..4 users that are never modified
	ByFile     int        `json:"by_file"`    // that many come from the start-up file; the others are POSTed, the last one also PATCHed, before the race
	Writers    int        `json:"writers"`    // API writer goroutines
	Ops        int        `json:"requests"`   // requests per writer / reloads of the operator
	Pool       int        `json:"pool"`       // users each writer cycles through
	Hand       int        `json:"hand"`       // data-path goroutines doing full handshakes
	Look       int        `json:"look"`       // data-path goroutines calling CredStore.LookupUser for the bystanders (what a handshake does first)
	Seed       uint64     `json:"seed"`
}

func (p dpPlan) String() string { b, _ := json.Marshal(p); return string(b) }

func drawDPPlan(rt *rapid.T) dpPlan {
	p := dpPlan{
		KeyLen:     rapid.SampledFrom([]int{16, 32}).Draw(rt, "keyLen"),
		Mode:       rapid.SampledFrom([]credx.Mode{credx.TCPOnly, credx.UDPOnly, credx.Both, credx.Both}).Draw(rt, "mode"),
		Kind:       rapid.SampledFrom([]string{"api", "api", "reload", "mixed"}).Draw(rt, "kind"),
		Bystanders: rapid.IntRange(2, 4).Draw(rt, "bystanders"),
		Writers:    rapid.IntRange(2, 4).Draw(rt, "writers"),
		Ops:        rapid.IntRange(40, 400).Draw(rt, "ops"),
		Pool:       rapid.SampledFrom([]int{2, 8, 40, 200}).Draw(rt, "pool"),
		Hand:       rapid.IntRange(2, 6).Draw(rt, "hand"),
		Look:       rapid.IntRange(0, 2).Draw(rt, "look"),
		Seed:       rapid.Uint64().Draw(rt, "seed"),
	}
	p.ByFile = rapid.IntRange(0, p.Bystanders).Draw(rt, "byfile")
	if p.Kind == "reload" {
		p.Writers = 0
		p.Ops = rapid.IntRange(20, 120).Draw(rt, "reloads")
	}
	return p
}

const dpBudget = 300 * time.Millisecond

type splitmix uint64

func (s *splitmix) next() uint64 {
	*s += 0x9e3779b97f4a7c15
	z := uint64(*s)
	z = (z ^ (z >> 30)) * 0xbf58476d1ce4e5b9
	z = (z ^ (z >> 27)) * 0x94d049bb133111eb
	return z ^ (z >> 31)
}

type dpResult struct {
	violation  string
	handshakes int64 // bystander handshakes completed
	overlapped int64 // ... of which started while management requests were in flight
	lookups    int64
	requests   int64
	labels     []string
}

func bystanderName(i int) string { return fmt.Sprintf("bystander%d", i) }

func runDPPlan(p dpPlan) (res dpResult) {
	kl := p.KeyLen
	dir, err := os.MkdirTemp(workDir(), "verif-c08-d-")
	if err != nil {
		return dpResult{violation: "HARNESS tempdir: " + err.Error()}
	}
	defer os.RemoveAll(dir)
	path := filepath.Join(dir, "upsks.json")
	byKey := func(i int) []byte { return credx.Key(kl, 100+i) }
	initial := map[string][]byte{}
	for i := 0; i < p.ByFile; i++ {
		initial[bystanderName(i)] = byKey(i)
	}
	if err := credx.WriteStore(path, credx.EncodeStore(initial, true)); err != nil {
		return dpResult{violation: "HARNESS write: " + err.Error()}
	}
	rig, err := credx.NewRig(path, kl, p.Mode, nil)
	if err != nil {
		return dpResult{violation: "HARNESS rig: " + err.Error()}
	}
	// With an operator in the plan the store file belongs to the operator for the whole race: the save
	// goroutine is not started (a debounced save landing between the operator's edit and its reload
	// request is a different question from the one asked here). API-only plans run with it.
	if p.Kind == "api" {
		ctx, cancel := context.WithCancel(context.Background())
		rig.Start(ctx)
		defer func() { cancel(); rig.Stop() }()
	}
	bystanders := map[string][]byte{}
	for n, k := range initial {
		bystanders[n] = k
	}
	for i := p.ByFile; i < p.Bystanders; i++ {
		k := byKey(i)
		if i == p.Bystanders-1 { // the last one gets its key through PATCH
			k = credx.Key(kl, 200+i)
		}
		if code, body := rig.Add(bystanderName(i), k); !accepted(code) {
			return dpResult{violation: fmt.Sprintf("SIG=C08/status-mismatch/add POST users %s -> %d %s", bystanderName(i), code, body)}
		}
		if i == p.Bystanders-1 {
			k = byKey(i)
			if code, body := rig.Update(bystanderName(i), k); !accepted(code) {
				return dpResult{violation: fmt.Sprintf("SIG=C08/status-mismatch/update PATCH users/%s -> %d %s", bystanderName(i), code, body)}
			}
		}
		bystanders[bystanderName(i)] = k
	}
	type by struct {
		name string
		key  []byte
		hash [ss2022.IdentityHeaderLength]byte
		src  string
	}
	var bys []by
	for i := 0; i < p.Bystanders; i++ {
		src := "file-loaded"
		if i >= p.ByFile {
			src = "api-added"
			if i == p.Bystanders-1 {
				src = "api-updated"
			}
		}
		bys = append(bys, by{bystanderName(i), byKey(i), ss2022.PSKHash(byKey(i)), src})
	}

	var first atomic.Pointer[string]
	fail := func(format string, a ...any) {
		s := fmt.Sprintf(format, a...)
		first.CompareAndSwap(nil, &s)
	}
	var mgmtRunning atomic.Int32 // number of management goroutines still issuing requests
	var mgmtDone atomic.Bool
	var handshakes, overlapped, lookups, requests atomic.Int64
	start := make(chan struct{})
	// the race lasts until every management goroutine has issued its requests, at most dpBudget
	deadline := time.Now().Add(dpBudget)

	// ---- management side
	writerModels := make([]map[string][]byte, p.Writers)
	var retired [][]byte // a few keys that were deleted / rotated away (must be refused afterwards)
	var retiredMu sync.Mutex
	var wgM sync.WaitGroup
	checkStatus := p.Kind == "api" // in mixed plans the operator's reloads wipe the writers' users under their feet
	nMgmt := p.Writers
	if p.Kind != "api" {
		nMgmt++
	}
	mgmtRunning.Store(int32(nMgmt))
	for g := 0; g < p.Writers; g++ {
		model := map[string][]byte{}
		writerModels[g] = model
		wgM.Go(func() {
			defer mgmtRunning.Add(-1)
			rng := splitmix(p.Seed + uint64(g)*7919)
			keyCtr := 0
			<-start
			for i := 0; i < p.Ops && first.Load() == nil && time.Now().Before(deadline); i++ {
				name := fmt.Sprintf("w%d-u%d", g, rng.next()%uint64(p.Pool))
				old, exists := model[name]
				var code int
				var body []byte
				var what string
				switch r := rng.next() % 10; {
				case !exists:
					keyCtr++
					k := credx.Key(kl, 1000+g*100000+keyCtr)
					what = "POST users " + name
					code, body = rig.Add(name, k)
					model[name] = k
				case r < 4:
					keyCtr++
					k := credx.Key(kl, 1000+g*100000+keyCtr)
					what = "PATCH users/" + name
					code, body = rig.Update(name, k)
					model[name] = k
					retiredMu.Lock()
					if len(retired) < 6 {
						retired = append(retired, old)
					}
					retiredMu.Unlock()
				case r < 8:
					what = "DELETE users/" + name
					code, body = rig.Delete(name)
					delete(model, name)
					retiredMu.Lock()
					if len(retired) < 6 {
						retired = append(retired, old)
					}
					retiredMu.Unlock()
				default:
					what = "GET users/" + name
					var k []byte
					code, k = rig.GetUser(name)
					if code == http.StatusOK && checkStatus && !bytes.Equal(k, old) {
						fail("SIG=C08/get-user/wrong-user %s (a user only this goroutine manages) reports key %s, want %s", what, credx.KeyName(k, kl), credx.KeyName(old, kl))
					}
				}
				requests.Add(1)
				if checkStatus && !accepted(code) {
					fail("SIG=C08/status-mismatch/concurrent-with-handshakes %s (a user only this goroutine manages; valid by construction) answered %d %s", what, code, body)
				}
			}
		})
	}
	opFile := map[string][]byte{}
	if p.Kind != "api" {
		wgM.Go(func() {
			defer mgmtRunning.Add(-1)
			rng := splitmix(p.Seed ^ 0xabcdef)
			<-start
			n := p.Ops
			if p.Kind == "mixed" {
				n = max(3, p.Ops/20)
			}
			for i := 0; i < n && first.Load() == nil && time.Now().Before(deadline); i++ {
				doc := map[string][]byte{}
				for nme, k := range bystanders {
					doc[nme] = k
				}
				for j, m := 0, int(rng.next()%uint64(p.Pool+1)); j < m; j++ {
					doc[fmt.Sprintf("op-u%d", j)] = credx.Key(kl, 500000+i*1000+j)
				}
				b := credx.EncodeStore(doc, i%2 == 0)
				b = append(b, bytes.Repeat([]byte{' '}, i%7)...) // never byte-identical to the previous document
				tmp := path + ".edit"
				if err := os.WriteFile(tmp, b, 0o644); err != nil {
					fail("HARNESS write: %v", err)
					return
				}
				if err := os.Rename(tmp, path); err != nil {
					fail("HARNESS rename: %v", err)
					return
				}
				code, body := rig.Reload()
				requests.Add(1)
				if !accepted(code) {
					fail("SIG=C08/valid-file-refused POST reload-users answered %d %s for a valid document while handshakes were running", code, body)
					return
				}
				opFile = doc
			}
		})
	}

	// ---- data path side
	var wgD sync.WaitGroup
	for d := 0; d < p.Hand; d++ {
		wgD.Go(func() {
			<-start
			for i := 0; first.Load() == nil; i++ {
				done := mgmtDone.Load()
				if done && i >= 4 {
					return
				}
				b := bys[(i+d)%len(bys)]
				useUDP := p.Mode == credx.UDPOnly || (p.Mode == credx.Both && (i/len(bys)+d)%2 == 1)
				during := mgmtRunning.Load() > 0
				var pr credx.Probe
				tr := "tcp"
				if useUDP {
					tr = "udp"
					pr = rig.ProbeUDP(b.key)
				} else {
					pr = rig.ProbeTCP(b.key)
				}
				when := "after the management requests had finished"
				if during {
					when = "while management requests on OTHER users were in flight"
				}
				switch {
				case !pr.OK:
					fail("SIG=C08/listed-key-refused/during-management %s client of %s (%s, never modified, in the set all the time) was refused %s: %s", tr, b.name, b.src, when, pr.Err)
				case pr.User != b.name:
					fail("SIG=C08/wrong-attribution/during-management %s client of %s (never modified) was attributed to %q %s", tr, b.name, pr.User, when)
				case !pr.ReplyOK:
					fail("SIG=C08/reply-round-trip-failed/during-management %s client of %s (never modified) was accepted but the reply did not make the round trip %s: %s", tr, b.name, when, pr.ReplyErr)
				}
				handshakes.Add(1)
				if during {
					overlapped.Add(1)
				}
			}
		})
	}
	for d := 0; d < p.Look; d++ {
		wgD.Go(func() {
			<-start
			for i := 0; first.Load() == nil && !mgmtDone.Load(); i++ {
				b := bys[(i+d)%len(bys)]
				for _, st := range []*ss2022.CredStore{tcpStore(rig), udpStore(rig)} {
					if st == nil {
						continue
					}
					c, ok := st.LookupUser(b.hash)
					if !ok || c.Name != b.name {
						fail("SIG=C08/listed-key-refused/during-management CredStore.LookupUser for %s (never modified) -> found=%v name=%q while management requests on other users were in flight", b.name, ok, c.Name)
					}
				}
				lookups.Add(1)
				if i%16 == 15 {
					runtime.Gosched() // a receive loop does other work between lookups
				}
			}
		})
	}
	close(start)
	wgM.Wait()
	mgmtDone.Store(true)
	wgD.Wait()
	res.handshakes, res.overlapped, res.lookups, res.requests = handshakes.Load(), overlapped.Load(), lookups.Load(), requests.Load()
	if v := first.Load(); v != nil {
		res.violation = *v
		return res
	}

	// ---- quiescent: the three views agree (file: after the save, see below)
	listed, err := rig.List()
	if err != nil {
		res.violation = "SIG=C08/api-list-broken " + err.Error()
		return res
	}
	if p.Kind != "mixed" {
		want := map[string][]byte{}
		for n, k := range bystanders {
			want[n] = k
		}
		for _, m := range writerModels {
			for n, k := range m {
				want[n] = k
			}
		}
		if p.Kind == "reload" {
			want = opFile
		}
		if !credx.SameUsers(listed, want) {
			res.violation = fmt.Sprintf("SIG=C08/api-list-mismatch after the concurrent phase the API lists %d users, the acknowledged requests give %d: listed %.600s want %.600s",
				len(listed), len(want), credx.Show(listed, kl), credx.Show(want, kl))
			return res
		}
	}
	for n, k := range bystanders {
		if lk, ok := listed[n]; !ok || !bytes.Equal(lk, k) {
			res.violation = fmt.Sprintf("SIG=C08/api-list-mismatch bystander %s is not listed with its key after the concurrent phase", n)
			return res
		}
	}
	probe := func(key []byte, wantUser string, listedKey bool) string {
		for _, tr := range []string{"tcp", "udp"} {
			var pr credx.Probe
			if tr == "tcp" {
				if !p.Mode.HasTCP() {
					continue
				}
				pr = rig.ProbeTCP(key)
			} else {
				if !p.Mode.HasUDP() {
					continue
				}
				pr = rig.ProbeUDP(key)
			}
			switch {
			case listedKey && !pr.OK:
				return fmt.Sprintf("SIG=C08/listed-key-refused after the concurrent phase the %s client of listed user %s is refused: %s", tr, wantUser, pr.Err)
			case listedKey && pr.User != wantUser:
				return fmt.Sprintf("SIG=C08/wrong-attribution after the concurrent phase the %s client of %s is attributed to %q", tr, wantUser, pr.User)
			case listedKey && !pr.ReplyOK:
				return fmt.Sprintf("SIG=C08/reply-round-trip-failed after the concurrent phase: %s client of %s: %s", tr, wantUser, pr.ReplyErr)
			case !listedKey && pr.OK:
				return fmt.Sprintf("SIG=C08/accepted-key-not-in-set after the concurrent phase a %s client with a deleted / rotated-away key is accepted as %q", tr, pr.User)
			}
		}
		return ""
	}
	names := make([]string, 0, len(listed))
	for n := range listed {
		names = append(names, n)
	}
	sort.Strings(names)
	if len(names) > 24 {
		names = append(names[:12], names[len(names)-12:]...)
	}
	for _, n := range names {
		if v := probe(listed[n], n, true); v != "" {
			res.violation = v
			return res
		}
	}
	for _, k := range retired {
		still := false
		for _, lk := range listed {
			still = still || bytes.Equal(lk, k)
		}
		if !still {
			if v := probe(k, "", false); v != "" {
				res.violation = v
				return res
			}
		}
	}
	res.labels = append(res.labels, "kind/"+p.Kind, "mode/"+p.Mode.String(), fmt.Sprintf("keylen/%d", kl),
		fmt.Sprintf("writers/%d", p.Writers), fmt.Sprintf("handshakers/%d", p.Hand), fmt.Sprintf("pool/%d", p.Pool))
	if res.overlapped >= int64(p.Hand) {
		res.labels = append(res.labels, "bystander-handshakes-while-management-in-flight")
		srcs := map[string]bool{}
		for _, b := range bys {
			if !srcs[b.src] {
				srcs[b.src] = true
				res.labels = append(res.labels, "bystander/"+b.src)
			}
		}
		if p.Mode.HasUDP() {
			res.labels = append(res.labels, "udp-sessions-while-management-in-flight")
		}
		if p.Mode.HasTCP() {
			res.labels = append(res.labels, "tcp-connections-while-management-in-flight")
		}
	}
	if p.Look > 0 {
		res.labels = append(res.labels, "lookup-spinners")
	}
	return res
}

func tcpStore(r *credx.Rig) *ss2022.CredStore {
	if r.TCP == nil {
		return nil
	}
	return &r.TCP.CredStore
}

func udpStore(r *credx.Rig) *ss2022.CredStore {
	if r.UDP == nil {
		return nil
	}
	return &r.UDP.CredStore
}

var recDP = ev.New("C08", "data-path-during-management",
	"rapid plans, real time and real parallelism on a fresh started multi-user (identity-header) server each: 2-4 bystander users "+
		"(file-loaded / POSTed / PATCHed before the race) that nobody touches; 2-4 writer goroutines each cycling POST/PATCH/DELETE/GET through "+
		"the ssm handlers over their own pool of 2-200 users (40-400 requests each, every one valid by construction), and/or an operator "+
		"goroutine doing edit-file + POST reload-users with documents that always contain the bystanders; meanwhile 2-6 goroutines open real "+
		"TCP connections / UDP sessions (full round trips) for the bystanders and 0-2 goroutines call CredStore.LookupUser for them. Every "+
		"bystander handshake and lookup must succeed and name the right user, every writer request must be acknowledged, and afterwards the "+
		"API list must be the union of what was acknowledged, listed users accepted, deleted/rotated-away keys refused. The plan is journaled "+
		"before it runs (a runtime abort on a concurrently written map kills the process). Non-trivial: at least one bystander handshake per "+
		"data goroutine started while management requests were in flight. Distinct key = kind + stores + goroutine counts + pool").
	Require("bystander-handshakes-while-management-in-flight", "tcp-connections-while-management-in-flight", "udp-sessions-while-management-in-flight",
		"kind/api", "kind/reload", "kind/mixed", "bystander/file-loaded", "bystander/api-added", "bystander/api-updated",
		"mode/tcp", "mode/udp", "mode/both", "lookup-spinners")

var dpFailed = map[string]dpResult{}

func TestDataPathDuringManagement(t *testing.T) {
	journal := ""
	if d := os.Getenv("VERIF_WORK"); d != "" {
		journal = filepath.Join(d, "journal-datapath-"+strconv.Itoa(os.Getpid())+".json")
		defer os.Remove(journal)
	}
	rapid.Check(t, func(rt *rapid.T) {
		p := drawDPPlan(rt)
		if raceBuild {
			// under the race detector a handshake costs ~100x: fewer requests, same structure
			p.Ops = 20 + p.Ops/10
			p.Hand = min(p.Hand, 3)
		}
		if os.Getenv("VERIF_C08_DP_NOLOOK") != "" {
			p.Look = 0 // development aid: handshakes only
		}
		if journal != "" {
			_ = os.WriteFile(journal, []byte(p.String()), 0o644)
		}
		t0 := time.Now()
		// schedules are not reproducible: a plan that has failed once in this process keeps its failure, so
		// that rapid's confirmation re-run of the same plan reports the same violation (shrinking still
		// executes every smaller plan for real)
		res, again := dpFailed[p.String()]
		if !again {
			res = runDPPlan(p)
			if res.violation != "" {
				dpFailed[p.String()] = res
			}
		}
		if os.Getenv("VERIF_C08_DP_TRACE") != "" {
			fmt.Fprintf(os.Stderr, "dp %v hs=%d req=%d look=%d %s\n", time.Since(t0).Round(time.Millisecond), res.handshakes, res.requests, res.lookups, p)
		}
		if res.violation != "" {
			rt.Fatalf("%s\n  (%d bystander handshakes completed, %d of them begun during management; %d management requests)\n  plan: %s",
				res.violation, res.handshakes, res.overlapped, res.requests, p)
		}
		nt := res.overlapped >= int64(p.Hand)
		recDP.Case(fmt.Sprintf("%s/%v/w%d/h%d/l%d/p%d", p.Kind, p.Mode, p.Writers, p.Hand, p.Look, p.Pool), nt, res.labels...)
		recDP.Label("bystander-handshakes", res.handshakes)
		recDP.Label("bystander-handshakes-begun-during-management", res.overlapped)
		recDP.Label("bystander-lookups", res.lookups)
		recDP.Label("management-requests", res.requests)
		if nt {
			recDP.Sample(map[string]any{"plan": p, "handshakes": res.handshakes, "during": res.overlapped, "requests": res.requests})
		}
	})
}
