package c08

import (
	"encoding/json"
	"os"
	"regexp"
	"strings"
	"testing"

	"verif/internal/credx"
)

// Frozen minimal history of the duplicate-key defect (fixed in /repo by a59c3bb):
// add(alice,k0) ; add(bob,k0) must be refused. Before the fix it was accepted, delete(bob) then
// locked alice out while she stayed listed and saved, and the saved store could not be loaded.
func TestRegressionDuplicateKey(t *testing.T) {
	for _, kl := range []int{16, 32} {
		for _, mode := range []credx.Mode{credx.TCPOnly, credx.UDPOnly, credx.Both} {
			for _, second := range []step{{Op: "add", Name: "bob", Key: 0, Settle: true}, {Op: "update", Name: "bob", Key: 0, Settle: true}} {
				p := plan{KeyLen: kl, Mode: mode, Initial: map[string]int{"alice": 0}, Steps: []step{second, {Op: "delete", Name: "bob", Settle: true}, {Op: "restart"}}}
				if second.Op == "update" {
					p.Initial["bob"] = 1
				}
				out := runPlan(t, p)
				if out.violation != "" {
					t.Errorf("%s\n  plan: %s", out.violation, p)
				}
				finishCase(recSeq, p, out)
			}
		}
	}
}

// Frozen schedule of the live-map ordering defect: add(bob) is held between its cache update
// and its live-map update (the harness holds the live store's lock), delete(bob) runs to
// completion the moment the lock is released; both are acknowledged; bob must then be refused.
func TestRegressionAddDeleteOrdering(t *testing.T) {
	rigs := map[string]*crig{}
	defer func() {
		for _, c := range rigs {
			c.close()
		}
	}()
	for _, p := range []cplan{
		{KeyLen: 16, Mode: credx.TCPOnly, Initial: map[string]int{}, Ops: []cop{{Op: "add", Name: "bob", Key: 2}, {Op: "delete", Name: "bob"}}, Gate: "tcp", Lead: 0, Tight: true, Reps: 150},
		{KeyLen: 32, Mode: credx.UDPOnly, Initial: map[string]int{"bob": 2}, Ops: []cop{{Op: "update", Name: "bob", Key: 3}, {Op: "delete", Name: "bob"}}, Gate: "udp", Lead: 0, Tight: true, Reps: 150},
		{KeyLen: 16, Mode: credx.Both, Initial: map[string]int{}, File: map[string]int{"alice": 1}, Ops: []cop{{Op: "add", Name: "bob", Key: 2}, {Op: "reload"}}, Gate: "tcp", Lead: 0, Tight: true, Reps: 150},
	} {
		if p.File != nil && isKnown(sigRaceLoad) {
			continue
		}
		if v := runCPlan(rigs, p, recConc); v != "" {
			t.Errorf("%s\n  plan: %s", v, p)
		}
	}
}

var planLine = regexp.MustCompile(`(?m)plan: (\{.*\})\s*$`)

// TestReplayRecorded re-runs the plan found in a recorded failure (bin/check --replay FILE):
// a journal written before a crash (the plan JSON itself) or a failure log containing "plan: {…}".
func TestReplayRecorded(t *testing.T) {
	path := os.Getenv("VERIF_REPLAY")
	if path == "" {
		t.Skip("no VERIF_REPLAY")
	}
	b, err := os.ReadFile(path)
	if err != nil {
		t.Fatal(err)
	}
	doc := strings.TrimSpace(string(b))
	if !strings.HasPrefix(doc, "{") {
		m := planLine.FindAllStringSubmatch(doc, -1)
		if m == nil {
			t.Log("no plan in the file; running the frozen regressions")
			t.Run("dup", TestRegressionDuplicateKey)
			t.Run("ordering", TestRegressionAddDeleteOrdering)
			return
		}
		doc = m[len(m)-1][1]
	}
	var probe map[string]json.RawMessage
	if err := json.Unmarshal([]byte(doc), &probe); err != nil {
		t.Fatalf("cannot parse plan: %v", err)
	}
	switch {
	case probe["bystanders"] != nil: // round 6: data path during management (schedules are not reproducible: repeat)
		var p dpPlan
		if err := json.Unmarshal([]byte(doc), &p); err != nil {
			t.Fatal(err)
		}
		for i := 0; i < 50; i++ {
			if res := runDPPlan(p); res.violation != "" {
				t.Fatalf("%s\n  plan: %s", res.violation, p)
			}
		}
	case probe["families"] != nil: // round 6: unusual names and documents
		var p nplan
		if err := json.Unmarshal([]byte(doc), &p); err != nil {
			t.Fatal(err)
		}
		if out := runNPlan(t, p); out.violation != "" {
			t.Errorf("%s\n  plan: %s", out.violation, p)
		}
	case probe["ops"] != nil:
		var p cplan
		if err := json.Unmarshal([]byte(doc), &p); err != nil {
			t.Fatal(err)
		}
		if p.Reps < 200 {
			p.Reps = 200 // schedules are not reproducible: repeat
		}
		rigs := map[string]*crig{}
		if v := runCPlan(rigs, p, recConc); v != "" {
			t.Errorf("%s\n  plan: %s", v, p)
		}
		for _, c := range rigs {
			c.close()
		}
	case probe["steps"] != nil && probe["mode"] != nil:
		var p plan
		if err := json.Unmarshal([]byte(doc), &p); err != nil {
			t.Fatal(err)
		}
		if out := runPlan(t, p); out.violation != "" {
			t.Errorf("%s\n  plan: %s", out.violation, p)
		}
	default:
		var p svcPlan
		if err := json.Unmarshal([]byte(doc), &p); err != nil {
			t.Fatal(err)
		}
		if v := runSvcPlan(t, p); v != "" {
			t.Errorf("%s", v)
		}
	}
}
