package c08

import (
	"bytes"
	"context"
	"encoding/base64"
	"encoding/json"
	"fmt"
	"io"
	"net"
	"net/http"
	"net/netip"
	"os"
	"path/filepath"
	"strconv"
	"strings"
	"sync"
	"syscall"
	"testing"
	"time"

	"github.com/database64128/shadowsocks-go/conn"
	"github.com/database64128/shadowsocks-go/netio"
	"github.com/database64128/shadowsocks-go/service"
	"github.com/database64128/shadowsocks-go/ss2022"
	"go.uber.org/zap"
	"go.uber.org/zap/zapcore"
	"pgregory.net/rapid"

	"verif/internal/credx"
	"verif/internal/ev"
)

// Service-level part of C08: a real service.Manager started from JSON on loopback sockets, with
// the real API server and the SIGUSR1 reload path (service/reload_unix.go). Real time.

type netDialer struct{}

func (netDialer) DialStream(ctx context.Context, addr conn.Addr, payload []byte) (netio.Conn, error) {
	var d net.Dialer
	c, err := d.DialContext(ctx, "tcp", addr.String())
	if err != nil {
		return nil, err
	}
	if len(payload) > 0 {
		if _, err := c.Write(payload); err != nil {
			c.Close()
			return nil, err
		}
	}
	return c.(*net.TCPConn), nil
}

func (d netDialer) NewStreamDialer() (netio.StreamDialer, netio.StreamDialerInfo) {
	return d, netio.StreamDialerInfo{Name: "net", NativeInitialPayload: true}
}

type svc struct {
	kl       int
	path     string
	port     int // ss server, tcp+udp
	apiPort  int
	echoTCP  net.Listener
	echoUDP  *net.UDPConn
	cancel   context.CancelFunc
	done     chan bool
	mu       sync.Mutex
	reloaded int // log entries "Reloaded server credentials"
	failed   int // log entries "Failed to reload server credentials"
	cond     *sync.Cond
	prev     map[string][]byte // the set at the previous comparison
	tcp, udp bool              // which transports the managed server has
}

func freePort(t *testing.T) int {
	l, err := net.Listen("tcp", "127.0.0.1:0")
	if err != nil {
		t.Skipf("HARNESS: cannot listen on loopback: %v", err)
	}
	p := l.Addr().(*net.TCPAddr).Port
	// also make sure the UDP port of the same number is free
	u, err := net.ListenPacket("udp", "127.0.0.1:"+strconv.Itoa(p))
	l.Close()
	if err != nil {
		return freePort(t)
	}
	u.Close()
	return p
}

// startSvc starts the service; ports are picked by bind-and-close, so another process on this
// shared machine can take one in between: a service that does not come up is torn down and
// retried on fresh ports. If it never comes up the test is skipped (the stage then lacks its
// required label and the run is inconclusive, not a violation).
func startSvc(t *testing.T, kl int, transports string, dir string, initial map[string][]byte) *svc {
	var err error
	for attempt := 0; attempt < 5; attempt++ {
		var s *svc
		if s, err = startSvcOnce(t, kl, transports, dir, initial); err == nil {
			return s
		}
		t.Logf("HARNESS: service start attempt %d: %v", attempt, err)
	}
	t.Skipf("HARNESS: service did not come up in 5 attempts: %v", err)
	return nil
}

func startSvcOnce(t *testing.T, kl int, transports string, dir string, initial map[string][]byte) (*svc, error) {
	s := &svc{kl: kl, path: filepath.Join(dir, "upsks.json"), done: make(chan bool, 1)}
	s.cond = sync.NewCond(&s.mu)
	if err := writeAtomically(s.path, credx.EncodeStore(initial, true)); err != nil {
		return nil, err
	}
	var err error
	if s.echoTCP, err = net.Listen("tcp", "127.0.0.1:0"); err != nil {
		return nil, err
	}
	go func() {
		for {
			c, err := s.echoTCP.Accept()
			if err != nil {
				return
			}
			go func() { io.Copy(c, c); c.Close() }()
		}
	}()
	if s.echoUDP, err = net.ListenUDP("udp", &net.UDPAddr{IP: net.IPv4(127, 0, 0, 1)}); err != nil {
		return nil, err
	}
	go func() {
		b := make([]byte, 2048)
		for {
			n, a, err := s.echoUDP.ReadFromUDPAddrPort(b)
			if err != nil {
				return
			}
			s.echoUDP.WriteToUDPAddrPort(b[:n], a)
		}
	}()
	s.port, s.apiPort = freePort(t), freePort(t)
	proto := map[int]string{16: "2022-blake3-aes-128-gcm", 32: "2022-blake3-aes-256-gcm"}[kl]
	// transport class of the managed server: both listeners, or only one of them (the other
	// transport is then disabled: the credential manager gets no store for it)
	s.tcp, s.udp = transports != "udp-only", transports != "tcp-only"
	listeners := ""
	if s.tcp {
		listeners += fmt.Sprintf(`"tcpListeners":[{"network":"tcp","address":"127.0.0.1:%d"}],`, s.port)
	}
	if s.udp {
		listeners += fmt.Sprintf(`"udpListeners":[{"network":"udp","address":"127.0.0.1:%d"}],`, s.port)
	}
	cfgJSON := fmt.Sprintf(`{
	 "servers":[{"name":"ss","protocol":%q,
	   %s
	   "mtu":1500,"psk":%q,"uPSKStorePath":%q}],
	 "api":{"enabled":true,"listeners":[{"network":"tcp","address":"127.0.0.1:%d"}]}
	}`, proto, listeners, base64.StdEncoding.EncodeToString(credx.IPSK(kl)), s.path, s.apiPort)
	var cfg service.Config
	if err := json.Unmarshal([]byte(cfgJSON), &cfg); err != nil {
		return nil, err
	}
	core := zapcore.NewCore(zapcore.NewJSONEncoder(zap.NewProductionEncoderConfig()), zapcore.AddSync(io.Discard), zap.InfoLevel)
	logger := zap.New(core, zap.Hooks(func(e zapcore.Entry) error {
		s.mu.Lock()
		switch e.Message {
		case "Reloaded server credentials":
			s.reloaded++
		case "Failed to reload server credentials":
			s.failed++
		}
		s.cond.Broadcast()
		s.mu.Unlock()
		return nil
	}))
	m, err := cfg.Manager(logger)
	if err != nil {
		t.Fatalf("SIG=C08/service/startup-failed service.Config.Manager refuses a valid store %q: %v", credx.EncodeStore(initial, true), err)
	}
	ctx, cancel := context.WithCancel(context.Background())
	s.cancel = cancel
	go func() { ok := m.Run(ctx); m.Close(); s.done <- ok }()
	// wait until the API answers (bounded liveness, generous); a service whose Run has returned
	// could not bind its sockets
	deadline := time.Now().Add(30 * time.Second)
	for {
		select {
		case ok := <-s.done:
			s.done <- ok
			s.stop()
			return nil, fmt.Errorf("service.Manager.Run returned %v before the API answered (port taken?)", ok)
		default:
		}
		if l, err := s.apiList(); err == nil && credx.SameUsers(l, initial) {
			select {
			case ok := <-s.done: // somebody else's API answered on that port
				s.done <- ok
				s.stop()
				return nil, fmt.Errorf("service.Manager.Run returned %v", ok)
			default:
			}
			return s, nil
		}
		if time.Now().After(deadline) {
			s.stop()
			return nil, fmt.Errorf("API server did not answer within 30 s")
		}
		time.Sleep(20 * time.Millisecond)
	}
}

func (s *svc) stop() {
	s.cancel()
	select {
	case <-s.done:
	case <-time.After(60 * time.Second):
	}
	s.echoTCP.Close()
	s.echoUDP.Close()
}

func writeAtomically(path string, b []byte) error {
	tmp := path + ".edit"
	if err := os.WriteFile(tmp, b, 0o644); err != nil {
		return err
	}
	return os.Rename(tmp, path)
}

func (s *svc) api(method, path string, body any) (int, []byte, error) {
	var rd io.Reader
	if body != nil {
		b, _ := json.Marshal(body)
		rd = bytes.NewReader(b)
	}
	req, err := http.NewRequest(method, fmt.Sprintf("http://127.0.0.1:%d/api/ssm/v1%s", s.apiPort, path), rd)
	if err != nil {
		return 0, nil, err
	}
	c := http.Client{Timeout: 20 * time.Second}
	resp, err := c.Do(req)
	if err != nil {
		return 0, nil, err
	}
	defer resp.Body.Close()
	b, _ := io.ReadAll(resp.Body)
	return resp.StatusCode, b, nil
}

// apiRaw sends a request whose path (below the API root) is already percent-encoded and whose body is given as bytes.
func (s *svc) apiRaw(method, escapedPath string, body []byte) (int, []byte, error) {
	var rd io.Reader
	if body != nil {
		rd = bytes.NewReader(body)
	}
	req, err := http.NewRequest(method, fmt.Sprintf("http://127.0.0.1:%d/api/ssm/v1%s", s.apiPort, escapedPath), rd)
	if err != nil {
		return 0, nil, err
	}
	c := http.Client{Timeout: 20 * time.Second, CheckRedirect: func(*http.Request, []*http.Request) error { return http.ErrUseLastResponse }}
	resp, err := c.Do(req)
	if err != nil {
		return 0, nil, err
	}
	defer resp.Body.Close()
	b, _ := io.ReadAll(resp.Body)
	return resp.StatusCode, b, nil
}

func (s *svc) apiList() (map[string][]byte, error) {
	code, b, err := s.api("GET", "/servers/ss/users", nil)
	if err != nil {
		return nil, err
	}
	if code != 200 {
		return nil, fmt.Errorf("status %d %s", code, b)
	}
	return credx.DecodeList(b)
}

// sigusr1 sends the reload signal to this process and waits for the service's log line that
// reports the outcome. Returns whether the reload was reported as successful.
func (s *svc) sigusr1() (ok bool, err error) {
	s.mu.Lock()
	r0, f0 := s.reloaded, s.failed
	s.mu.Unlock()
	if err := syscall.Kill(os.Getpid(), syscall.SIGUSR1); err != nil {
		return false, err
	}
	timer := time.AfterFunc(30*time.Second, func() { s.mu.Lock(); s.cond.Broadcast(); s.mu.Unlock() })
	defer timer.Stop()
	deadline := time.Now().Add(30 * time.Second)
	s.mu.Lock()
	defer s.mu.Unlock()
	for s.reloaded == r0 && s.failed == f0 {
		if time.Now().After(deadline) {
			return false, fmt.Errorf("no reload outcome logged within 30 s of SIGUSR1")
		}
		s.cond.Wait()
	}
	return s.reloaded > r0, nil
}

// tcpAccepts: does a real client with this key get its bytes echoed through the server?
func (s *svc) tcpAccepts(key []byte, expect bool) (bool, string) {
	return tcpProbe(s.kl, s.port, s.echoTCP.Addr().(*net.TCPAddr).AddrPort(), key, expect)
}

// tcpProbe: a real client with this key connects to the ss2022 server on the loopback port and
// asks for the echo target; accepted iff its bytes come back.
func tcpProbe(kl, port int, echo netip.AddrPort, key []byte, expect bool) (bool, string) {
	ccc, err := ss2022.NewClientCipherConfig(key, [][]byte{credx.IPSK(kl)}, false)
	if err != nil {
		return false, err.Error()
	}
	serverAddr := conn.AddrFromIPPort(netip.AddrPortFrom(netip.MustParseAddr("127.0.0.1"), uint16(port)))
	target := conn.AddrFromIPPort(echo)
	cc := ss2022.StreamClientConfig{Name: "c", InnerClient: netDialer{}, Addr: serverAddr, CipherConfig: ccc}
	ctx, cancel := context.WithTimeout(context.Background(), 20*time.Second)
	defer cancel()
	msg := []byte("c08-service-probe")
	c, err := cc.NewStreamClient().DialStream(ctx, target, msg)
	if err != nil {
		return false, "dial: " + err.Error()
	}
	defer c.Close()
	wait := 20 * time.Second // generous: an expected acceptance must not be missed under load
	if !expect {
		wait = 1500 * time.Millisecond // a refusal shows as close/reset, normally at once
	}
	c.SetReadDeadline(time.Now().Add(wait))
	buf := make([]byte, len(msg))
	if _, err := io.ReadFull(c, buf); err != nil {
		return false, "read: " + err.Error()
	}
	return bytes.Equal(buf, msg), ""
}

// udpAccepts: does a real client session with this key get its packet echoed through the server?
func (s *svc) udpAccepts(key []byte, expect bool) (bool, string) {
	ccc, err := ss2022.NewClientCipherConfig(key, [][]byte{credx.IPSK(s.kl)}, true)
	if err != nil {
		return false, err.Error()
	}
	serverAP := netip.AddrPortFrom(netip.MustParseAddr("127.0.0.1"), uint16(s.port))
	uc := ss2022.NewUDPClient("c", "ip", conn.AddrFromIPPort(serverAP), 1500, conn.ListenConfig{}, 0, ccc, ss2022.NoPadding)
	_, sess, err := uc.NewSession(context.Background())
	if err != nil {
		return false, err.Error()
	}
	defer sess.Close()
	pc, err := net.ListenUDP("udp", &net.UDPAddr{IP: net.IPv4(127, 0, 0, 1)})
	if err != nil {
		return false, err.Error()
	}
	defer pc.Close()
	target := conn.AddrFromIPPort(s.echoUDP.LocalAddr().(*net.UDPAddr).AddrPort())
	msg := []byte("c08-service-udp-probe")
	front := sess.Packer.ClientPackerInfo().Headroom.Front
	total, resend := 20*time.Second, 500*time.Millisecond
	if !expect {
		total, resend = 300*time.Millisecond, 300*time.Millisecond
	}
	deadline := time.Now().Add(total)
	rb := make([]byte, 2048)
	for time.Now().Before(deadline) {
		buf := make([]byte, front+len(msg)+64)
		copy(buf[front:], msg)
		_, ps, pl, err := sess.Packer.PackInPlace(context.Background(), buf, target, front, len(msg))
		if err != nil {
			return false, "pack: " + err.Error()
		}
		if _, err := pc.WriteToUDPAddrPort(buf[ps:ps+pl], serverAP); err != nil {
			return false, "send: " + err.Error()
		}
		pc.SetReadDeadline(time.Now().Add(resend))
		n, from, err := pc.ReadFromUDPAddrPort(rb)
		if err != nil {
			continue
		}
		_, s0, l0, err := sess.Unpacker.UnpackInPlace(rb, from, 0, n)
		if err != nil {
			return false, "reply does not unpack: " + err.Error()
		}
		return bytes.Equal(rb[s0:s0+l0], msg), ""
	}
	return false, "no reply"
}

func (s *svc) checkViews(model map[string][]byte, where string) string {
	defer func() { s.prev = model }()
	kl := s.kl
	listed, err := s.apiList()
	if err != nil {
		return "SIG=C08/service/api-list-broken " + where + ": " + err.Error()
	}
	if !credx.SameUsers(listed, model) {
		return fmt.Sprintf("SIG=C08/service/api-list-mismatch %s: API lists %s, expected %s", where, credx.Show(listed, kl), credx.Show(model, kl))
	}
	for i := 0; i <= strangerKey; i++ {
		if i >= nKeys && i != strangerKey {
			continue
		}
		key := credx.Key(kl, i)
		want := false
		for _, k := range model {
			if bytes.Equal(k, key) {
				want = true
			}
		}
		if !want && i != strangerKey { // refused keys: probe the never-issued key and keys that were valid a step ago
			was := false
			for _, k := range s.prev {
				if bytes.Equal(k, key) {
					was = true
				}
			}
			if !was {
				continue
			}
		}
		if s.tcp {
			if got, why := s.tcpAccepts(key, want); got != want {
				return fmt.Sprintf("SIG=C08/service/tcp-acceptance %s: client with k%d accepted=%v, expected %v (%s); set %s", where, i, got, want, why, credx.Show(model, kl))
			}
		}
		if s.udp {
			// a full round trip: client packet -> server -> echo target -> server packs the reply -> client unpacks
			if got, why := s.udpAccepts(key, want); got != want {
				return fmt.Sprintf("SIG=C08/service/udp-acceptance %s: client with k%d round trip=%v, expected %v (%s); set %s", where, i, got, want, why, credx.Show(model, kl))
			}
		}
	}
	return ""
}

// unusualGen draws the unusual-document phase of a service case: the first two names of the family, one of
// them twice, keys from a permutation of k0..k3, any member order / white space / spelling.
var unusualGen = rapid.Custom(func(rt *rapid.T) *svcUnusual {
	u := &svcUnusual{Follow: rapid.SampledFrom([]string{"delete", "rotate"}).Draw(rt, "follow"), Enc: rapid.IntRange(0, 2).Draw(rt, "enc")}
	u.Doc.WS = rapid.IntRange(0, 3).Draw(rt, "ws")
	perm := rapid.Permutation([]int{0, 1, 2, 3}).Draw(rt, "keys")
	// two different names of the family, and one of them once more with a third key
	for i := 0; i < 2; i++ {
		u.Doc.Entries = append(u.Doc.Entries, docEntry{Name: i, Key: perm[i], Spell: rapid.IntRange(0, 2).Draw(rt, "spell")})
	}
	u.Doc.Entries = append(u.Doc.Entries, docEntry{Name: rapid.IntRange(0, 1).Draw(rt, "dupof"), Key: perm[2], Spell: rapid.IntRange(0, 2).Draw(rt, "dspell")})
	// member order
	order := rapid.Permutation(seq(len(u.Doc.Entries))).Draw(rt, "order")
	es := make([]docEntry, len(order))
	for i, j := range order {
		es[i] = u.Doc.Entries[j]
	}
	u.Doc.Entries = es
	return u
})

// runSvcUnusual: see svcUnusual. Returns a violation, or the model afterwards and trace entries
// (model nil: could not observe).
func runSvcUnusual(s *svc, u *svcUnusual, before map[string][]byte) (violation string, model map[string][]byte, trace []string) {
	kl := s.kl
	names := u.names()
	content := u.Doc.bytes(names, kl)
	meaning := u.Doc.meaning(names, kl)
	if err := writeAtomically(s.path, content); err != nil {
		return "HARNESS write: " + err.Error(), nil, nil
	}
	ok, err := s.sigusr1()
	where := fmt.Sprintf("after the unusual document %q + SIGUSR1", content)
	if err != nil {
		return "SIG=C08/service/sigusr1-no-outcome " + where + ": " + err.Error(), nil, nil
	}
	listed, err := s.apiList()
	if err != nil {
		return "SIG=C08/service/api-list-broken " + where + ": " + err.Error(), nil, nil
	}
	if !ok {
		// a document that names a user twice may be refused; then nothing may have changed
		if !credx.SameUsers(listed, before) {
			return fmt.Sprintf("SIG=C08/service/refused-reload-changed-state %s: reload reported as failed but the API lists %s, before %s", where, showNamed(listed, kl), showNamed(before, kl)), nil, nil
		}
		return "", before, []string{"unusual/dup-name-document-refused"}
	}
	good, choice := resolve(meaning, listed)
	if !good {
		return fmt.Sprintf("SIG=C08/service/duplicate-name-document/list-is-no-reading-of-the-file %s: API lists %s", where, showNamed(listed, kl)), nil, nil
	}
	model = listed
	if v := s.checkViews(model, where); v != "" {
		return v, nil, nil
	}
	// every key of the document that lost against another member of the same name must be refused
	var dupName string
	for n, cands := range meaning {
		if len(cands) > 1 {
			dupName = n
		}
		for _, k := range cands {
			if bytes.Equal(k, model[n]) {
				continue
			}
			if s.tcp {
				if got, _ := s.tcpAccepts(k, false); got {
					return fmt.Sprintf("SIG=C08/service/duplicate-name-document/tcp-acceptance %s: the API lists %s with %s, yet a client with %s (the other member of that name) is accepted",
						where, showName(n), credx.KeyName(model[n], kl), credx.KeyName(k, kl)), nil, nil
				}
			}
			if s.udp {
				if got, _ := s.udpAccepts(k, false); got {
					return fmt.Sprintf("SIG=C08/service/duplicate-name-document/udp-acceptance %s: the API lists %s with %s, yet a client with %s (the other member of that name) is accepted",
						where, showName(n), credx.KeyName(model[n], kl), credx.KeyName(k, kl)), nil, nil
				}
			}
		}
	}
	trace = append(trace, "unusual/sigusr1-dup-name-document-loaded", "unusual/sigusr1-dup-name-document-"+strings.Join(choice, "+"), "unusual/ws-"+wsNames[u.Doc.WS])
	userPath := func(n string) string { return "/servers/ss/users/" + encSeg(n, u.Enc) }
	getUser := func(n string) string {
		code, body, err := s.apiRaw("GET", userPath(n), nil)
		k, in := model[n]
		var got struct {
			Name string `json:"username"`
			UPSK []byte `json:"uPSK"`
		}
		switch {
		case err != nil:
			return "SIG=C08/service/get-user/no-answer GET " + userPath(n) + ": " + err.Error()
		case !in && code != 404:
			return fmt.Sprintf("SIG=C08/service/get-user/unlisted-answered GET %s (name %s, not in the set %s) -> %d %.200q", userPath(n), showName(n), showNamed(model, kl), code, body)
		case in && (code != 200 || json.Unmarshal(body, &got) != nil):
			return fmt.Sprintf("SIG=C08/service/get-user/listed-not-found GET %s (name %s, in the set %s) -> %d %.200q", userPath(n), showName(n), showNamed(model, kl), code, body)
		case in && (got.Name != n || !bytes.Equal(got.UPSK, k)):
			return fmt.Sprintf("SIG=C08/service/get-user/wrong-user GET %s (name %s) reports %s with %s", userPath(n), showName(n), showName(got.Name), credx.KeyName(got.UPSK, kl))
		}
		return ""
	}
	for _, n := range names {
		if v := getUser(n); v != "" {
			return v + " " + where, nil, nil
		}
	}
	freeKey := func() []byte {
		for k := 0; k < nKeys; k++ {
			used := false
			for _, mk := range model {
				used = used || bytes.Equal(mk, credx.Key(kl, k))
			}
			if !used {
				return credx.Key(kl, k)
			}
		}
		return nil
	}
	// the follow-up request on the user whose name stood twice in the file
	if u.Follow == "delete" {
		code, body, err := s.apiRaw("DELETE", userPath(dupName), nil)
		if err != nil || !accepted(code) {
			return fmt.Sprintf("SIG=C08/service/status-mismatch/after-duplicate-name-document DELETE %s (listed user %s) -> %d %s %v", userPath(dupName), showName(dupName), code, body, err), nil, nil
		}
		delete(model, dupName)
	} else {
		k := freeKey()
		req, _ := json.Marshal(map[string]any{"uPSK": k})
		code, body, err := s.apiRaw("PATCH", userPath(dupName), req)
		if err != nil || !accepted(code) {
			return fmt.Sprintf("SIG=C08/service/status-mismatch/after-duplicate-name-document PATCH %s (listed user %s) -> %d %s %v", userPath(dupName), showName(dupName), code, body, err), nil, nil
		}
		model[dupName] = k
	}
	if v := s.checkViews(model, where+" and "+u.Follow+" of "+showName(dupName)+" over HTTP"); v != "" {
		return strings.Replace(v, "SIG=C08/service/", "SIG=C08/service/duplicate-name-document/after-"+u.Follow+"/", 1), nil, nil
	}
	trace = append(trace, "unusual/dup-name-then-"+u.Follow)
	// look-alikes over real HTTP: make sure two names of the family are in the set, then delete ONE of them
	for _, n := range names[:2] {
		if _, in := model[n]; in {
			continue
		}
		k := freeKey()
		if k == nil {
			break
		}
		req := `{"username":` + spellName(n, u.Enc) + `,"uPSK":"` + base64.StdEncoding.EncodeToString(k) + `"}`
		code, body, err := s.apiRaw("POST", "/servers/ss/users", []byte(req))
		if err != nil || !accepted(code) {
			return fmt.Sprintf("SIG=C08/service/status-mismatch/add POST users %s -> %d %s %v", showName(n), code, body, err), nil, nil
		}
		model[n] = k
	}
	_, in0 := model[names[0]]
	_, in1 := model[names[1]]
	if in0 && in1 {
		victim := names[u.Enc%2]
		for _, n := range names {
			if v := getUser(n); v != "" {
				return v + " (with both look-alikes in the set)", nil, nil
			}
		}
		code, body, err := s.apiRaw("DELETE", userPath(victim), nil)
		if err != nil || !accepted(code) {
			return fmt.Sprintf("SIG=C08/service/status-mismatch/delete DELETE %s (listed user %s, look-alike %s also listed) -> %d %s %v", userPath(victim), showName(victim), showName(names[1-u.Enc%2]), code, body, err), nil, nil
		}
		delete(model, victim)
		if v := s.checkViews(model, "after DELETE "+userPath(victim)+" over HTTP with its look-alike in the set"); v != "" {
			return v, nil, nil
		}
		for _, n := range names {
			if v := getUser(n); v != "" {
				return v + " (after the look-alike was deleted)", nil, nil
			}
		}
		trace = append(trace, "unusual/http-per-user-requests-with-lookalike-present", "unusual/family-"+nameFamilies[u.Family].Label)
	}
	return "", model, trace
}

type svcStep struct {
	File fileSpec `json:"file"`
}

type svcPlan struct {
	KeyLen     int            `json:"key_len"`
	Initial    map[string]int `json:"initial"`
	Steps      []svcStep      `json:"steps"`
	APIAdd     bool           `json:"api_add"`              // finish with POST users over HTTP (+ PATCH of another user) and data-path round trips
	WaitSave   bool           `json:"wait_save"`            // ... and wait for the debounce save
	Transports string         `json:"transports,omitempty"` // "tcp+udp" (default), "tcp-only", "udp-only"
	Unusual    *svcUnusual    `json:"unusual,omitempty"`    // round 6: an unusual store document through SIGUSR1, then look-alike names over real HTTP
}

// svcUnusual: after the ordinary steps the operator writes a valid but unusual document (names of one
// look-alike family, one of them twice with different keys, any member order / white space / JSON
// spelling) and sends SIGUSR1; then the duplicated user is deleted or rotated over real HTTP with a
// correctly percent-encoded path, and two look-alike names are added, fetched and one of them deleted.
type svcUnusual struct {
	Family int     `json:"family"`
	Doc    docSpec `json:"doc"`    // names index the family's names (those of at most 4096 bytes); keys 0..3
	Follow string  `json:"follow"` // delete / rotate
	Enc    int     `json:"enc"`
}

func (u *svcUnusual) names() []string {
	var out []string
	for _, n := range nameFamilies[u.Family].Names {
		if len(n) <= 4096 {
			out = append(out, n)
		}
	}
	return out
}

var recSvc = ev.New("C08", "service-sigusr1",
	"real service.Manager from JSON on loopback (TCP+UDP listeners, API server): 1-3 times edit the store file (valid, duplicate-key, "+
		"wrong-length, truncated) then SIGUSR1 to the process; outcome taken from the service's log line; afterwards GET users over HTTP and "+
		"real TCP/UDP clients per universe key through the relay to echo servers must match the file when valid, the previous set otherwise; "+
		"optionally a final POST users and the real 5 s save. Non-trivial: a signal-triggered reload changed the set. Distinct key = outcome trace").
	Require("sigusr1-changed-set", "service-unusual/sigusr1-dup-name-document-loaded", "service-unusual/dup-name-then-delete", "service-unusual/dup-name-then-rotate", "service-unusual/http-per-user-requests-with-lookalike-present")

func TestServiceSIGUSR1(t *testing.T) {
	n := 2
	if v, err := strconv.Atoi(os.Getenv("VERIF_C08_SERVICE_CASES")); err == nil && v > 0 {
		n = v
	}
	seed := 1
	if v, err := strconv.Atoi(os.Getenv("VERIF_SEED")); err == nil {
		seed = v + 1
	}
	gen := rapid.Custom(func(rt *rapid.T) svcPlan {
		p := svcPlan{KeyLen: rapid.SampledFrom([]int{16, 32}).Draw(rt, "kl"), Initial: drawUsers(rt, "init", true)}
		for i, k := 0, rapid.IntRange(1, 3).Draw(rt, "n"); i < k; i++ {
			f := fileSpec{Compact: rapid.Bool().Draw(rt, "compact")}
			switch c := rapid.IntRange(0, 9).Draw(rt, "kind"); {
			case c < 6:
				f.Users = drawUsers(rt, "file", true)
			case c < 8:
				f.Users = drawUsers(rt, "file", false)
			case c < 9:
				f.Users = drawUsers(rt, "file", true)
				f.CutAt = rapid.IntRange(1, 400).Draw(rt, "cut")
			default:
				f.Users = map[string]int{"alice": 0}
				f.BadLen = "alice"
			}
			p.Steps = append(p.Steps, svcStep{File: f})
		}
		return p
	})
	for i := 0; i < n; i++ {
		p := gen.Example(seed*1000 + i)
		p.KeyLen = []int{16, 32}[i%2]
		p.APIAdd = true
		p.WaitSave = i == 0
		p.Transports = []string{"udp-only", "tcp-only", "tcp+udp"}[(i+seed)%3]
		p.Unusual = unusualGen.Example(seed*1000 + i)
		p.Unusual.Family = (i*5 + seed*3) % len(nameFamilies)
		p.Unusual.Follow = []string{"delete", "rotate"}[i%2]
		// make sure the first step is a set-changing valid edit so every case is non-trivial
		p.Steps[0].File = fileSpec{Users: map[string]int{"alice": (p.Initial["alice"] + 1) % nKeys, "dave": (p.Initial["alice"] + 2) % nKeys}}
		if v := runSvcPlan(t, p); v != "" {
			b, _ := json.Marshal(p)
			t.Fatalf("%s\n  plan: %s", v, b)
		}
	}
}

func runSvcPlan(t *testing.T, p svcPlan) string {
	kl := p.KeyLen
	dir, err := os.MkdirTemp(workDir(), "verif-c08-s-")
	if err != nil {
		t.Fatal(err)
	}
	defer os.RemoveAll(dir)
	model := usersOf(kl, p.Initial)
	s := startSvc(t, kl, p.Transports, dir, model)
	defer s.stop()
	if v := s.checkViews(model, "after start"); v != "" {
		return v
	}
	var trace []string
	changed := false
	for i, st := range p.Steps {
		content := st.File.bytes(kl)
		if err := writeAtomically(s.path, content); err != nil {
			t.Fatal(err)
		}
		want, _, derr := credx.DecodeStore(content, kl)
		ok, err := s.sigusr1()
		where := fmt.Sprintf("after step %d (file %q + SIGUSR1)", i, content)
		switch {
		case err != nil:
			return "SIG=C08/service/sigusr1-no-outcome " + where + ": " + err.Error()
		case derr != nil && ok:
			return fmt.Sprintf("SIG=C08/service/invalid-file-accepted %s: file is invalid (%v) but the reload was reported successful", where, derr)
		case derr == nil && !ok:
			return fmt.Sprintf("SIG=C08/service/valid-file-refused %s", where)
		case ok:
			if !credx.SameUsers(want, model) {
				changed = true
			}
			model = want
			trace = append(trace, "reloaded")
		default:
			trace = append(trace, "refused")
		}
		if v := s.checkViews(model, where); v != "" {
			return v
		}
	}
	if p.Unusual != nil {
		v, m2, tr2 := runSvcUnusual(s, p.Unusual, model)
		if v != "" {
			return v
		}
		if m2 == nil {
			return "" // the service could not be observed (HARNESS skip); no label, the run is inconclusive
		}
		trace = append(trace, tr2...)
		// back to the plain universe for the rest of the case
		if err := writeAtomically(s.path, credx.EncodeStore(map[string][]byte{"carol": credx.Key(kl, 3)}, true)); err != nil {
			t.Fatal(err)
		}
		if ok, err := s.sigusr1(); err != nil || !ok {
			return fmt.Sprintf("SIG=C08/service/valid-file-refused after the unusual-document phase: a plain one-user store + SIGUSR1: reloaded=%v err=%v", ok, err)
		}
		model = map[string][]byte{"carol": credx.Key(kl, 3)}
		if v := s.checkViews(model, "after the unusual-document phase (plain store + SIGUSR1)"); v != "" {
			return v
		}
	}
	if p.APIAdd {
		name, key := "", -1
		for _, n := range names {
			if _, ok := model[n]; !ok {
				name = n
			}
		}
		for k := 0; k < nKeys; k++ {
			free := true
			for _, mk := range model {
				if bytes.Equal(mk, credx.Key(kl, k)) {
					free = false
				}
			}
			if free {
				key = k
			}
		}
		if name != "" && key >= 0 {
			code, body, err := s.api("POST", "/servers/ss/users", map[string]any{"username": name, "uPSK": credx.Key(kl, key)})
			if err != nil || !accepted(code) {
				return fmt.Sprintf("SIG=C08/service/status-mismatch/add POST users %s -> %d %s %v", name, code, body, err)
			}
			model[name] = credx.Key(kl, key)
			if v := s.checkViews(model, "after POST users over HTTP"); v != "" {
				return v
			}
			trace = append(trace, "api-added-user-round-trip")
			// rotate the key of another user through PATCH, too
			for other := range model {
				if other == name {
					continue
				}
				free := -1
				for k := 0; k < nKeys; k++ {
					used := false
					for _, mk := range model {
						used = used || bytes.Equal(mk, credx.Key(kl, k))
					}
					if !used {
						free = k
					}
				}
				if free < 0 {
					break
				}
				code, body, err := s.api("PATCH", "/servers/ss/users/"+other, map[string]any{"uPSK": credx.Key(kl, free)})
				if err != nil || !accepted(code) {
					return fmt.Sprintf("SIG=C08/service/status-mismatch/update PATCH users/%s -> %d %s %v", other, code, body, err)
				}
				model[other] = credx.Key(kl, free)
				if v := s.checkViews(model, "after PATCH users/"+other+" over HTTP"); v != "" {
					return v
				}
				trace = append(trace, "api-updated-user-round-trip")
				break
			}
			// bounded liveness: save due after 5 s; allow 25 s
			deadline := time.Now().Add(25 * time.Second)
			if !p.WaitSave {
				deadline = time.Time{}
			} else {
				time.Sleep(5100 * time.Millisecond)
			}
			for p.WaitSave {
				b, _ := os.ReadFile(s.path)
				got, complete, derr := credx.DecodeStore(b, kl)
				if derr == nil && complete && credx.SameUsers(got, model) {
					break
				}
				if time.Now().After(deadline) {
					return fmt.Sprintf("SIG=C08/service/file-mismatch store file %q does not hold %s 25 s after the acknowledged change", b, credx.Show(model, kl))
				}
				time.Sleep(250 * time.Millisecond)
			}
			if p.WaitSave {
				trace = append(trace, "api-add-saved")
			}
		}
	}
	tr := p.Transports
	if tr == "" {
		tr = "tcp+udp"
	}
	labels := []string{fmt.Sprintf("keylen/%d", kl), "service-transports/" + tr}
	for _, e := range trace {
		if strings.HasSuffix(e, "-round-trip") {
			labels = append(labels, tr+"-service/"+e)
		}
	}
	if changed {
		labels = append(labels, "sigusr1-changed-set")
	}
	for _, e := range trace {
		if strings.HasPrefix(e, "unusual/") {
			labels = append(labels, "service-"+e)
		}
	}
	if strings.Contains(strings.Join(trace, ","), "refused") {
		labels = append(labels, "sigusr1-invalid-refused")
	}
	recSvc.Case(fmt.Sprintf("%d/%s/%s", kl, tr, strings.Join(trace, ",")), changed, labels...)
	if changed {
		recSvc.Sample(map[string]any{"plan": p, "trace": trace})
	}
	return ""
}
