package c08

import (
	"bytes"
	"context"
	"encoding/json"
	"fmt"
	"os"
	"path/filepath"
	"runtime"
	"sort"
	"strconv"
	"strings"
	"sync"
	"sync/atomic"
	"testing"
	"time"

	"github.com/database64128/shadowsocks-go/ss2022"
	"pgregory.net/rapid"

	"verif/internal/credx"
	"verif/internal/ev"
)

// Signatures of the concurrency findings (see NOTES.md).
const (
	sigDiverged = "live-set-diverged-under-concurrency"
	sigNoSerial = "concurrent-result-not-serialisable"
	sigRaceLoad = "loadfromfile-unlocked-map-read"
)

type cop struct {
	Op   string `json:"op"` // add update delete reload
	Name string `json:"name,omitempty"`
	Key  int    `json:"key"`
	Spin int    `json:"spin"` // scheduler yields before the request is issued
	// reload only: the operator (the same goroutine) first replaces the store file with this set
	// (atomically), then asks for the reload
	Edit map[string]int `json:"edit,omitempty"`
}

func (o cop) show(kl int) string {
	switch o.Op {
	case "add", "update":
		return fmt.Sprintf("%s(%s,k%d)", o.Op, o.Name, o.Key)
	case "delete":
		return fmt.Sprintf("delete(%s)", o.Name)
	}
	if o.Edit != nil {
		return fmt.Sprintf("edit-file(%v)+reload", o.Edit)
	}
	return "reload"
}

type cplan struct {
	KeyLen  int            `json:"key_len"`
	Mode    credx.Mode     `json:"mode"`
	Initial map[string]int `json:"initial"`
	Ops     []cop          `json:"ops"`
	File    map[string]int `json:"file,omitempty"`  // what the operator put in the file before the reload op(s)
	Gate    string         `json:"gate,omitempty"`  // "", "tcp", "udp": hold that live store's lock while the lead op runs
	Lead    int            `json:"lead"`            // index of the op that runs first under the gate
	Tight   bool           `json:"tight,omitempty"` // the next op is issued by the goroutine that releases the gate
	Reps    int            `json:"reps"`
}

// keys lists every universe key index the plan mentions (the only keys that can be live).
func (p cplan) keys() []int {
	seen := map[int]bool{}
	for _, k := range p.Initial {
		seen[k] = true
	}
	for _, k := range p.File {
		seen[k] = true
	}
	for _, o := range p.Ops {
		if o.Op == "add" || o.Op == "update" {
			seen[o.Key] = true
		}
		for _, k := range o.Edit {
			seen[k] = true
		}
	}
	out := make([]int, 0, len(seen))
	for k := range seen {
		out = append(out, k)
	}
	sort.Ints(out)
	return out
}

func (p cplan) String() string { b, _ := json.Marshal(p); return string(b) }

func drawCPlan(rt *rapid.T, allowReload, allowSharedKeys bool) cplan {
	p := cplan{
		KeyLen:  rapid.SampledFrom([]int{16, 32}).Draw(rt, "keyLen"),
		Mode:    rapid.SampledFrom([]credx.Mode{credx.TCPOnly, credx.UDPOnly, credx.Both}).Draw(rt, "mode"),
		Initial: drawUsers(rt, "init", true),
		Reps:    rapid.IntRange(1, 12).Draw(rt, "reps"),
	}
	if !allowSharedKeys {
		p.Initial = privateKeys(p.Initial, 0)
	}
	n := rapid.IntRange(2, 3).Draw(rt, "nops")
	// concurrent requests mostly hit the same one or two users: that is where the order matters
	focus := rapid.SampledFrom(names).Draw(rt, "focus")
	hasReload := false
	for i := 0; i < n; i++ {
		var o cop
		k := rapid.IntRange(0, 99).Draw(rt, "opkind")
		switch {
		case k < 35:
			o.Op = "add"
		case k < 60:
			o.Op = "update"
		case k < 85 || !allowReload:
			o.Op = "delete"
		default:
			o.Op = "reload"
			hasReload = true
		}
		if o.Op != "reload" {
			o.Name = focus
			if rapid.IntRange(0, 3).Draw(rt, "othername") == 0 {
				o.Name = rapid.SampledFrom(names).Draw(rt, "name")
			}
			if o.Op != "delete" {
				o.Key = rapid.IntRange(0, nKeys-1).Draw(rt, "key")
				if !allowSharedKeys {
					o.Key = privateKey(o.Name, o.Key)
				}
			}
		}
		o.Spin = rapid.IntRange(0, 40).Draw(rt, "spin")
		p.Ops = append(p.Ops, o)
	}
	// one plan in eight: two reloads in flight together (signal + API request), plus what was drawn
	if allowReload && rapid.IntRange(0, 7).Draw(rt, "tworeloads") == 0 {
		for i := 0; i < 2; i++ {
			e := drawUsers(rt, fmt.Sprintf("edit%d", i), true)
			if !allowSharedKeys {
				e = privateKeys(e, i)
			}
			p.Ops[i] = cop{Op: "reload", Spin: p.Ops[i].Spin, Edit: e}
		}
	}
	if hasReload {
		p.File = drawUsers(rt, "file", true)
		if !allowSharedKeys {
			p.File = privateKeys(p.File, 1)
		}
	}
	switch g := rapid.IntRange(0, 3).Draw(rt, "gate"); {
	case g >= 2 && p.Mode.HasTCP() && (g == 2 || !p.Mode.HasUDP()):
		p.Gate = "tcp"
	case g >= 2 && p.Mode.HasUDP():
		p.Gate = "udp"
	}
	p.Lead = rapid.IntRange(0, n-1).Draw(rt, "lead")
	p.Tight = p.Gate != "" && rapid.IntRange(0, 2).Draw(rt, "tight") != 0
	return p
}

// privateKey maps a drawn key index to one of the two keys reserved for that user, so that no
// two users can ever hold the same key (used while the duplicate-key finding is open).
func privateKey(name string, k int) int {
	for i, n := range names {
		if n == name {
			return 2*i + k%2
		}
	}
	return k
}

func privateKeys(m map[string]int, bit int) map[string]int {
	out := map[string]int{}
	for n := range m {
		out[n] = privateKey(n, bit)
	}
	return out
}

// ---- reusable rig for concurrency trials (no save goroutine: the file belongs to the harness)

type crig struct {
	rig    *credx.Rig
	dir    string
	path   string
	writes atomic.Int64
}

func newCRig(kl int, mode credx.Mode) (*crig, error) {
	dir, err := os.MkdirTemp(workDir(), "verif-c08-c-")
	if err != nil {
		return nil, err
	}
	c := &crig{dir: dir, path: filepath.Join(dir, "upsks.json")}
	if err := credx.WriteStore(c.path, []byte("{}\n")); err != nil {
		return nil, err
	}
	c.rig, err = credx.NewRig(c.path, kl, mode, nil)
	if err != nil {
		return nil, err
	}
	return c, nil
}

func (c *crig) close() { os.RemoveAll(c.dir) }

// put writes a store document whose bytes differ from everything written before (trailing
// white space), so that a reload can never be skipped as "file unchanged".
func (c *crig) put(users map[string][]byte) error {
	w := c.writes.Add(1)
	doc := credx.EncodeStore(users, true)
	for v := w; v > 0; v >>= 1 {
		doc = append(doc, " \t"[v&1])
	}
	doc = append(doc, '\n')
	tmp := fmt.Sprintf("%s.edit%d", c.path, w)
	if err := os.WriteFile(tmp, doc, 0o644); err != nil {
		return err
	}
	return os.Rename(tmp, c.path)
}

func usersOf(kl int, m map[string]int) map[string][]byte {
	out := map[string][]byte{}
	for n, k := range m {
		out[n] = credx.Key(kl, k)
	}
	return out
}

type ack struct {
	code int
	body string
}

// modelApply is the sequential reference semantics of one request. It returns whether the
// request is acknowledged as done (2xx) and the new state.
func modelApply(st map[string][]byte, o cop, kl int, file map[string][]byte) (bool, map[string][]byte) {
	cp := func() map[string][]byte {
		m := make(map[string][]byte, len(st)+1)
		for n, k := range st {
			m[n] = k
		}
		return m
	}
	holder := func(key []byte) (string, bool) {
		for n, k := range st {
			if bytes.Equal(k, key) {
				return n, true
			}
		}
		return "", false
	}
	switch o.Op {
	case "add":
		key := credx.Key(kl, o.Key)
		if _, exists := st[o.Name]; exists {
			return false, st
		}
		if _, held := holder(key); held {
			return false, st
		}
		m := cp()
		m[o.Name] = key
		return true, m
	case "update":
		key := credx.Key(kl, o.Key)
		if _, exists := st[o.Name]; !exists {
			return false, st
		}
		if _, held := holder(key); held {
			return false, st
		}
		m := cp()
		m[o.Name] = key
		return true, m
	case "delete":
		if _, exists := st[o.Name]; !exists {
			return false, st
		}
		m := cp()
		delete(m, o.Name)
		return true, m
	case "reload":
		return true, file
	}
	panic("unknown op")
}

func permutations(n int) [][]int {
	if n == 2 {
		return [][]int{{0, 1}, {1, 0}}
	}
	return [][]int{{0, 1, 2}, {0, 2, 1}, {1, 0, 2}, {1, 2, 0}, {2, 0, 1}, {2, 1, 0}}
}

// liveView probes every universe key on every transport and reports the first disagreement
// with the given user set ("" if none).
func liveView(r *credx.Rig, kl int, mode credx.Mode, set map[string][]byte, keys []int) string {
	if raceChild {
		return ""
	}
	for _, i := range keys {
		key := credx.Key(kl, i)
		want, listed := "", false
		for n, k := range set {
			if bytes.Equal(k, key) {
				want, listed = n, true
			}
		}
		for _, tr := range []string{"tcp", "udp"} {
			var pr credx.Probe
			if tr == "tcp" {
				if !mode.HasTCP() {
					continue
				}
				pr = r.ProbeTCP(key)
			} else {
				if !mode.HasUDP() {
					continue
				}
				pr = r.ProbeUDP(key)
			}
			switch {
			case listed && pr.OK && pr.User == want && !pr.ReplyOK:
				return fmt.Sprintf("%s client with k%d (listed for %s) is accepted but the server's reply does not make the round trip: %s", tr, i, want, pr.ReplyErr)
			case listed && !pr.OK:
				return fmt.Sprintf("%s client with k%d (listed for %s) is refused: %s", tr, i, want, pr.Err)
			case listed && pr.User != want:
				return fmt.Sprintf("%s client with k%d is attributed to %q, listed owner is %q", tr, i, pr.User, want)
			case !listed && pr.OK:
				return fmt.Sprintf("%s client with k%d (held by no listed user) is accepted as %q", tr, i, pr.User)
			}
		}
	}
	return ""
}

var raceChild = os.Getenv("VERIF_C08_RACE_CHILD") != ""

type ctrial struct {
	violation string
	sig       string
	acks      []ack
	order     []int // a serialisation that explains the result
	pattern   string
}

// runTrial executes the plan once on c. The rig must be rebuilt by the caller after a violation.
func runTrial(c *crig, p cplan) ctrial {
	kl := p.KeyLen
	r := c.rig
	init := usersOf(kl, p.Initial)
	file := usersOf(kl, p.File)
	// establish the initial state through the documented path (edit + reload), sequentially
	if err := c.put(init); err != nil {
		return ctrial{violation: "HARNESS " + err.Error()}
	}
	if code, body := r.Reload(); !accepted(code) {
		return ctrial{violation: fmt.Sprintf("HARNESS initial reload -> %d %s", code, body)}
	}
	if l, err := r.List(); err != nil || !credx.SameUsers(l, init) {
		return ctrial{violation: fmt.Sprintf("HARNESS initial state not established: %v %v", credx.Show(l, kl), err)}
	}
	if p.File != nil {
		if err := c.put(file); err != nil {
			return ctrial{violation: "HARNESS " + err.Error()}
		}
	}
	n := len(p.Ops)
	acks := make([]ack, n)
	issue := func(i int) {
		o := p.Ops[i]
		for j := 0; j < o.Spin; j++ {
			runtime.Gosched()
		}
		var code int
		var body []byte
		switch o.Op {
		case "add":
			code, body = r.Add(o.Name, credx.Key(kl, o.Key))
		case "update":
			code, body = r.Update(o.Name, credx.Key(kl, o.Key))
		case "delete":
			code, body = r.Delete(o.Name)
		case "reload":
			if o.Edit != nil {
				if err := c.put(usersOf(kl, o.Edit)); err != nil {
					acks[i] = ack{599, "HARNESS " + err.Error()}
					return
				}
			}
			code, body = r.Reload()
		}
		acks[i] = ack{code, string(body)}
	}
	issueDirect := func(i int) {
		o := p.Ops[i]
		var err error
		switch o.Op {
		case "add":
			err = r.MS.AddCredential(o.Name, credx.Key(kl, o.Key))
		case "update":
			err = r.MS.UpdateCredential(o.Name, credx.Key(kl, o.Key))
		case "delete":
			err = r.MS.DeleteCredential(o.Name)
		case "reload":
			if o.Edit != nil {
				if err := c.put(usersOf(kl, o.Edit)); err != nil {
					acks[i] = ack{599, "HARNESS " + err.Error()}
					return
				}
			}
			err = r.MS.LoadFromFile()
		}
		if err != nil {
			acks[i] = ack{400, err.Error()}
		} else {
			acks[i] = ack{204, "direct"}
		}
	}
	var wg sync.WaitGroup
	if p.Gate == "" {
		start := make(chan struct{})
		for i := range p.Ops {
			wg.Go(func() { <-start; issue(i) })
		}
		close(start)
	} else {
		var store *ss2022.CredStore
		if p.Gate == "udp" {
			store = &r.UDP.CredStore
		} else {
			store = &r.TCP.CredStore
		}
		gate, held := make(chan struct{}), make(chan struct{})
		follower := -1
		if p.Tight {
			follower = (p.Lead + 1) % n
		}
		wg.Go(func() {
			store.UpdateUserLookupMap(func(ss2022.UserLookupMap) { close(held); <-gate })
			// Tight mode: the goroutine that has just released the store lock issues the next
			// request itself (straight at the manager, as the handler would), while the lead
			// request, queued on that lock, has been woken but is not running yet.
			if follower >= 0 {
				issueDirect(follower)
			}
		})
		<-held
		leadDone := make(chan struct{})
		wg.Go(func() { issue(p.Lead); close(leadDone) })
		// give the lead request time to finish its part under the manager lock and queue on the
		// store lock (or to be refused). The manager's cache is watched through its exported getter
		// from a helper goroutine, because an implementation that keeps the manager lock while it
		// waits for the store lock would block the getter until the gate opens.
		_, leadState := modelApply(init, p.Ops[p.Lead], kl, file)
		applied := make(chan struct{})
		var giveUp atomic.Bool
		wg.Go(func() {
			defer close(applied)
			for !giveUp.Load() {
				cur := map[string][]byte{}
				for _, uc := range r.MS.Credentials() {
					cur[uc.Name] = uc.UPSK
				}
				if credx.SameUsers(cur, leadState) {
					return
				}
				runtime.Gosched()
			}
		})
		timer := time.NewTimer(2 * time.Millisecond)
		select {
		case <-leadDone:
		case <-applied:
			for j := 0; j < 10; j++ {
				runtime.Gosched()
			}
		case <-timer.C:
		}
		timer.Stop()
		giveUp.Store(true)
		close(gate)
		for i := range p.Ops {
			if i != p.Lead && i != follower {
				wg.Go(func() { issue(i) })
			}
		}
	}
	wg.Wait()

	tr := ctrial{acks: acks}
	listed, err := r.List()
	if err != nil {
		tr.violation, tr.sig = err.Error(), "api-list-broken"
		return tr
	}
	// Some serialisation must explain acknowledgements and the listed set. A reload takes
	// whatever complete document was at the path when it read it: the one present before the
	// requests, or any document an edit+reload request put there.
	fileCands := []map[string][]byte{init}
	if p.File != nil {
		fileCands[0] = file
	}
	for _, o := range p.Ops {
		if o.Op == "reload" && o.Edit != nil {
			fileCands = append(fileCands, usersOf(kl, o.Edit))
		}
	}
	nReloads := 0
	for _, o := range p.Ops {
		if o.Op == "reload" {
			nReloads++
		}
	}
	var search func(perm []int, pos int, st map[string][]byte) bool
	search = func(perm []int, pos int, st map[string][]byte) bool {
		if pos == len(perm) {
			return credx.SameUsers(st, listed)
		}
		i := perm[pos]
		if p.Ops[i].Op == "reload" {
			if !accepted(acks[i].code) {
				return false
			}
			for _, f := range fileCands {
				if search(perm, pos+1, f) {
					return true
				}
			}
			if nReloads >= 2 {
				return search(perm, pos+1, st) // file unchanged since another reload read it: no-op
			}
			return false
		}
		done, st2 := modelApply(st, p.Ops[i], kl, nil)
		if done != accepted(acks[i].code) {
			return false
		}
		return search(perm, pos+1, st2)
	}
	for _, perm := range permutations(n) {
		if search(perm, 0, init) {
			tr.order = perm
			break
		}
	}
	desc := func() string {
		var sb strings.Builder
		for i, o := range p.Ops {
			fmt.Fprintf(&sb, "%s->%d ", o.show(kl), acks[i].code)
		}
		return sb.String()
	}
	if tr.order == nil {
		tr.sig = sigNoSerial
		tr.violation = fmt.Sprintf("no order of the concurrent requests explains the acknowledgements and the listed set: %s from %s (file %s) gives API list %s",
			desc(), credx.Show(init, kl), credx.Show(file, kl), credx.Show(listed, kl))
		return tr
	}
	// In the race-detector child the handshake probes are skipped: they cost ~100x there (64 KiB
	// buffers under tsan) and the same comparison runs in the ordinary build of this test.
	if d := liveView(r, kl, p.Mode, listed, p.keys()); !raceChild && d != "" {
		tr.sig = sigDiverged
		tr.violation = fmt.Sprintf("after concurrent %s (all returned) from %s (file %s, gate=%q lead=%d tight=%v) the API lists %s but %s",
			desc(), credx.Show(init, kl), credx.Show(file, kl), p.Gate, p.Lead, p.Tight, credx.Show(listed, kl), d)
		return tr
	}
	var pat []string
	for i, o := range p.Ops {
		pat = append(pat, fmt.Sprintf("%s:%v", o.Op, accepted(acks[i].code)))
	}
	tr.pattern = strings.Join(pat, "|") + "/" + fmt.Sprint(tr.order)
	return tr
}

// ---- the property

var recConc = ev.New("C08", "concurrent-plans",
	"rapid: 2-3 management requests (add/update/delete/reload-of-edited-file, mostly aimed at one user) released together on a live "+
		"server, 1-12 repetitions per plan (schedules are not reproducible); per-request yield staggering; optionally one live store's lock "+
		"is held (UpdateUserLookupMap(func{<-gate})) while a lead request runs, and the others start when the gate opens. After all requests "+
		"returned: some order of the requests must explain every acknowledgement and the listed set (sequential model), and a real client per "+
		"key per transport must be accepted/attributed exactly as listed. Non-trivial: at least two requests acknowledged as done and touching "+
		"the same user or a reload. Distinct key = stores + op kinds/outcomes + explaining order").
	Require("two-acked-same-user", "gated", "ungated")

func concurrencyAllowances() (allowReload, allowShared bool) {
	allowReload = !isKnown(sigRaceLoad)
	allowShared = !isKnown("duplicate-upsk-accepted")
	return
}

func TestConcurrentPlans(t *testing.T) {
	rigs := map[string]*crig{}
	defer func() {
		for _, c := range rigs {
			c.close()
		}
	}()
	allowReload, allowShared := concurrencyAllowances()
	journal := ""
	if d := os.Getenv("VERIF_WORK"); d != "" {
		journal = filepath.Join(d, "journal-concurrent-"+strconv.Itoa(os.Getpid())+".json")
		defer os.Remove(journal)
	}
	rapid.Check(t, func(rt *rapid.T) {
		p := drawCPlan(rt, allowReload, allowShared)
		if journal != "" {
			_ = os.WriteFile(journal, []byte(p.String()), 0o644)
		}
		v := runCPlan(rigs, p, recConc)
		if v != "" {
			rt.Fatalf("%s\n  plan: %s", v, p)
		}
	})
}

// runCPlan runs all repetitions of one plan, records evidence, returns a violation text or "".
func runCPlan(rigs map[string]*crig, p cplan, rec *ev.Recorder) string {
	rk := fmt.Sprintf("%d/%v", p.KeyLen, p.Mode)
	for rep := 0; rep < p.Reps; rep++ {
		c := rigs[rk]
		if c == nil {
			var err error
			if c, err = newCRig(p.KeyLen, p.Mode); err != nil {
				return "HARNESS rig: " + err.Error()
			}
			rigs[rk] = c
		}
		tr := runTrial(c, p)
		if tr.violation != "" {
			c.close()
			delete(rigs, rk)
			if tr.sig == "" {
				return tr.violation
			}
			if isKnown(tr.sig) {
				rec.KnownHit(listedSig(tr.sig))
				rec.Case("known", false, "known-hit")
				continue
			}
			return fmt.Sprintf("SIG=C08/%s %s", tr.sig, tr.violation)
		}
		ackedOn := map[string]int{}
		reloadAcked := false
		for i, o := range p.Ops {
			if accepted(tr.acks[i].code) {
				if o.Op == "reload" {
					reloadAcked = true
				} else {
					ackedOn[o.Name]++
				}
			}
		}
		labels := []string{"mode/" + p.Mode.String()}
		nt := false
		for _, c := range ackedOn {
			if c >= 2 || (c >= 1 && reloadAcked) {
				nt = true
			}
		}
		if nt {
			labels = append(labels, "two-acked-same-user")
		}
		if reloadAcked {
			labels = append(labels, "reload-in-flight")
		}
		if p.Gate != "" {
			labels = append(labels, "gated", "gate/"+p.Gate)
			if p.Tight {
				labels = append(labels, "gated-tight")
			}
		} else {
			labels = append(labels, "ungated")
		}
		labels = append(labels, fmt.Sprintf("nops/%d", len(p.Ops)))
		sort.Strings(labels)
		rec.Case(fmt.Sprintf("%v/%s/%s", p.Mode, p.Gate, tr.pattern), nt, labels...)
		if nt && rep == 0 {
			rec.Sample(map[string]any{"plan": p, "acks": fmt.Sprint(tr.acks), "order": tr.order})
		}
	}
	return ""
}

// ---- concurrent requests followed by the real 5 s debounce: the third view (store file)

var recConcFile = ev.New("C08", "concurrent-then-saved",
	"a batch of concurrent plans (as in concurrent-plans, without reloads) each on its own started server, all waiting the real 5 s "+
		"save debounce in parallel; then store file = API list = live view. Non-trivial: two requests acknowledged on one user")

func TestConcurrentThenSaved(t *testing.T) {
	n := 24
	if v, err := strconv.Atoi(os.Getenv("VERIF_C08_SAVED")); err == nil && v > 0 {
		n = v
	}
	_, allowShared := concurrencyAllowances()
	var plans []cplan
	seed := uint64(1)
	if v, err := strconv.ParseUint(os.Getenv("VERIF_SEED"), 10, 64); err == nil {
		seed = v + 1
	}
	gen := rapid.Custom(func(rt *rapid.T) cplan { return drawCPlan(rt, false, allowShared) })
	for i := 0; i < n; i++ {
		plans = append(plans, gen.Example(int(seed)*100000+i))
	}
	var mu sync.Mutex
	var violations []string
	var wg sync.WaitGroup
	for _, p := range plans {
		wg.Go(func() {
			v, nt, pat := runSavedTrial(p)
			mu.Lock()
			defer mu.Unlock()
			if v != "" {
				violations = append(violations, v+"\n  plan: "+p.String())
				return
			}
			recConcFile.Case(pat, nt, "mode/"+p.Mode.String())
		})
	}
	wg.Wait()
	sort.Strings(violations)
	for _, v := range violations {
		t.Errorf("%s", v)
	}
}

func runSavedTrial(p cplan) (violation string, nontrivial bool, pattern string) {
	kl := p.KeyLen
	c, err := newCRig(kl, p.Mode)
	if err != nil {
		return "HARNESS " + err.Error(), false, ""
	}
	defer c.close()
	ctx, cancel := context.WithCancel(context.Background())
	c.rig.Start(ctx)
	defer func() { cancel(); c.rig.Stop() }()
	p.File = nil
	tr := runTrial(c, p)
	if tr.violation != "" {
		if tr.sig != "" && isKnown(tr.sig) {
			recConcFile.KnownHit(listedSig(tr.sig))
			return "", false, "known"
		}
		if tr.sig == "" {
			return tr.violation, false, ""
		}
		return fmt.Sprintf("SIG=C08/%s %s", tr.sig, tr.violation), false, ""
	}
	acked := 0
	perUser := map[string]int{}
	for i, o := range p.Ops {
		if accepted(tr.acks[i].code) {
			acked++
			perUser[o.Name]++
			if perUser[o.Name] >= 2 {
				nontrivial = true
			}
		}
	}
	listed, err := c.rig.List()
	if err != nil {
		return "SIG=C08/api-list-broken " + err.Error(), false, ""
	}
	if acked == 0 {
		return "", false, tr.pattern
	}
	// bounded liveness: the save is due 5 s after the first acknowledged change; allow 4x
	deadline := time.Now().Add(20 * time.Second)
	time.Sleep(5200 * time.Millisecond)
	var last string
	for {
		b, err := os.ReadFile(c.path)
		if err == nil {
			got, complete, derr := credx.DecodeStore(b, kl)
			if derr == nil && complete && credx.SameUsers(got, listed) {
				break
			}
			last = fmt.Sprintf("file %q (decode err %v) vs API list %s", b, derr, credx.Show(listed, kl))
		}
		if time.Now().After(deadline) {
			return "SIG=C08/file-mismatch-after-concurrent-requests " + last, false, ""
		}
		time.Sleep(300 * time.Millisecond)
	}
	if d := liveView(c.rig, kl, p.Mode, listed, p.keys()); d != "" {
		return fmt.Sprintf("SIG=C08/%s after the save: %s", sigDiverged, d), false, ""
	}
	return "", nontrivial, tr.pattern
}
