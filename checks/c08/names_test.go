package c08

import (
	"bytes"
	"context"
	"encoding/base64"
	"encoding/json"
	"fmt"
	"net/http"
	"net/url"
	"os"
	"path/filepath"
	"sort"
	"strings"
	"testing"
	"testing/synctest"
	"time"
	"unicode/utf8"

	"pgregory.net/rapid"

	"verif/internal/credx"
	"verif/internal/ev"
)

// Round 6, gaps 1 and 2: store documents that are valid JSON but unusual (the same username
// twice, members in any order, any JSON white space, any JSON spelling of a name, very long
// names), loaded at start-up, through POST reload-users and through the manager's reload-all
// (what the signal handler does), and a username universe made of look-alikes (percent-escape
// look-alikes, '+', spaces, slashes, '?', '#', dots, unicode, JSON-special characters) for the
// per-user endpoints, which the harness always addresses with a correctly percent-encoded path.
// The reference model is a map keyed by the LITERAL name.

// ---- the name universe

type nameFamily struct {
	Label string
	Names []string // members are what a wrong decoding / normalisation / truncation would confuse
}

func longName(n int, tail string) string { return strings.Repeat("L", n-len(tail)) + tail }

var nameFamilies = []nameFamily{
	{"pct-letter", []string{"a%41", "aA", "a%2541", "a%4"}},
	{"pct-space-plus", []string{"john%20doe", "john doe", "john+doe", "john%2Bdoe"}},
	{"pct-slash", []string{"%2F", "%252F", "x%2Fy", "x/y", "y"}},
	{"pct-invalid", []string{"100%", "100%25", "100", "%", "%zz"}},
	{"slash", []string{"a/b", "b", "a", "/x", "x/", "a//b"}},
	{"query-fragment", []string{"q?x=1", "q", "h#frag", "h", "q%3Fx=1", "a;b,c"}},
	{"dots", []string{"a.b", "..", ".", "...", "a..", ".hidden"}},
	{"unicode", []string{"é", "é", "É", "用户", "\U0001F600", "éé"}},
	{"case-space", []string{"Alice", "alice", " alice", "alice ", "ALICE"}},
	{"json-special", []string{`q"uote`, `back\slash`, `back\\slash`, "sl/ash", "t\tab", "<b>&", `é`, "nl\nx"}},
	{"long", []string{longName(255, "x"), longName(255, "y"), longName(256, "x"), longName(257, "x"), longName(4096, "x"), longName(70000, "x"), longName(70000, "y")}},
}

// Names that POST users accepts but that cannot be part of the universe, and why:
// "/" - with the only correct encoding of it as one path segment ("%2F") net/http's ServeMux answers
// "404 page not found" before any handler of the repository runs (measured on the unchanged tree;
// "/x", "x/", "//" and "a//b" are routed fine). See NOTES.md, round 6.

func showName(n string) string {
	if len(n) > 40 {
		return fmt.Sprintf("%q...(%d bytes)...%q", n[:8], len(n), n[len(n)-3:])
	}
	return fmt.Sprintf("%q", n)
}

func showNamed(m map[string][]byte, kl int) string {
	names := make([]string, 0, len(m))
	for n := range m {
		names = append(names, n)
	}
	sort.Strings(names)
	var sb strings.Builder
	sb.WriteByte('{')
	for i, n := range names {
		if i > 0 {
			sb.WriteByte(' ')
		}
		fmt.Fprintf(&sb, "%s:%s", showName(n), credx.KeyName(m[n], kl))
	}
	sb.WriteByte('}')
	return sb.String()
}

// encSeg percent-encodes a name as ONE path segment. Style 0: only what must be escaped
// (url.PathEscape; the dot segments "." and ".." have no such form and are written %2E);
// 1: every byte as %XX with upper-case hex; 2: every byte as %xx with lower-case hex.
func encSeg(name string, style int) string {
	if style == 0 && name != "." && name != ".." {
		return url.PathEscape(name)
	}
	f := "%%%02X"
	if style == 2 {
		f = "%%%02x"
	}
	var sb strings.Builder
	for i := 0; i < len(name); i++ {
		fmt.Fprintf(&sb, f, name[i])
	}
	return sb.String()
}

// spellName writes a name as a JSON string. Style 0: only the mandatory escapes; 1: the short
// escapes (\" \\ \/ \t \n) and lower-case \uXXXX for everything outside printable ASCII (surrogate
// pairs beyond the BMP); 2: every character as upper-case \uXXXX.
func spellName(name string, style int) string {
	var sb strings.Builder
	writeU := func(r rune, upper bool) {
		f := "\\u%04x"
		if upper {
			f = "\\u%04X"
		}
		if r >= 0x10000 {
			r -= 0x10000
			fmt.Fprintf(&sb, f, 0xd800+(r>>10))
			fmt.Fprintf(&sb, f, 0xdc00+(r&0x3ff))
			return
		}
		fmt.Fprintf(&sb, f, r)
	}
	sb.WriteByte('"')
	for _, r := range name {
		switch {
		case style == 2:
			writeU(r, true)
		case r == '"':
			sb.WriteString(`\"`)
		case r == '\\':
			sb.WriteString(`\\`)
		case style == 1 && r == '/':
			sb.WriteString(`\/`)
		case style == 1 && r == '\t':
			sb.WriteString(`\t`)
		case style == 1 && r == '\n':
			sb.WriteString(`\n`)
		case r < 0x20:
			writeU(r, false)
		case style == 1 && r >= 0x7f:
			writeU(r, false)
		default:
			sb.WriteRune(r)
		}
	}
	sb.WriteByte('"')
	return sb.String()
}

// ---- documents

type docEntry struct {
	Name  int `json:"n"` // index into the plan's universe
	Key   int `json:"k"` // universe key index; all entries of one document have different keys
	Spell int `json:"s,omitempty"`
}

type docSpec struct {
	Entries []docEntry `json:"entries"`
	WS      int        `json:"ws"` // 0 compact without final newline, 1 README layout, 2 tabs + CRLF, 3 lavish white space
}

var wsNames = []string{"compact-no-newline", "readme", "tabs-crlf", "lavish"}
var spellNames = []string{"raw", "short-escapes+u", "all-u-upper"}

func (d *docSpec) bytes(universe []string, kl int) []byte {
	colon := []string{":", ": ", " : ", "  :\t"}[d.WS]
	var members []string
	for _, e := range d.Entries {
		sp := e.Spell
		if len(universe[e.Name]) > 1000 && sp == 2 {
			sp = 1
		}
		members = append(members, spellName(universe[e.Name], sp)+colon+`"`+base64.StdEncoding.EncodeToString(credx.Key(kl, e.Key))+`"`)
	}
	switch d.WS {
	case 0:
		return []byte("{" + strings.Join(members, ",") + "}")
	case 1:
		if len(members) == 0 {
			return []byte("{}\n")
		}
		return []byte("{\n    " + strings.Join(members, ",\n    ") + "\n}\n")
	case 2:
		if len(members) == 0 {
			return []byte("{\r\n}\r\n")
		}
		return []byte("{\r\n\t" + strings.Join(members, ",\r\n\t") + "\r\n}\r\n")
	}
	return []byte("\n \t{\n\n  " + strings.Join(members, "  ,\n\n\n  ") + " \n\n}\n\n  \n")
}

// meaning: for every name of the document the keys of its members, in file order.
func (d *docSpec) meaning(universe []string, kl int) map[string][][]byte {
	m := map[string][][]byte{}
	for _, e := range d.Entries {
		n := universe[e.Name]
		m[n] = append(m[n], credx.Key(kl, e.Key))
	}
	return m
}

func (d *docSpec) hasDup() bool {
	seen := map[int]bool{}
	for _, e := range d.Entries {
		if seen[e.Name] {
			return true
		}
		seen[e.Name] = true
	}
	return false
}

// ---- plan

type nstep struct {
	Op     string   `json:"op"` // add update delete load restart
	Name   int      `json:"name"`
	Key    int      `json:"key"`
	Enc    int      `json:"enc"`             // how the per-user path is percent-encoded
	Spell  int      `json:"spell,omitempty"` // add: how the name is spelled in the JSON request body
	Doc    *docSpec `json:"doc,omitempty"`   // load: the document the operator puts at the path
	Via    string   `json:"via,omitempty"`   // load: api (POST reload-users), signal (Manager.ReloadAll), startup (stop, write, start)
	Follow string   `json:"follow,omitempty"`
	Settle bool     `json:"settle"`
}

type nplan struct {
	KeyLen   int        `json:"key_len"`
	Mode     credx.Mode `json:"mode"`
	Families []int      `json:"families"`
	Pick     [][]int    `json:"pick"` // per family: indices of its names that are in the universe
	Initial  docSpec    `json:"initial"`
	Steps    []nstep    `json:"steps"`
}

func (p nplan) String() string { b, _ := json.Marshal(p); return string(b) }

func (p nplan) universe() (names []string, family []string) {
	seen := map[string]bool{}
	for i, f := range p.Families {
		for _, j := range p.Pick[i] {
			n := nameFamilies[f].Names[j]
			if !seen[n] {
				seen[n] = true
				names = append(names, n)
				family = append(family, nameFamilies[f].Label)
			}
		}
	}
	return
}

const nUniverseKeys = 8

func drawDoc(rt *rapid.T, label string, nNames int, wantDup bool) docSpec {
	d := docSpec{WS: rapid.IntRange(0, 3).Draw(rt, label+"-ws")}
	perm := rapid.Permutation([]int{0, 1, 2, 3, 4, 5, 6, 7}).Draw(rt, label+"-keys")
	n := rapid.IntRange(0, 5).Draw(rt, label+"-n")
	if wantDup && n == 0 {
		n = 1
	}
	for i := 0; i < n; i++ {
		d.Entries = append(d.Entries, docEntry{
			Name:  rapid.IntRange(0, nNames-1).Draw(rt, label+"-name"),
			Key:   perm[i],
			Spell: rapid.IntRange(0, 2).Draw(rt, label+"-spell"),
		})
	}
	if wantDup {
		// the same username once more, with another key, spelled and placed independently
		src := d.Entries[rapid.IntRange(0, n-1).Draw(rt, label+"-dupsrc")]
		e := docEntry{Name: src.Name, Key: perm[n], Spell: rapid.IntRange(0, 2).Draw(rt, label+"-dupspell")}
		pos := rapid.IntRange(0, n).Draw(rt, label+"-duppos")
		d.Entries = append(d.Entries[:pos], append([]docEntry{e}, d.Entries[pos:]...)...)
		if rapid.IntRange(0, 3).Draw(rt, label+"-triple") == 0 {
			d.Entries = append(d.Entries, docEntry{Name: src.Name, Key: perm[n+1], Spell: rapid.IntRange(0, 2).Draw(rt, label+"-tspell")})
		}
	}
	return d
}

func drawNPlan(rt *rapid.T) nplan {
	p := nplan{
		KeyLen: rapid.SampledFrom([]int{16, 32}).Draw(rt, "keyLen"),
		Mode:   rapid.SampledFrom([]credx.Mode{credx.TCPOnly, credx.UDPOnly, credx.Both}).Draw(rt, "mode"),
	}
	nf := rapid.IntRange(1, 2).Draw(rt, "nfamilies")
	fperm := rapid.Permutation(seq(len(nameFamilies))).Draw(rt, "families")
	for i := 0; i < nf; i++ {
		f := fperm[i]
		p.Families = append(p.Families, f)
		all := seq(len(nameFamilies[f].Names))
		take := rapid.IntRange(2, min(4, len(all))).Draw(rt, "take")
		p.Pick = append(p.Pick, rapid.Permutation(all).Draw(rt, "pick")[:take])
	}
	names, _ := p.universe()
	nn := len(names)
	p.Initial = drawDoc(rt, "init", nn, rapid.IntRange(0, 3).Draw(rt, "initdup") == 0)
	n := rapid.IntRange(1, 8).Draw(rt, "nsteps")
	for i := 0; i < n; i++ {
		s := nstep{Name: rapid.IntRange(0, nn-1).Draw(rt, "name"), Key: rapid.IntRange(0, nUniverseKeys-1).Draw(rt, "key"),
			Enc: rapid.IntRange(0, 2).Draw(rt, "enc"), Spell: rapid.IntRange(0, 2).Draw(rt, "spell")}
		switch k := rapid.IntRange(0, 99).Draw(rt, "opkind"); {
		case k < 25:
			s.Op = "add"
		case k < 48:
			s.Op = "update"
		case k < 68:
			s.Op = "delete"
		case k < 94:
			s.Op = "load"
			s.Via = rapid.SampledFrom([]string{"api", "api", "signal", "signal", "startup"}).Draw(rt, "via")
			dup := rapid.IntRange(0, 1).Draw(rt, "dup") == 0
			d := drawDoc(rt, "doc", nn, dup)
			s.Doc = &d
			if dup {
				s.Follow = rapid.SampledFrom([]string{"delete", "rotate", "delete", "rotate", ""}).Draw(rt, "follow")
			}
		default:
			s.Op = "restart"
		}
		s.Settle = rapid.IntRange(0, 2).Draw(rt, "settle") != 0
		p.Steps = append(p.Steps, s)
	}
	return p
}

func seq(n int) []int {
	s := make([]int, n)
	for i := range s {
		s[i] = i
	}
	return s
}

// ---- executor

type nexec struct {
	p          nplan
	names      []string
	fam        []string
	dir, path  string
	rig        *credx.Rig
	cancel     context.CancelFunc
	model      map[string][]byte
	pending    bool
	harnessDoc []byte
	syncBytes  []byte
	seen       map[int]bool // universe key indices the server has been shown so far (documents, requests)
	out        *outcome
	history    []string
}

func (x *nexec) start() error {
	rig, err := credx.NewRig(x.path, x.p.KeyLen, x.p.Mode, nil)
	if err != nil {
		return err
	}
	ctx, cancel := context.WithCancel(context.Background())
	rig.Start(ctx)
	x.rig, x.cancel = rig, cancel
	return nil
}

func (x *nexec) stop() {
	if x.rig != nil {
		x.cancel()
		x.rig.Stop()
		x.rig = nil
	}
}

func (x *nexec) lab(l string) { x.out.labels[l] = true }

func (x *nexec) failf(sig, format string, a ...any) string {
	return fmt.Sprintf("SIG=C08/%s ", sig) + fmt.Sprintf(format, a...) +
		fmt.Sprintf("\n  keyLen=%d stores=%v\n  history: %s\n  model now: %s",
			x.p.KeyLen, x.p.Mode, strings.Join(x.history, "; "), showNamed(x.model, x.p.KeyLen))
}

func (x *nexec) owner(key []byte) (string, bool) {
	for n, k := range x.model {
		if bytes.Equal(k, key) {
			return n, true
		}
	}
	return "", false
}

func (x *nexec) userPath(name string, enc int) string {
	return "/servers/" + x.rig.Name + "/users/" + encSeg(name, enc)
}

func (x *nexec) settle() {
	time.Sleep(6 * time.Second)
	synctest.Wait()
	if x.pending {
		x.pending = false
		x.harnessDoc = nil
		if b, err := os.ReadFile(x.path); err == nil {
			x.syncBytes = b
		}
	}
}

// sibling: is another name of the same family (a look-alike) in the current set?
func (x *nexec) sibling(i int) bool {
	for j, n := range x.names {
		if j != i && x.fam[j] == x.fam[i] {
			if _, ok := x.model[n]; ok {
				return true
			}
		}
	}
	return false
}

func (x *nexec) views(withFile bool) string {
	kl := x.p.KeyLen
	for i := 0; i <= nUniverseKeys; i++ {
		ki := i
		if i == nUniverseKeys {
			ki = 9 // never issued
		} else if !x.seen[i] {
			continue // never shown to the server either: the same class as the never-issued key
		}
		key := credx.Key(kl, ki)
		want, listed := x.owner(key)
		for _, tr := range []string{"tcp", "udp"} {
			var pr credx.Probe
			if tr == "tcp" {
				if !x.p.Mode.HasTCP() {
					continue
				}
				pr = x.rig.ProbeTCP(key)
			} else {
				if !x.p.Mode.HasUDP() {
					continue
				}
				pr = x.rig.ProbeUDP(key)
			}
			switch {
			case listed && pr.OK && pr.User == want && !pr.ReplyOK:
				return x.failf("reply-round-trip-failed", "%s client with k%d (user %s) was accepted but the server's reply did not make the round trip: %s", tr, ki, showName(want), pr.ReplyErr)
			case listed && !pr.OK:
				return x.failf("listed-key-refused", "%s client with k%d (user %s in the current set) was refused: %s", tr, ki, showName(want), pr.Err)
			case listed && pr.User != want:
				return x.failf("wrong-attribution", "%s client with k%d attributed to %s, want %s", tr, ki, showName(pr.User), showName(want))
			case !listed && pr.OK:
				return x.failf("accepted-key-not-in-set", "%s client with k%d (not in the current set) was accepted as %s", tr, ki, showName(pr.User))
			case !listed && !pr.NotFound:
				return x.failf("refusal-reason", "%s client with k%d refused for an unexpected reason: %s", tr, ki, pr.Err)
			}
		}
	}
	listed, err := x.rig.List()
	if err != nil {
		return x.failf("api-list-broken", "%v", err)
	}
	if !credx.SameUsers(listed, x.model) {
		return x.failf("api-list-mismatch", "API lists %s", showNamed(listed, kl))
	}
	// every universe name through GET users/{name}, in every encoding of the path
	for i, n := range x.names {
		for enc := 0; enc <= 2; enc++ {
			if len(n) > 1000 && enc != 0 {
				continue
			}
			code, body := x.rig.DoRaw(http.MethodGet, x.userPath(n, enc), nil)
			k, in := x.model[n]
			if !in {
				if code != http.StatusNotFound {
					return x.failf("get-user/unlisted-answered", "GET users/%s (name %s, not in the set) answered %d %.200q", encSeg(n, enc), showName(n), code, body)
				}
				continue
			}
			var u struct {
				Name string `json:"username"`
				UPSK []byte `json:"uPSK"`
			}
			if code != http.StatusOK || json.Unmarshal(body, &u) != nil {
				return x.failf("get-user/listed-not-found", "GET users/%s (name %s, in the set) answered %d %.200q", encSeg(n, enc), showName(n), code, body)
			}
			if u.Name != n || !bytes.Equal(u.UPSK, k) {
				return x.failf("get-user/wrong-user", "GET users/%s (name %s) reports user %s with %s, want %s", encSeg(n, enc), showName(n), showName(u.Name), credx.KeyName(u.UPSK, kl), credx.KeyName(k, kl))
			}
			if x.sibling(i) {
				x.lab("per-user-get-with-lookalike-present")
				x.lab("lookalike/" + x.fam[i])
			}
		}
	}
	if withFile {
		b, err := os.ReadFile(x.path)
		if err != nil {
			return x.failf("file-unreadable", "%v", err)
		}
		if x.harnessDoc != nil {
			if !bytes.Equal(b, x.harnessDoc) {
				return x.failf("file-rewritten-without-change", "no change was acknowledged since the operator wrote the file, yet it changed: %.300q -> %.300q", x.harnessDoc, b)
			}
		} else {
			got, complete, err := credx.DecodeStore(b, kl)
			if err != nil || !complete {
				return x.failf("file-not-loadable", "saved store file does not decode: err=%v complete=%v content=%.400q", err, complete, b)
			}
			if !credx.SameUsers(got, x.model) {
				return x.failf("file-mismatch", "store file holds %s", showNamed(got, kl))
			}
			if len(x.model) > 0 {
				x.lab("saved-file-decoded")
				for n := range x.model {
					if len(n) > 200 {
						x.lab("saved-file-with-long-name")
					}
					if strings.ContainsAny(n, "\"\\/<>&\t\n") || !isASCII(n) {
						x.lab("saved-file-with-name-needing-json-escapes")
					}
				}
			}
		}
	}
	return ""
}

func isASCII(s string) bool {
	for i := 0; i < len(s); i++ {
		if s[i] >= 0x80 {
			return false
		}
	}
	return true
}

// resolve decides what a loaded document means given what the server lists: a name that occurs
// once must have its key; a name that occurs several times may have the key of any ONE of its
// occurrences (whatever the loader decides). Returns the choice per duplicated name.
func resolve(meaning map[string][][]byte, listed map[string][]byte) (ok bool, choice []string) {
	if len(listed) != len(meaning) {
		return false, nil
	}
	for n, cands := range meaning {
		k, in := listed[n]
		if !in {
			return false, nil
		}
		hit := -1
		for i, c := range cands {
			if bytes.Equal(c, k) {
				hit = i
			}
		}
		if hit < 0 {
			return false, nil
		}
		if len(cands) > 1 {
			switch hit {
			case 0:
				choice = append(choice, "first")
			case len(cands) - 1:
				choice = append(choice, "last")
			default:
				choice = append(choice, "middle")
			}
		}
	}
	return true, choice
}

// load puts the document at the path and has the server load it (via api / signal / startup).
// ended: the plan cannot continue (no violation); stop: a violation was recorded.
func (x *nexec) load(d *docSpec, via string, first bool) (class string, dupName string, ended, stop bool) {
	kl := x.p.KeyLen
	content := d.bytes(x.names, kl)
	meaning := d.meaning(x.names, kl)
	for _, e := range d.Entries {
		x.seen[e.Key] = true
	}
	// harness self-check: the document is valid JSON and says what the spec says
	var chk map[string]string
	if err := json.Unmarshal(content, &chk); err != nil || len(chk) != len(meaning) || !utf8.Valid(content) {
		x.out.violation = fmt.Sprintf("HARNESS document builder wrote an invalid document (%v): %.300q", err, content)
		return "", "", false, true
	}
	for n := range meaning {
		if _, ok := chk[n]; !ok {
			x.out.violation = fmt.Sprintf("HARNESS document lacks %s: %.300q", showName(n), content)
			return "", "", false, true
		}
	}
	dup := d.hasDup()
	if via == "startup" && !first {
		x.settle()
		if v := x.views(true); v != "" {
			x.out.violation = v
			return "", "", false, true
		}
		x.stop()
	}
	if err := credx.WriteStore(x.path, content); err != nil {
		x.out.violation = "HARNESS write: " + err.Error()
		return "", "", false, true
	}
	desc := fmt.Sprintf("load[%s](%.600q)", via, content)
	noop := !first && via != "startup" && bytes.Equal(content, x.syncBytes)
	refused := false
	switch via {
	case "startup":
		if err := x.start(); err != nil {
			x.history = append(x.history, desc+"->refused: "+err.Error())
			if !dup {
				x.out.violation = x.failf("valid-file-refused", "a valid store document is refused at start-up: %v", err)
				return "", "", false, true
			}
			x.lab("dup-name-document-refused")
			return "startup-dup-refused", "", true, false
		}
		x.history = append(x.history, desc+"->started")
	case "api":
		code, body := x.rig.Reload()
		x.history = append(x.history, fmt.Sprintf("%s->%d", desc, code))
		switch {
		case accepted(code):
		case dup && code >= 400:
			refused = true
		default:
			x.out.violation = x.failf("valid-file-refused", "POST reload-users answered %d %q but the file is a valid store document", code, body)
			return "", "", false, true
		}
	case "signal":
		x.rig.Mgr.ReloadAll()
		x.history = append(x.history, desc+"->reload-all")
	}
	x.harnessDoc = content
	if noop {
		// byte-identical to what the server last read or wrote: documented "skip if unchanged"
		return "load-unmodified-noop", "", false, false
	}
	listed, err := x.rig.List()
	if err != nil {
		x.out.violation = x.failf("api-list-broken", "%v", err)
		return "", "", false, true
	}
	ok, choice := resolve(meaning, listed)
	switch {
	case refused || (dup && via == "signal" && !ok && credx.SameUsers(listed, x.model)):
		// a document with a duplicated name may be refused; then nothing may have changed
		x.lab("dup-name-document-refused")
		if v := x.views(false); v != "" {
			x.out.violation = strings.Replace(v, "SIG=C08/", "SIG=C08/refused-reload-changed-state/", 1)
			return "", "", false, true
		}
		return "load-dup-refused", "", true, false
	case !ok:
		sig := "api-list-mismatch"
		if dup {
			sig = "duplicate-name-document/list-is-no-reading-of-the-file"
		}
		x.out.violation = x.failf(sig, "after %s the API lists %s", desc, showNamed(listed, kl))
		return "", "", false, true
	}
	changed := !credx.SameUsers(listed, x.model)
	x.model = listed
	x.syncBytes = content
	class = "load-" + via
	if changed {
		class += "-changed"
	}
	x.lab("doc/via-" + via)
	x.lab("doc/ws/" + wsNames[d.WS])
	sorted := sort.SliceIsSorted(d.Entries, func(i, j int) bool { return x.names[d.Entries[i].Name] < x.names[d.Entries[j].Name] })
	if !sorted {
		x.lab("doc/members-not-in-sorted-order")
	}
	for _, e := range d.Entries {
		n := x.names[e.Name]
		x.lab("doc/spell/" + spellNames[e.Spell])
		x.lab("doc/family/" + x.fam[e.Name])
		if len(n) > 200 {
			x.lab("doc/long-name")
		}
		if len(n) > 60000 {
			x.lab("doc/very-long-name-64k+")
		}
		if e.Spell > 0 && (strings.ContainsAny(n, "\"\\/\t\n") || !isASCII(n)) {
			x.lab("doc/name-spelled-with-escapes")
		}
	}
	if dup {
		class += "-dupname-" + strings.Join(choice, "+")
		x.lab("doc/dup-name/" + via)
		for _, c := range choice {
			x.lab("doc/dup-name-resolved-" + c)
		}
		x.out.nontriv = true
		for n, c := range meaning {
			if len(c) > 1 {
				dupName = n
			}
		}
	}
	if changed && (d.WS != 1 || !sorted) {
		x.out.nontriv = true
	}
	return class, dupName, false, false
}

func (x *nexec) freeKey() []byte {
	for k := 0; k < nUniverseKeys; k++ {
		if _, held := x.owner(credx.Key(x.p.KeyLen, k)); !held {
			x.seen[k] = true
			return credx.Key(x.p.KeyLen, k)
		}
	}
	return nil
}

func (x *nexec) run() {
	kl := x.p.KeyLen
	x.model = map[string][]byte{}
	x.seen = map[int]bool{}
	defer x.stop()
	class, dupName, ended, stop := x.load(&x.p.Initial, "startup", true)
	if stop || ended {
		x.out.trace = append(x.out.trace, class)
		return
	}
	x.out.trace = append(x.out.trace, class)
	_ = dupName
	if v := x.views(true); v != "" {
		x.out.violation = v
		return
	}
	for i, s := range x.p.Steps {
		name := x.names[s.Name]
		var class string
		switch s.Op {
		case "add", "update":
			key := credx.Key(kl, s.Key)
			x.seen[s.Key] = true
			_, exists := x.model[name]
			holder, held := x.owner(key)
			var wantOK bool
			var why string
			var code int
			var body []byte
			if s.Op == "add" {
				switch {
				case exists:
					why = "dup-name"
				case held:
					why = "dup-key"
				default:
					wantOK = true
				}
				req := `{"username":` + spellName(name, s.Spell) + `,"uPSK":"` + base64.StdEncoding.EncodeToString(key) + `"}`
				if len(name) > 1000 && s.Spell == 2 {
					req = `{"username":` + spellName(name, 1) + `,"uPSK":"` + base64.StdEncoding.EncodeToString(key) + `"}`
				}
				code, body = x.rig.DoRaw(http.MethodPost, "/servers/"+x.rig.Name+"/users", []byte(req))
			} else {
				switch {
				case !exists:
					why = "unknown-user"
				case held && holder == name:
					why = "same-key"
				case held:
					why = "dup-key"
				default:
					wantOK = true
				}
				req, _ := json.Marshal(struct {
					UPSK []byte `json:"uPSK"`
				}{key})
				code, body = x.rig.DoRaw(http.MethodPatch, x.userPath(name, s.Enc), req)
			}
			x.history = append(x.history, fmt.Sprintf("%s(%s,%s)[enc%d]->%d", s.Op, showName(name), credx.KeyName(key, kl), s.Enc, code))
			switch {
			case wantOK && accepted(code):
				class = s.Op + "-ok"
				x.model[name] = key
				x.pending = true
				if s.Op == "update" && x.sibling(s.Name) {
					x.lab("per-user-update-with-lookalike-present")
					x.lab("lookalike/" + x.fam[s.Name])
					x.out.nontriv = true
				}
				if s.Op == "add" {
					x.lab("add/spell/" + spellNames[s.Spell])
				}
			case !wantOK && rejected(code):
				class = s.Op + "-rej-" + why
				if why == "unknown-user" && x.sibling(s.Name) {
					x.lab("per-user-update-of-absent-name-with-lookalike-present")
				}
			default:
				x.out.violation = x.failf("status-mismatch/"+s.Op, "%s of %s answered %d %.200q, expected %s (%s)", s.Op, showName(name), code, body,
					map[bool]string{true: "2xx", false: "4xx"}[wantOK], why)
				return
			}
		case "delete":
			_, exists := x.model[name]
			code, body := x.rig.DoRaw(http.MethodDelete, x.userPath(name, s.Enc), nil)
			x.history = append(x.history, fmt.Sprintf("delete(%s)[enc%d]->%d", showName(name), s.Enc, code))
			switch {
			case exists && accepted(code):
				class = "delete-ok"
				delete(x.model, name)
				x.pending = true
				if x.sibling(s.Name) {
					x.lab("per-user-delete-with-lookalike-present")
					x.lab("lookalike/" + x.fam[s.Name])
					x.out.nontriv = true
				}
			case !exists && rejected(code):
				class = "delete-rej-unknown"
				if x.sibling(s.Name) {
					x.lab("per-user-delete-of-absent-name-with-lookalike-present")
				}
			default:
				x.out.violation = x.failf("status-mismatch/delete", "delete of %s answered %d %.200q (user exists in model: %v)", showName(name), code, body, exists)
				return
			}
		case "load":
			var dupName string
			var ended, stop bool
			class, dupName, ended, stop = x.load(s.Doc, s.Via, false)
			if stop {
				return
			}
			if ended {
				x.out.trace = append(x.out.trace, class)
				return
			}
			if dupName != "" && s.Follow != "" {
				// the three views first, then the follow-up request on the user whose name was duplicated
				if v := x.views(false); v != "" {
					x.out.violation = strings.Replace(v, "SIG=C08/", "SIG=C08/duplicate-name-document/", 1)
					return
				}
				var code int
				if s.Follow == "delete" {
					code, _ = x.rig.DoRaw(http.MethodDelete, x.userPath(dupName, s.Enc), nil)
					delete(x.model, dupName)
				} else {
					k := x.freeKey()
					req, _ := json.Marshal(struct {
						UPSK []byte `json:"uPSK"`
					}{k})
					code, _ = x.rig.DoRaw(http.MethodPatch, x.userPath(dupName, s.Enc), req)
					x.model[dupName] = k
				}
				x.history = append(x.history, fmt.Sprintf("%s(%s)->%d", s.Follow, showName(dupName), code))
				if !accepted(code) {
					x.out.violation = x.failf("status-mismatch/after-duplicate-name-document", "%s of the listed user %s answered %d", s.Follow, showName(dupName), code)
					return
				}
				x.pending = true
				if v := x.views(false); v != "" {
					x.out.violation = strings.Replace(v, "SIG=C08/", "SIG=C08/duplicate-name-document/after-"+s.Follow+"/", 1)
					return
				}
				x.settle()
				if v := x.views(true); v != "" {
					x.out.violation = strings.Replace(v, "SIG=C08/", "SIG=C08/duplicate-name-document/after-"+s.Follow+"+save/", 1)
					return
				}
				x.lab("doc/dup-name-then-" + s.Follow + "-then-save")
				class += "-then-" + s.Follow
			}
		case "restart":
			x.settle()
			if v := x.views(true); v != "" {
				x.out.violation = v
				return
			}
			x.stop()
			x.history = append(x.history, "restart")
			if err := x.start(); err != nil {
				b, _ := os.ReadFile(x.path)
				x.out.violation = x.failf("restart-failed", "the store file %.400q is refused at start-up: %v", b, err)
				return
			}
			class = "restart"
			if x.harnessDoc == nil && len(x.model) > 0 {
				x.lab("restart-on-server-written-file")
			}
		}
		x.out.trace = append(x.out.trace, class)
		x.lab("op/" + strings.SplitN(class, "-dupname", 2)[0])
		x.lab("pathenc/" + []string{"minimal", "full-upper-hex", "full-lower-hex"}[s.Enc])
		settle := s.Settle || i == len(x.p.Steps)-1
		if settle {
			x.settle()
		}
		if v := x.views(settle); v != "" {
			x.out.violation = v
			return
		}
	}
}

func runNPlan(t *testing.T, p nplan) *outcome {
	out := &outcome{labels: map[string]bool{}}
	dir, err := os.MkdirTemp(workDir(), "verif-c08-n-")
	if err != nil {
		out.violation = "HARNESS tempdir: " + err.Error()
		return out
	}
	defer os.RemoveAll(dir)
	x := &nexec{p: p, dir: dir, path: filepath.Join(dir, "upsks.json"), out: out}
	x.names, x.fam = p.universe()
	synctest.Test(t, func(t *testing.T) { x.run() })
	return out
}

var recNames = ev.New("C08", "unusual-names-and-documents",
	"rapid stateful plans on a fake clock: key size {16,32} x stores {tcp,udp,both}; a universe of 2-8 usernames taken from 1-2 look-alike "+
		"families (percent-escape look-alikes and their once-more-decoded forms, '+'/space, slashes, '?', '#', dots incl. '.' and '..', unicode "+
		"NFC/NFD/case, leading/trailing space, JSON-special characters, names of 255..70000 bytes); store documents written member by member "+
		"(any member order, the same username 2-3 times with different keys, 4 white-space layouts incl. CRLF and no final newline, 3 JSON "+
		"spellings of each name) loaded at start-up, through POST reload-users and through Manager.ReloadAll; POST users with the name spelled "+
		"3 ways; PATCH/DELETE/GET users/{name} with the path percent-encoded 3 correct ways; after a duplicated-name document optionally a "+
		"DELETE/PATCH of that user and the save. After every step: real TCP/UDP clients for 8 universe keys + a never-issued key, GET users, "+
		"GET users/{name} for every universe name in every encoding, and (after the 5 s debounce) the store file, against a model keyed by the "+
		"literal name; for a duplicated name the listed key must be the key of one of its occurrences and every other view must agree with it. "+
		"Non-trivial: an acknowledged per-user request while a look-alike of the addressed name is in the set, or a duplicated-name document "+
		"loaded, or a set-changing document in a non-README layout/order. Distinct key = key size + stores + families + op/outcome trace").
	Require(
		"doc/dup-name/startup", "doc/dup-name/api", "doc/dup-name/signal",
		"doc/dup-name-then-delete-then-save", "doc/dup-name-then-rotate-then-save",
		"doc/ws/compact-no-newline", "doc/ws/readme", "doc/ws/tabs-crlf", "doc/ws/lavish",
		"doc/spell/raw", "doc/spell/short-escapes+u", "doc/spell/all-u-upper", "doc/name-spelled-with-escapes",
		"doc/members-not-in-sorted-order", "doc/long-name", "doc/very-long-name-64k+",
		"doc/via-startup", "doc/via-api", "doc/via-signal",
		"saved-file-with-long-name", "saved-file-with-name-needing-json-escapes", "restart-on-server-written-file",
		"per-user-get-with-lookalike-present", "per-user-update-with-lookalike-present", "per-user-delete-with-lookalike-present",
		"per-user-delete-of-absent-name-with-lookalike-present",
		"lookalike/pct-letter", "lookalike/pct-space-plus", "lookalike/pct-slash", "lookalike/pct-invalid", "lookalike/slash",
		"lookalike/query-fragment", "lookalike/dots", "lookalike/unicode", "lookalike/case-space", "lookalike/json-special", "lookalike/long",
		"pathenc/minimal", "pathenc/full-upper-hex", "pathenc/full-lower-hex",
		"mode/tcp", "mode/udp", "mode/both", "keylen/16", "keylen/32")

func TestUnusualNamesAndDocuments(t *testing.T) {
	rapid.Check(t, func(rt *rapid.T) {
		p := drawNPlan(rt)
		out := runNPlan(t, p)
		if out.violation != "" {
			rt.Fatalf("%s\n  plan: %s", out.violation, p)
		}
		labels := []string{"mode/" + p.Mode.String(), fmt.Sprintf("keylen/%d", p.KeyLen)}
		for l := range out.labels {
			labels = append(labels, l)
		}
		sort.Strings(labels)
		var fams []string
		for _, f := range p.Families {
			fams = append(fams, nameFamilies[f].Label)
		}
		key := fmt.Sprintf("%d/%v/%s/%s", p.KeyLen, p.Mode, strings.Join(fams, "+"), strings.Join(out.trace, ","))
		recNames.Case(key, out.nontriv, labels...)
		if out.nontriv {
			recNames.Sample(map[string]any{"plan": p, "families": fams, "trace": out.trace})
		}
	})
}
