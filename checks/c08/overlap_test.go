package c08

import (
	"fmt"
	"os"
	"strconv"
	"testing"
	"time"

	"verif/internal/credx"
	"verif/internal/ev"
)

// Two overlapping POST reload-users with the file replaced in between: the first reload starts
// on a large document (thousands of users, so reading and decoding it takes milliseconds), the
// operator then replaces the file atomically with a small one and asks for a second reload while
// the first is still in flight. Once both have returned nothing is pending, so the three views
// must show the FINAL file content: an implementation that lets the slow reload of the older
// version commit after the fast reload of the newer one serves the old version while the file
// holds the new one.

const sigStaleReload = "stale-reload-overwrites-newer"

var recOverlap = ev.New("C08", "overlapping-reloads",
	"time-boxed trials on one live server per configuration: file := V1 (N=3000 bulk users + a V1-only user); POST reload-users #1 in a "+
		"goroutine; after a delay swept over 0/50us/200us/1ms/3ms the file is atomically replaced by V2 (a V2-only user + a user whose key "+
		"V1 gave to someone else) and POST reload-users #2 is issued; when both have returned (2xx) the API list, real TCP/UDP clients (V1-only "+
		"key, V2-only key, moved key, one bulk key) and the decoded file must all equal V2. Non-trivial: reload #2 was issued while #1 was still in flight").
	Require("second-reload-issued-while-first-in-flight")

func overlapTrial(c *crig, kl int, mode credx.Mode, nBig int, delay time.Duration, seq int) (violation string, inFlight bool) {
	big := make(map[string][]byte, nBig+2)
	for i := 0; i < nBig; i++ {
		big[fmt.Sprintf("bulk%05d", i)] = credx.Key(kl, 5000+i)
	}
	big["v1-only"] = credx.Key(kl, 1)
	big["moved-away"] = credx.Key(kl, 3) // V2 gives this key to another user
	small := map[string][]byte{"v2-only": credx.Key(kl, 2), "moved-here": credx.Key(kl, 3)}
	if seq%2 == 1 { // alternate so that consecutive trials never reload identical sets
		small["odd"] = credx.Key(kl, 4)
	}
	if err := c.put(big); err != nil {
		return "HARNESS " + err.Error(), false
	}
	r1 := make(chan int, 1)
	go func() { code, _ := c.rig.Reload(); r1 <- code }()
	if delay > 0 {
		t0 := time.Now()
		for time.Since(t0) < delay {
		}
	}
	if err := c.put(small); err != nil {
		<-r1
		return "HARNESS " + err.Error(), false
	}
	select {
	case code := <-r1:
		r1 <- code
	default:
		inFlight = true
	}
	code2, body2 := c.rig.Reload()
	code1 := <-r1
	if !accepted(code1) || !accepted(code2) {
		return fmt.Sprintf("SIG=C08/valid-file-refused overlapping reloads of valid files answered %d and %d (%s)", code1, code2, body2), inFlight
	}
	b, err := os.ReadFile(c.path)
	if err != nil {
		return "HARNESS " + err.Error(), inFlight
	}
	final, complete, derr := credx.DecodeStore(b, kl)
	if derr != nil || !complete || !credx.SameUsers(final, small) {
		return fmt.Sprintf("HARNESS final file is not what the harness wrote: %v", derr), inFlight
	}
	listed, err := c.rig.List()
	if err != nil {
		return "SIG=C08/api-list-broken " + err.Error(), inFlight
	}
	where := fmt.Sprintf("reload #1 started on a %d-user file, file replaced %v later by %s, reload #2 issued (first still in flight: %v), both returned %d/%d",
		len(big), delay, credx.Show(small, kl), inFlight, code1, code2)
	if !credx.SameUsers(listed, small) {
		desc := credx.Show(listed, kl)
		if len(listed) > 8 {
			_, v1 := listed["v1-only"]
			desc = fmt.Sprintf("%d users (v1-only listed: %v)", len(listed), v1)
		}
		return fmt.Sprintf("SIG=C08/%s %s; the file holds %s but the API lists %s", sigStaleReload, where, credx.Show(small, kl), desc), inFlight
	}
	if d := liveViewKeys(c.rig, kl, mode, listed, []int{1, 2, 3, 4, 5000, 5000 + nBig - 1}); d != "" {
		return fmt.Sprintf("SIG=C08/%s %s; the file and the API list hold %s but %s", sigStaleReload, where, credx.Show(small, kl), d), inFlight
	}
	return "", inFlight
}

func TestOverlappingReloads(t *testing.T) {
	budget := time.Duration(envIntC08("VERIF_C08_OVERLAP_MS", 3000)) * time.Millisecond
	nBig := envIntC08("VERIF_C08_OVERLAP_USERS", 3000)
	seed := 0
	if v, err := strconv.Atoi(os.Getenv("VERIF_SEED")); err == nil {
		seed = v
	}
	if v, err := strconv.Atoi(os.Getenv("VERIF_SHARD")); err == nil {
		seed += v
	}
	type cfg struct {
		kl   int
		mode credx.Mode
	}
	cfgs := []cfg{{16, credx.Both}, {32, credx.TCPOnly}, {16, credx.UDPOnly}}
	delays := []time.Duration{0, 50 * time.Microsecond, 200 * time.Microsecond, time.Millisecond, 3 * time.Millisecond}
	deadline := time.Now().Add(budget)
	seq := 0
	for ci := 0; time.Now().Before(deadline); ci++ {
		c := cfgs[(ci+seed)%len(cfgs)]
		cr, err := newCRig(c.kl, c.mode)
		if err != nil {
			t.Fatalf("HARNESS %v", err)
		}
		batchEnd := time.Now().Add(budget / 3)
		for time.Now().Before(batchEnd) && time.Now().Before(deadline) {
			delay := delays[(seq+seed)%len(delays)]
			v, inFlight := overlapTrial(cr, c.kl, c.mode, nBig, delay, seq)
			seq++
			if v != "" {
				cr.close()
				if isKnown(sigStaleReload) && !isHarness(v) {
					recOverlap.KnownHit(listedSig(sigStaleReload))
					cr = nil
					break
				}
				t.Fatalf("%s\n  (trial %d; server keyLen=%d stores=%v)", v, seq, c.kl, c.mode)
			}
			labels := []string{"mode/" + c.mode.String(), fmt.Sprintf("delay/%v", delay)}
			if inFlight {
				labels = append(labels, "second-reload-issued-while-first-in-flight")
			}
			recOverlap.Case(fmt.Sprintf("%v/%v/%v", c.mode, delay, inFlight), inFlight, labels...)
		}
		if cr != nil {
			cr.close()
		}
	}
	recOverlap.Extra("trials", seq)
}

func isHarness(v string) bool { return len(v) >= 7 && v[:7] == "HARNESS" }
