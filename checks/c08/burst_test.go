package c08

import (
	"bytes"
	"context"
	"fmt"
	"os"
	"runtime"
	"sort"
	"strconv"
	"strings"
	"sync"
	"sync/atomic"
	"testing"
	"time"

	"pgregory.net/rapid"

	"verif/internal/credx"
	"verif/internal/ev"
)

// Racing writes that carry ONE key for DIFFERENT users. Holding a CredStore lock cannot widen a
// window that lies inside AddCredential/UpdateCredential themselves (validation, building the
// cipher config, inserting), so this stage uses plain parallelism instead: rounds of 8–16
// requests released together through the ssm handlers, all but a few carrying the same key.
// Per round the sequential model allows exactly one of the same-key requests to be acknowledged
// (whichever ran first in some order); everything else about the round is compared as usual.

const sigDupConcurrent = "duplicate-upsk-accepted/concurrent"

var recBurst = ev.New("C08", "same-key-bursts",
	"rounds on one live server: 8-16 requests released together (spin barrier or channel), most of them POST users / PATCH users/{name} "+
		"carrying ONE hot key for different (new resp. existing) users, a few with distinct fresh keys, sometimes with the hot key already held "+
		"by a bystander; after all returned: exactly one hot-key request may be acknowledged (none if the key was already held), every "+
		"distinct-key request must be; API list = model (winner is whichever was acknowledged); real TCP/UDP clients with the hot key and "+
		"every other key of the round are accepted/attributed as listed; then the winner is deleted (or rotated away) and every still-listed "+
		"user must still be accepted, the hot key refused; at the end of a batch the debounce-saved store file must decode (no shared key) "+
		"to the listed set. One evaluation = one round. Non-trivial: >= 2 hot-key requests were in flight and the hot key was free").
	Require("hot-key-free", "hot-key-held", "post-and-patch-mixed")

type burstReq struct {
	patch bool
	name  string
	key   int
	hot   bool
	code  int
	body  string
}

type burstRound struct {
	kl        int
	mode      credx.Mode
	n         int
	nDistinct int
	nPatch    int
	held      bool // the hot key is already held by a bystander: nobody may win
	spin      bool // spin barrier instead of channel close
	deleteHow int  // 0 DELETE the winner, 1 PATCH the winner to a fresh key
}

// runBurstRound executes one round on rig; round numbers make names and keys unique.
func runBurstRound(r *credx.Rig, rd burstRound, seq int) (violation string, labels []string) {
	kl := rd.kl
	keyBase := 100 + seq*64 // fresh universe indexes for this round
	hot := keyBase
	pre, err := r.List()
	if err != nil {
		return "SIG=C08/api-list-broken " + err.Error(), nil
	}
	model := map[string][]byte{}
	for n, k := range pre {
		model[n] = k
	}
	// sequential set-up: users that the PATCH requests will rotate, and the bystander
	setup := func(name string, key int) string {
		if code, body := r.Add(name, credx.Key(kl, key)); !accepted(code) {
			return fmt.Sprintf("HARNESS set-up add(%s) -> %d %s", name, code, body)
		}
		model[name] = credx.Key(kl, key)
		return ""
	}
	var reqs []*burstReq
	for i := 0; i < rd.n; i++ {
		q := &burstReq{name: fmt.Sprintf("r%du%d", seq, i), hot: i >= rd.nDistinct, patch: i >= rd.n-rd.nPatch}
		q.key = hot
		if !q.hot {
			q.key = keyBase + 1 + i
		}
		if q.patch {
			if v := setup(q.name, keyBase+32+i); v != "" {
				return v, nil
			}
		}
		reqs = append(reqs, q)
	}
	bystander := ""
	if rd.held {
		bystander = fmt.Sprintf("r%dby", seq)
		if v := setup(bystander, hot); v != "" {
			return v, nil
		}
	}

	// release everything together
	var wg sync.WaitGroup
	start := make(chan struct{})
	var arrived atomic.Int32
	for _, q := range reqs {
		wg.Go(func() {
			if rd.spin {
				arrived.Add(1)
				for arrived.Load() < int32(len(reqs)) {
					runtime.Gosched()
				}
			} else {
				<-start
			}
			var body []byte
			if q.patch {
				q.code, body = r.Update(q.name, credx.Key(kl, q.key))
			} else {
				q.code, body = r.Add(q.name, credx.Key(kl, q.key))
			}
			q.body = string(body)
		})
	}
	close(start)
	wg.Wait()

	describe := func() string {
		var sb strings.Builder
		for _, q := range reqs {
			verb := "POST"
			if q.patch {
				verb = "PATCH"
			}
			k := "hot"
			if !q.hot {
				k = fmt.Sprintf("own%d", q.key-keyBase)
			}
			fmt.Fprintf(&sb, "%s(%s,%s)->%d ", verb, q.name, k, q.code)
		}
		return sb.String()
	}
	var winners []*burstReq
	for _, q := range reqs {
		switch {
		case q.hot && accepted(q.code):
			winners = append(winners, q)
			model[q.name] = credx.Key(kl, q.key)
		case q.hot && rejected(q.code):
		case !q.hot && accepted(q.code):
			model[q.name] = credx.Key(kl, q.key)
		default:
			return fmt.Sprintf("SIG=C08/%s a request with its own fresh key was not acknowledged in a burst: %s", sigNoSerial, describe()), nil
		}
	}
	nHot := rd.n - rd.nDistinct
	if len(winners) > 1 || (rd.held && len(winners) > 0) {
		// show the consequence before reporting
		var cons strings.Builder
		listed, _ := r.List()
		owners := []string{}
		for n, k := range listed {
			if bytes.Equal(k, credx.Key(kl, hot)) {
				owners = append(owners, n)
			}
		}
		sort.Strings(owners)
		fmt.Fprintf(&cons, "API now lists the key for %v; ", owners)
		if len(owners) > 1 {
			code, _ := r.Delete(owners[0])
			fmt.Fprintf(&cons, "DELETE users/%s -> %d; ", owners[0], code)
			if rd.mode.HasTCP() {
				pr := r.ProbeTCP(credx.Key(kl, hot))
				fmt.Fprintf(&cons, "tcp client of still-listed %s: accepted=%v user=%q (%s); ", owners[1], pr.OK, pr.User, pr.Err)
			}
			if rd.mode.HasUDP() {
				pr := r.ProbeUDP(credx.Key(kl, hot))
				fmt.Fprintf(&cons, "udp client of still-listed %s: accepted=%v user=%q (%s); ", owners[1], pr.OK, pr.User, pr.Err)
			}
		}
		return fmt.Sprintf("SIG=C08/%s %d simultaneous requests carried one key for different users (key already held by a bystander: %v) and %d were acknowledged: %s| %s",
			sigDupConcurrent, nHot, rd.held, len(winners), describe(), cons.String()), nil
	}
	if !rd.held && len(winners) == 0 {
		return fmt.Sprintf("SIG=C08/%s none of %d valid same-key requests was acknowledged although the key was free: %s", sigNoSerial, nHot, describe()), nil
	}
	check := func(where string) string {
		listed, err := r.List()
		if err != nil {
			return "SIG=C08/api-list-broken " + err.Error()
		}
		if !credx.SameUsers(listed, model) {
			return fmt.Sprintf("SIG=C08/api-list-mismatch %s: API lists %s, acknowledgements say %s (%s)", where, credx.Show(listed, kl), credx.Show(model, kl), describe())
		}
		keys := []int{hot}
		for _, q := range reqs {
			if !q.hot {
				keys = append(keys, q.key)
			}
			if q.patch {
				keys = append(keys, keyBase+32+indexOf(reqs, q))
			}
		}
		if d := liveViewKeys(r, kl, rd.mode, listed, keys); d != "" {
			return fmt.Sprintf("SIG=C08/live-set-diverged-after-burst %s: %s (%s)", where, d, describe())
		}
		return ""
	}
	if v := check("after the burst"); v != "" {
		return v, nil
	}
	// remove the hot key's owner; nobody else may be affected
	owner := bystander
	if len(winners) == 1 {
		owner = winners[0].name
	}
	if rd.deleteHow == 0 {
		if code, body := r.Delete(owner); !accepted(code) {
			return fmt.Sprintf("SIG=C08/status-mismatch/delete DELETE users/%s -> %d %s", owner, code, body), nil
		}
		delete(model, owner)
	} else {
		fresh := credx.Key(kl, keyBase+63)
		if code, body := r.Update(owner, fresh); !accepted(code) {
			return fmt.Sprintf("SIG=C08/status-mismatch/update PATCH users/%s -> %d %s", owner, code, body), nil
		}
		model[owner] = fresh
	}
	if v := check("after removing the hot key's owner"); v != "" {
		return v, nil
	}
	// tidy up (sequentially) once the store has grown, so that it stays small but the file saved
	// at the end of a batch still holds users from burst rounds
	for n := range model {
		if len(model) <= 48 {
			break
		}
		if strings.HasPrefix(n, fmt.Sprintf("r%d", seq)) {
			if code, _ := r.Delete(n); !accepted(code) {
				return fmt.Sprintf("SIG=C08/status-mismatch/delete tidy-up DELETE users/%s -> %d", n, code), nil
			}
			delete(model, n)
		}
	}
	labels = []string{"mode/" + rd.mode.String(), fmt.Sprintf("keylen/%d", kl), fmt.Sprintf("hot-requests/%d", nHot)}
	if rd.held {
		labels = append(labels, "hot-key-held")
	} else {
		labels = append(labels, "hot-key-free")
		if winners[0].patch {
			labels = append(labels, "winner/patch")
		} else {
			labels = append(labels, "winner/post")
		}
	}
	if rd.nPatch > 0 && rd.nPatch < nHot {
		labels = append(labels, "post-and-patch-mixed")
	}
	if rd.spin {
		labels = append(labels, "barrier/spin")
	} else {
		labels = append(labels, "barrier/chan")
	}
	return "", labels
}

func indexOf(reqs []*burstReq, q *burstReq) int {
	for i, x := range reqs {
		if x == q {
			return i
		}
	}
	return -1
}

// liveViewKeys is liveView for arbitrary universe indexes (not affected by the race-child switch).
func liveViewKeys(r *credx.Rig, kl int, mode credx.Mode, set map[string][]byte, keys []int) string {
	for _, i := range keys {
		key := credx.Key(kl, i)
		want, listed := "", false
		for n, k := range set {
			if bytes.Equal(k, key) {
				want, listed = n, true
			}
		}
		var probes []credx.Probe
		var trs []string
		if mode.HasTCP() {
			probes, trs = append(probes, r.ProbeTCP(key)), append(trs, "tcp")
		}
		if mode.HasUDP() {
			probes, trs = append(probes, r.ProbeUDP(key)), append(trs, "udp")
		}
		for j, pr := range probes {
			switch {
			case listed && pr.OK && pr.User == want && !pr.ReplyOK:
				return fmt.Sprintf("%s client with the key listed for %s is accepted but the server's reply does not make the round trip: %s", trs[j], want, pr.ReplyErr)
			case listed && !pr.OK:
				return fmt.Sprintf("%s client with the key listed for %s is refused: %s", trs[j], want, pr.Err)
			case listed && pr.User != want:
				return fmt.Sprintf("%s client with the key listed for %s is attributed to %q", trs[j], want, pr.User)
			case !listed && pr.OK:
				return fmt.Sprintf("%s client with a key held by no listed user is accepted as %q", trs[j], pr.User)
			}
		}
	}
	return ""
}

func TestSameKeyBursts(t *testing.T) {
	budget := time.Duration(envIntC08("VERIF_C08_BURST_MS", 6000)) * time.Millisecond
	seed := 1
	if v, err := strconv.Atoi(os.Getenv("VERIF_SEED")); err == nil {
		seed = v + 1
	}
	if v, err := strconv.Atoi(os.Getenv("VERIF_SHARD")); err == nil {
		seed = seed*131 + v
	}
	gen := rapid.Custom(func(rt *rapid.T) burstRound {
		rd := burstRound{
			kl:        rapid.SampledFrom([]int{16, 32}).Draw(rt, "kl"),
			mode:      rapid.SampledFrom([]credx.Mode{credx.TCPOnly, credx.UDPOnly, credx.Both}).Draw(rt, "mode"),
			n:         rapid.IntRange(8, 16).Draw(rt, "n"),
			nDistinct: rapid.IntRange(0, 3).Draw(rt, "distinct"),
			held:      rapid.IntRange(0, 5).Draw(rt, "held") == 0,
			spin:      rapid.Bool().Draw(rt, "spin"),
			deleteHow: rapid.IntRange(0, 1).Draw(rt, "how"),
		}
		rd.nPatch = rapid.IntRange(0, rd.n-rd.nDistinct).Draw(rt, "patch")
		if rapid.Bool().Draw(rt, "nopatch") {
			rd.nPatch = 0
		}
		return rd
	})
	// a handful of server configurations; each gets its share of the time budget in batches, and
	// at the end of every batch the debounce-saved file is compared (third view)
	type cfg struct {
		kl   int
		mode credx.Mode
	}
	cfgs := []cfg{{16, credx.TCPOnly}, {32, credx.Both}, {16, credx.UDPOnly}, {32, credx.TCPOnly}, {16, credx.Both}, {32, credx.UDPOnly}}
	deadline := time.Now().Add(budget)
	seq := 0
	rounds := 0
	var bg sync.WaitGroup
	var bgMu sync.Mutex
	var bgViolations []string
	fail := func(v string, kl int, mode credx.Mode) {
		if strings.HasPrefix(v, "HARNESS") {
			t.Fatalf("%s", v)
		}
		for _, sig := range []string{sigDupConcurrent, sigNoSerial} {
			if strings.Contains(v, "SIG=C08/"+sig) && isKnown(sig) {
				recBurst.KnownHit(listedSig(sig))
				return
			}
		}
		bg.Wait()
		t.Fatalf("%s\n  (after %d clean rounds; server: keyLen=%d stores=%v)", v, rounds, kl, mode)
	}
	for ci := 0; time.Now().Before(deadline); ci++ {
		c := cfgs[(ci+seed)%len(cfgs)]
		cr, err := newCRig(c.kl, c.mode)
		if err != nil {
			t.Fatalf("HARNESS %v", err)
		}
		ctx, cancel := context.WithCancel(context.Background())
		cr.rig.Start(ctx)
		batchEnd := time.Now().Add(budget / 3)
		var v string
		for time.Now().Before(batchEnd) && time.Now().Before(deadline) && v == "" {
			rd := gen.Example(seed*1000003 + seq)
			rd.kl, rd.mode = c.kl, c.mode
			var labels []string
			v, labels = runBurstRound(cr.rig, rd, seq)
			seq++
			if v == "" {
				rounds++
				nHot := rd.n - rd.nDistinct
				recBurst.Case(fmt.Sprintf("%d/%v/%d/%d/%d/%v/%v", rd.kl, rd.mode, rd.n, rd.nDistinct, rd.nPatch, rd.held, rd.spin), nHot >= 2 && !rd.held, labels...)
			}
		}
		if v != "" {
			cancel()
			cr.rig.Stop()
			cr.close()
			fail(v, c.kl, c.mode)
			continue
		}
		// third view, in the background while the next batch races: after the debounce the saved
		// file must be a valid store (no shared key) equal to the list
		listed, _ := cr.rig.List()
		bg.Go(func() {
			defer func() { cancel(); cr.rig.Stop(); cr.close() }()
			time.Sleep(5200 * time.Millisecond)
			limit := time.Now().Add(20 * time.Second)
			for {
				b, _ := os.ReadFile(cr.path)
				got, complete, derr := credx.DecodeStore(b, c.kl)
				if derr == nil && complete && credx.SameUsers(got, listed) {
					return
				}
				if time.Now().After(limit) {
					bgMu.Lock()
					bgViolations = append(bgViolations, fmt.Sprintf("SIG=C08/file-mismatch-after-bursts store file (decode error: %v) holds %s, API lists %s", derr, credx.Show(got, c.kl), credx.Show(listed, c.kl)))
					bgMu.Unlock()
					return
				}
				time.Sleep(250 * time.Millisecond)
			}
		})
	}
	bg.Wait()
	for _, v := range bgViolations {
		t.Errorf("%s", v)
	}
	recBurst.Extra("rounds", rounds)
}

func envIntC08(name string, def int) int {
	if v, err := strconv.Atoi(os.Getenv(name)); err == nil && v > 0 {
		return v
	}
	return def
}
