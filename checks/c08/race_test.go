package c08

import (
	"fmt"
	"os"
	"os/exec"
	"path/filepath"
	"regexp"
	"strings"
	"testing"

	"verif/internal/ev"
)

// TestRaceConcurrentPlans is the race-build stage: it re-executes this test binary to run
// TestConcurrentPlans with the race detector set to log instead of halt, then classifies every
// report by the repo frames in its stacks. A report on the state C08 names (manager cache, live
// lookup maps) is a violation of C08 with a stable signature; listed findings are counted and
// do not fail the stage. In a non-race build the test is skipped.
var recRace = ev.New("C08", "race-build",
	"the concurrent-plans workload re-run in a child process built with -race (reports logged, classified by repo stack frames)")

var reportSplit = regexp.MustCompile(`(?m)^==================\n`)

func classifyRace(report string) string {
	has := func(s string) bool { return strings.Contains(report, s) }
	switch {
	case has("cred.(*ManagedServer).LoadFromFile") && (has("manager.go:316") || has("manager.go:319") || has("maps.Clone") || strings.Count(report, "cred.(*ManagedServer).LoadFromFile") >= 2):
		return sigRaceLoad
	case has("cred.(*ManagedServer).AddCredential.func1") || has("cred.(*ManagedServer).UpdateCredential.func1") || has("cred.(*ManagedServer).DeleteCredential.func1"):
		// a live-map update closure running after the manager lock was released
		return sigDiverged
	case has("cred.(*ManagedServer).LoadFromFile"):
		return sigRaceLoad
	}
	m := regexp.MustCompile(`github\.com/database64128/shadowsocks-go/([\w/]+\.\(?\*?\w+\)?\.?\w*)`).FindStringSubmatch(report)
	if m != nil {
		return "data-race/" + m[1]
	}
	return ""
}

func TestRaceConcurrentPlans(t *testing.T) {
	if !raceBuild {
		t.Skip("not a race build")
	}
	if os.Getenv("VERIF_C08_RACE_CHILD") != "" {
		t.Skip("child")
	}
	work := workDir()
	logBase := filepath.Join(work, fmt.Sprintf("verif-c08-race-%d", os.Getpid()))
	checks := os.Getenv("VERIF_C08_RACE_CHECKS")
	if checks == "" {
		checks = "150"
	}
	seed := "1"
	if v := os.Getenv("VERIF_SEED"); v != "" {
		seed = v + "7"
	}
	cmd := exec.Command(os.Args[0], "-test.run", "^TestConcurrentPlans$", "-test.count=1", "-test.timeout", "20m",
		"-rapid.checks="+checks, "-rapid.seed="+seed, "-rapid.nofailfile")
	cmd.Env = append(os.Environ(), "VERIF_C08_RACE_CHILD=1", "GORACE=halt_on_error=0 exitcode=0 history_size=3 log_path="+logBase)
	out, err := cmd.CombinedOutput()
	// The testing package fails a test during which the detector reported anything; that alone
	// is expected here (the reports are classified below). Anything else is a real failure.
	if err != nil && !(strings.Contains(string(out), "race detected during execution of test") &&
		strings.Contains(string(out), "[rapid] OK") && !strings.Contains(string(out), "SIG=") && !strings.Contains(string(out), "panic:")) {
		t.Fatalf("child run of TestConcurrentPlans failed: %v\n%s", err, tail(string(out), 60))
	}
	logs, _ := filepath.Glob(logBase + ".*")
	nReports := 0
	for _, lf := range logs {
		b, _ := os.ReadFile(lf)
		os.Remove(lf)
		for _, rep := range reportSplit.Split(string(b), -1) {
			if !strings.Contains(rep, "WARNING: DATA RACE") {
				continue
			}
			nReports++
			if !strings.Contains(rep, "github.com/database64128/shadowsocks-go/") {
				t.Errorf("HARNESS data race outside the repo:\n%s", rep)
				continue
			}
			sig := classifyRace(rep)
			if sig != "" && isKnown(sig) {
				recRace.KnownHit(listedSig(sig))
				continue
			}
			t.Errorf("SIG=C08/%s data race reported on credential state while concurrent management requests ran:\n%s", sig, firstLines(rep, 40))
		}
	}
	recRace.Case("race-run", nReports == 0, "race-child-run")
	recRace.Label("race-reports", int64(nReports))
}

func tail(s string, n int) string {
	l := strings.Split(s, "\n")
	if len(l) > n {
		l = l[len(l)-n:]
	}
	return strings.Join(l, "\n")
}

func firstLines(s string, n int) string {
	l := strings.Split(s, "\n")
	if len(l) > n {
		l = l[:n]
	}
	return strings.Join(l, "\n")
}
