package c16

import (
	"bufio"
	"bytes"
	"errors"
	"fmt"
	"io"
	"strconv"
	"strings"
)

// The harness has its own HTTP/1.1 serialiser and parser (written from RFC 9112) so that what
// the origin and the client receive is observed byte-exactly: raw field names, raw order, raw
// framing. net/http's readers would canonicalise names, move Host/Transfer-Encoding/Trailer
// out of the header map and hide exactly the things C16 is about.

type kv struct {
	K string `json:"k"`
	V string `json:"v"`
}

const (
	bodyNone    = 0
	bodyCL      = 1
	bodyChunked = 2
	bodyClose   = 3 // responses only: delimited by connection close
)

type bodySpec struct {
	Kind     int    `json:"kind"`
	Seed     uint64 `json:"seed"`
	Len      int    `json:"len"`
	Chunks   []int  `json:"chunks,omitempty"` // sizes, sum == Len (chunked only)
	ChunkExt bool   `json:"chunk_ext,omitempty"`
	Trailers []kv   `json:"trailers,omitempty"`
	HighOnly bool   `json:"high_only,omitempty"` // bytes 0x80..0xff only (never parses as HTTP)
}

// data derives the body bytes from the seed. A part of the bodies looks like HTTP so that a
// framing mistake turns body bytes into a visible extra message.
func (b *bodySpec) data() []byte {
	if b.Len == 0 {
		return nil
	}
	out := make([]byte, b.Len)
	x := b.Seed | 1
	next := func() uint64 {
		x ^= x << 13
		x ^= x >> 7
		x ^= x << 17
		return x
	}
	if b.HighOnly {
		for i := range out {
			out[i] = 0x80 | byte(next()>>33)
		}
		return out
	}
	switch b.Seed % 4 {
	case 0:
		const smug = "\r\n\r\nGET http://smuggled.example/x HTTP/1.1\r\nHost: smuggled.example\r\n\r\nHTTP/1.1 200 OK\r\nContent-Length: 3\r\n\r\nabc0\r\n\r\n"
		for i := range out {
			out[i] = smug[(i+int(b.Seed>>8))%len(smug)]
		}
	case 1:
		for i := range out {
			out[i] = "0123456789abcdef\r\n"[next()>>40%18]
		}
	default:
		for i := range out {
			out[i] = byte(next() >> 29)
		}
	}
	// tag the first bytes with the seed so that two bodies of equal length differ
	tag := strconv.FormatUint(b.Seed, 36)
	copy(out, tag)
	return out
}

// encode returns the on-wire body bytes.
func (b *bodySpec) encode() []byte {
	data := b.data()
	switch b.Kind {
	case bodyCL, bodyClose:
		return data
	case bodyChunked:
		var w bytes.Buffer
		off := 0
		for i, n := range b.Chunks {
			if n <= 0 {
				continue
			}
			if b.ChunkExt && i%2 == 0 {
				fmt.Fprintf(&w, "%X;ext%d=\"v;1\"\r\n", n, i)
			} else if i%3 == 1 {
				fmt.Fprintf(&w, "%x\r\n", n)
			} else {
				fmt.Fprintf(&w, "%X\r\n", n)
			}
			w.Write(data[off : off+n])
			w.WriteString("\r\n")
			off += n
		}
		if off != len(data) {
			panic("harness: chunk sizes do not add up")
		}
		w.WriteString("0\r\n")
		for _, t := range b.Trailers {
			w.WriteString(t.K + ": " + t.V + "\r\n")
		}
		w.WriteString("\r\n")
		return w.Bytes()
	}
	return nil
}

// serHead serialises a start line and header lines exactly as given.
func serHead(start string, hdr []kv) []byte {
	var w bytes.Buffer
	w.WriteString(start)
	w.WriteString("\r\n")
	for _, h := range hdr {
		w.WriteString(h.K)
		w.WriteString(":")
		w.WriteString(h.V) // the generator puts the optional whitespace into V
		w.WriteString("\r\n")
	}
	w.WriteString("\r\n")
	return w.Bytes()
}

// ---- parser

type msg struct {
	Start    string
	Method   string // requests
	Target   string
	Proto    string
	Status   int // responses
	Reason   string
	Hdr      []kv // raw names, values with surrounding OWS removed, wire order
	Body     []byte
	Trailers []kv
	Framing  int
}

func (m *msg) get(name string) []string {
	var out []string
	for _, h := range m.Hdr {
		if strings.EqualFold(h.K, name) {
			out = append(out, h.V)
		}
	}
	return out
}

var errMalformed = errors.New("malformed message")

func readLine(br *bufio.Reader) (string, error) {
	var line []byte
	for {
		part, err := br.ReadSlice('\n')
		line = append(line, part...)
		if err == bufio.ErrBufferFull {
			continue
		}
		if err != nil {
			if len(line) > 0 {
				// the stream ended (or was closed) inside a line
				if err == io.EOF {
					return "", io.ErrUnexpectedEOF
				}
				return "", fmt.Errorf("inside a line (%d bytes): %w", len(line), err)
			}
			return "", err
		}
		break
	}
	if len(line) < 2 || line[len(line)-2] != '\r' {
		return "", fmt.Errorf("%w: line without CRLF %q", errMalformed, line)
	}
	return string(line[:len(line)-2]), nil
}

func trimOWS(s string) string { return strings.Trim(s, " \t") }

func readFields(br *bufio.Reader) ([]kv, error) {
	var out []kv
	for {
		l, err := readLine(br)
		if err != nil {
			if err == io.EOF {
				err = io.ErrUnexpectedEOF
			}
			return out, err
		}
		if l == "" {
			return out, nil
		}
		k, v, ok := strings.Cut(l, ":")
		if !ok || k == "" || strings.ContainsAny(k, " \t") {
			return out, fmt.Errorf("%w: field line %q", errMalformed, l)
		}
		out = append(out, kv{k, trimOWS(v)})
	}
}

// readHead reads a start line plus header section. io.EOF is returned only when the stream
// ended cleanly before the first byte of a message.
func readHead(br *bufio.Reader, isResp bool) (*msg, error) {
	l, err := readLine(br)
	if err != nil {
		return nil, err
	}
	m := &msg{Start: l}
	if isResp {
		proto, rest, ok := strings.Cut(l, " ")
		if !ok || !strings.HasPrefix(proto, "HTTP/1.") {
			return nil, fmt.Errorf("%w: status line %q", errMalformed, l)
		}
		code, reason, _ := strings.Cut(rest, " ")
		n, err := strconv.Atoi(code)
		if err != nil || len(code) != 3 {
			return nil, fmt.Errorf("%w: status line %q", errMalformed, l)
		}
		m.Proto, m.Status, m.Reason = proto, n, reason
	} else {
		p := strings.Split(l, " ")
		if len(p) != 3 || !strings.HasPrefix(p[2], "HTTP/1.") {
			return nil, fmt.Errorf("%w: request line %q", errMalformed, l)
		}
		m.Method, m.Target, m.Proto = p[0], p[1], p[2]
	}
	m.Hdr, err = readFields(br)
	if err != nil {
		return m, err
	}
	return m, nil
}

// readBody reads the message body according to RFC 9112 section 6.3. reqMethod is the method of
// the request a response belongs to.
func readBody(br *bufio.Reader, m *msg, isResp bool, reqMethod string) error {
	if isResp && (reqMethod == "HEAD" || m.Status/100 == 1 || m.Status == 204 || m.Status == 304) {
		m.Framing = bodyNone
		return nil
	}
	te := m.get("Transfer-Encoding")
	cl := m.get("Content-Length")
	if len(te) > 0 {
		if len(te) != 1 || !strings.EqualFold(te[0], "chunked") {
			return fmt.Errorf("%w: transfer-encoding %q", errMalformed, te)
		}
		if len(cl) > 0 {
			return fmt.Errorf("%w: both Transfer-Encoding and Content-Length", errMalformed)
		}
		m.Framing = bodyChunked
		for {
			l, err := readLine(br)
			if err != nil {
				return unexpected(err)
			}
			szs, _, _ := strings.Cut(l, ";")
			sz, err := strconv.ParseUint(trimOWS(szs), 16, 31)
			if err != nil {
				return fmt.Errorf("%w: chunk size line %q", errMalformed, l)
			}
			if sz == 0 {
				break
			}
			start := len(m.Body)
			m.Body = append(m.Body, make([]byte, sz)...)
			if _, err := io.ReadFull(br, m.Body[start:]); err != nil {
				m.Body = m.Body[:start]
				return unexpected(err)
			}
			l, err = readLine(br)
			if err != nil {
				return unexpected(err)
			}
			if l != "" {
				return fmt.Errorf("%w: missing CRLF after chunk data", errMalformed)
			}
		}
		tr, err := readFields(br)
		m.Trailers = tr
		return err
	}
	if len(cl) > 0 {
		for _, c := range cl[1:] {
			if c != cl[0] {
				return fmt.Errorf("%w: differing Content-Length values %q", errMalformed, cl)
			}
		}
		n, err := strconv.ParseUint(cl[0], 10, 31)
		if err != nil {
			return fmt.Errorf("%w: Content-Length %q", errMalformed, cl[0])
		}
		m.Framing = bodyCL
		m.Body = make([]byte, n)
		k, err := io.ReadFull(br, m.Body)
		if err != nil {
			m.Body = m.Body[:k]
			return unexpected(err)
		}
		return nil
	}
	if !isResp {
		m.Framing = bodyNone
		return nil
	}
	m.Framing = bodyClose
	b, err := io.ReadAll(br)
	m.Body = b
	return err
}

func unexpected(err error) error {
	if err == io.EOF {
		return io.ErrUnexpectedEOF
	}
	return err
}

// canon is the canonical form of a field name for comparisons (field names are
// case-insensitive, RFC 9110 section 5.1).
func canon(k string) string { return strings.ToLower(k) }

// connectionTokens returns the lower-cased members of all Connection field lines.
func connectionTokens(hdr []kv) []string {
	var out []string
	for _, h := range hdr {
		if canon(h.K) != "connection" {
			continue
		}
		for _, t := range strings.Split(h.V, ",") {
			t = trimOWS(t)
			if t != "" {
				out = append(out, strings.ToLower(t))
			}
		}
	}
	return out
}

func hasToken(toks []string, t string) bool {
	for _, x := range toks {
		if x == t {
			return true
		}
	}
	return false
}
