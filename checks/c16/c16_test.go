package c16

import (
	"encoding/json"
	"fmt"
	"os"
	"path/filepath"
	"strings"
	"testing"

	"pgregory.net/rapid"

	"verif/internal/ev"
)

var recSeq = ev.New("C16", "proxy-sequences",
	"rapid: one proxy connection per case inside a testing/synctest bubble. Client bytes are serialised by the harness from a grammar "+
		"(1..20 requests, pipelining window 1..20, methods GET/POST/PUT/HEAD/OPTIONS/DELETE/PATCH/PROPFIND, absolute-form and origin-form targets, "+
		"field names with random casing and optional whitespace, Connection nominations incl. present/absent/end-to-end names, Keep-Alive/Proxy-Connection/TE/Upgrade/Proxy-Authorization, "+
		"bodies by Content-Length or chunked with extensions and trailers, Expect: 100-continue with the client really waiting, host change, later CONNECT, Connection: close, "+
		"Basic authentication on/off with rejected attempts first, client abort) and the origin follows a script (1xx interim responses early/late, 2xx/3xx with Location/4xx/5xx, "+
		"bodies by length/chunked+trailers/close-delimited/none, HEAD/204/304, Connection: close, silent close, truncated response); transports have drawn capacities, read caps and write cuts. "+
		"Round 6: the proxy server behind TLS (35 %, harness client = crypto/tls over the same transport) x client certificate {not asked, required+valid, required+missing, required+untrusted}; Expect: 100-continue clients that withhold the body until 100 Continue has arrived; "+
		"origin pauses of 1..3 virtual seconds before a final response (interim responses must reach the client before the origin goes on); Location fields: none/one/several, same host/relative/other host/other scheme/other port/unparsable, also on 201/200; "+
		"a request for another host or CONNECT written in the same burst as a request whose response the origin delays. "+
		"Origin and client parse what arrives with a harness RFC 9112 parser; a reference model written from the property text says which messages must/may/must not arrive and what they must contain. "+
		"Non-trivial: at least 2 requests forwarded with pipelining window >= 2 and (a request body or a Connection-nominated field). Distinct key: methods, body kinds, length classes, statuses, end kind, window class, auth class").
	Require("pipelined", "req-body", "req-chunked", "req-trailers", "nominated-present", "upgrade-present", "proxy-auth-present",
		"auth-enabled", "auth-enabled-no-users", "auth-users-nil", "auth-users-empty", "auth-users-several", "bad-then-good", "host-change", "later-connect", "close-req", "close-resp", "interim", "interim-delivered", "expect-got-100",
		"head", "resp-chunked", "resp-close-delimited", "depth>16", "3xx", "origin-truncate", "origin-close-silent", "client-abort", "never-authenticated", "origin-closed-idle-connection",
		// round 6
		"tls", "tls-no-auth", "tls+auth", "tls+auth-rejected", "tls+auth-accepted", "tls-client-cert-valid", "tls-client-cert-missing", "tls-client-cert-untrusted",
		"expect-strict-got-100", "interim-before-delayed-final", "103-before-delayed-final",
		"3xx-no-location", "3xx-multi-location", "location-malformed", "location-relative", "location-on-non-3xx", "3xx-other-host", "other-host-location-must-not-close", "continued-after-other-host-location",
		"host-change-while-response-outstanding")

func lenClass(n int) string {
	switch {
	case n == 0:
		return "0"
	case n < 100:
		return "s"
	case n < 4096:
		return "m"
	case n <= 4097:
		return "4k"
	default:
		return "L"
	}
}

// classify computes labels, the non-trivial verdict and the distinct key of a case.
func classify(p *plan, e *expectation, o *obs) (key string, nt bool, labels []string) {
	lab := map[string]bool{}
	for l := range e.Labels {
		lab[l] = true
	}
	var kb strings.Builder
	body, nominated := false, false
	for k := range e.Reqs {
		r := &p.Reqs[e.Reqs[k].Idx]
		fmt.Fprintf(&kb, "%s:%d%s,", r.Method, r.Body.Kind, lenClass(r.Body.Len))
		if r.Body.Kind != bodyNone && r.Body.Len > 0 {
			body = true
			lab["req-body"] = true
		}
		if r.Body.Kind == bodyChunked {
			lab["req-chunked"] = true
			if len(r.Body.Trailers) > 0 {
				lab["req-trailers"] = true
			}
		}
		toks := reqTokens(r)
		for _, h := range r.Hdr {
			c := canon(h.K)
			if hasToken(toks, c) {
				nominated = true
				lab["nominated-present"] = true
			}
			switch c {
			case "upgrade":
				lab["upgrade-present"] = true
			case "proxy-authorization":
				lab["proxy-auth-present"] = true
			case "keep-alive", "te", "proxy-connection":
				lab["hop-field-present"] = true
			}
		}
		for _, t := range r.Body.Trailers {
			if hasToken(toks, canon(t.K)) {
				lab["nominated-trailer"] = true
			}
		}
		if len(toks) > 0 {
			lab["connection-field"] = true
		}
		if !e.Reqs[k].HasUA {
			lab["no-user-agent"] = true
		}
		if r.Method == "HEAD" {
			lab["head"] = true
		}
		if r.OriginForm {
			lab["origin-form"] = true
		}
		if r.Expect {
			lab["expect"] = true
			if r.ExpectStrict {
				lab["expect-strict"] = true
				if o.StrictGot[e.Reqs[k].Idx] {
					lab["expect-strict-got-100"] = true
				}
			}
		}
		// an interim response that reached the client while the origin was still pausing before the final one
		if start, delayed := o.FinalStartAt[k]; delayed {
			lab["final-delayed"] = true
			for j := range e.Resps {
				if x := &e.Resps[j]; x.ReqIdx == e.Reqs[k].Idx && x.Interim && x.Must && j < len(o.ClientAt) && o.ClientAt[j] < start {
					lab["interim-before-delayed-final"] = true
					if x.Status == 103 {
						lab["103-before-delayed-final"] = true
					}
				}
			}
		}
	}
	// request for another host (or CONNECT) completely written while the previous response was still outstanding
	if s := e.EndAt; s > e.FirstFwd && e.FirstFwd >= 0 {
		if wr, ok := o.ReqWrittenAt[s]; ok {
			for j := range e.Resps {
				if x := &e.Resps[j]; x.ReqIdx == s-1 && !x.Interim && x.Must && j < len(o.ClientAt) && o.ClientAt[j] > wr {
					lab[e.EndKind+"-while-response-outstanding"] = true
				}
			}
		}
	}
	for i := range o.Got100 {
		_ = i
		lab["expect-got-100"] = true
	}
	kb.WriteString("|")
	for j := range e.Resps {
		x := &e.Resps[j]
		fmt.Fprintf(&kb, "%d,", x.Status)
		if x.Interim {
			lab["interim"] = true
		}
		if x.Status/100 == 3 {
			lab["3xx"] = true
		}
	}
	for k := range e.Reqs {
		if k < len(p.Resps) {
			switch p.Resps[k].Body.Kind {
			case bodyChunked:
				lab["resp-chunked"] = true
			case bodyClose:
				if e.EndKind == "close-resp" {
					lab["resp-close-delimited"] = true
				}
			}
		}
	}
	for _, m := range o.ClientMsgs {
		if m.Status/100 == 1 {
			lab["interim-delivered"] = true
		}
	}
	if p.ClientAbort >= 0 {
		lab["client-abort"] = true
	}
	if e.EndKind == "never-authenticated" || e.FirstFwd < 0 {
		lab["never-authenticated"] = true
	}
	fwd := len(o.OriginMsgs)
	pipelined := fwd >= 2 && p.Window >= 2
	if pipelined {
		lab["pipelined"] = true
	}
	if fwd > 16 && p.Window > 16 {
		lab["depth>16"] = true
	}
	lab["end:"+e.EndKind] = true
	wc := "w1"
	if p.Window >= 2 {
		wc = "w2+"
	}
	if p.Window > 16 {
		wc = "w17+"
	}
	fmt.Fprintf(&kb, "|%s|%s|auth=%v,%d,%d|tls=%v,%d", e.EndKind, wc, p.AuthEnabled, p.UserTable, e.FirstFwd, p.TLS, p.ClientCert)
	nt = pipelined && (body || nominated)
	for l := range lab {
		labels = append(labels, l)
	}
	return kb.String(), nt, labels
}

func journalPath() string {
	w := os.Getenv("VERIF_WORK")
	if w == "" {
		return ""
	}
	return filepath.Join(w, fmt.Sprintf("journal-c16-%d.json", os.Getpid()))
}

// runPlan executes one plan (journaled, so that a crash of the code under test leaves a replay)
// and judges it; msg is the violation text ("" = held).
func runPlan(t *testing.T, p *plan) (msg string, e *expectation, o *obs, v *verdict) {
	jp := journalPath()
	if jp != "" {
		if b, err := json.Marshal(p); err == nil {
			_ = os.WriteFile(jp, b, 0o644)
		}
	}
	e = model(p)
	o = execute(t, p)
	if jp != "" {
		_ = os.Remove(jp)
	}
	v = judge(p, e, o)
	if v.sig != "" {
		pj, _ := json.Marshal(p)
		ps := string(pj)
		if d := os.Getenv("C16_DUMP"); d != "" {
			_ = os.WriteFile(d, []byte(fmt.Sprintf("%s\n%s\n--- origin\n%s\n--- client\n%s\n", v.sig, ps, o.OriginRaw, o.ClientRaw)), 0o644)
		}
		if len(ps) > 4000 {
			ps = ps[:4000] + "...(clipped; the rapid fail file replays the whole case)"
		}
		msg = fmt.Sprintf("SIG=C16/%s %s\norigin received:\n%s\nclient received:\n%s\nplan=%s", v.sig, v.detail, clip(o.OriginRaw), clip(o.ClientRaw), ps)
	}
	return msg, e, o, v
}

// runCase executes one plan and returns the violation text ("" = held).
func runCase(t *testing.T, p *plan, rec *ev.Recorder) string {
	msg, e, o, v := runPlan(t, p)
	if msg != "" {
		return msg
	}
	if rec != nil {
		for _, k := range v.known {
			rec.KnownHit(k)
		}
		key, nt, labels := classify(p, e, o)
		rec.Case(key, nt, labels...)
		if nt {
			rec.Sample(sampleOf(p, e, o))
		}
	}
	return ""
}

func clip(b []byte) string {
	if len(b) > 500 {
		return fmt.Sprintf("%q...(%d bytes)", b[:500], len(b))
	}
	return fmt.Sprintf("%q", b)
}

func sampleOf(p *plan, e *expectation, o *obs) map[string]any {
	var reqs []string
	for i := range p.Reqs {
		r := &p.Reqs[i]
		reqs = append(reqs, fmt.Sprintf("%s %s body=%d/%d conn=%v", r.Method, r.target(), r.Body.Kind, r.Body.Len, reqTokens(r)))
		if i >= 5 {
			reqs = append(reqs, "...")
			break
		}
	}
	var st []int
	for _, m := range o.ClientMsgs {
		st = append(st, m.Status)
	}
	return map[string]any{"requests": len(p.Reqs), "first": reqs, "window": p.Window, "auth": p.AuthEnabled, "end": e.EndKind,
		"origin_got": len(o.OriginMsgs), "client_statuses": st}
}

// TestProxySequences is the main property.
func TestProxySequences(t *testing.T) {
	rapid.Check(t, func(rt *rapid.T) {
		p := genPlan(rt)
		if msg := runCase(t, p, recSeq); msg != "" {
			rt.Fatalf("%s", msg)
		}
	})
}

// TestReplayPlan re-runs a journaled plan ($VERIF_REPLAY).
func TestReplayPlan(t *testing.T) {
	f := os.Getenv("VERIF_REPLAY")
	if f == "" {
		t.Skip("VERIF_REPLAY not set")
	}
	b, err := os.ReadFile(f)
	if err != nil {
		t.Fatal(err)
	}
	var p plan
	if err := json.Unmarshal(b, &p); err != nil {
		t.Fatal(err)
	}
	if msg := runCase(t, &p, nil); msg != "" {
		t.Fatal(msg)
	}
}

// ---- minimal reproductions of the defects found (regressions once fixed)

func req1(method, path string, hdr ...kv) reqPlan {
	return reqPlan{Method: method, Authority: "example.com", HostField: " example.com", HostName: "Host", Path: path, Hdr: hdr, FrameName: "Content-Length"}
}

func resp1(status, n int) respPlan {
	return respPlan{Status: status, Reason: "OK", Body: bodySpec{Kind: bodyCL, Seed: uint64(n) + 5, Len: n}, FrameName: "Content-Length", HeadCL: -1, TruncateAt: -1}
}

var recFind = ev.New("C16", "findings", "fixed minimal plans that reproduce each defect found by proxy-sequences (plus their unaffected twins); judged by the same model")

func findingPlans() map[string]*plan {
	m := map[string]*plan{}
	// a request without User-Agent
	m[sigUA] = &plan{Window: 1, ClientAbort: -1, Reqs: []reqPlan{req1("GET", "/a", kv{"Accept", " */*"})}, Resps: []respPlan{resp1(200, 5)}}
	// a trailer field nominated by Connection
	r := req1("POST", "/b", kv{"User-Agent", " h"}, kv{"Connection", " X-Hop"}, kv{"Trailer", " X-T, X-Hop"})
	r.Body = bodySpec{Kind: bodyChunked, Seed: 7, Len: 10, Chunks: []int{4, 6}, Trailers: []kv{{"X-T", "tv"}, {"X-Hop", "secret"}}}
	r.FrameName = "Transfer-Encoding"
	m[sigTrailer] = &plan{Window: 1, ClientAbort: -1, Reqs: []reqPlan{r}, Resps: []respPlan{resp1(200, 5)}}
	// Connection: close on the request + an interim response from the origin
	r = req1("POST", "/c", kv{"User-Agent", " h"}, kv{"Connection", " close"}, kv{"Expect", " 100-continue"})
	r.Body = bodySpec{Kind: bodyCL, Seed: 7, Len: 10}
	r.Expect = true
	rp := resp1(200, 5)
	rp.Interim = []interimPlan{{Status: 100, Reason: "Continue"}}
	rp.InterimEarly = true
	m[sig1xxClose] = &plan{Window: 1, ClientAbort: -1, Reqs: []reqPlan{r}, Resps: []respPlan{rp}}
	return m
}

// TestFindings replays the minimal reproduction of every defect this check found. A defect that
// is listed in known_findings.json is reported as a known hit; one that is not listed fails;
// after a fix in /repo the plans simply hold.
func TestFindings(t *testing.T) {
	plans := findingPlans()
	for _, sig := range []string{sigUA, sigTrailer, sig1xxClose} {
		p := plans[sig]
		e := model(p)
		o := execute(t, p)
		v := judge(p, e, o)
		if v.sig != "" {
			t.Errorf("SIG=C16/%s %s\norigin received:\n%s\nclient received:\n%s", v.sig, v.detail, clip(o.OriginRaw), clip(o.ClientRaw))
			continue
		}
		for _, k := range v.known {
			recFind.KnownHit(k)
		}
		lab := "held:" + sig
		if len(v.known) > 0 {
			lab = "reproduced:" + sig
		}
		recFind.Case(sig, false, lab)
	}
}

var recAuth = ev.New("C16", "auth-table",
	"bounded-exhaustive: user table {nil, empty slice, one user, several users} x credentials of the first request {none, unknown user, alice, bob, Digest} "+
		"x first request {GET, HEAD, POST with body} followed by a second plain GET with the same credentials; judged by the same model "+
		"(with no configured user every request must be answered 407 or the connection must end, and nothing may reach the origin). Non-trivial: authentication enabled with an empty table").
	Require("no-users:nil", "no-users:empty", "accepted", "rejected")

// TestAuthTableBoundary enumerates the authentication configuration boundary deterministically.
func TestAuthTableBoundary(t *testing.T) {
	creds := []struct{ name, value string }{
		{"none", ""}, {"unknown", "Basic " + badToken}, {"alice", "Basic " + goodToken}, {"bob", "basic " + bobToken}, {"digest", "Digest username=\"alice\""},
	}
	tables := []struct {
		name string
		kind int
	}{{"nil", usersNil}, {"empty", usersEmpty}, {"one", usersOne}, {"several", usersSeveral}}
	for _, tb := range tables {
		for _, cr := range creds {
			for _, method := range []string{"GET", "HEAD", "POST"} {
				mk := func(path string, m string) reqPlan {
					r := req1(m, path, kv{"User-Agent", " h"})
					if cr.value != "" {
						r.Hdr = append(r.Hdr, kv{"Proxy-Authorization", " " + cr.value})
					}
					return r
				}
				first := mk("/first", method)
				if method == "POST" {
					first.Body = bodySpec{Kind: bodyCL, Seed: 11, Len: 20, HighOnly: true}
				}
				p := &plan{AuthEnabled: true, UserTable: tb.kind, Window: 2, ClientAbort: -1,
					Reqs: []reqPlan{first, mk("/second", "GET")}, Resps: []respPlan{resp1(200, 5), resp1(200, 7)}}
				e := model(p)
				o := execute(t, p)
				v := judge(p, e, o)
				if v.sig != "" {
					t.Fatalf("SIG=C16/%s users=%s credentials=%s first=%s: %s\norigin received:\n%s\nclient received:\n%s", v.sig, tb.name, cr.name, method, v.detail, clip(o.OriginRaw), clip(o.ClientRaw))
				}
				for _, k := range v.known {
					recAuth.KnownHit(k)
				}
				noUsers := tb.kind == usersNil || tb.kind == usersEmpty
				labels := []string{"rejected"}
				if e.FirstFwd >= 0 {
					labels = []string{"accepted"}
				}
				if noUsers {
					labels = append(labels, "no-users:"+tb.name)
				}
				recAuth.Case(tb.name+"|"+cr.name+"|"+method, noUsers, labels...)
			}
		}
	}
	recAuth.Exhaustive(true)
}

var recIdle = ev.New("C16", "origin-idle-close",
	"bounded-exhaustive: k in {1,2,3} complete exchanges (GET/HEAD/POST mix), pipelining window {1,4}, then the client is silent for 10 virtual minutes while the origin "+
		"closes its idle keep-alive connection after {5 s, 60 s}; afterwards the client sends {GET, POST by length, POST chunked} anyway. Same model and judge: the client must have seen "+
		"end-of-stream before it sends anything further (and within 1 virtual second of the origin's close), the late request is never answered and never reaches an origin. "+
		"Each case has a twin without idle phase in which every request must be forwarded and answered. Non-trivial: the idle cases").
	Require("origin-closed-idle-connection", "twin-no-idle")

// TestOriginIdleClose enumerates the "origin closes an idle keep-alive connection" scenario.
func TestOriginIdleClose(t *testing.T) {
	methods := []string{"GET", "HEAD", "POST"}
	for k := 1; k <= 3; k++ {
		for _, window := range []int{1, 4} {
			for _, idleSec := range []int{5, 60} {
				for late := 0; late < 3; late++ {
					for _, idle := range []bool{true, false} {
						p := &plan{Window: window, ClientAbort: -1, OriginIdleSec: idleSec}
						for i := 0; i < k; i++ {
							r := req1(methods[(i+k)%3], "/r"+itoa(i), kv{"User-Agent", " h"})
							if r.Method == "POST" {
								r.Body = bodySpec{Kind: bodyCL, Seed: uint64(31 + i), Len: 17}
							}
							p.Reqs = append(p.Reqs, r)
							p.Resps = append(p.Resps, resp1(200, 5+i))
						}
						lr := req1("GET", "/late", kv{"User-Agent", " h"})
						switch late {
						case 1:
							lr = req1("POST", "/late", kv{"User-Agent", " h"})
							lr.Body = bodySpec{Kind: bodyCL, Seed: 77, Len: 5000}
						case 2:
							lr = req1("POST", "/late", kv{"User-Agent", " h"})
							lr.Body = bodySpec{Kind: bodyChunked, Seed: 78, Len: 30, Chunks: []int{10, 20}}
							lr.FrameName = "Transfer-Encoding"
						}
						p.Reqs = append(p.Reqs, lr)
						p.Resps = append(p.Resps, resp1(200, 9))
						if idle {
							p.IdleAt = k
						}
						e := model(p)
						o := execute(t, p)
						v := judge(p, e, o)
						if v.sig != "" {
							t.Fatalf("SIG=C16/%s exchanges=%d window=%d origin-idle=%ds late=%s idle-phase=%v: %s\norigin received:\n%s\nclient received:\n%s",
								v.sig, k, window, idleSec, lr.Method, idle, v.detail, clip(o.OriginRaw), clip(o.ClientRaw))
						}
						for _, kh := range v.known {
							recIdle.KnownHit(kh)
						}
						label := "twin-no-idle"
						if idle {
							if !e.IdleLive {
								t.Fatalf("harness: model did not classify the case as an idle close")
							}
							label = "origin-closed-idle-connection"
						}
						recIdle.Case(fmt.Sprintf("%d|%d|%d|%d|%v", k, window, idleSec, late, idle), idle, label)
					}
				}
			}
		}
	}
	recIdle.Exhaustive(true)
}
