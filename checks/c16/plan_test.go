package c16

import "time"

// A plan is one complete generated case: what the client writes (byte-exact), how the origin
// answers, and how both transports and both endpoints are scheduled. It is JSON-encodable so
// that it can be journaled and replayed.

const (
	authNone = 0 // no Proxy-Authorization field
	authBad  = 1 // credentials that are not configured
	authGood = 2 // configured credentials
)

type reqPlan struct {
	Method     string   `json:"method"`
	Authority  string   `json:"authority"`   // authority of the absolute-form target ("" with OriginForm)
	OriginForm bool     `json:"origin_form"` // origin-form target; the Host field names the host
	HostField  string   `json:"host_field"`  // value of the Host field
	HostName   string   `json:"host_name"`   // spelling of the field name "Host"
	Path       string   `json:"path"`        // may be empty with absolute-form
	Query      string   `json:"query"`       // including the leading "?" or empty
	Auth       int      `json:"auth"`
	Hdr        []kv     `json:"hdr"`      // every other field line, wire order, V includes leading/trailing OWS
	HostPos    int      `json:"host_pos"` // position of the Host line among Hdr
	Body       bodySpec `json:"body"`
	Expect     bool     `json:"expect"` // carries Expect: 100-continue; the client waits (bounded) for an interim response before the body
	// ExpectStrict (with Expect): the client withholds the body until it has read "100 Continue"
	// (or a final response) for this request - no timeout; the generator makes the origin script of
	// the request answer "100 Continue" as soon as it has the request head.
	ExpectStrict bool   `json:"expect_strict,omitempty"`
	FrameName    string `json:"frame_name"` // spelling of Content-Length / Transfer-Encoding
	FramePos     int    `json:"frame_pos"`
}

type interimPlan struct {
	Status int    `json:"status"`
	Reason string `json:"reason"`
	Hdr    []kv   `json:"hdr"`
}

type respPlan struct {
	Interim       []interimPlan `json:"interim,omitempty"`
	InterimEarly  bool          `json:"interim_early"` // interim responses are sent after the request head, before its body is read
	Status        int           `json:"status"`
	Reason        string        `json:"reason"`
	Hdr           []kv          `json:"hdr"`
	Body          bodySpec      `json:"body"`
	FrameName     string        `json:"frame_name"`
	HeadCL        int           `json:"head_cl"`        // Content-Length announced on a bodiless (HEAD/304) response; -1 none
	CloseSilently bool          `json:"close_silently"` // origin closes after this response without saying so
	TruncateAt    int           `json:"truncate_at"`    // >=0: only this many bytes of the final response are written, then the origin closes
	// FinalDelaySec > 0: after the interim responses (and after the request body has been read) the
	// origin pauses this many virtual seconds before it starts writing the final response.
	FinalDelaySec int `json:"final_delay_sec,omitempty"`
}

type transportPlan struct {
	CapC2P  int   `json:"cap_c2p"`
	CapP2C  int   `json:"cap_p2c"`
	CapP2O  int   `json:"cap_p2o"`
	CapO2P  int   `json:"cap_o2p"`
	PlanC2P []int `json:"plan_c2p"` // per-read caps for the proxy reading from the client
	PlanO2P []int `json:"plan_o2p"` // per-read caps for the proxy reading from the origin
	WriteC  []int `json:"write_c"`  // client write sizes (cyclic); <=0 = rest of the message part
	WriteO  []int `json:"write_o"`  // origin write sizes (cyclic)
}

type plan struct {
	AuthEnabled bool       `json:"auth_enabled"`
	UserTable   int        `json:"user_table"` // with AuthEnabled: usersOne, usersSeveral, usersNil, usersEmpty
	Reqs        []reqPlan  `json:"reqs"`
	Resps       []respPlan `json:"resps"`        // indexed by the ordinal of the request as the origin receives it
	Window      int        `json:"window"`       // max requests in flight from the client (pipelining depth)
	ClientAbort int        `json:"client_abort"` // >=0: the client closes the whole connection after writing this many bytes
	// IdleAt > 0: before writing request #IdleAt the client waits until every earlier request has
	// been answered and then stays silent for idlePause; the origin drops a connection on which
	// nothing has moved for OriginIdleSec seconds, i.e. it closes the idle keep-alive connection
	// while no request is outstanding. Afterwards the client sends request #IdleAt anyway.
	IdleAt        int           `json:"idle_at"`
	OriginIdleSec int           `json:"origin_idle_sec"` // 0 = 60
	T             transportPlan `json:"t"`
	// TLS: the proxy server is configured with EnableTLS (httpproxy.TLSProxyServer) and the harness
	// client speaks crypto/tls over the in-memory transport. ClientCert is the client-certificate
	// class (only with TLS).
	TLS        bool `json:"tls,omitempty"`
	ClientCert int  `json:"client_cert,omitempty"`
}

// client-certificate classes (only meaningful with TLS)
const (
	certNone      = 0 // server does not ask, client offers none
	certValid     = 1 // RequireAndVerifyClientCert, client presents a certificate of the configured CA
	certMissing   = 2 // RequireAndVerifyClientCert, client presents no certificate
	certUntrusted = 3 // RequireAndVerifyClientCert, client presents a certificate of another CA
)

// certRejected reports whether the TLS client can never be admitted.
func (p *plan) certRejected() bool {
	return p.TLS && (p.ClientCert == certMissing || p.ClientCert == certUntrusted)
}

// maxFinalDelaySec bounds FinalDelaySec: it must stay below every origin idle timeout (>= 5 s).
const maxFinalDelaySec = 3

// configured user table classes (only meaningful with AuthEnabled)
const (
	usersOne     = 0 // {alice}
	usersSeveral = 1 // {carol, alice, bob}
	usersNil     = 2 // Users == nil: nobody can ever authenticate
	usersEmpty   = 3 // Users == []ServerUserCredentials{}: nobody can ever authenticate
)

// validTokens returns the Basic tokens that authenticate under the plan's configuration.
func (p *plan) validTokens() []string {
	if !p.AuthEnabled {
		return nil
	}
	switch p.UserTable {
	case usersOne:
		return []string{goodToken}
	case usersSeveral:
		return []string{goodToken, bobToken}
	}
	return nil
}

// idlePause is how long the client stays silent at IdleAt (virtual time); far longer than any
// origin idle timeout, far shorter than the watchdog.
const idlePause = 10 * time.Minute

func (p *plan) originIdle() time.Duration {
	if p.OriginIdleSec > 0 {
		return time.Duration(p.OriginIdleSec) * time.Second
	}
	return time.Minute
}

const (
	bobUser   = "bob"
	bobPass   = "pw:with:colon"
	bobToken  = "Ym9iOnB3OndpdGg6Y29sb24=" // base64("bob:pw:with:colon")
	carolUser = "carol"
	carolPass = ""
	goodUser  = "alice"
	goodPass  = "open sesame"
	goodToken = "YWxpY2U6b3BlbiBzZXNhbWU=" // base64("alice:open sesame")
	badToken  = "bWFsbG9yeTpndWVzcw=="     // base64("mallory:guess")
)

func (r *reqPlan) target() string {
	if r.OriginForm {
		return r.Path + r.Query
	}
	return "http://" + r.Authority + r.Path + r.Query
}

// effHost is the host the request is for (RFC 9112 section 3.2.2: with absolute-form the
// authority of the target wins over the Host field).
func (r *reqPlan) effHost() string {
	if r.Method == "CONNECT" {
		return r.Authority
	}
	if r.OriginForm {
		return trimOWS(r.HostField)
	}
	return r.Authority
}

// wire returns the serialised head and body of the request.
func (r *reqPlan) wire() (head, body []byte) {
	var lines []kv
	hdr := r.Hdr
	type ins struct {
		pos int
		kv  kv
	}
	var extra []ins
	extra = append(extra, ins{r.HostPos, kv{r.HostName, r.HostField}})
	switch r.Body.Kind {
	case bodyCL:
		extra = append(extra, ins{r.FramePos, kv{r.FrameName, " " + itoa(r.Body.Len)}})
	case bodyChunked:
		extra = append(extra, ins{r.FramePos, kv{r.FrameName, " chunked"}})
	}
	for i := 0; i <= len(hdr); i++ {
		for _, e := range extra {
			p := e.pos
			if p > len(hdr) {
				p = len(hdr)
			}
			if p < 0 {
				p = 0
			}
			if p == i {
				lines = append(lines, e.kv)
			}
		}
		if i < len(hdr) {
			lines = append(lines, hdr[i])
		}
	}
	var start string
	if r.Method == "CONNECT" {
		start = "CONNECT " + r.Authority + " HTTP/1.1"
	} else {
		start = r.Method + " " + r.target() + " HTTP/1.1"
	}
	return serHead(start, lines), r.Body.encode()
}

func (p *respPlan) finalWire(reqMethod string) []byte {
	var lines []kv
	lines = append(lines, p.Hdr...)
	bodyless := reqMethod == "HEAD" || p.Status == 204 || p.Status == 304
	var body []byte
	if bodyless {
		if p.HeadCL >= 0 && p.Status != 204 && p.Status != 304 {
			lines = append(lines, kv{"Content-Length", " " + itoa(p.HeadCL)})
		}
	} else {
		switch p.Body.Kind {
		case bodyCL:
			lines = append(lines, kv{p.FrameName, " " + itoa(p.Body.Len)})
		case bodyChunked:
			lines = append(lines, kv{p.FrameName, " chunked"})
		case bodyNone:
			lines = append(lines, kv{"Content-Length", " 0"})
		}
		body = p.Body.encode()
	}
	out := serHead("HTTP/1.1 "+itoa3(p.Status)+" "+p.Reason, lines)
	return append(out, body...)
}

func (ip *interimPlan) wire() []byte {
	return serHead("HTTP/1.1 "+itoa3(ip.Status)+" "+ip.Reason, ip.Hdr)
}

func itoa(n int) string {
	if n == 0 {
		return "0"
	}
	neg := n < 0
	if neg {
		n = -n
	}
	var b [20]byte
	i := len(b)
	for n > 0 {
		i--
		b[i] = byte('0' + n%10)
		n /= 10
	}
	if neg {
		i--
		b[i] = '-'
	}
	return string(b[i:])
}

func itoa3(n int) string {
	s := itoa(n)
	for len(s) < 3 {
		s = "0" + s
	}
	return s
}
