package c16

import (
	"strings"

	"pgregory.net/rapid"
)

// ---- generator: request sequences and origin scripts from a grammar

var hostPool = []string{
	"example.com", "example.com:8080", "a.example.org", "192.0.2.7", "192.0.2.7:81",
	"[2001:db8::1]", "[2001:db8::1]:8080", "xn--bcher-kva.example", "h", "Example.COM",
}

var segPool = []string{
	"a", "index.html", "%7Euser", "%7euser", "a%2Fb", "a%2fb", "..", ".", "~x", "a;p=1", "a,b", "a:b@c",
	"!$&'()*+=", "%20", "-._~", "%E4%BD%A0", "", "api", "v1",
}

var queryPool = []string{"", "", "", "?", "?a=1&b=2", "?q=%20+x", "?u=http://other.example/", "?a=b?c", "?x=/../", "?%7e"}

var methodPool = []string{"GET", "GET", "GET", "GET", "GET", "GET", "POST", "POST", "POST", "POST", "PUT", "PUT", "HEAD", "HEAD", "HEAD",
	"OPTIONS", "OPTIONS", "DELETE", "PATCH", "PROPFIND"}

var reqE2EPool = []kv{
	{"Accept", "*/*"}, {"Accept-Encoding", "gzip, br"}, {"Accept-Language", "en-US,en;q=0.5"},
	{"Cookie", "a=1; b=2"}, {"Cookie", "c=3"}, {"Authorization", "Bearer abc.def"},
	{"Referer", "http://example.com/prev?x=1"}, {"Cache-Control", "max-age=0"}, {"Pragma", "no-cache"},
	{"If-None-Match", "\"abc\""}, {"Range", "bytes=0-99"}, {"Content-Type", "application/json; charset=utf-8"},
	{"X-Custom", "v  with  two spaces"}, {"X-Empty", ""}, {"X-Dup", "1"}, {"X-Dup", "2"}, {"X-Dup", "1"},
	{"Via", "1.1 upstream"}, {"X-Forwarded-For", "203.0.113.9"}, {"Origin", "http://example.com"},
	{"Content-Encoding", "identity"}, {"X-Colon", "a:b: c"}, {"X-Tab", "a\tb"},
}

var respE2EPool = []kv{
	{"Content-Type", "text/html; charset=utf-8"}, {"Set-Cookie", "sid=1; Path=/"}, {"Set-Cookie", "t=2; HttpOnly"},
	{"ETag", "\"v1\""}, {"Cache-Control", "no-store"}, {"Date", "Mon, 01 Jan 2024 00:00:00 GMT"}, {"Server", "origin/1.0"},
	{"Vary", "Accept-Encoding"}, {"X-Resp", "r  r"}, {"X-Empty", ""}, {"Pragma", "no-cache"}, {"Content-Encoding", "identity"},
	{"Accept-Ranges", "bytes"}, {"Last-Modified", "Mon, 01 Jan 2024 00:00:00 GMT"}, {"X-Dup", "1"}, {"X-Dup", "2"},
}

var leadOWS = []string{" ", " ", " ", "", "  ", "\t"}
var trailOWS = []string{"", "", "", " ", "\t"}

func recase(rt *rapid.T, name string) string {
	switch irange(rt, 0, 5, "case") {
	case 0:
		return strings.ToLower(name)
	case 1:
		return strings.ToUpper(name)
	case 2:
		bits := rapid.Uint64().Draw(rt, "casebits")
		b := []byte(name)
		for i := range b {
			if bits>>(uint(i)%64)&1 == 1 {
				if b[i] >= 'a' && b[i] <= 'z' {
					b[i] -= 32
				} else if b[i] >= 'A' && b[i] <= 'Z' {
					b[i] += 32
				}
			}
		}
		return string(b)
	}
	return name
}

func line(rt *rapid.T, name, value string) kv {
	return kv{recase(rt, name), sample(rt, leadOWS, "lead") + value + sample(rt, trailOWS, "trail")}
}

// rapid's integer generators are deliberately biased towards small values, which would make
// every "rare" grammar branch common. All structural choices therefore go through one 64-bit
// draw that is scrambled (splitmix64); the draw 0 - what rapid shrinks towards - always means
// "first alternative / feature absent", so shrinking still removes features.
func scramble(x uint64) uint64 {
	x += 0x9e3779b97f4a7c15
	x = (x ^ (x >> 30)) * 0xbf58476d1ce4e5b9
	x = (x ^ (x >> 27)) * 0x94d049bb133111eb
	return x ^ (x >> 31)
}

func pick(rt *rapid.T, n int, label string) int {
	x := rapid.Uint64().Draw(rt, label)
	if x == 0 || n <= 1 {
		return 0
	}
	return int(scramble(x) % uint64(n))
}

func chance(rt *rapid.T, pct int, label string) bool {
	x := rapid.Uint64().Draw(rt, label)
	if x == 0 {
		return false
	}
	return int(scramble(x)%100) < pct
}

func irange(rt *rapid.T, lo, hi int, label string) int { return lo + pick(rt, hi-lo+1, label) }

func sample[T any](rt *rapid.T, s []T, label string) T { return s[pick(rt, len(s), label)] }

var bodyLens = []int{0, 1, 2, 3, 100, 1000, 4095, 4096, 4097, 8192, 20000, 70000}

func genBody(rt *rapid.T, kinds []int, allowBig bool) bodySpec {
	b := bodySpec{Kind: sample(rt, kinds, "bodykind"), Seed: rapid.Uint64().Draw(rt, "bodyseed")}
	if b.Kind == bodyNone {
		return b
	}
	switch irange(rt, 0, 9, "lenclass") {
	case 0, 1, 2:
		hi := len(bodyLens) - 1
		if !allowBig {
			hi = 5
		}
		b.Len = bodyLens[irange(rt, 0, hi, "lenidx")]
	case 3:
		b.Len = irange(rt, 4090, 4100, "len4k")
	default:
		b.Len = irange(rt, 0, 300, "len")
	}
	if b.Kind == bodyChunked {
		rest := b.Len
		for rest > 0 {
			n := irange(rt, 1, max(1, min(rest, 5000)), "chunk")
			if chance(rt, 30, "restchunk") {
				n = rest
			}
			b.Chunks = append(b.Chunks, n)
			rest -= n
		}
		b.ChunkExt = chance(rt, 15, "chunkext")
	}
	return b
}

// genRequest draws one request. kind: "normal", "connect".
func genRequest(rt *rapid.T, host string, connect bool, last bool, allowBig bool) reqPlan {
	r := reqPlan{HostName: recase(rt, "Host"), FrameName: "Content-Length"}
	if connect {
		r.Method = "CONNECT"
		r.Authority = host
		if !strings.Contains(strings.TrimPrefix(host, "["), ":") || strings.HasSuffix(host, "]") {
			r.Authority = host + ":443"
		}
		r.HostField = " " + r.Authority
		if chance(rt, 50, "connect-ua") {
			r.Hdr = append(r.Hdr, line(rt, "User-Agent", "curl/8.5.0"))
		}
		return r
	}
	r.Method = sample(rt, methodPool, "method")
	// target
	nseg := irange(rt, 0, 4, "nseg")
	var sb strings.Builder
	for range nseg {
		sb.WriteString("/")
		sb.WriteString(sample(rt, segPool, "seg"))
	}
	if nseg == 0 || chance(rt, 20, "trailing-slash") {
		sb.WriteString("/")
	}
	r.Path = sb.String()
	r.Query = sample(rt, queryPool, "query")
	r.OriginForm = chance(rt, 10, "origin-form")
	if r.OriginForm {
		r.HostField = sample(rt, leadOWS, "hlead") + host
	} else {
		r.Authority = host
		if chance(rt, 8, "empty-path") && !(r.Method == "OPTIONS" && r.Query == "") {
			// RFC 9112 3.2.4 (OPTIONS with empty path means "*") is outside this check
			r.Path = ""
		}
		r.HostField = sample(rt, leadOWS, "hlead") + host
		if chance(rt, 6, "host-field-mismatch") {
			r.HostField = " other.example"
		}
	}
	// end-to-end fields
	ne := irange(rt, 0, 7, "ne2e")
	for range ne {
		h := sample(rt, reqE2EPool, "e2e")
		r.Hdr = append(r.Hdr, line(rt, h.K, h.V))
	}
	if chance(rt, 75, "ua") {
		r.Hdr = append(r.Hdr, line(rt, "User-Agent", sample(rt, []string{"curl/8.5.0", "Mozilla/5.0 (X11; Linux x86_64)", "x"}, "uaval")))
	}
	// body
	bodyPct := 10
	switch r.Method {
	case "POST", "PUT", "PATCH", "PROPFIND":
		bodyPct = 85
	}
	if chance(rt, bodyPct, "hasbody") {
		r.Body = genBody(rt, []int{bodyCL, bodyCL, bodyChunked, bodyChunked}, allowBig)
		if r.Body.Kind == bodyChunked {
			r.FrameName = recase(rt, "Transfer-Encoding")
		} else {
			r.FrameName = recase(rt, "Content-Length")
		}
	}
	// connection-specific fields
	var tokens []string
	hop := func(name, value string, nominatePct int) {
		r.Hdr = append(r.Hdr, line(rt, name, value))
		if chance(rt, nominatePct, "nominate") {
			tokens = append(tokens, name)
		}
	}
	if chance(rt, 25, "keep-alive") {
		hop("Keep-Alive", "timeout=5, max=100", 70)
	}
	if chance(rt, 15, "proxy-connection") {
		hop("Proxy-Connection", "keep-alive", 10)
	}
	if chance(rt, 15, "te") {
		hop("TE", "trailers", 70)
	}
	if chance(rt, 15, "upgrade") {
		hop("Upgrade", sample(rt, []string{"websocket", "h2c", "HTTP/3.0"}, "upval"), 70)
	}
	if chance(rt, 25, "xhop1") {
		hop("X-Hop1", "secret-1", 100)
	}
	if chance(rt, 10, "xhop2") {
		hop("X-Hop2", "secret-2", 100)
		if chance(rt, 50, "xhop2-dup") {
			r.Hdr = append(r.Hdr, line(rt, "X-Hop2", "secret-2b"))
		}
	}
	if chance(rt, 6, "nominate-e2e") && len(r.Hdr) > 0 {
		// a field that is present and would otherwise be end-to-end
		h := r.Hdr[irange(rt, 0, len(r.Hdr)-1, "nom-idx")]
		if c := canon(h.K); c != "user-agent" || chance(rt, 30, "nominate-ua") {
			tokens = append(tokens, h.K)
		}
	}
	if chance(rt, 10, "nominate-absent") {
		tokens = append(tokens, "X-Not-There")
	}
	if chance(rt, 20, "tok-keepalive") {
		tokens = append(tokens, "keep-alive")
	}
	// trailers
	if r.Body.Kind == bodyChunked && chance(rt, 45, "trailers") {
		var announce []string
		for _, cand := range []kv{{"X-T1", "t-one"}, {"X-Checksum", "abc123=="}, {"X-Hop-T", "hop-trailer"}, {"X-T1", "t-one-b"}} {
			if !chance(rt, 50, "trailer-pick") {
				continue
			}
			r.Body.Trailers = append(r.Body.Trailers, kv{recase(rt, cand.K), cand.V})
			if chance(rt, 80, "announce") {
				announce = append(announce, cand.K)
			}
			if cand.K == "X-Hop-T" && chance(rt, 70, "nominate-trailer") {
				tokens = append(tokens, cand.K)
			}
		}
		if len(announce) > 0 {
			r.Hdr = append(r.Hdr, line(rt, "Trailer", strings.Join(announce, sample(rt, []string{", ", ",", " , "}, "tsep"))))
		}
	}
	if last && chance(rt, 25, "close") {
		tokens = append(tokens, "close")
	}
	// Connection field line(s)
	if len(tokens) > 0 {
		for i := range tokens {
			tokens[i] = recase(rt, tokens[i])
		}
		// shuffle deterministically
		for i := len(tokens) - 1; i > 0; i-- {
			j := irange(rt, 0, i, "shuf")
			tokens[i], tokens[j] = tokens[j], tokens[i]
		}
		split := len(tokens)
		if len(tokens) > 1 && chance(rt, 30, "two-connection-lines") {
			split = irange(rt, 1, len(tokens)-1, "split")
		}
		sep := sample(rt, []string{", ", ",", " , ", ",, "}, "csep")
		r.Hdr = append(r.Hdr, line(rt, "Connection", strings.Join(tokens[:split], sep)))
		if split < len(tokens) {
			r.Hdr = append(r.Hdr, line(rt, "Connection", strings.Join(tokens[split:], sep)))
		}
	}
	if len(r.Body.encode()) > 0 && chance(rt, 30, "expect") {
		r.Expect = true
		r.Hdr = append(r.Hdr, line(rt, "Expect", "100-continue"))
		// half of these clients really withhold the body until "100 Continue" has arrived
		r.ExpectStrict = chance(rt, 50, "expect-strict")
	}
	// shuffle field lines but keep the relative order of equal names
	shuffleKeepingNameOrder(rt, r.Hdr)
	r.HostPos = irange(rt, 0, len(r.Hdr), "hostpos")
	r.FramePos = irange(rt, 0, len(r.Hdr), "framepos")
	return r
}

func shuffleKeepingNameOrder(rt *rapid.T, h []kv) {
	if len(h) < 2 {
		return
	}
	orig := append([]kv(nil), h...)
	perm := make([]int, len(h))
	for i := range perm {
		perm[i] = i
	}
	for i := len(perm) - 1; i > 0; i-- {
		j := irange(rt, 0, i, "hshuf")
		perm[i], perm[j] = perm[j], perm[i]
	}
	// names in shuffled order; values of one name are then refilled in original order
	next := map[string][]int{}
	for i, x := range orig {
		next[canon(x.K)] = append(next[canon(x.K)], i)
	}
	for pos, pi := range perm {
		c := canon(orig[pi].K)
		src := next[c][0]
		next[c] = next[c][1:]
		h[pos] = orig[src]
	}
}

func setAuth(rt *rapid.T, p *plan, r *reqPlan, kind int) {
	r.Auth = kind
	var v string
	switch kind {
	case authNone:
		return
	case authGood:
		// alice's credentials; with several configured users sometimes bob's. (With no configured
		// user these are still sent - and must be rejected.)
		goodTok := goodToken
		if p.AuthEnabled && p.UserTable == usersSeveral && chance(rt, 40, "as-bob") {
			goodTok = bobToken
		}
		v = sample(rt, []string{"Basic ", "Basic ", "basic ", "BASIC "}, "scheme") + goodTok
	case authBad:
		v = sample(rt, []string{"Basic " + badToken, "Digest username=\"alice\"", "Basic", "Bearer " + goodToken,
			"Basic " + goodToken[:len(goodToken)-4], "Basic " + strings.ToLower(goodToken)}, "badcred")
	}
	pos := irange(rt, 0, len(r.Hdr), "authpos")
	l := line(rt, "Proxy-Authorization", v)
	r.Hdr = append(r.Hdr[:pos:pos], append([]kv{l}, r.Hdr[pos:]...)...)
	if r.HostPos > pos {
		r.HostPos++
	}
}

// calm: no event that ends the connection (used for the inner part of long pipelines, so that
// deep pipelining is really reached).
func genResponse(rt *rapid.T, host string, calm bool, allowBig bool) respPlan {
	p := respPlan{Reason: "OK", FrameName: recase(rt, "Content-Length"), HeadCL: -1, TruncateAt: -1}
	p.Status = sample(rt, []int{200, 200, 200, 200, 200, 200, 201, 204, 206, 301, 302, 303, 307, 308, 304, 404, 500, 503}, "status")
	p.Reason = sample(rt, []string{"OK", "", "Whatever It Is", "Found"}, "reason")
	n := irange(rt, 0, 5, "nresp")
	for range n {
		h := sample(rt, respE2EPool, "rh")
		p.Hdr = append(p.Hdr, line(rt, h.K, h.V))
	}
	// Location fields: redirects carry zero, one or several of them; 201 (and a few 200) carry one.
	nloc := 0
	switch {
	case p.Status/100 == 3 && p.Status != 304:
		nloc = sample(rt, []int{1, 1, 1, 1, 0, 2, 2, 3}, "nloc")
	case p.Status == 201 && chance(rt, 50, "loc-201"), p.Status == 200 && chance(rt, 5, "loc-200"):
		nloc = 1
	}
	// inside a calm stretch nothing may make the end of the connection a matter of choice
	noElsewhere := calm && (p.Status == 301 || p.Status == 302 || p.Status == 307)
	for range nloc {
		p.Hdr = append(p.Hdr, line(rt, "Location", genLocation(rt, host, noElsewhere)))
	}
	var tokens []string
	if chance(rt, 20, "r-keepalive") {
		p.Hdr = append(p.Hdr, line(rt, "Keep-Alive", "timeout=5"))
		tokens = append(tokens, "Keep-Alive")
	}
	if chance(rt, 10, "r-xrhop") {
		p.Hdr = append(p.Hdr, line(rt, "X-RHop", "origin-hop"))
		tokens = append(tokens, "X-RHop")
	}
	if chance(rt, 5, "r-upgrade") {
		p.Hdr = append(p.Hdr, line(rt, "Upgrade", "h2c"))
	}
	if !calm && chance(rt, 2, "r-close") {
		tokens = append(tokens, "close")
	}
	if len(tokens) > 0 {
		p.Hdr = append(p.Hdr, line(rt, "Connection", strings.Join(tokens, ", ")))
	}
	kinds := []int{bodyCL, bodyCL, bodyCL, bodyCL, bodyCL, bodyChunked, bodyChunked, bodyChunked, bodyNone}
	if !calm && p.Status == 200 && chance(rt, 3, "r-closedelim") {
		kinds = []int{bodyClose}
	}
	p.Body = genBody(rt, kinds, allowBig)
	if p.Body.Kind == bodyChunked {
		p.FrameName = recase(rt, "Transfer-Encoding")
		if chance(rt, 35, "r-trailers") {
			p.Body.Trailers = append(p.Body.Trailers, kv{recase(rt, "X-RT"), "resp-trailer"})
			if chance(rt, 80, "r-announce") {
				p.Hdr = append(p.Hdr, line(rt, "Trailer", "X-RT"))
			}
		}
	}
	if chance(rt, 60, "headcl") {
		p.HeadCL = sample(rt, []int{0, 1, 1234, 70000}, "headclv")
	}
	if chance(rt, 25, "interim") {
		ni := irange(rt, 1, 2, "ninterim")
		for range ni {
			ip := interimPlan{Status: 100, Reason: "Continue"}
			switch irange(rt, 0, 3, "ikind") {
			case 1:
				ip = interimPlan{Status: 102, Reason: "Processing"}
			case 2:
				ip = interimPlan{Status: 103, Reason: "Early Hints", Hdr: []kv{line(rt, "Link", "</style.css>; rel=preload; as=style"), line(rt, "Link", "</script.js>; rel=preload; as=script")}}
			}
			p.Interim = append(p.Interim, ip)
		}
	}
	p.InterimEarly = rapid.Bool().Draw(rt, "interim-early")
	// the origin takes its time over the final response (virtual seconds): more often after interim responses
	delayPct := 8
	if len(p.Interim) > 0 {
		delayPct = 45
	}
	if chance(rt, delayPct, "final-delay") {
		p.FinalDelaySec = irange(rt, 1, maxFinalDelaySec, "final-delay-sec")
	}
	shuffleKeepingNameOrder(rt, p.Hdr)
	if !calm && chance(rt, 2, "close-silently") {
		p.CloseSilently = true
	}
	if !calm && p.Body.Kind != bodyClose && chance(rt, 2, "truncate") {
		p.TruncateAt = irange(rt, 0, 1<<20, "truncpos") // reduced modulo the length at use
	}
	return p
}

// otherPort returns the same host with another port.
func otherPort(host string) string {
	if strings.HasSuffix(host, "]") || !strings.Contains(host, ":") {
		return host + ":8081"
	}
	return host[:strings.LastIndex(host, ":")]
}

// genLocation draws one Location value: same host (absolute), relative, another host / scheme /
// port, or something net/url cannot parse.
func genLocation(rt *rapid.T, host string, noElsewhere bool) string {
	same := []string{"http://" + host + "/moved", "http://" + host, "http://" + host + "/a?next=http://elsewhere.example/"}
	rel := []string{"/relative?x=1", "../up", "?page=2", "/a//b", "/r?u=http://elsewhere.example/x", "moved.html"}
	other := []string{"http://elsewhere.example/x", "http://elsewhere.example/x", "https://" + host + "/tls", "//cdn.elsewhere.example/y",
		"http://" + host + ".evil.example/", "http://" + otherPort(host) + "/p"}
	mal := malformedLocs
	if noElsewhere {
		other = same
		mal = []string{"%zz", ":no-scheme", ""}
	}
	switch irange(rt, 0, 9, "loc-class") {
	case 0, 1, 2:
		return sample(rt, same, "loc")
	case 3, 4:
		return sample(rt, rel, "loc")
	case 5, 6, 7:
		return sample(rt, other, "loc")
	}
	return sample(rt, mal, "loc")
}

var capPool = []int{0, 0, 0, 0, 1, 2, 64, 4096, 65536}

func genReadPlan(rt *rapid.T, small bool) []int {
	switch irange(rt, 0, 5, "rplan") {
	case 0:
		if small {
			return []int{1}
		}
		return []int{37}
	case 1:
		return []int{1, 2, 3, 7, 4096}
	case 2:
		return []int{4096}
	case 3:
		return rapid.SliceOfN(rapid.IntRange(1, 600), 1, 5).Draw(rt, "rplanv")
	}
	return nil
}

func genWritePlan(rt *rapid.T, small bool) []int {
	switch irange(rt, 0, 6, "wplan") {
	case 0:
		if small {
			return []int{-1}
		}
		return []int{-997}
	case 1:
		return []int{-17, 5, 300}
	case 2:
		return []int{-4096}
	case 3:
		v := rapid.SliceOfN(rapid.IntRange(-2000, 2000), 1, 5).Draw(rt, "wplanv")
		if !small {
			for i := range v {
				if v[i] > -200 && v[i] < 200 {
					v[i] = 0
				}
			}
		}
		return v
	case 4:
		return []int{-100000}
	}
	return nil
}

func genPlan(rt *rapid.T) *plan {
	p := &plan{ClientAbort: -1}
	p.AuthEnabled = chance(rt, 35, "auth-enabled")
	if p.AuthEnabled {
		// user table sizes 1, several, 0 (nil), 0 (empty slice); with no users nobody may ever be forwarded
		p.UserTable = sample(rt, []int{usersOne, usersOne, usersOne, usersSeveral, usersSeveral, usersNil, usersEmpty}, "user-table")
	}
	var n int
	switch irange(rt, 0, 9, "nclass") {
	case 0:
		n = 1
	case 1, 2, 3, 4, 5, 6:
		n = irange(rt, 2, 5, "n")
	case 7, 8:
		n = irange(rt, 6, 16, "n")
	default:
		n = irange(rt, 17, 20, "n")
	}
	switch irange(rt, 0, 4, "wclass") {
	case 0:
		p.Window = 1
	case 1, 2:
		p.Window = 20
	default:
		p.Window = irange(rt, 2, 20, "window")
	}
	allowBig := n <= 6
	host := sample(rt, hostPool, "host")
	// failing authentication attempts first
	if p.AuthEnabled {
		nbad := sample(rt, []int{0, 0, 1, 1, 2, 3}, "nbad")
		for range nbad {
			connect := chance(rt, 25, "bad-connect")
			r := genRequest(rt, host, connect, false, false)
			r.Expect = false
			stripField(&r, "expect")
			stripToken(&r, "close")
			if r.Body.Kind != bodyNone && len(r.Body.encode()) > 0 {
				if chance(rt, 85, "bad-nobody") {
					r.Body = bodySpec{}
				} else {
					r.Body.HighOnly = true
				}
			}
			if chance(rt, 5, "bad-close") {
				r.Hdr = append(r.Hdr, kv{"Connection", " close"})
			}
			setAuth(rt, p, &r, sample(rt, []int{authNone, authBad, authBad}, "badkind"))
			p.Reqs = append(p.Reqs, r)
		}
	}
	neverGood := p.AuthEnabled && chance(rt, 10, "never-good")
	special := -1 // index (relative) of a host change or later CONNECT
	specialKind := 0
	if n >= 2 && chance(rt, 22, "special") {
		special = irange(rt, 1, n-1, "special-at")
		specialKind = irange(rt, 0, 2, "special-kind") // 0,1 host change; 2 CONNECT
	}
	closeAt := -1
	if n >= 2 && chance(rt, 3, "early-close-token") {
		closeAt = irange(rt, 0, n-2, "close-at")
	}
	for i := range n {
		h := host
		connect := false
		if i == special {
			if specialKind == 2 {
				connect = true
			} else {
				var others []string
				for _, s := range hostPool {
					if !strings.EqualFold(s, host) {
						others = append(others, s)
					}
				}
				h = sample(rt, others, "other-host")
			}
		}
		r := genRequest(rt, h, connect, i == n-1, allowBig)
		if i == closeAt {
			r.Hdr = append(r.Hdr, kv{"Connection", " close"})
		}
		switch {
		case p.AuthEnabled && neverGood:
			setAuth(rt, p, &r, sample(rt, []int{authNone, authBad}, "auth"))
			r.Expect = false
			stripField(&r, "expect")
		case p.AuthEnabled && i == 0:
			setAuth(rt, p, &r, authGood)
		case p.AuthEnabled:
			setAuth(rt, p, &r, sample(rt, []int{authGood, authGood, authNone, authBad}, "auth"))
		default:
			setAuth(rt, p, &r, sample(rt, []int{authNone, authNone, authNone, authNone, authGood, authBad}, "auth"))
		}
		p.Reqs = append(p.Reqs, r)
	}
	for i := range n {
		calm := n >= 6 && i < n-2 && !chance(rt, 2, "storm")
		p.Resps = append(p.Resps, genResponse(rt, host, calm, allowBig))
	}
	nbad := len(p.Reqs) - n
	// a client that withholds its body needs an origin that honours Expect: the script of such a
	// request answers "100 Continue" as soon as it has the request head
	for i := range n {
		r := &p.Reqs[nbad+i]
		if !r.Expect {
			r.ExpectStrict = false
		}
		if !r.ExpectStrict {
			continue
		}
		rp := &p.Resps[i]
		if len(rp.Interim) == 0 || rp.Interim[0].Status != 100 {
			rp.Interim = append([]interimPlan{{Status: 100, Reason: "Continue"}}, rp.Interim...)
			if len(rp.Interim) > 2 {
				rp.Interim = rp.Interim[:2]
			}
		}
		rp.InterimEarly = true
	}
	// request for another host / CONNECT in the same burst as a request whose response is still
	// outstanding: the origin delays the response before the special request
	if special >= 1 && chance(rt, 60, "special-burst") {
		p.Resps[special-1].FinalDelaySec = irange(rt, 1, maxFinalDelaySec, "burst-delay")
		if p.Window < 2 {
			p.Window = irange(rt, 2, 20, "burst-window")
		}
	}
	if p.AuthEnabled {
		// the body of a request that is going to be rejected must never look like HTTP
		for i := range p.Reqs {
			if _, valid := authValid(p, &p.Reqs[i]); valid {
				break
			}
			p.Reqs[i].Body.HighOnly = true
		}
	}
	total := 0
	for i := range p.Reqs {
		h, b := p.Reqs[i].wire()
		total += len(h) + len(b)
	}
	small := total < 6000
	p.T = transportPlan{
		CapC2P: sample(rt, capPool, "cap-c2p"), CapP2C: sample(rt, capPool, "cap-p2c"),
		CapP2O: sample(rt, capPool, "cap-p2o"), CapO2P: sample(rt, capPool, "cap-o2p"),
		PlanC2P: genReadPlan(rt, small), PlanO2P: genReadPlan(rt, small),
		WriteC: genWritePlan(rt, small), WriteO: genWritePlan(rt, small),
	}
	// idle phase: after k complete exchanges the client goes silent and the origin closes the idle connection
	if first := firstValid(p); first >= 0 && first+1 < len(p.Reqs) && chance(rt, 14, "idle-phase") {
		p.IdleAt = irange(rt, first+1, len(p.Reqs)-1, "idle-at")
		// every value leaves room for the origin's own pauses (at most 20 x maxFinalDelaySec) and the
		// lenient Expect waits (20 x 1 s) inside the client's pause of idlePause = 10 min: when the client
		// resumes the origin has closed for certain
		p.OriginIdleSec = sample(rt, []int{60, 5, 30, 480}, "origin-idle")
	} else if chance(rt, 5, "client-abort") {
		p.ClientAbort = irange(rt, 0, max(0, total-1), "abort-at")
	}
	// the proxy server behind TLS; client-certificate classes
	if p.TLS = chance(rt, 35, "tls"); p.TLS {
		p.ClientCert = sample(rt, []int{certNone, certNone, certNone, certNone, certNone, certValid, certValid, certValid, certMissing, certUntrusted}, "client-cert")
	}
	return p
}

// firstValid returns the index of the first request that can be forwarded (-1 none).
func firstValid(p *plan) int {
	for i := range p.Reqs {
		if !p.AuthEnabled {
			return i
		}
		if _, valid := authValid(p, &p.Reqs[i]); valid {
			return i
		}
	}
	return -1
}

func stripField(r *reqPlan, name string) {
	out := r.Hdr[:0]
	for _, h := range r.Hdr {
		if canon(h.K) != name {
			out = append(out, h)
		}
	}
	r.Hdr = out
	r.HostPos = min(r.HostPos, len(r.Hdr))
	r.FramePos = min(r.FramePos, len(r.Hdr))
}

// stripToken removes a token from all Connection lines.
func stripToken(r *reqPlan, tok string) {
	for i, h := range r.Hdr {
		if canon(h.K) != "connection" {
			continue
		}
		parts := strings.Split(h.V, ",")
		var keep []string
		for _, p := range parts {
			if strings.ToLower(trimOWS(p)) != tok {
				keep = append(keep, p)
			}
		}
		r.Hdr[i].V = strings.Join(keep, ",")
	}
}
