package c16

import (
	"fmt"
	"testing"

	"verif/internal/ev"
)

// Round 6: bounded-exhaustive scenario families for the four input classes added in round 6.
// Every case goes through the same model, executor and judge as the generated ones.

var recR6 = ev.New("C16", "round6-scenarios",
	"bounded-exhaustive families, same model and judge as proxy-sequences: "+
		"(A) proxy server behind TLS x Basic authentication {off, on} x client certificate {not asked, required+valid, required+missing, required+untrusted} x credentials {none, good, wrong} x first request {GET, POST+body}, second GET pipelined; "+
		"(B) Expect: 100-continue with a client that withholds the body until it has read 100 Continue (origin answers the final response only after the body) x {Content-Length, chunked} x window {1,4} x position x {plain, TLS} x {100, 100+103}; "+
		"(C) unsolicited interim responses {102, 103, 103+103, 100} before/after the request body followed by a pause of {1,3} virtual seconds before the final response: the client must hold the interim response before the origin goes on; "+
		"(D) statuses {301,302,303,307,308,201,200} x Location sets {none, relative, same host, other host, same+other, other+same, two relative, unparsable without authority, unparsable with authority} followed by two more requests, window {1,3}: only 301/302/307 with a Location naming another host may end the connection; "+
		"(E) request for another host / CONNECT written in the same burst as a request whose response the origin delays {1,3} s x window {2,20} x {plain, TLS} x first request {GET, POST+body}: response 1 first and complete, then close (or a refusal), nothing of request 2 at origin 1. "+
		"Non-trivial: every case except the never-admitted TLS clients").
	Require("tls:no-auth", "tls:auth-accepted", "tls:auth-rejected", "tls:cert-valid", "tls:cert-missing", "tls:cert-untrusted",
		"strict-expect:got-100", "strict-expect:tls", "interim-then-pause:103", "interim-then-pause:held-before-final",
		"redirect:no-location", "redirect:multi-location", "redirect:unparsable", "redirect:may-close", "redirect:must-continue-other-host", "redirect:continued",
		"burst:host-change-response-outstanding", "burst:connect-response-outstanding")

func ua(r reqPlan) reqPlan {
	r.Hdr = append(r.Hdr, kv{"User-Agent", " h"})
	return r
}

func withBody(r reqPlan, kind int, n int, seed uint64) reqPlan {
	r.Body = bodySpec{Kind: kind, Seed: seed, Len: n}
	if kind == bodyChunked {
		r.Body.Chunks = []int{n / 2, n - n/2}
		r.FrameName = "Transfer-Encoding"
	}
	return r
}

func runR6(t *testing.T, name string, p *plan, nt bool, label func(e *expectation, o *obs) []string) {
	msg, e, o, v := runPlan(t, p)
	if msg != "" {
		t.Fatalf("%s: %s", name, msg)
	}
	for _, k := range v.known {
		recR6.KnownHit(k)
	}
	recR6.Case(name, nt, label(e, o)...)
}

func TestRound6Scenarios(t *testing.T) {
	// ---- (A) TLS x authentication x client certificate
	creds := []struct{ name, value string }{{"none", ""}, {"good", "Basic " + goodToken}, {"wrong", "Basic " + badToken}}
	for _, auth := range []bool{false, true} {
		for cert := certNone; cert <= certUntrusted; cert++ {
			for _, cr := range creds {
				for _, method := range []string{"GET", "POST"} {
					mk := func(path, m string) reqPlan {
						r := ua(req1(m, path))
						if cr.value != "" {
							r.Hdr = append(r.Hdr, kv{"Proxy-Authorization", " " + cr.value})
						}
						return r
					}
					first := mk("/first", method)
					if method == "POST" {
						first = withBody(first, bodyCL, 20, 11)
						first.Body.HighOnly = true
					}
					p := &plan{AuthEnabled: auth, UserTable: usersOne, TLS: true, ClientCert: cert, Window: 2, ClientAbort: -1,
						Reqs: []reqPlan{first, mk("/second", "GET")}, Resps: []respPlan{resp1(200, 5), resp1(200, 7)}}
					name := fmt.Sprintf("A|auth=%v|cert=%d|cred=%s|%s", auth, cert, cr.name, method)
					runR6(t, name, p, !p.certRejected(), func(e *expectation, o *obs) []string {
						var l []string
						switch {
						case p.certRejected():
						case !auth:
							l = append(l, "tls:no-auth")
						case e.FirstFwd >= 0:
							l = append(l, "tls:auth-accepted")
						default:
							l = append(l, "tls:auth-rejected")
						}
						l = append(l, []string{"tls:cert-not-asked", "tls:cert-valid", "tls:cert-missing", "tls:cert-untrusted"}[cert])
						if e.FirstFwd >= 0 && len(o.OriginMsgs) != 2 {
							t.Fatalf("%s: harness: expected both requests at the origin, got %d", name, len(o.OriginMsgs))
						}
						return l
					})
				}
			}
		}
	}

	// ---- (B) Expect: 100-continue, the client withholds the body
	for _, kind := range []int{bodyCL, bodyChunked} {
		for _, window := range []int{1, 4} {
			for pos := 0; pos < 2; pos++ {
				for _, useTLS := range []bool{false, true} {
					for _, extra := range []bool{false, true} {
						strict := withBody(ua(req1("POST", "/upload", kv{"Expect", " 100-continue"})), kind, 3000, 21)
						strict.Expect, strict.ExpectStrict = true, true
						rs := resp1(201, 9)
						rs.Interim = []interimPlan{{Status: 100, Reason: "Continue"}}
						if extra {
							rs.Interim = append(rs.Interim, interimPlan{Status: 103, Reason: "Early Hints", Hdr: []kv{{"Link", " </s.css>; rel=preload"}}})
						}
						rs.InterimEarly = true
						other, ro := ua(req1("GET", "/plain")), resp1(200, 4)
						p := &plan{Window: window, ClientAbort: -1, TLS: useTLS}
						if pos == 0 {
							p.Reqs, p.Resps = []reqPlan{strict, other}, []respPlan{rs, ro}
						} else {
							p.Reqs, p.Resps = []reqPlan{other, strict}, []respPlan{ro, rs}
						}
						name := fmt.Sprintf("B|kind=%d|w=%d|pos=%d|tls=%v|extra=%v", kind, window, pos, useTLS, extra)
						runR6(t, name, p, true, func(e *expectation, o *obs) []string {
							if !o.StrictGot[pos] {
								t.Fatalf("%s: harness: the strict client did not record 100 Continue", name)
							}
							l := []string{"strict-expect:got-100"}
							if useTLS {
								l = append(l, "strict-expect:tls")
							}
							return l
						})
					}
				}
			}
		}
	}

	// ---- (C) interim responses, then a pause before the final response
	interims := map[string][]interimPlan{
		"100":     {{Status: 100, Reason: "Continue"}},
		"102":     {{Status: 102, Reason: "Processing"}},
		"103":     {{Status: 103, Reason: "Early Hints", Hdr: []kv{{"Link", " </s.css>; rel=preload"}}}},
		"103+103": {{Status: 103, Reason: "Early Hints", Hdr: []kv{{"Link", " </a.css>; rel=preload"}}}, {Status: 103, Reason: "Early Hints", Hdr: []kv{{"Link", " </b.js>; rel=preload"}}}},
	}
	for _, ik := range []string{"100", "102", "103", "103+103"} {
		for _, early := range []bool{true, false} {
			for _, delay := range []int{1, 3} {
				for _, window := range []int{1, 4} {
					for _, method := range []string{"GET", "POST"} {
						r := ua(req1(method, "/slow"))
						if method == "POST" {
							r = withBody(r, bodyCL, 500, 33)
						}
						rp := resp1(200, 12)
						rp.Interim, rp.InterimEarly, rp.FinalDelaySec = interims[ik], early, delay
						p := &plan{Window: window, ClientAbort: -1,
							Reqs: []reqPlan{ua(req1("GET", "/before")), r, ua(req1("GET", "/after"))}, Resps: []respPlan{resp1(200, 3), rp, resp1(200, 6)}}
						name := fmt.Sprintf("C|%s|early=%v|delay=%d|w=%d|%s", ik, early, delay, window, method)
						runR6(t, name, p, true, func(e *expectation, o *obs) []string {
							start, ok := o.FinalStartAt[1]
							if !ok {
								t.Fatalf("%s: harness: the origin never paused", name)
							}
							l := []string{"interim-then-pause:" + ik}
							for j := range e.Resps {
								if e.Resps[j].Interim && j < len(o.ClientAt) && o.ClientAt[j] < start {
									l = append(l, "interim-then-pause:held-before-final")
								}
							}
							return l
						})
					}
				}
			}
		}
	}

	// ---- (D) Location fields
	const host = "example.com"
	locSets := []struct {
		name string
		vals []string
	}{
		{"none", nil}, {"relative", []string{"/next?x=1"}}, {"same", []string{"http://" + host + "/moved"}}, {"other", []string{"http://elsewhere.example/x"}},
		{"same+other", []string{"http://" + host + "/moved", "http://elsewhere.example/x"}}, {"other+same", []string{"http://elsewhere.example/x", "http://" + host + "/moved"}},
		{"relative+relative", []string{"../up", "?page=2"}}, {"unparsable", []string{"%zz"}}, {"unparsable-authority", []string{"http://[::1"}},
	}
	for _, status := range []int{301, 302, 303, 307, 308, 201, 200} {
		for _, ls := range locSets {
			for _, window := range []int{1, 3} {
				rp := resp1(status, 8)
				for _, v := range ls.vals {
					rp.Hdr = append(rp.Hdr, kv{"Location", " " + v})
				}
				rp.Hdr = append(rp.Hdr, kv{"X-After", " 1"})
				p := &plan{Window: window, ClientAbort: -1,
					Reqs:  []reqPlan{ua(req1("GET", "/old")), ua(req1("GET", "/second")), withBody(ua(req1("POST", "/third")), bodyCL, 10, 5)},
					Resps: []respPlan{rp, resp1(200, 3), resp1(200, 6)}}
				name := fmt.Sprintf("D|%d|%s|w=%d", status, ls.name, window)
				runR6(t, name, p, true, func(e *expectation, o *obs) []string {
					var l []string
					redirect := status/100 == 3
					switch {
					case redirect && len(ls.vals) == 0:
						l = append(l, "redirect:no-location")
					case redirect && len(ls.vals) > 1:
						l = append(l, "redirect:multi-location")
					}
					if ls.name == "unparsable" || ls.name == "unparsable-authority" {
						l = append(l, "redirect:unparsable")
					}
					if e.Labels["3xx-other-host"] {
						l = append(l, "redirect:may-close")
					} else {
						if e.MinResps != 3 {
							t.Fatalf("%s: harness: model does not demand all three responses", name)
						}
						l = append(l, "redirect:continued")
						if e.Labels["other-host-location-must-not-close"] {
							l = append(l, "redirect:must-continue-other-host")
						}
					}
					return l
				})
			}
		}
	}

	// ---- (E) request for another host / CONNECT in the same burst as a request whose response is delayed
	for _, delay := range []int{1, 3} {
		for _, window := range []int{2, 20} {
			for _, useTLS := range []bool{false, true} {
				for _, connect := range []bool{false, true} {
					for _, method := range []string{"GET", "POST"} {
						first := ua(req1(method, "/slow"))
						if method == "POST" {
							first = withBody(first, bodyCL, 700, 41)
						}
						second := ua(req1("GET", "/elsewhere"))
						second.Authority, second.HostField = "other.example", " other.example"
						if connect {
							second = reqPlan{Method: "CONNECT", Authority: "other.example:443", HostField: " other.example:443", HostName: "Host", FrameName: "Content-Length"}
						}
						third := ua(req1("GET", "/third"))
						rp := resp1(200, 2000)
						rp.FinalDelaySec = delay
						p := &plan{Window: window, ClientAbort: -1, TLS: useTLS,
							Reqs: []reqPlan{first, second, third}, Resps: []respPlan{rp, resp1(200, 3), resp1(200, 4)}}
						name := fmt.Sprintf("E|delay=%d|w=%d|tls=%v|connect=%v|%s", delay, window, useTLS, connect, method)
						runR6(t, name, p, true, func(e *expectation, o *obs) []string {
							wr, ok := o.ReqWrittenAt[1]
							if !ok || len(o.ClientAt) < 1 || o.ClientAt[0] <= wr {
								t.Fatalf("%s: harness: request 2 was not completely written while response 1 was outstanding (written %v ok=%v, response at %v)", name, wr, ok, o.ClientAt)
							}
							if connect {
								return []string{"burst:connect-response-outstanding"}
							}
							return []string{"burst:host-change-response-outstanding"}
						})
					}
				}
			}
		}
	}
	recR6.Exhaustive(true)
}
