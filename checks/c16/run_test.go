package c16

import (
	"bufio"
	"crypto/tls"
	"io"
	"sync"
	"testing"
	"testing/synctest"
	"time"

	"verif/internal/tlsx"

	"github.com/database64128/shadowsocks-go/httpproxy"
	"github.com/database64128/shadowsocks-go/netio"
	"go.uber.org/zap"
)

// obs is everything the harness observed while executing a plan.
type obs struct {
	HandleErr string
	Dials     []string // target address of every upstream connection the server asked for
	Username  string

	OriginMsgs    []*msg // complete requests the origin parsed, in arrival order
	OriginTail    *msg   // incomplete last request (head parsed, body cut), if any
	OriginTailErr string
	OriginRaw     []byte

	ClientMsgs    []*msg // complete responses the client parsed, in arrival order (interim ones included)
	ClientTail    *msg
	ClientTailErr string
	ClientRaw     []byte
	ClientEOF     bool // the proxy ended the connection towards the client (EOF or error on read)

	// idle scenario (plan.IdleAt > 0)
	IdleReached    bool          // the client got to the pause (every earlier request answered or connection over)
	EOFAtResume    bool          // the client had seen the end of the proxy connection when the pause was over
	OriginIdleAt   time.Duration // virtual time at which the origin closed its idle connection (0 = never)
	ClientEOFAt    time.Duration // virtual time at which the client saw the end of the proxy connection
	WroteAfterIdle int           // bytes of request #IdleAt the transport still accepted after the pause

	Got100       map[int]bool // request index -> an interim response had arrived before the body was sent
	ExpectWaited int

	// timing (virtual time since the start of the case)
	ClientAt     []time.Duration       // parallel to ClientMsgs: when the message had completely arrived at the client
	ReqWrittenAt map[int]time.Duration // request index -> when the client had written the whole request
	FinalStartAt map[int]time.Duration // origin ordinal -> when the origin started writing the final response (only for delayed ones)
	// strict Expect: request index -> the client had read "100 Continue" for it before it sent the body
	StrictWaited map[int]bool
	Got100At     map[int]time.Duration // request index -> when the client had read the first "100 Continue" for it
	EarlySentAt  map[int]time.Duration // origin ordinal -> when the origin had written its first early interim response
	StrictGot    map[int]bool
	StrictWait   map[int]time.Duration

	// TLS
	HandshakeErr string // the harness client's TLS handshake failed
	ClientEndErr string // TLS only: error (other than EOF) that ended the client's stream between two messages
	Stuck        bool   // the watchdog had to tear the case down
	ClientWrote  int
}

type recReader struct {
	r   io.Reader
	buf *[]byte
	mu  *sync.Mutex
}

func (r recReader) Read(b []byte) (int, error) {
	n, err := r.r.Read(b)
	if n > 0 {
		r.mu.Lock()
		*r.buf = append(*r.buf, b[:n]...)
		r.mu.Unlock()
	}
	return n, err
}

// progress is the client's shared view: how many final responses and which interim responses
// have arrived. Waiters block on a channel (durably blocking inside the bubble).
type progress struct {
	mu      sync.Mutex
	finals  int
	interim map[int]bool
	cont100 map[int]bool // "100 Continue" specifically
	done    bool
	changed chan struct{}
}

func (p *progress) update(f func()) {
	p.mu.Lock()
	f()
	close(p.changed)
	p.changed = make(chan struct{})
	p.mu.Unlock()
}

// waitFor blocks until cond() holds, the reader is done, or the timeout (0 = none) expires.
func (p *progress) waitFor(cond func() bool, timeout time.Duration) (ok bool) {
	var tc <-chan time.Time
	if timeout > 0 {
		tm := time.NewTimer(timeout)
		defer tm.Stop()
		tc = tm.C
	}
	for {
		p.mu.Lock()
		if cond() {
			p.mu.Unlock()
			return true
		}
		if p.done {
			p.mu.Unlock()
			return false
		}
		ch := p.changed
		p.mu.Unlock()
		select {
		case <-ch:
		case <-tc:
			return false
		}
	}
}

// writer cuts a byte string into Write calls following a cyclic size plan. A negative size
// means "pause first" (let every other goroutine run until it blocks), then write |size|.
type fragWriter struct {
	w     io.Writer
	sizes []int
	idx   int
	total int
	limit int // >=0: stop (and report) once this many bytes have been written in total
}

func (f *fragWriter) write(b []byte) (aborted bool, err error) {
	for len(b) > 0 {
		n := len(b)
		if len(f.sizes) > 0 {
			s := f.sizes[f.idx%len(f.sizes)]
			f.idx++
			if s < 0 {
				time.Sleep(time.Microsecond)
				s = -s
			}
			if s > 0 && s < n {
				n = s
			}
		}
		if f.limit >= 0 && f.total+n >= f.limit {
			n = f.limit - f.total
			if n > 0 {
				if _, err := f.w.Write(b[:n]); err != nil {
					return false, err
				}
				f.total += n
			}
			return true, nil
		}
		if _, err := f.w.Write(b[:n]); err != nil {
			return false, err
		}
		f.total += n
		b = b[n:]
	}
	return false, nil
}

var nopLogger = zap.NewNop()

func newServer(p *plan) netio.StreamServer {
	cfg := httpproxy.ServerConfig{EnableBasicAuth: p.AuthEnabled}
	if p.AuthEnabled {
		switch p.UserTable {
		case usersOne:
			cfg.Users = []httpproxy.ServerUserCredentials{{Username: goodUser, Password: goodPass}}
		case usersSeveral:
			cfg.Users = []httpproxy.ServerUserCredentials{{Username: carolUser, Password: carolPass}, {Username: goodUser, Password: goodPass}, {Username: bobUser, Password: bobPass}}
		case usersNil:
			cfg.Users = nil
		case usersEmpty:
			cfg.Users = []httpproxy.ServerUserCredentials{}
		}
	}
	if p.TLS {
		m := tlsMaterial()
		cfg.EnableTLS = true
		cfg.Certificates = []tls.Certificate{m.server.TLS}
		if p.ClientCert != certNone {
			cfg.RequireAndVerifyClientCert = true
			cfg.ClientCAs = m.ca.Pool()
		}
	}
	s, err := cfg.NewProxyServer()
	if err != nil {
		panic(err)
	}
	return s
}

// ---- throw-away TLS material (verif/internal/tlsx). It is created once, inside a synctest
// bubble of its own: every bubble's clock starts at 2000-01-01, the server side verifies client
// certificates against time.Now() (httpproxy builds its tls.Config without a Time hook), so the
// certificates have to be valid around 2000-01-01 and not around the real date.
type tlsMat struct {
	ca, otherCA             *tlsx.CA
	server, client, unknown *tlsx.Leaf
}

const (
	tlsServerName = "proxy.c16.test"
	tlsClientCN   = "cert-user"
)

var (
	tlsMatOnce sync.Once
	tlsMatVal  *tlsMat
	tlsMatT    *testing.T
)

func tlsMaterial() *tlsMat {
	tlsMatOnce.Do(func() {
		synctest.Test(tlsMatT, func(*testing.T) {
			must := func(err error) {
				if err != nil {
					panic("harness: tls material: " + err.Error())
				}
			}
			m := &tlsMat{}
			var err error
			m.ca, err = tlsx.NewCA("c16 proxy CA")
			must(err)
			m.otherCA, err = tlsx.NewCA("c16 unrelated CA")
			must(err)
			m.server, err = m.ca.Issue("proxy", tlsServerName)
			must(err)
			m.client, err = m.ca.Issue(tlsClientCN)
			must(err)
			m.unknown, err = m.otherCA.Issue("mallory")
			must(err)
			tlsMatVal = m
		})
	})
	return tlsMatVal
}

func tlsCap(c int) int {
	if c > 0 && c < 4096 {
		return 4096
	}
	return c
}

func clientTLSConfig(p *plan) *tls.Config {
	m := tlsMaterial()
	cfg := &tls.Config{RootCAs: m.ca.Pool(), ServerName: tlsServerName}
	switch p.ClientCert {
	case certValid:
		cfg.Certificates = []tls.Certificate{m.client.TLS}
	case certUntrusted:
		// GetClientCertificate: present it even though the server's CA list does not name its issuer
		c := m.unknown.TLS
		cfg.GetClientCertificate = func(*tls.CertificateRequestInfo) (*tls.Certificate, error) { return &c, nil }
	}
	return cfg
}

// execute runs the plan against the real server inside a synctest bubble and returns what the
// client and the origin saw. It never fails the test itself.
func execute(t *testing.T, p *plan) *obs {
	o := &obs{Got100: map[int]bool{}, ReqWrittenAt: map[int]time.Duration{}, FinalStartAt: map[int]time.Duration{},
		StrictWaited: map[int]bool{}, StrictGot: map[int]bool{}, StrictWait: map[int]time.Duration{},
		Got100At: map[int]time.Duration{}, EarlySentAt: map[int]time.Duration{}}
	if p.TLS {
		tlsMatT = t
		tlsMaterial() // outside the case's bubble
	}
	synctest.Test(t, func(t *testing.T) {
		var mu sync.Mutex // guards o
		t0 := time.Now()
		server := newServer(p)
		capC2P, capP2C := p.T.CapC2P, p.T.CapP2C
		if p.TLS {
			// crypto/tls writes its alerts and its last handshake flight without a deadline and counts
			// on a transport that takes a few hundred bytes without the peer reading (any kernel socket
			// buffer does); a 1-byte buffer in both directions deadlocks the two TLS stacks against each
			// other when the server rejects the client certificate. Tiny buffers stay a matter of the
			// plain cases and of the upstream side; reads are still fragmented by the read plan.
			capC2P, capP2C = tlsCap(capC2P), tlsCap(capP2C)
		}
		cc, sc := bpair(capC2P, p.T.PlanC2P, capP2C, nil)
		var (
			wg        sync.WaitGroup
			originsMu sync.Mutex
			origins   []*bconn
		)
		prog := &progress{interim: map[int]bool{}, cont100: map[int]bool{}, changed: make(chan struct{})}

		// ---- the relay service around the stream server (what service/tcp.go does)
		wg.Go(func() {
			creq, err := server.HandleStream(sc, nopLogger)
			if err != nil {
				mu.Lock()
				o.HandleErr = err.Error()
				mu.Unlock()
				sc.Close()
				return
			}
			mu.Lock()
			o.Dials = append(o.Dials, creq.Addr.String())
			o.Username = creq.Username
			mu.Unlock()
			oc, os := bpair(p.T.CapP2O, nil, p.T.CapO2P, p.T.PlanO2P)
			originsMu.Lock()
			origins = append(origins, oc, os)
			originsMu.Unlock()
			wg.Go(func() { runOrigin(p, o, &mu, os, t0) })
			pc, err := creq.PendingConn.Proceed()
			if err != nil {
				mu.Lock()
				o.HandleErr = "proceed: " + err.Error()
				mu.Unlock()
				sc.Close()
				oc.Close()
				return
			}
			_, _, _ = netio.BidirectionalCopy(pc, oc)
			pc.Close()
			oc.Close()
		})

		// ---- client: plain, or crypto/tls over the same transport
		var (
			cr         io.Reader    = cc
			cw         io.Writer    = cc
			closeWrite func() error = cc.CloseWrite
		)
		startClient := func() {
			// ---- client reader
			wg.Go(func() {
				br := bufio.NewReaderSize(recReader{cr, &o.ClientRaw, &mu}, 4096)
				cur := 0
				for {
					m, err := readHead(br, true)
					if err != nil {
						mu.Lock()
						switch {
						case err == io.EOF:
						case p.TLS && m == nil:
							// between two messages: the TLS layer reports how the stream ended (alert,
							// missing close_notify); for HTTP it is the end of the connection
							o.ClientEndErr = err.Error()
						default:
							o.ClientTail, o.ClientTailErr = m, err.Error()
						}
						mu.Unlock()
						break
					}
					method := ""
					if cur < len(p.Reqs) {
						method = p.Reqs[cur].Method
					}
					if proxyGenerated(m) {
						// 200/400/407/502 written by the proxy itself carry no framing fields and no body
						m.Framing = bodyNone
					} else if err = readBody(br, m, true, method); err != nil {
						mu.Lock()
						o.ClientTail, o.ClientTailErr = m, err.Error()
						mu.Unlock()
						break
					}
					mu.Lock()
					o.ClientMsgs = append(o.ClientMsgs, m)
					o.ClientAt = append(o.ClientAt, time.Since(t0))
					mu.Unlock()
					if m.Status/100 == 1 {
						c := cur
						st := m.Status
						if st == 100 {
							mu.Lock()
							if _, seen := o.Got100At[c]; !seen {
								o.Got100At[c] = time.Since(t0)
							}
							mu.Unlock()
						}
						prog.update(func() {
							prog.interim[c] = true
							if st == 100 {
								prog.cont100[c] = true
							}
						})
					} else {
						cur++
						prog.update(func() { prog.finals++ })
					}
				}
				mu.Lock()
				o.ClientEOF = true
				o.ClientEOFAt = time.Since(t0)
				mu.Unlock()
				prog.update(func() { prog.done = true })
			})

			// ---- client writer
			wg.Go(func() {
				fw := &fragWriter{w: cw, sizes: p.T.WriteC, limit: p.ClientAbort}
				defer func() {
					mu.Lock()
					o.ClientWrote = fw.total
					mu.Unlock()
				}()
				for i := range p.Reqs {
					r := &p.Reqs[i]
					if p.IdleAt > 0 && i == p.IdleAt {
						// idle phase: nothing outstanding, nothing sent for idlePause
						prog.waitFor(func() bool { return prog.finals >= i }, 0)
						time.Sleep(idlePause)
						prog.mu.Lock()
						eof := prog.done
						prog.mu.Unlock()
						mu.Lock()
						o.IdleReached, o.EOFAtResume = true, eof
						mu.Unlock()
						// a client that has not noticed anything sends its next request now
						before := fw.total
						head, body := r.wire()
						if _, err := fw.write(head); err == nil {
							fw.write(body)
						}
						mu.Lock()
						o.WroteAfterIdle = fw.total - before
						mu.Unlock()
						continue
					}
					need := i + 1 - p.Window
					if need > 0 && !prog.waitFor(func() bool { return prog.finals >= need }, 0) {
						// the connection ended while requests were outstanding
						cc.Close()
						return
					}
					head, body := r.wire()
					aborted, err := fw.write(head)
					if err == nil && !aborted && len(body) > 0 {
						if r.Expect && r.ExpectStrict {
							// withhold the body until "100 Continue" (or a final response) has been read;
							// only the end of the connection ends the wait
							start := time.Now()
							got := prog.waitFor(func() bool { return prog.cont100[i] || prog.finals > i }, 0)
							prog.mu.Lock()
							got100 := prog.cont100[i]
							prog.mu.Unlock()
							mu.Lock()
							o.ExpectWaited++
							o.StrictWaited[i], o.StrictGot[i], o.StrictWait[i] = true, got100, time.Since(start)
							if got {
								o.Got100[i] = true
							}
							mu.Unlock()
						} else if r.Expect {
							got := prog.waitFor(func() bool { return prog.interim[i] || prog.finals > i }, time.Second)
							mu.Lock()
							o.ExpectWaited++
							if got {
								o.Got100[i] = true
							}
							mu.Unlock()
						}
						aborted, err = fw.write(body)
					}
					if err == nil && !aborted {
						mu.Lock()
						o.ReqWrittenAt[i] = time.Since(t0)
						mu.Unlock()
					}
					if aborted {
						cc.Close()
						return
					}
					if err != nil {
						// the proxy stopped reading: wait for the reader to finish, then close
						prog.waitFor(func() bool { return false }, 0)
						cc.Close()
						return
					}
				}
				closeWrite()
				prog.waitFor(func() bool { return false }, 0)
				cc.Close()
			})
		}
		if p.TLS {
			wg.Go(func() {
				tc := tls.Client(cc, clientTLSConfig(p))
				if err := tc.Handshake(); err != nil {
					mu.Lock()
					o.HandshakeErr = err.Error()
					o.ClientEOF, o.ClientEOFAt = true, time.Since(t0)
					mu.Unlock()
					prog.update(func() { prog.done = true })
					cc.Close()
					return
				}
				cr, cw, closeWrite = tc, tc, tc.CloseWrite
				startClient()
			})
		} else {
			startClient()
		}

		done := make(chan struct{})
		go func() { wg.Wait(); close(done) }()
		select {
		case <-done:
		case <-time.After(time.Hour):
			mu.Lock()
			o.Stuck = true
			mu.Unlock()
			cc.Close()
			sc.Close()
			originsMu.Lock()
			for _, c := range origins {
				c.Close()
			}
			originsMu.Unlock()
			<-done
		}
		synctest.Wait()
	})
	return o
}

// proxyGenerated recognises the fixed responses the proxy writes itself (send200/400/407/502):
// no framing field at all. Origin scripts never use 400/407/502 and always frame a 200.
func proxyGenerated(m *msg) bool {
	switch m.Status {
	case 400, 407, 502:
		return len(m.get("Content-Length")) == 0 && len(m.get("Transfer-Encoding")) == 0
	}
	return false
}

// runOrigin plays the origin server on one upstream connection.
func runOrigin(p *plan, o *obs, mu *sync.Mutex, bc *bconn, t0 time.Time) {
	defer bc.Close()
	// like a real server the origin gives up on a connection on which nothing moves for a minute
	// (fake time): it may be blocked writing to a peer that does not read, or waiting for a body
	idle := p.originIdle()
	c := &idleConn{c: bc, d: idle}
	c.t = time.AfterFunc(idle, func() {
		mu.Lock()
		if o.OriginIdleAt == 0 {
			o.OriginIdleAt = time.Since(t0)
		}
		mu.Unlock()
		bc.Close()
	})
	defer c.t.Stop()
	br := bufio.NewReaderSize(recReader{c, &o.OriginRaw, mu}, 4096)
	fw := &fragWriter{w: c, sizes: p.T.WriteO, limit: -1}
	for k := 0; ; k++ {
		m, err := readHead(br, false)
		if err != nil {
			mu.Lock()
			// io.ErrClosedPipe before the first byte of a message: the origin's own idle timeout
			// closed the connection between two messages - as clean as EOF
			if err != io.EOF && !(m == nil && err == io.ErrClosedPipe) {
				o.OriginTail, o.OriginTailErr = m, err.Error()
			}
			mu.Unlock()
			return
		}
		rp := defaultResp
		if k < len(p.Resps) {
			rp = &p.Resps[k]
		}
		if rp.InterimEarly {
			for i := range rp.Interim {
				if _, err := fw.write(rp.Interim[i].wire()); err != nil {
					return
				}
				if i == 0 {
					mu.Lock()
					o.EarlySentAt[k] = time.Since(t0)
					mu.Unlock()
				}
			}
		}
		if err := readBody(br, m, false, ""); err != nil {
			mu.Lock()
			o.OriginTail, o.OriginTailErr = m, err.Error()
			mu.Unlock()
			return
		}
		mu.Lock()
		o.OriginMsgs = append(o.OriginMsgs, m)
		mu.Unlock()
		if !rp.InterimEarly {
			for i := range rp.Interim {
				if _, err := fw.write(rp.Interim[i].wire()); err != nil {
					return
				}
			}
		}
		if d := rp.finalDelay(); d > 0 {
			// the origin takes its time over the final response (shorter than its own idle timeout)
			time.Sleep(d)
			c.t.Reset(idle)
			mu.Lock()
			o.FinalStartAt[k] = time.Since(t0)
			mu.Unlock()
		}
		final := rp.finalWire(m.Method)
		if tp := rp.truncPoint(m.Method); tp >= 0 {
			fw.write(final[:tp])
			return
		}
		if _, err := fw.write(final); err != nil {
			return
		}
		if rp.CloseSilently || rp.closes(m.Method) {
			return
		}
	}
}

var defaultResp = &respPlan{Status: 200, Reason: "OK", Body: bodySpec{Kind: bodyCL, Seed: 99, Len: 2}, FrameName: "Content-Length", HeadCL: -1, TruncateAt: -1}

func (p *respPlan) finalDelay() time.Duration {
	return time.Duration(min(max(p.FinalDelaySec, 0), maxFinalDelaySec)) * time.Second
}

// closes reports whether the final response announces (or implies) the end of the connection.
func (p *respPlan) closes(reqMethod string) bool {
	if hasToken(connectionTokens(p.Hdr), "close") {
		return true
	}
	bodyless := reqMethod == "HEAD" || p.Status == 204 || p.Status == 304
	return !bodyless && p.Body.Kind == bodyClose
}

// truncPoint returns how many bytes of the final response the origin writes before it closes
// the connection, or -1 when the response is written completely.
func (p *respPlan) truncPoint(reqMethod string) int {
	if p.TruncateAt < 0 {
		return -1
	}
	return p.TruncateAt % len(p.finalWire(reqMethod))
}

type idleConn struct {
	c *bconn
	t *time.Timer
	d time.Duration
}

func (i *idleConn) Read(b []byte) (int, error) {
	n, err := i.c.Read(b)
	i.t.Reset(i.d)
	return n, err
}

func (i *idleConn) Write(b []byte) (int, error) {
	n, err := i.c.Write(b)
	i.t.Reset(i.d)
	return n, err
}
