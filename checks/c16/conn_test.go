package c16

import (
	"io"
	"net"
	"os"
	"sync"
	"time"
)

// bconn is the harness-owned transport used on both sides of the proxy (client<->proxy and
// proxy<->origin). It is a buffered duplex byte stream whose blocking points are channel
// receives only (so that goroutines blocked on it are "durably blocked" inside a
// testing/synctest bubble; the mutex is only held for short critical sections).
//
// Per direction: an optional capacity (writers block while the buffer is full; 0 = unbounded)
// and a cyclic read plan that caps the size of each Read (fragmentation as seen by the reader).

type bhalf struct {
	mu      sync.Mutex
	buf     []byte
	capa    int
	wclosed bool
	rclosed bool
	changed chan struct{}
	plan    []int
	planIdx int
	written int64
	rdl     time.Time // read deadline of the reading end (crypto/tls sets deadlines around close_notify)
	wdl     time.Time // write deadline of the writing end
}

func newBhalf(capa int, plan []int) *bhalf {
	return &bhalf{capa: capa, plan: plan, changed: make(chan struct{})}
}

// wait blocks until the state changes (ch is closed) or the deadline dl (zero = none) passes.
func waitChange(ch chan struct{}, dl time.Time) {
	if dl.IsZero() {
		<-ch
		return
	}
	d := time.Until(dl)
	if d <= 0 {
		return
	}
	t := time.NewTimer(d)
	defer t.Stop()
	select {
	case <-ch:
	case <-t.C:
	}
}

func expired(dl time.Time) bool { return !dl.IsZero() && !time.Now().Before(dl) }

func (h *bhalf) setReadDeadline(t time.Time) {
	h.mu.Lock()
	h.rdl = t
	h.notify()
	h.mu.Unlock()
}

func (h *bhalf) setWriteDeadline(t time.Time) {
	h.mu.Lock()
	h.wdl = t
	h.notify()
	h.mu.Unlock()
}

// notify wakes every waiter. Must be called with mu held.
func (h *bhalf) notify() {
	close(h.changed)
	h.changed = make(chan struct{})
}

func (h *bhalf) read(b []byte) (int, error) {
	for {
		h.mu.Lock()
		if h.rclosed {
			h.mu.Unlock()
			return 0, io.ErrClosedPipe
		}
		if expired(h.rdl) {
			h.mu.Unlock()
			return 0, os.ErrDeadlineExceeded
		}
		if len(h.buf) > 0 {
			if len(b) == 0 {
				h.mu.Unlock()
				return 0, nil
			}
			limit := len(b)
			if len(h.plan) > 0 {
				p := h.plan[h.planIdx%len(h.plan)]
				h.planIdx++
				if p > 0 && p < limit {
					limit = p
				}
			}
			n := copy(b[:limit], h.buf)
			h.buf = h.buf[n:]
			if len(h.buf) == 0 {
				h.buf = nil
			}
			h.notify()
			h.mu.Unlock()
			return n, nil
		}
		if h.wclosed {
			h.mu.Unlock()
			return 0, io.EOF
		}
		ch, dl := h.changed, h.rdl
		h.mu.Unlock()
		waitChange(ch, dl)
	}
}

func (h *bhalf) write(b []byte) (int, error) {
	n := 0
	for {
		h.mu.Lock()
		if h.wclosed || h.rclosed {
			h.mu.Unlock()
			return n, io.ErrClosedPipe
		}
		if expired(h.wdl) {
			h.mu.Unlock()
			return n, os.ErrDeadlineExceeded
		}
		if len(b) == 0 {
			h.mu.Unlock()
			return n, nil
		}
		space := len(b)
		if h.capa > 0 {
			space = min(space, h.capa-len(h.buf))
		}
		if space > 0 {
			h.buf = append(h.buf, b[:space]...)
			h.written += int64(space)
			b = b[space:]
			n += space
			h.notify()
			if len(b) == 0 {
				h.mu.Unlock()
				return n, nil
			}
		}
		ch, dl := h.changed, h.wdl
		h.mu.Unlock()
		waitChange(ch, dl)
	}
}

func (h *bhalf) closeWrite() {
	h.mu.Lock()
	if !h.wclosed {
		h.wclosed = true
		h.notify()
	}
	h.mu.Unlock()
}

func (h *bhalf) closeRead() {
	h.mu.Lock()
	if !h.rclosed {
		h.rclosed = true
		h.buf = nil
		h.notify()
	}
	h.mu.Unlock()
}

type baddr struct{}

func (baddr) Network() string { return "c16" }
func (baddr) String() string  { return "c16" }

// bconn implements netio.Conn.
type bconn struct {
	rd *bhalf
	wr *bhalf
}

// bpair returns two connected ends. capAB/planAB describe the direction a->b (b's reads).
func bpair(capAB int, planAB []int, capBA int, planBA []int) (a, b *bconn) {
	ab, ba := newBhalf(capAB, planAB), newBhalf(capBA, planBA)
	return &bconn{rd: ba, wr: ab}, &bconn{rd: ab, wr: ba}
}

func (c *bconn) Read(b []byte) (int, error)  { return c.rd.read(b) }
func (c *bconn) Write(b []byte) (int, error) { return c.wr.write(b) }
func (c *bconn) CloseWrite() error           { c.wr.closeWrite(); return nil }
func (c *bconn) CloseRead() error            { c.rd.closeRead(); return nil }
func (c *bconn) Close() error                { c.wr.closeWrite(); c.rd.closeRead(); return nil }
func (c *bconn) LocalAddr() net.Addr         { return baddr{} }
func (c *bconn) RemoteAddr() net.Addr        { return baddr{} }
func (c *bconn) SetDeadline(t time.Time) error {
	c.rd.setReadDeadline(t)
	c.wr.setWriteDeadline(t)
	return nil
}
func (c *bconn) SetReadDeadline(t time.Time) error  { c.rd.setReadDeadline(t); return nil }
func (c *bconn) SetWriteDeadline(t time.Time) error { c.wr.setWriteDeadline(t); return nil }
func (c *bconn) bytesWritten() int64                { c.wr.mu.Lock(); defer c.wr.mu.Unlock(); return c.wr.written }
func (c *bconn) peerClosedWrite() bool              { c.rd.mu.Lock(); defer c.rd.mu.Unlock(); return c.rd.wclosed }
func (c *bconn) peerClosedRead() bool               { c.wr.mu.Lock(); defer c.wr.mu.Unlock(); return c.wr.rclosed }
