package c16

import (
	"fmt"
	"testing"
)

func simpleReq(method, auth, path string, hdr ...kv) reqPlan {
	return reqPlan{Method: method, Authority: auth, HostField: " " + auth, HostName: "Host", Path: path, Hdr: hdr, FrameName: "Content-Length"}
}

func simpleResp(status int, n int) respPlan {
	return respPlan{Status: status, Reason: "OK", Body: bodySpec{Kind: bodyCL, Seed: uint64(n) + 5, Len: n}, FrameName: "Content-Length", HeadCL: -1, TruncateAt: -1}
}

func dump(t *testing.T, o *obs) {
	t.Logf("handleErr=%q dials=%v stuck=%v eof=%v", o.HandleErr, o.Dials, o.Stuck, o.ClientEOF)
	t.Logf("origin raw:\n%s", o.OriginRaw)
	t.Logf("origin tail err: %s", o.OriginTailErr)
	t.Logf("client raw:\n%s", o.ClientRaw)
	t.Logf("client tail err: %s", o.ClientTailErr)
}

func TestScratch(t *testing.T) {
	// 1: UA
	p := &plan{Window: 4, ClientAbort: -1, Reqs: []reqPlan{simpleReq("GET", "example.com", "/a", kv{"Accept", " */*"})}, Resps: []respPlan{simpleResp(200, 5)}}
	dump(t, execute(t, p))
	// 2: trailer
	r := simpleReq("POST", "example.com", "/b", kv{"Connection", " X-Hop"}, kv{"Trailer", " X-T, X-Hop"}, kv{"User-Agent", " h"})
	r.Body = bodySpec{Kind: bodyChunked, Seed: 7, Len: 10, Chunks: []int{4, 6}, Trailers: []kv{{"X-T", "tv"}, {"X-Hop", "secret"}}}
	r.FrameName = "Transfer-Encoding"
	p = &plan{Window: 4, ClientAbort: -1, Reqs: []reqPlan{r}, Resps: []respPlan{simpleResp(200, 5)}}
	dump(t, execute(t, p))
	// 3: 1xx + close
	r = simpleReq("POST", "example.com", "/c", kv{"Connection", " close"}, kv{"Expect", " 100-continue"}, kv{"User-Agent", " h"})
	r.Body = bodySpec{Kind: bodyCL, Seed: 7, Len: 10}
	r.Expect = true
	rp := simpleResp(200, 5)
	rp.Interim = []interimPlan{{Status: 100, Reason: "Continue"}}
	rp.InterimEarly = true
	p = &plan{Window: 4, ClientAbort: -1, Reqs: []reqPlan{r}, Resps: []respPlan{rp}}
	o := execute(t, p)
	dump(t, o)
	fmt.Println(o.Got100)
}
