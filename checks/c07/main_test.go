package c07

import (
	"testing"

	"verif/internal/ev"
)

func TestMain(m *testing.M) { ev.Main(m) }
