package c07

import (
	"fmt"
	"net/netip"
	"strings"
	"unicode/utf8"

	"pgregory.net/rapid"
)

// plan is one fully drawn case. Nothing is drawn after genPlan returns.
type plan struct {
	Proto string // "socks5" | "http" | "ssnone"
	Peer  string // "repo" (the repository's own client code) | "raw" (the harness' RFC client)

	// server configuration
	SrvAuth   bool
	Users     []cred
	EnableTCP bool
	EnableUDP bool
	Local     netip.AddrPort // LocalAddr of the accepted connection (UDP ASSOCIATE bound address)

	// request
	CliAuth   bool     // repo clients: configured with credentials
	Pres      []cred   // credentials presented, one per attempt
	CredClass []string // how each presented credential was derived (evidence only)
	Methods   []byte   // raw SOCKS5 client: the METHODS list
	WantPos   int      // position of the server's method in Methods, -1 = absent
	Pushy     bool     // raw SOCKS5 client: send the request even after a refusal
	Retries   []cred   // raw SOCKS5 client, pushy: further RFC 1929 messages sent after a refused one
	Storm     int      // raw HTTP client: number of consecutive refused attempts on the connection (0 = ordinary case)
	EarlyData int      // raw SOCKS5 client: initial payload sent behind the request before the reply (1 same write, 2 own write)
	Cancel    string   // repo clients, CONNECT: when the dial context is cancelled: "" never, "before", "w0".."w2" (during the client's k-th write), "after" (only after DialStream returned)
	Cmd       byte
	Target    target
	BadTarget string // raw HTTP client only: a request-target without a valid port
	Variant   httpVariant

	// round 6: HTTP proxy behind TLS (Proto "http" only)
	TLS     bool   // server EnableTLS; the clients speak TLS (repo: UseTLS, RootCAs, ServerName; harness: crypto/tls)
	TLSReq  bool   // server RequireAndVerifyClientCert with ClientCAs = the trusted client root
	TLSCert string // client certificate: "" none, "valid" (leaf + intermediate under ClientCAs), "untrusted" (same names, other keys)
	TLSCN   string // common name of the client certificate's leaf
	TLSName string // name the client verifies the server certificate against (one of tlsServerNames)
	TLS12   bool   // harness client only: offer at most TLS 1.2
	TLSFunc bool   // certificates handed over through GetCertificate / GetClientCertificate instead of the lists

	// round 6: SOCKS5 greeting shapes (raw client)
	MethodDup int // further occurrences of the server's method in Methods besides WantPos
	Pipeline  int // 0: wait for every answer; 1: greeting, sub-negotiation and request (+early data) in one write; 2: in writes of their own, without waiting

	// round 6: Host forms (raw HTTP client; the spelling of the target itself is in Target.Spell / Target.NoPort)
	HostForm string // "" CONNECT authority-form; "origin" / "absolute": a non-CONNECT request whose target comes from Host / the absolute URI
	HostVerb string // method of the non-CONNECT request

	// onward connection outcome decided by the "relay"
	Abort bool
	Code  uint8

	// transport
	SrvPlan, CliPlan         []int
	SrvCoalesce, CliCoalesce bool
	Glue                     bool // server-speaks-first data is coalesced with the success reply into one frame

	// post-handshake traffic
	InitPayload int
	C2S, S2C    []int
	Seed        uint64
	CliBuf      int
	SrvBuf      int
	CliWriteTo  bool
}

var boundaryLens = []int{1, 2, 3, 8, 63, 64, 65, 127, 128, 254, 255}

func genLen(rt *rapid.T, label string) int {
	if rapid.IntRange(0, 9).Draw(rt, label+"-lenmode") < 6 {
		return rapid.SampledFrom(boundaryLens).Draw(rt, label+"-len")
	}
	return rapid.IntRange(1, 255).Draw(rt, label+"-len")
}

const (
	alphaHost  = "abcdefghijklmnopqrstuvwxyz0123456789-."
	alphaHTTP  = "abcdefghijklmnopqrstuvwxyzABCDEFGHIJKLMNOPQRSTUVWXYZ0123456789-._"
	alphaHTTPx = alphaHTTP + "~!$&'()*+,;=" // RFC 3986 reg-name without pct-encoded
	alphaPrint = " !\"#$%&'()*+,-./0123456789:;<=>?@ABCDEFGHIJKLMNOPQRSTUVWXYZ[\\]^_`abcdefghijklmnopqrstuvwxyz{|}~"
)

// blob returns n bytes derived from seed over the alphabet ("" = all 256 byte values).
func blob(n int, seed uint64, alphabet string) string {
	b := make([]byte, n)
	fill(b, seed)
	if alphabet != "" {
		for i := range b {
			b[i] = alphabet[int(b[i])%len(alphabet)]
		}
	}
	return string(b)
}

// genName draws a username or password: 1..255 bytes over lower-case alnum, printable ASCII
// (including ':' and space) or all byte values.
func genName(rt *rapid.T, label string) string {
	n := genLen(rt, label)
	seed := rapid.Uint64().Draw(rt, label+"-seed")
	switch rapid.IntRange(0, 2).Draw(rt, label+"-alpha") {
	case 0:
		return blob(n, seed, alphaHost[:36])
	case 1:
		return blob(n, seed, alphaPrint)
	default:
		return blob(n, seed, "")
	}
}

// noColon makes a string usable as an RFC 7617 user-id (which cannot contain ':').
func noColon(s string) string { return strings.ReplaceAll(s, ":", ";") }

func fit(s string) string {
	if len(s) > 255 {
		return s[:255]
	}
	if s == "" {
		return "z"
	}
	return s
}

func genUsers(rt *rapid.T, http bool) []cred {
	n := rapid.IntRange(0, 4).Draw(rt, "nusers")
	var users []cred
	for i := 0; i < n; i++ {
		rel := 0
		if i > 0 {
			rel = rapid.IntRange(0, 5).Draw(rt, "userrel")
		}
		u := cred{U: genName(rt, "user"), P: genName(rt, "pass")}
		if i > 0 {
			prev := users[i-1]
			switch rel {
			case 1: // previous name is a proper prefix of this one
				u.U = fit(prev.U + "x")
			case 2: // this name is a proper prefix of the previous one
				if len(prev.U) > 1 {
					u.U = prev.U[:len(prev.U)-1]
				}
			case 3: // same password as the previous user
				u.P = prev.P
			case 4: // password equals own name
				u.P = u.U
			case 5: // name equals the previous user's password
				u.U = prev.P
			}
		}
		if http {
			u.U = noColon(u.U)
		}
		// user names are distinct (a table with two entries for one name has no documented meaning)
		for k := 0; k < len(users); k++ {
			if users[k].U == u.U {
				u.U = fit(fmt.Sprintf("%d", i) + u.U)
				if len(u.U) == 255 {
					u.U = fmt.Sprintf("%d", i) + u.U[:250]
				}
				k = -1
			}
		}
		users = append(users, u)
	}
	return users
}

// genPresented derives the credentials a client presents from the user table.
func genPresented(rt *rapid.T, users []cred, http bool) (cred, string) {
	k := rapid.IntRange(0, 19).Draw(rt, "credclass")
	if len(users) == 0 {
		k = 8 + k%2
	}
	var (
		c     cred
		class string
	)
	pick := func() cred { return users[rapid.IntRange(0, len(users)-1).Draw(rt, "userpick")] }
	switch {
	case k < 8:
		c, class = pick(), "exact"
	case k == 8:
		c, class = cred{U: genName(rt, "puser"), P: genName(rt, "ppass")}, "fresh"
	case k == 9:
		n := rapid.SampledFrom([]int{1, 255}).Draw(rt, "extlen")
		m := rapid.SampledFrom([]int{1, 255}).Draw(rt, "extlen2")
		s := rapid.Uint64().Draw(rt, "extseed")
		c, class = cred{U: blob(n, s, ""), P: blob(m, s+1, "")}, "fresh-len-1-255"
	case k == 10:
		a, b := pick(), pick()
		c, class = cred{U: a.U, P: b.P}, "other-users-password"
	case k == 11:
		a := pick()
		c, class = cred{U: a.P, P: a.U}, "swapped"
	case k == 12:
		a := pick()
		c, class = cred{U: a.U, P: a.U}, "name-as-password"
	case k == 13:
		a := pick()
		c, class = cred{U: a.P, P: a.P}, "password-as-name"
	case k == 14:
		a := pick()
		c, class = cred{U: a.U, P: genName(rt, "ppass")}, "fresh-password"
	case k == 15:
		a := pick()
		c, class = cred{U: genName(rt, "puser"), P: a.P}, "fresh-name"
	case k <= 17: // prefix / suffix / extension of the name (16) or the password (17)
		a := pick()
		s := a.U
		if k == 17 {
			s = a.P
		}
		switch v := rapid.IntRange(0, 3).Draw(rt, "affix"); {
		case v == 0 && len(s) > 1:
			s = s[:len(s)-1]
		case v == 1 && len(s) > 1:
			s = s[1:]
		case v == 2 && len(s) < 255:
			s = s + "x"
		case v == 3 && len(s) < 255:
			s = "x" + s
		case len(s) > 1:
			s = s[:len(s)-1]
		default:
			s = s + "x"
		}
		if k == 16 {
			c, class = cred{U: s, P: a.P}, "name-affix"
		} else {
			c, class = cred{U: a.U, P: s}, "password-affix"
		}
	case k == 18: // one bit flipped somewhere
		a := pick()
		pos := rapid.IntRange(0, len(a.U)+len(a.P)-1).Draw(rt, "flippos")
		bit := byte(1) << rapid.IntRange(0, 7).Draw(rt, "flipbit")
		u, p := []byte(a.U), []byte(a.P)
		if pos < len(u) {
			u[pos] ^= bit
		} else {
			p[pos-len(u)] ^= bit
		}
		c, class = cred{U: string(u), P: string(p)}, "bitflip"
	default:
		c, class = cred{None: true}, "none"
	}
	if http && !c.None {
		c.U = noColon(c.U) // RFC 7617: a user-id containing ':' cannot be expressed
	}
	return c, class
}

var stormSizes = []int{1, 2, 5, 6, 7, 8, 9, 10, 11, 12, 16, 25, 40}

// genStorm fills p.Pres with k consecutive attempts that have to be refused (missing field, wrong
// password, unknown user, malformed token), optionally followed by one correct attempt.
func genStorm(rt *rapid.T, p *plan) {
	k := rapid.SampledFrom(stormSizes).Draw(rt, "storm-k")
	seed := rapid.Uint64().Draw(rt, "storm-seed")
	mix := rapid.IntRange(0, 4).Draw(rt, "storm-mix") // 0: mixed, 1..4: one kind only
	valid := map[string]bool{}
	for _, u := range p.Users {
		valid[basicToken(u)] = true
	}
	pr := prng(seed)
	p.Storm = k
	for i := 0; i < k; i++ {
		kind := mix
		if mix == 0 {
			kind = 1 + int(pr.next()%4)
		}
		var (
			c     cred
			class string
		)
		switch {
		case kind == 1:
			c, class = cred{None: true}, "none"
		case kind == 2 && len(p.Users) > 0:
			u := p.Users[int(pr.next()%uint64(len(p.Users)))]
			c, class = cred{U: u.U, P: blob(1+int(pr.next()%12), pr.next(), alphaPrint)}, "fresh-password"
		case kind == 4:
			var tok string
			switch v := pr.next() % 6; {
			case v == 0:
				tok = "%%%" + blob(1+int(pr.next()%20), pr.next(), alphaHTTPx)
			case v == 1 && len(p.Users) > 0: // a valid token, truncated
				t := basicToken(p.Users[0])
				tok = t[:len(t)-1]
			case v == 2 && len(p.Users) > 0: // a valid token with extra padding
				tok = basicToken(p.Users[0]) + "="
			case v == 3: // well-formed base64 of something without a colon
				tok = basicToken(cred{U: "nocolon"})[:8]
			case v == 4:
				tok = "" // scheme only
			default:
				tok = blob(4*(1+int(pr.next()%8)), pr.next(), alphaHTTP[:62]) // base64 alphabet, random content
			}
			if valid[tok] {
				tok = "!" + tok
			}
			c, class = cred{Bad: true, Token: tok}, "malformed"
		default:
			c, class = cred{U: noColon(blob(1+int(pr.next()%12), pr.next(), alphaPrint)), P: blob(1+int(pr.next()%12), pr.next(), alphaPrint)}, "fresh"
		}
		if inTable(p.Users, c) {
			c, class = cred{None: true}, "none"
		}
		p.Pres, p.CredClass = append(p.Pres, c), append(p.CredClass, class)
	}
	if len(p.Users) > 0 && rapid.IntRange(0, 2).Draw(rt, "storm-then-correct") > 0 {
		u := p.Users[rapid.IntRange(0, len(p.Users)-1).Draw(rt, "userpick")]
		p.Pres, p.CredClass = append(p.Pres, u), append(p.CredClass, "exact")
	}
}

func genTarget(rt *rapid.T, proto string) target {
	var t target
	ports := []uint16{0, 1, 53, 80, 443, 65535}
	if rapid.Bool().Draw(rt, "portmode") {
		t.Port = rapid.SampledFrom(ports).Draw(rt, "port")
	} else {
		t.Port = rapid.Uint16().Draw(rt, "port")
	}
	switch k := rapid.IntRange(0, 9).Draw(rt, "addrkind"); {
	case k < 5:
		t.Kind = "domain"
		n := genLen(rt, "domain")
		seed := rapid.Uint64().Draw(rt, "domain-seed")
		am := rapid.IntRange(0, 3).Draw(rt, "domain-alpha")
		if proto == "http" {
			// only what the authority-form of RFC 9110 §9.3.6 / RFC 3986 reg-name can spell
			if am == 3 {
				t.Domain = blob(n, seed, alphaHTTPx)
			} else {
				t.Domain = blob(n, seed, alphaHTTP)
			}
			if _, err := netip.ParseAddr(t.Domain); err == nil {
				t.Domain = "x" + t.Domain[1:] // an IP literal is not a domain name request in HTTP
			}
		} else {
			switch am {
			case 3:
				t.Domain = blob(n, seed, "") // the SOCKS5 address field carries any octets
			case 2:
				t.Domain = blob(n, seed, alphaPrint)
			default:
				t.Domain = blob(n, seed, alphaHost)
			}
		}
		// round 6: names that begin like a number or like an IPv6 group, and names that look like a
		// literal without being one; a server has to hand them on as names, byte for byte
		switch k := rapid.IntRange(0, 7).Draw(rt, "domain-lead"); {
		case k == 0 && am < 3:
			t.Domain = string(hexLead[int(seed%uint64(len(hexLead)))]) + t.Domain[1:]
		case k == 1 && am < 2:
			t.Domain = rapid.SampledFrom(literalLookalikes).Draw(rt, "lookalike")
		}
		if proto == "http" {
			if _, err := netip.ParseAddr(t.Domain); err == nil {
				t.Domain = "x" + t.Domain[1:]
			}
		}
	case k < 7:
		t.Kind = "v4"
		var a [4]byte
		fill(a[:], rapid.Uint64().Draw(rt, "ip-seed"))
		if rapid.IntRange(0, 4).Draw(rt, "ip-special") == 0 {
			a = rapid.SampledFrom([][4]byte{{0, 0, 0, 0}, {127, 0, 0, 1}, {255, 255, 255, 255}, {3, 1, 4, 1}}).Draw(rt, "ip4")
		}
		t.IP = netip.AddrFrom4(a)
	case k < 9:
		t.Kind = "v6"
		var a [16]byte
		fill(a[:], rapid.Uint64().Draw(rt, "ip-seed"))
		switch rapid.IntRange(0, 7).Draw(rt, "ip-special") {
		case 0:
			a = [16]byte{}
		case 1:
			a = [16]byte{15: 1}
		case 2:
			a = [16]byte{0: 0x20, 1: 0x01, 2: 0x0d, 3: 0xb8, 15: 3} // compresses to 2001:db8::3
		case 3: // the literals people actually type: every one begins with a different kind of character
			a = netip.MustParseAddr(rapid.SampledFrom(namedV6).Draw(rt, "ip6-named")).As16()
		case 4: // every leading hex digit, letters as well as digits
			a[0] = a[0]&0x0f | byte(rapid.IntRange(0, 15).Draw(rt, "ip6-lead"))<<4
		}
		if a[10] == 0xff && a[11] == 0xff {
			a[0] |= 0x20
		}
		t.IP = netip.AddrFrom16(a)
	default:
		t.Kind = "mapped"
		a := [16]byte{10: 0xff, 11: 0xff}
		fill(a[12:], rapid.Uint64().Draw(rt, "ip-seed"))
		t.IP = netip.AddrFrom16(a)
	}
	if proto == "http" && t.Kind != "domain" && t.Kind != "v4" {
		// how the literal is spelled on the wire by the harness client (RFC 4291 section 2.2 allows all of them)
		t.Spell = rapid.SampledFrom([]string{"", "", "expanded", "nozip", "upper", "v4tail"}).Draw(rt, "ip6-spell")
	}
	return t
}

// hexLead: first characters shared by host names, decimal numbers and IPv6 groups.
const hexLead = "0123456789abcdefABCDEF"

// namedV6 are the IPv6 literals named in the round-6 brief plus their neighbours.
var namedV6 = []string{"fd00::1", "fe80::1", "ff02::1", "abcd::", "::1", "2001:db8::1", "::", "a::", "b::b", "c0de::", "dead:beef::", "e::1", "f::", "1::", "9:9::9", "fd12:3456:789a:1::1", "64:ff9b::102:304"}

// literalLookalikes are host names (RFC 3986 reg-name) that share their beginning with an IP literal
// but are none: a server has to hand them on as names, byte for byte.
var literalLookalikes = []string{"fd00", "fe80", "ff02", "abcd", "f", "a", "1e100.net", "4chan.org", "3com.example", "cafe.babe", "dead.beef", "face.b00c", "1.2.3.4.5", "1.2.3.4a", "a1.2.3.4", "0x7f.example", "fd00.example", "fe80-1", "ff02.1", "db8", "2001.db8", "127.0.0.1.nip.example", "c", "e", "d0", "b-1", "0a", "9z", "1-1"}

var fragSizes = []int{1, 2, 3, 4, 5, 7, 16, 17, 64, 255, 256, 300, 1000, 0}

func genFrag(rt *rapid.T, label string) (p []int, coalesce bool) {
	switch rapid.IntRange(0, 4).Draw(rt, label+"-fragmode") {
	case 0:
		return nil, false
	case 1:
		return []int{1}, false
	case 2:
		return rapid.SliceOfN(rapid.SampledFrom(fragSizes), 1, 8).Draw(rt, label+"-sizes"), false
	case 3:
		return nil, true
	default:
		return rapid.SliceOfN(rapid.SampledFrom(fragSizes), 1, 8).Draw(rt, label+"-sizes"), true
	}
}

var chunkSizes = []int{0, 1, 2, 17, 255, 1000, 4095, 4096, 4097, 8192, 20000}

func genChunks(rt *rapid.T, label string, maxN int) []int {
	n := rapid.IntRange(0, maxN).Draw(rt, label+"-n")
	out := make([]int, 0, n)
	for i := 0; i < n; i++ {
		if rapid.Bool().Draw(rt, label+"-mode") {
			out = append(out, rapid.SampledFrom(chunkSizes).Draw(rt, label))
		} else {
			out = append(out, rapid.IntRange(0, 3000).Draw(rt, label))
		}
	}
	return out
}

// all dial result codes conn/dialresult.go names, except success (Abort is only called with the
// result of a failed dial: service/tcp.go).
var namedFailureCodes = []uint8{13, 100, 101, 102, 103, 104, 110, 111, 112, 113, 254, 255}

func isNamedCode(c uint8) bool {
	for _, k := range namedFailureCodes {
		if k == c {
			return true
		}
	}
	return c == 0
}

var badTargets = []string{"example.com", "example.com:", "example.com:65536", "example.com:99999999999999999999", "example.com:http", "example.com:-1", "example.com:8o", "[::1]", "[::1]:", "1.2.3.4"}

func genPlan(rt *rapid.T) plan {
	return genPlanOf(rt, []string{"socks5", "socks5", "http", "http", "ssnone"})
}

func genPlanOf(rt *rapid.T, protos []string) plan {
	var p plan
	p.Proto = rapid.SampledFrom(protos).Draw(rt, "proto")
	p.Peer = rapid.SampledFrom([]string{"repo", "raw"}).Draw(rt, "peer")
	http := p.Proto == "http"

	if p.Proto != "ssnone" {
		p.SrvAuth = rapid.IntRange(0, 2).Draw(rt, "srvauth") > 0
		if p.SrvAuth || rapid.Bool().Draw(rt, "users-though-no-auth") {
			p.Users = genUsers(rt, http)
		}
	}
	p.EnableTCP, p.EnableUDP = true, true
	p.Cmd = 1
	if p.Proto == "socks5" {
		p.EnableTCP = rapid.IntRange(0, 5).Draw(rt, "enabletcp") > 0
		p.EnableUDP = rapid.IntRange(0, 3).Draw(rt, "enableudp") > 0
		switch k := rapid.IntRange(0, 9).Draw(rt, "cmdkind"); {
		case k < 7:
			p.Cmd = 1
		case k < 9:
			p.Cmd = 3
		default:
			p.Cmd = rapid.SampledFrom([]byte{2, 0, 4, 0x80, 0xff}).Draw(rt, "cmd")
		}
	}
	p.Target = genTarget(rt, p.Proto)
	{
		var a [16]byte
		fill(a[:], rapid.Uint64().Draw(rt, "local-seed"))
		a[0] |= 0x20
		port := rapid.Uint16().Draw(rt, "local-port")
		switch rapid.IntRange(0, 2).Draw(rt, "local-kind") {
		case 0:
			p.Local = netip.AddrPortFrom(netip.AddrFrom4([4]byte(a[:4])), port)
		case 1:
			p.Local = netip.AddrPortFrom(netip.AddrFrom16(a), port)
		default:
			a = [16]byte{10: 0xff, 11: 0xff, 12: a[12], 13: a[13], 14: a[14], 15: a[15]}
			p.Local = netip.AddrPortFrom(netip.AddrFrom16(a), port)
		}
	}

	// credentials and method list
	if p.Proto != "ssnone" {
		if p.Peer == "repo" {
			// the repository's clients offer exactly one mode: with or without credentials
			if p.SrvAuth {
				p.CliAuth = rapid.IntRange(0, 5).Draw(rt, "cliauth") > 0
			} else {
				p.CliAuth = rapid.IntRange(0, 3).Draw(rt, "cliauth") == 0
			}
			c, class := genPresented(rt, p.Users, http)
			if c.None {
				p.CliAuth = false
			}
			if p.CliAuth {
				p.Pres, p.CredClass = []cred{c}, []string{class}
			} else {
				p.Pres, p.CredClass = []cred{{None: true}}, []string{"none"}
			}
		} else if http && p.SrvAuth && rapid.IntRange(0, 3).Draw(rt, "storm-mode") == 0 {
			genStorm(rt, &p)
		} else {
			attempts := 1
			if http {
				attempts = rapid.IntRange(1, 3).Draw(rt, "attempts")
			}
			for i := 0; i < attempts; i++ {
				c, class := genPresented(rt, p.Users, http)
				if !http && c.None {
					c, class = cred{U: genName(rt, "puser"), P: genName(rt, "ppass")}, "fresh"
				}
				p.Pres, p.CredClass = append(p.Pres, c), append(p.CredClass, class)
			}
		}
	}
	if p.Proto == "socks5" && p.Peer == "raw" {
		want, other := byte(0), byte(2)
		if p.SrvAuth {
			want, other = 2, 0
		}
		var n int
		if rapid.Bool().Draw(rt, "nmethods-mode") {
			n = rapid.SampledFrom([]int{1, 2, 3, 254, 255}).Draw(rt, "nmethods")
		} else {
			n = rapid.IntRange(1, 255).Draw(rt, "nmethods")
		}
		// filler: never the wanted method; often the other standard method
		fillers := []byte{other, 1, 3, 0x80, 0xfe, other}
		seed := rapid.Uint64().Draw(rt, "methods-seed")
		pr := prng(seed)
		p.Methods = make([]byte, n)
		for i := range p.Methods {
			p.Methods[i] = fillers[pr.next()%uint64(len(fillers))]
		}
		switch k := rapid.IntRange(0, 9).Draw(rt, "wantpos-mode"); {
		case k == 0:
			p.WantPos = -1
		case k == 1:
			p.WantPos = 0
		case k == 2:
			p.WantPos = n - 1
		default:
			p.WantPos = rapid.IntRange(0, n-1).Draw(rt, "wantpos")
		}
		if p.WantPos >= 0 {
			p.Methods[p.WantPos] = want
			// round 6: the server's method offered more than once (some positions, or every position)
			if n >= 2 && rapid.IntRange(0, 3).Draw(rt, "method-dup") == 0 {
				k := rapid.SampledFrom([]int{1, 1, 2, 3, n - 1}).Draw(rt, "method-dups")
				for i := 0; i < k && i < n; i++ {
					pos := int(pr.next() % uint64(n))
					if k == n-1 {
						pos = i + 1
					}
					if p.Methods[pos] != want {
						p.Methods[pos] = want
						p.MethodDup++
					}
				}
				for i, m := range p.Methods {
					if m == want {
						p.WantPos = i
						break
					}
				}
			}
		}
		// round 6: a client that knows its server does not wait for the method selection (and the RFC 1929
		// status) before it sends the next message: the segmentation of the handshake bytes is not the
		// client's to choose (TCP), so whatever follows the greeting has to be parsed as the next message
		if rapid.IntRange(0, 2).Draw(rt, "pipeline-mode") == 0 {
			p.Pipeline = rapid.IntRange(1, 2).Draw(rt, "pipeline")
		}
		p.Pushy = rapid.IntRange(0, 2).Draw(rt, "pushy") == 0
		if p.Pushy && p.SrvAuth && p.Pipeline == 0 && rapid.Bool().Draw(rt, "s5-retry") {
			n := rapid.SampledFrom([]int{1, 2, 9, 12}).Draw(rt, "s5-retries")
			seed := rapid.Uint64().Draw(rt, "s5-retry-seed")
			for i := 0; i < n; i++ {
				p.Retries = append(p.Retries, cred{U: blob(1+i%7, seed+uint64(i), alphaHost[:36]), P: blob(1+i%5, seed^uint64(i), alphaHost[:36])})
			}
			if len(p.Users) > 0 { // the last retry is a correct one: still too late
				p.Retries[n-1] = p.Users[int(seed%uint64(len(p.Users)))]
			}
		}
		if rapid.IntRange(0, 2).Draw(rt, "early-mode") == 0 {
			p.EarlyData = rapid.IntRange(1, 2).Draw(rt, "early")
		}
	}
	if http && p.Peer == "raw" {
		p.Variant = httpVariant{
			Scheme:  rapid.SampledFrom([]string{"Basic", "basic", "BASIC", "bAsIc"}).Draw(rt, "scheme"),
			Field:   rapid.SampledFrom([]string{"Proxy-Authorization", "proxy-authorization", "PROXY-AUTHORIZATION"}).Draw(rt, "field"),
			PadLast: rapid.Bool().Draw(rt, "padlast"),
		}
		if rapid.IntRange(0, 3).Draw(rt, "padmode") == 0 {
			p.Variant.Pad = rapid.SampledFrom([]int{1, 3000, 4000, 4096, 5000, 9000}).Draw(rt, "pad")
		}
		if rapid.IntRange(0, 11).Draw(rt, "badtarget-mode") == 0 {
			p.BadTarget = rapid.SampledFrom(badTargets).Draw(rt, "badtarget")
		} else if rapid.IntRange(0, 4).Draw(rt, "hostform-mode") == 0 {
			// round 6: a non-CONNECT request; its target is taken from Host (origin-form) or from the
			// absolute URI, with or without a port. Only the extraction is this property's business
			// (C16 owns the forwarding), so the relay always aborts such a request.
			p.HostForm = rapid.SampledFrom([]string{"origin", "absolute"}).Draw(rt, "hostform")
			p.HostVerb = rapid.SampledFrom([]string{"GET", "HEAD", "OPTIONS", "DELETE"}).Draw(rt, "hostverb")
			if rapid.Bool().Draw(rt, "host-noport") {
				p.Target.NoPort, p.Target.Port = true, 80
			}
			if p.HostForm == "absolute" && p.Target.Kind == "domain" {
				// the URI grammar is narrower than the Host field's: letters, digits, '-', '.', '_' only
				p.Target.Domain = blob(len(p.Target.Domain), uint64(len(p.Target.Domain))*977+uint64(p.Target.Port), alphaHTTP)
				if _, err := netip.ParseAddr(p.Target.Domain); err == nil {
					p.Target.Domain = "x" + p.Target.Domain[1:]
				}
			}
		}
	}
	// round 6: the same HTTP proxy behind TLS
	if http && rapid.IntRange(0, 2).Draw(rt, "tls-mode") == 0 {
		genTLS(rt, &p)
	}

	// outcome of the onward connection
	if rapid.IntRange(0, 2).Draw(rt, "outcome") == 0 {
		p.Abort = true
		if rapid.IntRange(0, 4).Draw(rt, "codekind") > 0 {
			p.Code = rapid.SampledFrom(namedFailureCodes).Draw(rt, "code")
		} else {
			p.Code = rapid.Uint8Range(1, 255).Draw(rt, "code")
		}
	}

	if p.HostForm != "" && !p.Abort {
		p.Abort, p.Code = true, rapid.SampledFrom(namedFailureCodes).Draw(rt, "code")
	}

	// transport and traffic
	p.SrvPlan, p.SrvCoalesce = genFrag(rt, "srv")
	p.CliPlan, p.CliCoalesce = genFrag(rt, "cli")
	if rapid.IntRange(0, 2).Draw(rt, "payloadmode") > 0 {
		if rapid.Bool().Draw(rt, "init-mode") {
			p.InitPayload = rapid.SampledFrom(chunkSizes[1:]).Draw(rt, "init")
		} else {
			p.InitPayload = rapid.IntRange(1, 3000).Draw(rt, "init")
		}
	}
	p.C2S = genChunks(rt, "c2s", 4)
	p.S2C = genChunks(rt, "s2c", 4)
	p.Seed = rapid.Uint64().Draw(rt, "traffic-seed")
	p.CliBuf = rapid.SampledFrom([]int{4096, 1, 2, 17, 512, 65536}).Draw(rt, "clibuf")
	p.SrvBuf = rapid.SampledFrom([]int{4096, 1, 2, 17, 512, 65536}).Draw(rt, "srvbuf")
	p.CliWriteTo = rapid.Bool().Draw(rt, "cliwriteto")
	if p.EarlyData > 0 && p.InitPayload == 0 {
		p.InitPayload = rapid.SampledFrom([]int{1, 2, 17, 240, 255, 256, 300, 4096}).Draw(rt, "early-len")
	}
	// dial context cancellation (repository clients take the context in DialStream)
	if p.Peer == "repo" && p.Cmd == 1 && p.Proto != "ssnone" && rapid.IntRange(0, 4).Draw(rt, "cancel-mode") == 0 {
		p.Cancel = rapid.SampledFrom([]string{"after", "w0", "w1", "w2", "before"}).Draw(rt, "cancel")
		if rapid.Bool().Draw(rt, "cancel-noinit") {
			p.InitPayload = 0
		}
		if sum(p.C2S) == 0 {
			p.C2S = append(p.C2S, rapid.IntRange(1, 500).Draw(rt, "cancel-c2s"))
		}
	}
	// server speaks first and its first bytes travel in the same segment as the success reply
	s2cTotal := 0
	for _, n := range p.S2C {
		s2cTotal += n
	}
	if s2cTotal > 0 && p.grantExpected() && !p.Abort && p.Proto != "ssnone" && !p.TLS {
		// (under TLS the success reply is a record of its own among handshake records: the write-index
		// based glue device does not apply, and the client's TLS layer hands out one record per read)
		p.Glue = rapid.Bool().Draw(rt, "glue")
	}
	return p
}

// UTF-8 common names (X.509 cannot carry arbitrary octets in a UTF8String).
var sampleCNs = []string{"carol", "", "C", "ålice-ü", "用户", "name with spaces", "colon:in:name", "a@b.example", "CN=x,O=y", "*", "64-" + "cccccccccccccccccccccccccccccccccccccccccccccccccccccccccccccc", "long-" + "nnnnnnnnnnnnnnnnnnnnnnnnnnnnnnnnnnnnnnnnnnnnnnnnnnnnnnnnnnnnnnnnnnnnnnnnnnnnnnnnnnnnnnnnnnnnnnnnnnnnnnnnnnnnnnnnnnnnnnnnnnnn"}

// genTLS draws the TLS class of an HTTP plan: {no client certificate wanted, RequireAndVerifyClientCert}
// x client certificate {none, valid, untrusted}. Basic authentication (off / on with 0..4 users) and
// everything else has been drawn already and combines freely.
func genTLS(rt *rapid.T, p *plan) {
	p.TLS = true
	p.TLSName = rapid.SampledFrom(tlsServerNames).Draw(rt, "tls-name")
	p.TLSFunc = rapid.Bool().Draw(rt, "tls-func")
	p.TLSReq = rapid.IntRange(0, 2).Draw(rt, "tls-req") > 0
	switch k := rapid.IntRange(0, 5).Draw(rt, "tls-cert"); {
	case !p.TLSReq && k < 4:
		p.TLSCert = ""
	case k < 4:
		p.TLSCert = "valid"
	case k == 4:
		p.TLSCert = "untrusted"
		if !p.TLSReq {
			p.TLSCert = "valid" // configured, but the server never asks for it
		}
	default:
		p.TLSCert = ""
	}
	if p.TLSCert != "" {
		switch k := rapid.IntRange(0, 3).Draw(rt, "tls-cn"); {
		case k == 0 && len(p.Users) > 0 && utf8.ValidString(p.Users[0].U):
			p.TLSCN = p.Users[0].U // the certificate names one user, the Basic credentials maybe another
		case k == 1:
			p.TLSCN = blob(rapid.SampledFrom([]int{1, 2, 8, 64, 65, 200}).Draw(rt, "tls-cn-len"), rapid.Uint64().Draw(rt, "tls-cn-seed"), alphaPrint)
		default:
			p.TLSCN = rapid.SampledFrom(sampleCNs).Draw(rt, "tls-cn-sample")
		}
	}
	if p.Peer == "raw" {
		p.TLS12 = rapid.IntRange(0, 3).Draw(rt, "tls12") == 0
	}
}

// tlsRefuses tells whether the TLS layer of the server has to turn the client away.
func (p plan) tlsRefuses() bool { return p.TLS && p.TLSReq && p.TLSCert != "valid" }

// grantExpected tells whether the plan describes a CONNECT request that has to be granted. It only
// decides whether the transport may hold back the success reply to merge it with the server's first
// data (holding back a refusal would starve the client); the oracle does not use it.
func (p plan) grantExpected() bool {
	switch p.Proto {
	case "socks5":
		if p.Cmd != 1 || !p.EnableTCP {
			return false
		}
		if p.Peer == "repo" {
			return p.CliAuth == p.SrvAuth && (!p.SrvAuth || inTable(p.Users, p.Pres[0]))
		}
		return p.WantPos >= 0 && (!p.SrvAuth || inTable(p.Users, p.Pres[0]))
	case "http":
		if p.BadTarget != "" || p.tlsRefuses() {
			return false
		}
		for _, c := range p.Pres {
			if !p.SrvAuth || inTable(p.Users, c) {
				return true
			}
		}
		return false
	}
	return true
}
