package c07

// Bounded-exhaustive companions of TestHandshake: finite sub-domains the property names explicitly
// (every dial result code, every method-list length and position, every domain length, credential
// length pairs) are enumerated completely instead of sampled. They reuse run/check, i.e. the same
// real servers, the same harness clients and the same oracle.

import (
	"fmt"
	"net/netip"
	"os"
	"strconv"
	"strings"
	"testing"
	"testing/synctest"

	"verif/internal/ev"
)

func envInt(name string, def int) int {
	if v, err := strconv.Atoi(os.Getenv(name)); err == nil {
		return v
	}
	return def
}

func shardOf() (shard, shards int) {
	shard, shards = envInt("VERIF_SHARD", 0), envInt("VERIF_SHARDS", 1)
	if shards < 1 || shard < 0 || shard >= shards {
		return 0, 1
	}
	return
}

// runPlan executes one handcrafted plan against fresh real servers and returns the observation
// and the violation text ("" if the property held).
func runPlan(t *testing.T, p plan) (*obs, string) {
	srv, err := newServer(p)
	if err != nil {
		return &obs{}, fmt.Sprintf("SIG=C07/%s/config-rejected %v\n  plan: %s", p.Proto, err, p.describe())
	}
	var (
		o *obs
		v string
	)
	if _, err := p.Target.connAddrErr(); err != nil {
		return &obs{}, viol(p, "addr-rejected", "conn.AddrFromDomainPort refused a %d-byte domain: %v", len(p.Target.Domain), err)
	}
	synctest.Test(t, func(*testing.T) {
		o = run(p, srv)
		v = check(p, o)
	})
	return o, v
}

func failOrKnown(t *testing.T, rec *ev.Recorder, v string) bool {
	if v == "" {
		return false
	}
	sig := strings.TrimPrefix(strings.SplitN(v, " ", 2)[0], "SIG=")
	if ev.IsKnown("C07", sig) {
		rec.KnownHit(sig)
		return true
	}
	t.Fatalf("%s", v)
	return true
}

func basePlan(proto, peer string) plan {
	return plan{
		Proto: proto, Peer: peer, EnableTCP: true, EnableUDP: true, Cmd: 1,
		Local:   netip.MustParseAddrPort("192.0.2.7:1080"),
		Target:  target{Kind: "domain", Domain: "example.com", Port: 443},
		Pres:    []cred{{None: true}},
		Methods: []byte{0}, WantPos: 0,
		Variant:   httpVariant{Scheme: "Basic", Field: "Proxy-Authorization"},
		CredClass: []string{"none"},
		CliBuf:    4096, SrvBuf: 4096, Seed: 1,
	}
}

var recReply = ev.New("C07", "reply-table",
	"bounded-exhaustive: every conn.DialResultCode value 1..255 (12 named + 243 unnamed) x {socks5 without auth, socks5 with auth, http without auth, http with auth} x "+
		"{repo client, harness client}: CONNECT is accepted, the relay aborts with the code, the reply on the wire is decoded by the harness and compared with the RFC 1928 / "+
		"HTTP table. Non-trivial: named code or auth enabled; distinct = configuration + code").
	Require("named-code", "unnamed-code")

func TestReplyTable(t *testing.T) {
	shard, shards := shardOf()
	idx := 0
	for _, proto := range []string{"socks5", "http"} {
		for _, auth := range []bool{false, true} {
			for _, peer := range []string{"repo", "raw"} {
				for code := 1; code <= 255; code++ {
					idx++
					if idx%shards != shard {
						continue
					}
					p := basePlan(proto, peer)
					p.Abort, p.Code = true, uint8(code)
					if auth {
						p.SrvAuth, p.CliAuth = true, true
						p.Users = []cred{{U: "alice", P: "wonderland"}}
						p.Pres, p.CredClass = []cred{p.Users[0]}, []string{"exact"}
						p.Methods = []byte{2}
					}
					if code%2 == 0 {
						p.SrvPlan = []int{1}
						p.CliPlan = []int{1}
					}
					o, v := runPlan(t, p)
					if failOrKnown(t, recReply, v) {
						continue
					}
					lab := "unnamed-code"
					if isNamedCode(uint8(code)) {
						lab = "named-code"
					}
					if !o.srvHonoured {
						t.Fatalf("harness: plan not honoured: %s", p.describe())
					}
					recReply.Case(fmt.Sprintf("%s|%s|%v|%d", proto, peer, auth, code), auth || lab == "named-code", lab, "proto:"+proto)
				}
			}
		}
	}
	recReply.Exhaustive(true)
	recReply.Sample(map[string]any{"codes": "1..255", "configs": "socks5/http x auth on/off x repo/raw client", "shard": shard, "shards": shards})
}

var recMethods = ev.New("C07", "method-positions",
	"bounded-exhaustive: SOCKS5 method lists of every length n=1..255 with the server's method at every position 0..n-1 or absent, fillers = the other standard methods "+
		"(incl. X'00' against an auth server), x server auth on/off, harness client; every greeting is followed by a complete CONNECT request (domain / IPv4 / IPv6 target by n), Proceed and a "+
		"short exchange both ways; by (n+pos) mod 3 the client waits for each answer, sends greeting+[auth]+request(+early data) in one write, or in writes of their own without waiting; "+
		"every fourth list repeats the server's method at further positions; odd n use a 1-byte dribble. "+
		"Non-trivial: n >= 2; distinct = (auth, n, position)").
	Require("absent", "first", "last", "middle", "n=255", "dup", "pipelined:one-write", "pipelined:own-writes", "waited", "stream-after-greeting", "early-after-greeting", "refused-then-nothing")

func TestMethodPositions(t *testing.T) {
	shard, shards := shardOf()
	full := os.Getenv("VERIF_C07_ENUM") == "full"
	idx := 0
	for _, auth := range []bool{false, true} {
		want, other := byte(0), byte(2)
		if auth {
			want, other = 2, 0
		}
		fillers := []byte{other, 1, 3, 0x80, 0xfe}
		for n := 1; n <= 255; n++ {
			for pos := -1; pos < n; pos++ {
				if !full && n > 6 && n < 250 && n != 127 && n != 128 && pos > 1 && pos < n-2 {
					continue // quick: all n, positions {absent, 0, 1, n-2, n-1}; all positions for n<=6, 127, 128, >=250
				}
				idx++
				if idx%shards != shard {
					continue
				}
				p := basePlan("socks5", "raw")
				p.Methods = make([]byte, n)
				for i := range p.Methods {
					p.Methods[i] = fillers[(i*7+n)%len(fillers)]
				}
				p.WantPos = pos
				p.Pushy = n%4 < 2
				if pos >= 0 {
					p.Methods[pos] = want
				}
				if auth {
					p.SrvAuth = true
					p.Users = []cred{{U: "u", P: "p"}}
					p.Pres, p.CredClass = []cred{p.Users[0]}, []string{"exact"}
				}
				if n%2 == 1 {
					p.SrvPlan = []int{1}
				} else if n%6 == 0 {
					p.SrvPlan, p.SrvCoalesce = []int{2, 3, 300}, true
				}
				// round 6: whatever the greeting looks like, the bytes behind it are the next message -
				// a complete request, then application bytes both ways
				switch n % 3 {
				case 1:
					p.Target = target{Kind: "v4", IP: netip.AddrFrom4([4]byte{byte(n), 2, byte(pos + 1), 4}), Port: uint16(n*257 + pos + 1)}
				case 2:
					p.Target = target{Kind: "v6", IP: netip.AddrFrom16([16]byte{0: 0xfd, 1: byte(n), 7: byte(pos + 1), 15: 1}), Port: uint16(n)}
				}
				p.Pipeline = (n + pos + 1) % 3
				p.InitPayload, p.C2S, p.S2C = (n+pos+1)%5, []int{3, 1}, []int{5}
				if p.InitPayload > 0 {
					p.EarlyData = 1 + (n+pos)%2
				}
				dup := false
				if pos >= 0 && n >= 3 && (n+pos)%4 == 0 {
					dup = true
					for _, q := range []int{pos + 1, pos + (n-pos)/2, n - 1} {
						if q > pos && q < n && p.Methods[q] != want {
							p.Methods[q] = want
							p.MethodDup++
						}
					}
				}
				o, v := runPlan(t, p)
				if failOrKnown(t, recMethods, v) {
					continue
				}
				if o.srvHonoured != (pos >= 0) {
					t.Fatalf("harness: honoured=%v for position %d: %s", o.srvHonoured, pos, p.describe())
				}
				var labels []string
				switch {
				case pos < 0:
					labels = append(labels, "absent")
					if len(o.srvRecv)+len(o.srvPayload)+len(o.cliRecv) == 0 && o.raw5.Rep == -1 {
						labels = append(labels, "refused-then-nothing")
					}
				case pos == 0:
					labels = append(labels, "first")
				case pos < n-1:
					labels = append(labels, "middle")
				}
				if pos == n-1 {
					labels = append(labels, "last")
				}
				if n == 255 {
					labels = append(labels, "n=255")
				}
				if dup && p.MethodDup > 0 {
					labels = append(labels, "dup")
				}
				switch {
				case o.raw5.Pipelined > 0 && p.Pipeline == 1:
					labels = append(labels, "pipelined:one-write")
				case o.raw5.Pipelined > 0:
					labels = append(labels, "pipelined:own-writes")
				default:
					labels = append(labels, "waited")
				}
				if pos >= 0 && len(o.srvPayload)+len(o.srvRecv) == p.InitPayload+4 && len(o.cliRecv) == 5 {
					labels = append(labels, "stream-after-greeting")
					if o.raw5.EarlySent {
						labels = append(labels, "early-after-greeting")
					}
				}
				recMethods.Case(fmt.Sprintf("%v|%d|%d", auth, n, pos), n >= 2, labels...)
			}
		}
	}
	recMethods.Exhaustive(full)
	recMethods.Extra("full", full)
}

var recAddr = ev.New("C07", "domain-lengths",
	"bounded-exhaustive: every domain length 1..255 x ports {0,1,255,256,65535} x {socks5, http, ssnone} x {repo client, harness client}, CONNECT then Proceed with a short "+
		"exchange both ways; lengths divisible by 3 use a 1-byte dribble, by 3 with remainder 1 a 2,3,5 cycle. Non-trivial: length >= 64 or fragmented; distinct = protocol, peer, length, port").
	Require("len=1", "len=255", "port=0")

func TestDomainLengths(t *testing.T) {
	shard, shards := shardOf()
	idx := 0
	for _, proto := range []string{"socks5", "http", "ssnone"} {
		for _, peer := range []string{"repo", "raw"} {
			for n := 1; n <= 255; n++ {
				for _, port := range []uint16{0, 1, 255, 256, 65535} {
					idx++
					if idx%shards != shard {
						continue
					}
					p := basePlan(proto, peer)
					p.Target = target{Kind: "domain", Domain: blob(n, uint64(n)*131+uint64(port), alphaHTTP), Port: port}
					if _, err := netip.ParseAddr(p.Target.Domain); err == nil {
						p.Target.Domain = "x" + p.Target.Domain[1:]
					}
					switch n % 3 {
					case 0:
						p.SrvPlan, p.CliPlan = []int{1}, []int{1}
					case 1:
						p.SrvPlan, p.CliPlan = []int{2, 3, 5}, []int{3, 2}
					}
					p.InitPayload, p.C2S, p.S2C = n%5, []int{3}, []int{5}
					if proto == "socks5" && peer == "raw" && p.InitPayload > 0 {
						p.EarlyData = 1 + n%2
					}
					o, v := runPlan(t, p)
					if failOrKnown(t, recAddr, v) {
						continue
					}
					if !o.srvHonoured {
						t.Fatalf("harness: plan not honoured: %s", p.describe())
					}
					var labels []string
					if n == 1 {
						labels = append(labels, "len=1")
					}
					if n == 255 {
						labels = append(labels, "len=255")
					}
					if port == 0 {
						labels = append(labels, "port=0")
					}
					recAddr.Case(fmt.Sprintf("%s|%s|%d|%d", proto, peer, n, port), n >= 64 || n%3 != 2, labels...)
				}
			}
		}
	}
	recAddr.Exhaustive(true)
}

var recCred = ev.New("C07", "credential-lengths",
	"bounded-exhaustive: (ULEN, PLEN) over a boundary set squared (quick) or all 255 x 255 pairs (VERIF_C07_ENUM=full, socks5 only) x presented variant {exact, last password byte wrong, "+
		"last name byte wrong, password one byte short, name one byte short, password = name bytes} x {socks5, http} with the harness client, one configured user whose name and password "+
		"are all-byte-value strings; a second user whose name is the first user's password. Non-trivial: always (auth enabled); distinct = protocol, ULEN, PLEN, variant").
	Require("accepted", "refused", "ulen=255", "plen=255", "plen>ulen", "plen<ulen")

func TestCredentialLengths(t *testing.T) {
	shard, shards := shardOf()
	full := os.Getenv("VERIF_C07_ENUM") == "full"
	lens := []int{1, 2, 3, 4, 127, 128, 253, 254, 255}
	if full {
		lens = lens[:0]
		for i := 1; i <= 255; i++ {
			lens = append(lens, i)
		}
	}
	idx := 0
	for _, proto := range []string{"socks5", "http"} {
		if full && proto == "http" {
			continue
		}
		for _, ul := range lens {
			for _, pl := range lens {
				for variant := 0; variant < 6; variant++ {
					if full && variant > 1 {
						continue
					}
					idx++
					if idx%shards != shard {
						continue
					}
					u := cred{U: blob(ul, uint64(ul)<<8|uint64(pl), ""), P: blob(pl, uint64(pl)<<8|uint64(ul)|1<<20, "")}
					if proto == "http" {
						u.U = noColon(u.U)
					}
					c := u
					switch variant {
					case 1:
						b := []byte(c.P)
						b[len(b)-1] ^= 1
						c.P = string(b)
					case 2:
						b := []byte(c.U)
						b[len(b)-1] ^= 2
						c.U = string(b)
						if proto == "http" {
							c.U = noColon(c.U)
						}
					case 3:
						if len(c.P) == 1 {
							continue
						}
						c.P = c.P[:len(c.P)-1]
					case 4:
						if len(c.U) == 1 {
							continue
						}
						c.U = c.U[:len(c.U)-1]
					case 5:
						c.P = c.U
					}
					p := basePlan(proto, "raw")
					p.SrvAuth = true
					p.Users = []cred{u}
					if second := (cred{U: u.P, P: u.U}); second.U != u.U {
						if proto == "http" {
							second.U = noColon(second.U)
						}
						if second.U != u.U {
							p.Users = append(p.Users, second)
						}
					}
					p.Pres, p.CredClass = []cred{c}, []string{fmt.Sprintf("variant%d", variant)}
					p.Methods = []byte{0, 2}
					p.WantPos = 1
					p.Pushy = (ul+pl)%3 != 0
					if (ul+pl)%2 == 0 {
						p.SrvPlan = []int{1}
					}
					p.C2S, p.S2C = []int{2}, []int{2}
					o, v := runPlan(t, p)
					if failOrKnown(t, recCred, v) {
						continue
					}
					var labels []string
					if o.srvHonoured {
						labels = append(labels, "accepted")
					} else {
						labels = append(labels, "refused")
					}
					if ul == 255 {
						labels = append(labels, "ulen=255")
					}
					if pl == 255 {
						labels = append(labels, "plen=255")
					}
					if pl > ul {
						labels = append(labels, "plen>ulen")
					}
					if pl < ul {
						labels = append(labels, "plen<ulen")
					}
					recCred.Case(fmt.Sprintf("%s|%d|%d|%d", proto, ul, pl, variant), true, labels...)
				}
			}
		}
	}
	recCred.Exhaustive(true)
	recCred.Extra("full", full)
}
