package c07

// Throw-away X.509 material for the TLS classes of the HTTP proxy (round 6). verif/internal/tlsx makes
// certificates that are valid "from yesterday"; the cases of this check run inside testing/synctest
// bubbles whose clock starts at 2000-01-01, and neither httpproxy.ServerConfig nor ClientConfig lets
// the caller set tls.Config.Time, so the material here is valid from 1990 to 2090 instead. It also
// has what tlsx has no use for: an intermediate CA (the client sends leaf + intermediate, so that
// "which certificate of the chain names the user" is observable), a second, untrusted hierarchy, and
// leaves with arbitrary common names.
//
// Key generation and signing read crypto/rand: certificates are set-up material, never part of a
// generated case's decisions, so this does not affect replayability of a plan.

import (
	"crypto/ecdsa"
	"crypto/elliptic"
	"crypto/rand"
	"crypto/tls"
	"crypto/x509"
	"crypto/x509/pkix"
	"fmt"
	"math/big"
	"net"
	"sync"
	"time"
)

type authority struct {
	cert *x509.Certificate
	key  *ecdsa.PrivateKey
	der  []byte
}

func (a *authority) pool() *x509.CertPool {
	p := x509.NewCertPool()
	p.AddCert(a.cert)
	return p
}

var (
	pkiNotBefore = time.Date(1990, 1, 1, 0, 0, 0, 0, time.UTC)
	pkiNotAfter  = time.Date(2090, 1, 1, 0, 0, 0, 0, time.UTC)
	pkiSerial    int64
)

func newAuthority(cn string, parent *authority) *authority {
	key, err := ecdsa.GenerateKey(elliptic.P256(), rand.Reader)
	if err != nil {
		panic(err)
	}
	pkiSerial++
	tmpl := &x509.Certificate{
		SerialNumber:          big.NewInt(pkiSerial),
		Subject:               pkix.Name{CommonName: cn},
		NotBefore:             pkiNotBefore,
		NotAfter:              pkiNotAfter,
		KeyUsage:              x509.KeyUsageCertSign | x509.KeyUsageDigitalSignature,
		BasicConstraintsValid: true,
		IsCA:                  true,
	}
	signer, signerKey := tmpl, key
	if parent != nil {
		signer, signerKey = parent.cert, parent.key
	}
	der, err := x509.CreateCertificate(rand.Reader, tmpl, signer, &key.PublicKey, signerKey)
	if err != nil {
		panic(err)
	}
	cert, err := x509.ParseCertificate(der)
	if err != nil {
		panic(err)
	}
	return &authority{cert: cert, key: key, der: der}
}

// issue signs a leaf for server and client authentication; chain is appended to the leaf in the
// tls.Certificate (what the peer will be sent).
func (a *authority) issue(key *ecdsa.PrivateKey, cn string, hosts []string, chain ...*authority) (tls.Certificate, error) {
	pkiSerial++
	tmpl := &x509.Certificate{
		SerialNumber: big.NewInt(pkiSerial),
		Subject:      pkix.Name{CommonName: cn},
		NotBefore:    pkiNotBefore,
		NotAfter:     pkiNotAfter,
		KeyUsage:     x509.KeyUsageDigitalSignature,
		ExtKeyUsage:  []x509.ExtKeyUsage{x509.ExtKeyUsageServerAuth, x509.ExtKeyUsageClientAuth},
	}
	for _, h := range hosts {
		if ip := net.ParseIP(h); ip != nil {
			tmpl.IPAddresses = append(tmpl.IPAddresses, ip)
		} else {
			tmpl.DNSNames = append(tmpl.DNSNames, h)
		}
	}
	der, err := x509.CreateCertificate(rand.Reader, tmpl, a.cert, &key.PublicKey, a.key)
	if err != nil {
		return tls.Certificate{}, err
	}
	leaf, err := x509.ParseCertificate(der)
	if err != nil {
		return tls.Certificate{}, err
	}
	c := tls.Certificate{Certificate: [][]byte{der}, PrivateKey: key, Leaf: leaf}
	for _, ca := range chain {
		c.Certificate = append(c.Certificate, ca.der)
	}
	return c, nil
}

// Names the proxy server's certificate is valid for; the client verifies one of them (ServerName).
var tlsServerNames = []string{"proxy.c07.test", "192.0.2.7", "2001:db8::7"}

type pkiT struct {
	serverRoot *authority // signs the proxy's certificate; clients trust it (RootCAs)
	serverCert tls.Certificate
	serverPool *x509.CertPool // = {serverRoot}
	clientPool *x509.CertPool // = {clientRoot}

	clientRoot  *authority // the server's ClientCAs
	clientInter *authority // signed by clientRoot; sent by clients behind their leaf
	rogueRoot   *authority // a hierarchy the server does not trust
	rogueInter  *authority
	leafKey     *ecdsa.PrivateKey // one key for every issued client leaf (only the names differ)

	mu     sync.Mutex
	leaves map[string]tls.Certificate
}

var (
	pkiOnce sync.Once
	pkiVal  *pkiT
)

// thePKI builds the material once per process. Call it outside synctest bubbles first.
func thePKI() *pkiT {
	pkiOnce.Do(func() {
		k := &pkiT{leaves: map[string]tls.Certificate{}}
		k.serverRoot = newAuthority("c07 server root", nil)
		k.clientRoot = newAuthority("c07 client root", nil)
		k.clientInter = newAuthority("c07 client intermediate", k.clientRoot)
		// the untrusted hierarchy carries the same names: only the keys tell them apart
		k.rogueRoot = newAuthority("c07 client root", nil)
		k.rogueInter = newAuthority("c07 client intermediate", k.rogueRoot)
		var err error
		if k.leafKey, err = ecdsa.GenerateKey(elliptic.P256(), rand.Reader); err != nil {
			panic(err)
		}
		srvKey, err := ecdsa.GenerateKey(elliptic.P256(), rand.Reader)
		if err != nil {
			panic(err)
		}
		if k.serverCert, err = k.serverRoot.issue(srvKey, "c07 proxy", tlsServerNames); err != nil {
			panic(err)
		}
		k.serverPool, k.clientPool = k.serverRoot.pool(), k.clientRoot.pool()
		pkiVal = k
	})
	return pkiVal
}

// clientCert returns a client certificate chain [leaf(cn), intermediate] under the trusted or the
// untrusted hierarchy. Results are cached (a certificate is a function of its name here).
func (k *pkiT) clientCert(cn string, trusted bool) (tls.Certificate, error) {
	key := fmt.Sprintf("%v|%s", trusted, cn)
	k.mu.Lock()
	defer k.mu.Unlock()
	if c, ok := k.leaves[key]; ok {
		return c, nil
	}
	inter := k.clientInter
	if !trusted {
		inter = k.rogueInter
	}
	c, err := inter.issue(k.leafKey, cn, nil, inter)
	if err != nil {
		return tls.Certificate{}, err
	}
	if len(k.leaves) > 4096 {
		clear(k.leaves)
	}
	k.leaves[key] = c
	return c, nil
}
