package c07

// Harness-owned peers and wire codecs. Everything in this file is written from RFC 1928, RFC 1929,
// RFC 9110 §9.3.6 / RFC 9112 and RFC 7617 and shares no code with /repo's socks5 / httpproxy
// packages. It is the "second, independent peer" of the check and the reference decoder of what
// the real servers put on the wire.

import (
	"bytes"
	"context"
	"encoding/base64"
	"errors"
	"fmt"
	"io"
	"net"
	"net/netip"
	"strconv"
	"strings"
	"sync"

	"github.com/database64128/shadowsocks-go/conn"
	"github.com/database64128/shadowsocks-go/netio"

	"verif/internal/xnet"
)

// ---------------------------------------------------------------------------------------------
// transport glue

// tcpConn is an owned transport end whose LocalAddr is a *net.TCPAddr (documented requirement of
// socks5.ServerAccept when UDP is enabled).
type tcpConn struct {
	*xnet.Conn
	local *net.TCPAddr
}

func (c tcpConn) LocalAddr() net.Addr { return c.local }

// innerClient is the netio.StreamClient handed to the real protocol clients: "dialing" returns the
// prepared owned transport end and writes the optional payload in one Write, like
// netiotest.PipeStreamClient does.
type innerClient struct{ c netio.Conn }

func (ic innerClient) NewStreamDialer() (netio.StreamDialer, netio.StreamDialerInfo) {
	return ic, netio.StreamDialerInfo{Name: "xnet", NativeInitialPayload: true}
}

func (ic innerClient) DialStream(_ context.Context, _ conn.Addr, payload []byte) (netio.Conn, error) {
	if len(payload) > 0 {
		if _, err := ic.c.Write(payload); err != nil {
			return nil, err
		}
	}
	return ic.c, nil
}

// splitmix64 stream; payload and name content is derived from one drawn 64-bit value.
type prng uint64

func (p *prng) next() uint64 {
	*p += 0x9E3779B97F4A7C15
	z := uint64(*p)
	z = (z ^ (z >> 30)) * 0xBF58476D1CE4E5B9
	z = (z ^ (z >> 27)) * 0x94D049BB133111EB
	return z ^ (z >> 31)
}

func fill(b []byte, seed uint64) {
	p := prng(seed)
	for i := 0; i < len(b); {
		v := p.next()
		for k := 0; k < 8 && i < len(b); k++ {
			b[i] = byte(v)
			v >>= 8
			i++
		}
	}
}

// pump writes chunks (then half-closes) while reading everything the peer sends until EOF.
func pump(c netio.Conn, chunks [][]byte, bufSize int, useWriteTo bool) (recv []byte, rerr, werr error) {
	var wg sync.WaitGroup
	wg.Go(func() {
		for _, ch := range chunks {
			if _, err := c.Write(ch); err != nil {
				werr = err
				break
			}
		}
		_ = c.CloseWrite()
	})
	recv, rerr = readAll(c, bufSize, useWriteTo)
	wg.Wait()
	return
}

func readAll(c netio.Conn, bufSize int, useWriteTo bool) ([]byte, error) {
	var out bytes.Buffer
	if wt, ok := c.(io.WriterTo); ok && useWriteTo {
		_, err := wt.WriteTo(&out)
		return out.Bytes(), err
	}
	buf := make([]byte, bufSize)
	for {
		n, err := c.Read(buf)
		out.Write(buf[:n])
		if err == io.EOF {
			return out.Bytes(), nil
		}
		if err != nil {
			return out.Bytes(), err
		}
		if out.Len() > 1<<24 {
			return out.Bytes(), errors.New("harness: runaway stream")
		}
	}
}

// ---------------------------------------------------------------------------------------------
// target addresses

type target struct {
	Kind   string // "v4", "v6", "mapped" (IPv4-mapped IPv6), "domain"
	IP     netip.Addr
	Domain string
	Port   uint16

	// harness HTTP client only
	Spell  string // how an IPv6 literal is spelled: "" RFC 5952, "expanded", "nozip", "upper", "v4tail"
	NoPort bool   // Host forms only: the port is left out (Port is then the documented default, 80)
}

func (t target) String() string {
	if t.Kind == "domain" {
		return fmt.Sprintf("%s(len %d) %q:%d noport=%v", t.Kind, len(t.Domain), clip(t.Domain, 40), t.Port, t.NoPort)
	}
	return fmt.Sprintf("%s %s:%d spelled %q noport=%v", t.Kind, t.IP, t.Port, t.host(), t.NoPort)
}

// spellIP6 writes an IPv6 address in one of the text forms of RFC 4291 section 2.2, without going
// through the repository's (or netip's) formatter except for the canonical form.
func spellIP6(ip netip.Addr, spell string) string {
	a := ip.As16()
	g := make([]string, 8)
	switch spell {
	case "expanded": // every group with four digits
		for i := range g {
			g[i] = fmt.Sprintf("%02x%02x", a[2*i], a[2*i+1])
		}
		return strings.Join(g, ":")
	case "nozip": // no zero compression, no leading zeros
		for i := range g {
			g[i] = strconv.FormatUint(uint64(a[2*i])<<8|uint64(a[2*i+1]), 16)
		}
		return strings.Join(g, ":")
	case "upper":
		return strings.ToUpper(ip.String())
	case "v4tail": // x:x:x:x:x:x:d.d.d.d
		for i := range g[:6] {
			g[i] = strconv.FormatUint(uint64(a[2*i])<<8|uint64(a[2*i+1]), 16)
		}
		return strings.Join(g[:6], ":") + fmt.Sprintf(":%d.%d.%d.%d", a[12], a[13], a[14], a[15])
	}
	return ip.String()
}

// host is the host part as the harness HTTP client spells it (IPv6 in brackets).
func (t target) host() string {
	switch t.Kind {
	case "domain":
		return t.Domain
	case "v4":
		return t.IP.String()
	}
	return "[" + spellIP6(t.IP, t.Spell) + "]"
}

// connAddr is how the request is handed to the real client functions.
func (t target) connAddr() conn.Addr {
	a, _ := t.connAddrErr()
	return a
}

// connAddrErr builds the conn.Addr through the repository's documented constructors; a domain of
// 1..255 bytes must be accepted.
func (t target) connAddrErr() (conn.Addr, error) {
	if t.Kind == "domain" {
		return conn.AddrFromDomainPort(t.Domain, t.Port)
	}
	return conn.AddrFromIPAndPort(t.IP, t.Port), nil
}

// wire is the RFC 1928 §5 address encoding written by the harness' own clients.
func (t target) wire() []byte {
	var b []byte
	switch t.Kind {
	case "domain":
		b = append(b, 3, byte(len(t.Domain)))
		b = append(b, t.Domain...)
	case "v4":
		a := t.IP.As4()
		b = append(b, 1)
		b = append(b, a[:]...)
	default: // v6 and mapped go out as ATYP 4
		a := t.IP.As16()
		b = append(b, 4)
		b = append(b, a[:]...)
	}
	return append(b, byte(t.Port>>8), byte(t.Port))
}

// authority is the RFC 9110 §9.3.6 authority-form of the target.
func (t target) authority() string {
	return t.host() + ":" + strconv.FormatUint(uint64(t.Port), 10)
}

// hostField is the RFC 9110 section 7.2 Host value / RFC 3986 authority of a non-CONNECT request:
// uri-host [ ":" port ].
func (t target) hostField() string {
	if t.NoPort {
		return t.host()
	}
	return t.authority()
}

// matches is the oracle for the address the server extracted. The wire cannot carry the
// IPv4-mapped form distinctly in every protocol (documented in socks5/addr.go), so IPs are
// compared after Unmap.
func (t target) matches(a conn.Addr) bool {
	if !a.IsValid() || a.Port() != t.Port {
		return false
	}
	if t.Kind == "domain" {
		return a.IsDomain() && a.Domain() == t.Domain
	}
	return a.IsIP() && a.IP().Unmap() == t.IP.Unmap() && a.IP().Zone() == ""
}

func clip(s string, n int) string {
	if len(s) <= n {
		return s
	}
	return s[:n] + "..."
}

// ---------------------------------------------------------------------------------------------
// credentials

type cred struct {
	U, P string
	None bool // no credentials presented at all (HTTP: no Proxy-Authorization field)

	// Bad: HTTP only, the field carries Token verbatim after the scheme instead of the RFC 7617
	// encoding of U:P; Token is never the valid token of a configured user.
	Bad   bool
	Token string
}

func (c cred) String() string {
	if c.None {
		return "<none>"
	}
	if c.Bad {
		return fmt.Sprintf("<malformed %q>", clip(c.Token, 24))
	}
	return fmt.Sprintf("(u[%d]=%q p[%d]=%q)", len(c.U), clip(c.U, 24), len(c.P), clip(c.P, 24))
}

func inTable(users []cred, c cred) bool {
	if c.None || c.Bad {
		return false
	}
	for _, u := range users {
		if u.U == c.U && u.P == c.P {
			return true
		}
	}
	return false
}

// ---------------------------------------------------------------------------------------------
// SOCKS5 (RFC 1928 / RFC 1929), client side written by the harness

type s5Reply struct {
	Sel     int // METHOD chosen by the server, -1 if never received
	Auth    int // RFC 1929 STATUS, -1 if the sub-negotiation did not happen / no answer
	Rep     int // REP of the reply, -1 if none
	BndAtyp int
	BndHost []byte // 4 or 16 address bytes, or the domain bytes
	BndPort uint16
	Stage   string // where the conversation ended
	Err     error
	Pushed  bool // the request was sent although the negotiation had failed

	EarlySent bool // application bytes went out behind the request, before the reply
	Retried   int  // further RFC 1929 messages attempted after a refusal (the write fails once the server has closed)
	Pipelined int  // number of messages that went out behind the greeting before any answer was read
}

// s5Opts are the liberties the harness SOCKS5 client takes.
type s5Opts struct {
	Pushy     bool   // send the request even after X'FF' or a failed RFC 1929 status
	EarlyMode int    // application bytes behind the request: 1 same write, 2 own write
	Early     []byte //
	Retries   []cred // pushy: further RFC 1929 messages after a refused one
	Pipeline  int    // 1: greeting, sub-negotiation and request in one write; 2: in writes of their own, without waiting for answers
	Guess     byte   // pipelining: the method the client expects the server to select (it knows its server)
}

func contains(list []byte, v byte) bool { return bytes.IndexByte(list, v) >= 0 }

// rawSocks5 performs the client side of RFC 1928 with the given method list, following whatever
// method the server selects (0 → request; 2 → RFC 1929 with cr; anything else → stop).
//
// pushy models a client that does not take no for an answer: after X'FF' or a failed RFC 1929 status it
// sends its request anyway. Such a request must never be honoured.
//
// early holds application bytes an optimistic client sends right behind its request, before the reply
// (RFC 1928 does not forbid it): earlyMode 1 = in the same write as the request, 2 = in a write of
// their own immediately after it. r.EarlySent tells whether they went out.
//
// retries (pushy only): after a failed RFC 1929 status the client sends these further sub-negotiation
// messages without waiting for an answer (RFC 1929: the server MUST close the connection after a
// failure, so none of them may be answered or honoured) and then its request.
//
// Pipeline: the client sends the messages that follow the greeting (RFC 1929 message if it expects
// method 2, then the request, then early data) before it has read any answer, in one write with the
// greeting or in writes of their own. It then reads the answers in order. If the server refuses the
// method or the credentials the request has been "pushed" by construction and must not be honoured.
func rawSocks5(c io.ReadWriter, methods []byte, cr cred, cmd byte, tgt target, opt s5Opts) (r s5Reply) {
	pushy, earlyMode, early, retries := opt.Pushy, opt.EarlyMode, opt.Early, opt.Retries
	r = s5Reply{Sel: -1, Auth: -1, Rep: -1}
	msg := append([]byte{5, byte(len(methods))}, methods...)
	if opt.Pipeline > 0 {
		return pipelinedSocks5(c, msg, cr, cmd, tgt, opt)
	}
	if _, r.Err = c.Write(msg); r.Err != nil {
		r.Stage = "write-methods"
		return
	}
	var b [2]byte
	if _, r.Err = io.ReadFull(c, b[:]); r.Err != nil {
		r.Stage = "read-method-selection"
		return
	}
	if b[0] != 5 {
		r.Stage, r.Err = "method-selection-version", fmt.Errorf("VER=%#x", b[0])
		return
	}
	r.Sel = int(b[1])
	switch b[1] {
	case 0:
	case 2:
		if cr.None {
			r.Stage = "no-credentials-to-send"
			return
		}
		am := []byte{1, byte(len(cr.U))}
		am = append(am, cr.U...)
		am = append(am, byte(len(cr.P)))
		am = append(am, cr.P...)
		if _, r.Err = c.Write(am); r.Err != nil {
			r.Stage = "write-auth"
			return
		}
		if _, r.Err = io.ReadFull(c, b[:]); r.Err != nil {
			r.Stage = "read-auth-status"
			return
		}
		if b[0] != 1 {
			r.Stage, r.Err = "auth-version", fmt.Errorf("VER=%#x", b[0])
			return
		}
		r.Auth = int(b[1])
		if b[1] != 0 && !pushy {
			r.Stage = "auth-refused"
			return
		}
		if b[1] != 0 {
			for _, rc := range retries {
				am := []byte{1, byte(len(rc.U))}
				am = append(am, rc.U...)
				am = append(am, byte(len(rc.P)))
				am = append(am, rc.P...)
				r.Retried++
				if _, err := c.Write(am); err != nil {
					break // the server is gone, as it should be
				}
			}
		}
	default:
		if !pushy {
			r.Stage = "method-refused"
			return
		}
	}
	r.Pushed = (r.Sel != 0 && r.Sel != 2) || r.Auth > 0
	req := append([]byte{5, cmd, 0}, tgt.wire()...)
	if earlyMode == 1 {
		req = append(req, early...)
		r.EarlySent = true
	}
	if _, r.Err = c.Write(req); r.Err != nil {
		r.Stage = "write-request"
		return
	}
	if earlyMode == 2 {
		if _, r.Err = c.Write(early); r.Err != nil {
			r.Stage = "write-early-data"
			return
		}
		r.EarlySent = true
	}
	readS5Reply(c, &r)
	return
}

// pipelinedSocks5 is rawSocks5 for a client that does not wait between its messages.
func pipelinedSocks5(c io.ReadWriter, greeting []byte, cr cred, cmd byte, tgt target, opt s5Opts) (r s5Reply) {
	r = s5Reply{Sel: -1, Auth: -1, Rep: -1}
	msgs := [][]byte{greeting}
	if opt.Guess == 2 && !cr.None {
		am := []byte{1, byte(len(cr.U))}
		am = append(am, cr.U...)
		am = append(am, byte(len(cr.P)))
		am = append(am, cr.P...)
		msgs = append(msgs, am)
	}
	req := append([]byte{5, cmd, 0}, tgt.wire()...)
	if opt.EarlyMode == 1 {
		req = append(req, opt.Early...)
	}
	msgs = append(msgs, req)
	if opt.EarlyMode == 2 {
		msgs = append(msgs, opt.Early)
	}
	sentAll := true
	if opt.Pipeline == 1 {
		if _, r.Err = c.Write(bytes.Join(msgs, nil)); r.Err != nil {
			r.Stage = "write-pipelined"
			return
		}
	} else {
		for i, m := range msgs {
			if _, err := c.Write(m); err != nil {
				if i == 0 {
					r.Stage, r.Err = "write-methods", err
					return
				}
				sentAll = false // the server has closed already (it refused): nothing more to say
				break
			}
		}
	}
	r.Pipelined = len(msgs) - 1
	r.EarlySent = sentAll && opt.EarlyMode > 0
	var b [2]byte
	if _, r.Err = io.ReadFull(c, b[:]); r.Err != nil {
		r.Stage = "read-method-selection"
		return
	}
	if b[0] != 5 {
		r.Stage, r.Err = "method-selection-version", fmt.Errorf("VER=%#x", b[0])
		return
	}
	r.Sel = int(b[1])
	if b[1] != opt.Guess {
		// refused (X'FF') or not what the client prepared for: its request went out regardless
		r.Stage, r.Pushed = "method-refused", true
		return
	}
	if b[1] == 2 {
		if cr.None {
			r.Stage = "no-credentials-to-send"
			return
		}
		if _, r.Err = io.ReadFull(c, b[:]); r.Err != nil {
			r.Stage = "read-auth-status"
			return
		}
		if b[0] != 1 {
			r.Stage, r.Err = "auth-version", fmt.Errorf("VER=%#x", b[0])
			return
		}
		r.Auth = int(b[1])
		if b[1] != 0 {
			r.Stage, r.Pushed = "auth-refused", true
			return
		}
	}
	readS5Reply(c, &r)
	return
}

// readS5Reply reads the RFC 1928 section 6 reply into r.
func readS5Reply(c io.Reader, rp *s5Reply) {
	r := *rp
	defer func() { *rp = r }()
	var h [4]byte
	if _, r.Err = io.ReadFull(c, h[:]); r.Err != nil {
		r.Stage = "read-reply"
		return
	}
	if h[0] != 5 || h[2] != 0 {
		r.Stage, r.Err = "reply-header", fmt.Errorf("VER=%#x RSV=%#x", h[0], h[2])
		return
	}
	r.Rep, r.BndAtyp = int(h[1]), int(h[3])
	var n int
	switch h[3] {
	case 1:
		n = 4
	case 4:
		n = 16
	case 3:
		var l [1]byte
		if _, r.Err = io.ReadFull(c, l[:]); r.Err != nil {
			r.Stage = "read-reply-domain-len"
			return
		}
		n = int(l[0])
	default:
		r.Stage, r.Err = "reply-atyp", fmt.Errorf("ATYP=%#x", h[3])
		return
	}
	rest := make([]byte, n+2)
	if _, r.Err = io.ReadFull(c, rest); r.Err != nil {
		r.Stage = "read-reply-addr"
		return
	}
	r.BndHost, r.BndPort = rest[:n], uint16(rest[n])<<8|uint16(rest[n+1])
	r.Stage = "done"
	return
}

// parseS5ServerBytes decodes what a SOCKS5 server wrote during the handshake (method selection,
// optional RFC 1929 status, optional reply) and returns the number of undecoded trailing bytes.
func parseS5ServerBytes(b []byte) (r s5Reply, trailing int, err error) {
	r = s5Reply{Sel: -1, Auth: -1, Rep: -1}
	if len(b) == 0 {
		return r, 0, nil
	}
	if len(b) < 2 || b[0] != 5 {
		return r, len(b), fmt.Errorf("bad method selection message % x", b[:min(len(b), 8)])
	}
	r.Sel = int(b[1])
	b = b[2:]
	if r.Sel == 2 && len(b) > 0 {
		if len(b) < 2 || b[0] != 1 {
			return r, len(b), fmt.Errorf("bad RFC 1929 status message % x", b[:min(len(b), 8)])
		}
		r.Auth = int(b[1])
		b = b[2:]
	}
	if len(b) == 0 {
		return r, 0, nil
	}
	if len(b) < 4 || b[0] != 5 || b[2] != 0 {
		return r, len(b), fmt.Errorf("bad reply header % x", b[:min(len(b), 8)])
	}
	r.Rep, r.BndAtyp = int(b[1]), int(b[3])
	b = b[4:]
	var n int
	switch r.BndAtyp {
	case 1:
		n = 4
	case 4:
		n = 16
	case 3:
		if len(b) < 1 {
			return r, 0, errors.New("reply truncated at domain length")
		}
		n = int(b[0])
		b = b[1:]
	default:
		return r, len(b), fmt.Errorf("reply ATYP %#x", r.BndAtyp)
	}
	if len(b) < n+2 {
		return r, 0, fmt.Errorf("reply truncated: %d address bytes left, need %d", len(b), n+2)
	}
	r.BndHost, r.BndPort = b[:n], uint16(b[n])<<8|uint16(b[n+1])
	return r, len(b) - n - 2, nil
}

// ---------------------------------------------------------------------------------------------
// HTTP CONNECT (RFC 9110 §9.3.6, RFC 9112 message framing, RFC 7617 Basic), harness client

type httpVariant struct {
	Scheme  string // "Basic" in some letter case (auth-scheme is case-insensitive, RFC 9110 §11.1)
	Field   string // "Proxy-Authorization" in some letter case (field names are case-insensitive)
	Pad     int    // size of an extra, irrelevant header field value (0 = none)
	PadLast bool   // pad field after (true) or before (false) the credentials

	// round 6: "" = CONNECT with the authority-form target; "origin" / "absolute" = a non-CONNECT request
	// (Verb) in origin-form with a Host field, or in absolute-form (RFC 9112 section 3.2) with the same Host
	Form string
	Verb string
}

// readHead reads one response head byte by byte, so the harness client never reads past it.
func readHead(r io.Reader) ([]byte, error) {
	var (
		head []byte
		one  [1]byte
	)
	for len(head) < 1<<16 {
		if _, err := io.ReadFull(r, one[:]); err != nil {
			return head, err
		}
		head = append(head, one[0])
		if bytes.HasSuffix(head, []byte("\r\n\r\n")) {
			return head, nil
		}
	}
	return head, errors.New("response head too long")
}

// statusOf parses the status-line of a response head: HTTP-version SP 3DIGIT SP ...
func statusOf(head []byte) (int, error) {
	line, _, _ := bytes.Cut(head, []byte("\r\n"))
	f := strings.SplitN(string(line), " ", 3)
	if len(f) < 2 || !strings.HasPrefix(f[0], "HTTP/1.") || len(f[1]) != 3 {
		return 0, fmt.Errorf("bad status line %q", clip(string(line), 60))
	}
	n, err := strconv.Atoi(f[1])
	if err != nil || n < 100 {
		return 0, fmt.Errorf("bad status code in %q", clip(string(line), 60))
	}
	return n, nil
}

// rawHTTPConnect sends one CONNECT request per presented credential on the same connection until a
// response other than 407 arrives. It returns every status code received.
func rawHTTPConnect(c io.ReadWriter, authority string, creds []cred, v httpVariant) (statuses []int, err error) {
	for _, cr := range creds {
		var sb strings.Builder
		switch v.Form {
		case "origin":
			sb.WriteString(v.Verb + " /c07/index.html?q=1 HTTP/1.1\r\nHost: " + authority + "\r\n")
		case "absolute":
			sb.WriteString(v.Verb + " http://" + authority + "/c07/index.html?q=1 HTTP/1.1\r\nHost: " + authority + "\r\n")
		default:
			sb.WriteString("CONNECT " + authority + " HTTP/1.1\r\nHost: " + authority + "\r\n")
		}
		pad := ""
		if v.Pad > 0 {
			pad = "X-Pad: " + strings.Repeat("p", v.Pad) + "\r\n"
		}
		if !v.PadLast {
			sb.WriteString(pad)
		}
		switch {
		case cr.None:
		case cr.Bad:
			sb.WriteString(v.Field + ": " + v.Scheme + " " + cr.Token + "\r\n")
		default:
			sb.WriteString(v.Field + ": " + v.Scheme + " " + basicToken(cr) + "\r\n")
		}
		if v.PadLast {
			sb.WriteString(pad)
		}
		sb.WriteString("\r\n")
		if _, err = io.WriteString(c, sb.String()); err != nil {
			return statuses, err
		}
		head, err := readHead(c)
		if err != nil {
			return statuses, err
		}
		st, err := statusOf(head)
		if err != nil {
			return statuses, err
		}
		n, err := declaredBody(head)
		if err != nil {
			return statuses, err
		}
		if _, err = io.CopyN(io.Discard, c, int64(n)); err != nil {
			return statuses, err
		}
		statuses = append(statuses, st)
		if st != 407 {
			break
		}
	}
	return statuses, nil
}

// basicToken is the RFC 7617 token of a user-id / password pair.
func basicToken(c cred) string { return base64.StdEncoding.EncodeToString([]byte(c.U + ":" + c.P)) }

// declaredBody returns the Content-Length a response head declares (0 if none). Chunked bodies are
// not expected from a CONNECT proxy handshake and are reported as undecodable rather than guessed at.
func declaredBody(head []byte) (int, error) {
	n := 0
	for _, line := range strings.Split(string(head), "\r\n")[1:] {
		name, val, ok := strings.Cut(line, ":")
		if !ok {
			continue
		}
		switch strings.ToLower(strings.TrimSpace(name)) {
		case "content-length":
			v, err := strconv.Atoi(strings.TrimSpace(val))
			if err != nil || v < 0 || v > 1<<20 {
				return 0, fmt.Errorf("bad Content-Length %q", val)
			}
			n = v
		case "transfer-encoding":
			return 0, fmt.Errorf("handshake response with Transfer-Encoding %q", val)
		}
	}
	return n, nil
}

// parseHTTPServerBytes decodes the response heads an HTTP proxy wrote during the handshake. A declared
// Content-Length body is skipped; Transfer-Encoding is reported as undecodable rather than guessed at.
func parseHTTPServerBytes(b []byte) (statuses []int, trailing int, err error) {
	for len(b) > 0 {
		i := bytes.Index(b, []byte("\r\n\r\n"))
		if i < 0 {
			return statuses, len(b), fmt.Errorf("unterminated response head %q", clip(string(b), 60))
		}
		head := b[:i+4]
		st, err := statusOf(head)
		if err != nil {
			return statuses, len(b), err
		}
		n, err := declaredBody(head)
		if err != nil {
			return statuses, len(b), err
		}
		if len(b) < i+4+n {
			return statuses, len(b), fmt.Errorf("response body truncated: %q", clip(string(head), 80))
		}
		statuses = append(statuses, st)
		b = b[i+4+n:]
	}
	return statuses, 0, nil
}
