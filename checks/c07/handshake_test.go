package c07

import (
	"bytes"
	"context"
	"crypto/tls"
	"errors"
	"fmt"
	"io"
	"net"
	"runtime"
	"strings"
	"sync"
	"sync/atomic"
	"testing"
	"testing/synctest"

	"github.com/database64128/shadowsocks-go/conn"
	"github.com/database64128/shadowsocks-go/httpproxy"
	"github.com/database64128/shadowsocks-go/netio"
	"github.com/database64128/shadowsocks-go/socks5"
	"github.com/database64128/shadowsocks-go/ssnone"
	"go.uber.org/zap"
	"pgregory.net/rapid"

	"verif/internal/ev"
	"verif/internal/xnet"
)

// obs is everything observed while a plan ran.
type obs struct {
	// server side
	srvErr      error
	srvHonoured bool // HandleStream returned a pending connection
	srvAddr     conn.Addr
	srvUser     string
	srvPayload  []byte
	srvActErr   error // error of Proceed / Abort
	hsFrames    int   // number of frames the server had written when the handshake was over
	srvWire     []byte
	srvRecv     []byte
	srvRecvErr  error
	srvPumped   bool

	// client side
	cliErr     error // repo client: error of DialStream / ClientRequest*
	cliOK      bool  // client considers the request granted
	cliRecv    []byte
	cliRecvErr error
	cliPumped  bool
	cliBnd     conn.Addr // repo client: bound address of UDP ASSOCIATE
	raw5       s5Reply
	rawHTTP    []int
	rawErr     error
	readAhead  bool                // repo HTTP client returned a connection holding read-ahead bytes
	tlsPlain   []byte              // harness TLS client: every plaintext byte it read during the HTTP handshake
	tlsState   tls.ConnectionState // harness TLS client: state after the handshake
	tlsCut     bool                // harness TLS client: the request went out in records small enough to cut fields

	closedEarly  bool // HTTP: the server closed the connection after refused attempts instead of answering on
	cancelDuring bool // the dial context was already cancelled when DialStream returned
	cliGotConn   bool // DialStream returned a connection (with or without an error)

	cDone, sDone atomic.Bool
	hsDone       atomic.Bool // the client holds an established connection
	stalled      string
}

func newServer(p plan) (netio.StreamServer, error) {
	switch p.Proto {
	case "socks5":
		cfg := socks5.StreamServerConfig{EnableUserPassAuth: p.SrvAuth, EnableTCP: p.EnableTCP, EnableUDP: p.EnableUDP}
		for _, u := range p.Users {
			cfg.Users = append(cfg.Users, socks5.UserInfo{Username: u.U, Password: u.P})
		}
		return cfg.NewStreamServer()
	case "http":
		cfg := httpproxy.ServerConfig{EnableBasicAuth: p.SrvAuth}
		for _, u := range p.Users {
			cfg.Users = append(cfg.Users, httpproxy.ServerUserCredentials{Username: u.U, Password: u.P})
		}
		if p.TLS {
			k := thePKI()
			cfg.EnableTLS = true
			if p.TLSFunc {
				cfg.GetCertificate = func(*tls.ClientHelloInfo) (*tls.Certificate, error) { c := k.serverCert; return &c, nil }
			} else {
				cfg.Certificates = []tls.Certificate{k.serverCert}
			}
			if p.TLSReq {
				cfg.RequireAndVerifyClientCert, cfg.ClientCAs = true, k.clientPool
			}
			if p.TLSCert != "" { // issue (and cache) the client certificate outside the bubble
				if _, err := k.clientCert(p.TLSCN, p.TLSCert == "valid"); err != nil {
					panic(fmt.Sprintf("harness: cannot issue a client certificate for CN %q: %v", p.TLSCN, err))
				}
			}
		}
		return cfg.NewProxyServer()
	default:
		return ssnone.StreamServer{}, nil
	}
}

// traffic returns the byte strings each side sends after the handshake.
func (p plan) traffic() (init []byte, c2s, s2c [][]byte) {
	total := p.InitPayload
	for _, n := range p.C2S {
		total += n
	}
	up := make([]byte, total)
	fill(up, p.Seed)
	init, up = up[:p.InitPayload], up[p.InitPayload:]
	for _, n := range p.C2S {
		c2s = append(c2s, up[:n])
		up = up[n:]
	}
	total = 0
	for _, n := range p.S2C {
		total += n
	}
	down := make([]byte, total)
	fill(down, ^p.Seed)
	for _, n := range p.S2C {
		s2c = append(s2c, down[:n])
		down = down[n:]
	}
	return
}

// glueIndex is the index, among the server's writes, of the success reply.
func (p plan) glueIndex() int {
	switch p.Proto {
	case "socks5":
		if p.SrvAuth {
			return 2
		}
		return 1
	case "http":
		k := 0
		for _, c := range p.Pres {
			if !p.SrvAuth || inTable(p.Users, c) {
				break
			}
			k++
		}
		return k
	}
	return -1
}

// clients are the repository's client objects of one configuration. Like the service does, one
// object serves every session of a case (TestInterleaved) - or just one (TestHandshake).
type clients struct {
	q    *queueClient
	s5   netio.StreamClient
	http *httpproxy.ProxyClient
	ss   *ssnone.StreamClient
}

// queueClient is the inner netio.StreamClient of shared client objects: every DialStream takes the
// next prepared transport end.
type queueClient struct {
	mu    sync.Mutex
	conns []netio.Conn
}

func (q *queueClient) push(c netio.Conn) { q.mu.Lock(); q.conns = append(q.conns, c); q.mu.Unlock() }

func (q *queueClient) NewStreamDialer() (netio.StreamDialer, netio.StreamDialerInfo) {
	return q, netio.StreamDialerInfo{Name: "xnet", NativeInitialPayload: true}
}

func (q *queueClient) DialStream(_ context.Context, _ conn.Addr, payload []byte) (netio.Conn, error) {
	q.mu.Lock()
	if len(q.conns) == 0 {
		q.mu.Unlock()
		return nil, errors.New("harness: no transport prepared")
	}
	c := q.conns[0]
	q.conns = q.conns[1:]
	q.mu.Unlock()
	return innerClient{c}.DialStream(context.Background(), conn.Addr{}, payload)
}

func newClients(p plan) (*clients, error) {
	cl := &clients{q: &queueClient{}}
	switch p.Proto {
	case "socks5":
		var authMsg []byte
		if p.CliAuth {
			authMsg = socks5.UserInfo{Username: p.Pres[0].U, Password: p.Pres[0].P}.AppendAuthMsg(nil)
		}
		cl.s5 = (&socks5.StreamClientConfig{Name: "c07", InnerClient: cl.q, AuthMsg: authMsg}).NewStreamClient()
	case "http":
		cfg := httpproxy.ClientConfig{Name: "c07", InnerClient: cl.q}
		if p.CliAuth {
			cfg.Username, cfg.Password, cfg.UseBasicAuth = p.Pres[0].U, p.Pres[0].P, true
		}
		if p.TLS {
			tc := p.clientTLSConfig()
			cfg.UseTLS, cfg.RootCAs, cfg.ServerName = true, tc.RootCAs, tc.ServerName
			cfg.Certificates, cfg.GetClientCertificate = tc.Certificates, tc.GetClientCertificate
		}
		var err error
		if cl.http, err = cfg.NewProxyClient(); err != nil {
			return nil, fmt.Errorf("NewProxyClient: %w", err)
		}
	default:
		cl.ss = (&ssnone.StreamClientConfig{Name: "c07", InnerClient: cl.q}).NewStreamClient()
	}
	return cl, nil
}

// clientTLSConfig is what a client of the plan's TLS proxy is configured with: the harness client
// uses it as it is, the repository client gets the same values through httpproxy.ClientConfig.
func (p plan) clientTLSConfig() *tls.Config {
	k := thePKI()
	cfg := &tls.Config{RootCAs: k.serverPool, ServerName: p.TLSName}
	if p.TLS12 {
		cfg.MaxVersion = tls.VersionTLS12
	}
	if p.TLSCert != "" {
		cert, err := k.clientCert(p.TLSCN, p.TLSCert == "valid")
		if err != nil {
			panic(fmt.Sprintf("harness: cannot issue a client certificate for CN %q: %v", p.TLSCN, err))
		}
		if p.TLSFunc {
			cfg.GetClientCertificate = func(*tls.CertificateRequestInfo) (*tls.Certificate, error) { return &cert, nil }
		} else {
			cfg.Certificates = []tls.Certificate{cert}
		}
	}
	return cfg
}

// tlsTap is the harness HTTP client's view of its TLS connection during the handshake: it keeps every
// plaintext byte read (the only place where the server's responses can be seen in clear) and cuts
// the beginning of every written message into records according to plan, so that the server's HTTP
// parser sees the request in pieces even though the record layer reassembles transport segments.
type tlsTap struct {
	c    *tls.Conn
	plan []int
	idx  int
	read []byte
	cut  bool
}

func (t *tlsTap) Read(b []byte) (int, error) {
	n, err := t.c.Read(b)
	t.read = append(t.read, b[:n]...)
	return n, err
}

func (t *tlsTap) Write(b []byte) (int, error) {
	total, budget := 0, 600 // only the head of a message is cut up: a 9000-byte pad need not be 9000 records
	for len(b) > 0 {
		n := len(b)
		if len(t.plan) > 0 && budget > 0 {
			if k := t.plan[t.idx%len(t.plan)]; k > 0 && k < n {
				n = k
				t.cut = t.cut || k <= 7
			}
			t.idx++
			budget -= n
		}
		m, err := t.c.Write(b[:n])
		total += m
		if err != nil {
			return total, err
		}
		b = b[n:]
	}
	return total, nil
}

// session is one connection of a case: a transport pair, a client goroutine and a server goroutine.
type session struct {
	p        plan
	o        *obs
	cx, sx   *xnet.Conn
	wg       sync.WaitGroup
	gate     chan struct{} // if not nil the client waits here between handshake and application traffic
	released bool
}

// start launches both peers of one session. shared may hold client objects reused across sessions
// (nil: fresh objects). Must be called inside a synctest bubble.
func start(p plan, srv netio.StreamServer, shared *clients, gated bool) *session {
	o := &obs{}
	s := &session{p: p, o: o}
	if gated {
		s.gate = make(chan struct{})
	}
	cx, sx := xnet.Pair()
	s.cx, s.sx = cx, sx
	sx.SetReadPlan(p.SrvPlan, 0, p.SrvCoalesce)
	cx.SetReadPlan(p.CliPlan, 0, p.CliCoalesce)
	if p.Glue {
		gi := p.glueIndex()
		var held []byte
		holding := false
		sx.SetWriteFilter(func(idx int, frame []byte) [][]byte {
			if idx == gi {
				held, holding = frame, true
				return nil
			}
			if holding {
				if len(frame) == 0 {
					return nil
				}
				holding = false
				return [][]byte{append(held, frame...)}
			}
			return [][]byte{frame}
		})
	}
	cEnd := tcpConn{Conn: cx, local: net.TCPAddrFromAddrPort(p.Local)}
	sEnd := tcpConn{Conn: sx, local: net.TCPAddrFromAddrPort(p.Local)}
	init, c2s, s2c := p.traffic()
	logger := zap.NewNop()

	server := func() {
		defer o.sDone.Store(true)
		defer sEnd.Close()
		req, err := srv.HandleStream(sEnd, logger)
		o.srvErr, o.srvAddr, o.srvUser = err, req.Addr, req.Username
		o.srvPayload = append([]byte(nil), req.Payload...)
		if err != nil || req.PendingConn == nil {
			o.hsFrames = len(sx.Written())
			return
		}
		o.srvHonoured = true
		if p.Abort {
			o.srvActErr = req.Abort(conn.DialResult{Code: conn.DialResultCode(p.Code), Err: errors.New("harness: onward dial failed")})
			o.hsFrames = len(sx.Written())
			return
		}
		sc, err := req.Proceed()
		o.srvActErr = err
		o.hsFrames = len(sx.Written())
		if err != nil {
			return
		}
		o.srvPumped = true
		o.srvRecv, o.srvRecvErr, _ = pump(sc, s2c, p.SrvBuf, false)
		_ = sc.Close()
	}

	client := func() {
		defer o.cDone.Store(true)
		defer cEnd.Close()
		ctx := context.Background()
		cancel := func() {}
		if p.Cancel != "" {
			ctx, cancel = context.WithCancel(ctx)
			defer cancel()
			switch p.Cancel {
			case "before":
				cancel()
			case "w0", "w1", "w2":
				k := int(p.Cancel[1] - '0')
				cx.SetWriteFilter(func(idx int, frame []byte) [][]byte {
					if idx == k {
						cancel() // the k-th client message still goes out; the client then waits for the answer
					}
					return [][]byte{frame}
				})
			}
		}
		// dialed is called right after a DialStream returned: was the context cancelled while the
		// client was still inside? Callers then cancel in any case (defer cancel()).
		dialed := func(cc netio.Conn) {
			o.cancelDuring = ctx.Err() != nil
			o.cliGotConn = cc != nil
			if p.Cancel != "" {
				cancel()
				for range 4 {
					runtime.Gosched()
				}
			}
		}
		var cc netio.Conn
		first := c2s // what the client still has to write itself after the handshake
		cl := shared
		if p.Peer == "repo" {
			if cl == nil {
				var err error
				if cl, err = newClients(p); err != nil {
					o.cliErr = err
					return
				}
			}
			cl.q.push(cEnd)
		}
		switch {
		case p.Proto == "ssnone" && p.Peer == "repo":
			cc, o.cliErr = cl.ss.DialStream(ctx, p.Target.connAddr(), init)
			dialed(cc)
			o.cliOK = o.cliErr == nil
		case p.Proto == "ssnone":
			// Shadowsocks "none": the SOCKS5 address followed by the payload, in one segment
			if _, o.rawErr = cEnd.Write(append(p.Target.wire(), init...)); o.rawErr == nil {
				cc, o.cliOK = cEnd, true
			}
		case p.Proto == "socks5" && p.Peer == "repo":
			switch {
			case p.Cmd == socks5.CmdConnect:
				cc, o.cliErr = cl.s5.DialStream(ctx, p.Target.connAddr(), init)
				dialed(cc)
			case p.CliAuth:
				authMsg := socks5.UserInfo{Username: p.Pres[0].U, Password: p.Pres[0].P}.AppendAuthMsg(nil)
				o.cliBnd, o.cliErr = socks5.ClientRequestUsernamePassword(cEnd, authMsg, p.Cmd, p.Target.connAddr())
			default:
				o.cliBnd, o.cliErr = socks5.ClientRequest(cEnd, p.Cmd, p.Target.connAddr())
			}
			o.cliOK = o.cliErr == nil
		case p.Proto == "socks5":
			guess := byte(0)
			if p.SrvAuth {
				guess = 2
			}
			o.raw5 = rawSocks5(cEnd, p.Methods, p.Pres[0], p.Cmd, p.Target, s5Opts{Pushy: p.Pushy, EarlyMode: p.EarlyData, Early: init, Retries: p.Retries, Pipeline: p.Pipeline, Guess: guess})
			o.cliOK = o.raw5.Stage == "done" && o.raw5.Rep == 0 && !o.raw5.Pushed
			if o.cliOK && p.Cmd == 1 {
				cc = cEnd
				if !o.raw5.EarlySent {
					first = append([][]byte{init}, c2s...)
				}
			}
		case p.Proto == "http" && p.Peer == "repo":
			cc, o.cliErr = cl.http.DialStream(ctx, p.Target.connAddr(), init)
			dialed(cc)
			o.cliOK = o.cliErr == nil
			if o.cliOK {
				_, plain := cc.(tcpConn)
				_, plainTLS := cc.(*tls.Conn)
				o.readAhead = !plain && !plainTLS
			}
		default:
			authority := p.Target.authority()
			v := p.Variant
			switch {
			case p.BadTarget != "":
				authority = p.BadTarget
			case p.HostForm != "":
				authority, v.Form, v.Verb = p.Target.hostField(), p.HostForm, p.HostVerb
			}
			var (
				rw     io.ReadWriter = cEnd
				stream netio.Conn    = cEnd
				tap    *tlsTap
			)
			if p.TLS {
				tc := tls.Client(cEnd, p.clientTLSConfig())
				tap = &tlsTap{c: tc, plan: p.SrvPlan}
				rw, stream = tap, tc
			}
			o.rawHTTP, o.rawErr = rawHTTPConnect(rw, authority, p.Pres, v)
			if tap != nil {
				o.tlsPlain, o.tlsCut, o.tlsState = tap.read, tap.cut, tap.c.ConnectionState()
			}
			if n := len(o.rawHTTP); o.rawErr == nil && n > 0 && o.rawHTTP[n-1]/100 == 2 {
				// RFC 9110 §9.3.6: tunnel bytes are sent only after the 2xx
				cc, o.cliOK = stream, true
				first = append([][]byte{init}, c2s...)
			}
		}
		if cc == nil {
			// refused, or a request without a stream (UDP ASSOCIATE: closing ends the association)
			return
		}
		o.hsDone.Store(true)
		if s.gate != nil {
			<-s.gate // other sessions of the case run their handshakes now
		}
		o.cliPumped = true
		o.cliRecv, o.cliRecvErr, _ = pump(cc, first, p.CliBuf, p.CliWriteTo)
		_ = cc.Close()
	}

	s.wg.Go(server)
	s.wg.Go(client)
	return s
}

// release lets the client of a gated session go on to its application traffic.
func (s *session) release() {
	if s.gate != nil && !s.released {
		s.released = true
		close(s.gate)
	}
}

// handshakeSettled is called after synctest.Wait following start: the client has either finished
// (refused) or holds its connection; anything else is a handshake in which both peers wait forever.
func (s *session) handshakeSettled() {
	if !s.o.hsDone.Load() && !s.o.cDone.Load() && s.o.stalled == "" {
		s.o.stalled = fmt.Sprintf("during the handshake: clientDone=%v serverDone=%v", s.o.cDone.Load(), s.o.sDone.Load())
		s.cx.Close()
		s.sx.Close()
	}
}

// finish waits for quiescence, detects a stall, joins the goroutines and collects the wire bytes.
func (s *session) finish() *obs {
	o := s.o
	s.release()
	synctest.Wait()
	if !o.cDone.Load() || !o.sDone.Load() {
		// every goroutine is blocked on the owned transport and nobody will ever write again
		if o.stalled == "" {
			o.stalled = fmt.Sprintf("clientDone=%v serverDone=%v", o.cDone.Load(), o.sDone.Load())
		}
		s.cx.Close()
		s.sx.Close()
	}
	s.wg.Wait()
	frames := s.sx.Written()
	for i := 0; i < o.hsFrames && i < len(frames); i++ {
		o.srvWire = append(o.srvWire, frames[i]...)
	}
	return o
}

// run executes a single-session case.
func run(p plan, srv netio.StreamServer) *obs {
	s := start(p, srv, nil, false)
	synctest.Wait()
	return s.finish()
}

// ---------------------------------------------------------------------------------------------
// oracle

// wantRep is the reply-code table restated from RFC 1928 §6 reply names and the names documented in
// conn/dialresult.go: exact code where a name corresponds, "any failure code" (-1) otherwise.
func wantRep(code uint8) int {
	switch code {
	case 13: // EACCES "permission denied" (denied by policy)  -> X'02' connection not allowed by ruleset
		return 2
	case 100, 101, 102: // ENETDOWN, ENETUNREACH, ENETRESET      -> X'03' Network unreachable
		return 3
	case 112, 113: // EHOSTDOWN, EHOSTUNREACH                   -> X'04' Host unreachable
		return 4
	case 111: // ECONNREFUSED                                    -> X'05' Connection refused
		return 5
	}
	return -1 // some failure: X'01'..X'08', never X'00'
}

func viol(p plan, sig, format string, args ...any) string {
	return fmt.Sprintf("SIG=C07/%s/%s ", p.Proto, sig) + fmt.Sprintf(format, args...) + "\n  plan: " + p.describe()
}

func (p plan) describe() string {
	tlsDesc := "off"
	if p.TLS {
		tlsDesc = fmt.Sprintf("(requireClientCert=%v clientCert=%q cn=%q serverName=%q tls12=%v viaCallbacks=%v)", p.TLSReq, p.TLSCert, clip(p.TLSCN, 40), p.TLSName, p.TLS12, p.TLSFunc)
	}
	return fmt.Sprintf("proto=%s peer=%s tls=%s srvAuth=%v users=%v cliAuth=%v presented=%v classes=%v methods(n=%d,wantPos=%d,dups=%d,pipeline=%d,pushy=%v,early=%d,retries=%d) storm=%d cancel=%q cmd=%d tcp=%v udp=%v target=%s hostForm=%q/%s badTarget=%q abort=%v code=%d local=%s srvPlan=%v/%v cliPlan=%v/%v glue=%v init=%d c2s=%v s2c=%v seed=%#x bufs=%d/%d writeTo=%v variant=%+v",
		p.Proto, p.Peer, tlsDesc, p.SrvAuth, p.Users, p.CliAuth, p.Pres, p.CredClass, len(p.Methods), p.WantPos, p.MethodDup, p.Pipeline, p.Pushy, p.EarlyData, len(p.Retries), p.Storm, p.Cancel, p.Cmd, p.EnableTCP, p.EnableUDP,
		p.Target, p.HostForm, p.HostVerb, p.BadTarget, p.Abort, p.Code, p.Local, p.SrvPlan, p.SrvCoalesce, p.CliPlan, p.CliCoalesce, p.Glue, p.InitPayload, p.C2S, p.S2C,
		p.Seed, p.CliBuf, p.SrvBuf, p.CliWriteTo, p.Variant)
}

func diffAt(a, b []byte) string {
	n := min(len(a), len(b))
	for i := 0; i < n; i++ {
		if a[i] != b[i] {
			return fmt.Sprintf("first difference at offset %d (got %#x want %#x), got %d bytes want %d", i, a[i], b[i], len(a), len(b))
		}
	}
	return fmt.Sprintf("common prefix %d bytes, got %d bytes want %d", n, len(a), len(b))
}

// check compares the observation with what the property demands. It returns "" or a violation.
func check(p plan, o *obs) string {
	if o.stalled != "" {
		return viol(p, "stall", "the conversation stopped with both peers waiting for each other (%s); srvErr=%v cliErr=%v raw5=%+v rawHTTP=%v", o.stalled, o.srvErr, o.cliErr, o.raw5, o.rawHTTP)
	}
	if p.Cancel != "" && o.cancelDuring && o.cliErr != nil {
		// The dial context was cancelled while the client was inside DialStream and the client reports
		// an error: acceptable iff no connection was handed out. What the server did with the aborted
		// conversation is not judged. (If the client reports success instead, everything below applies:
		// a returned connection has to work.)
		if o.cliGotConn {
			return viol(p, "ctx-cancel", "DialStream returned both a connection and the error %v", o.cliErr)
		}
		return ""
	}
	init, c2s, s2c := p.traffic()
	up := append([]byte(nil), init...)
	for _, c := range c2s {
		up = append(up, c...)
	}
	var down []byte
	for _, c := range s2c {
		down = append(down, c...)
	}

	// expected course of the handshake
	var (
		honoured bool   // the server hands a connection request to the relay
		user     string // identity the server must report with it
	)
	switch p.Proto {
	case "ssnone":
		honoured = true
		if len(o.srvWire) != 0 {
			return viol(p, "handshake-bytes", "Shadowsocks none has no reply, server wrote % x", o.srvWire[:min(len(o.srvWire), 16)])
		}

	case "socks5":
		want := byte(0)
		if p.SrvAuth {
			want = 2
		}
		offered := p.Methods
		if p.Peer == "repo" {
			offered = []byte{0}
			if p.CliAuth {
				offered = []byte{2}
			}
		}
		w, trailing, err := parseS5ServerBytes(o.srvWire)
		if err != nil || trailing != 0 {
			return viol(p, "handshake-bytes", "server handshake bytes do not decode as RFC 1928/1929 messages: %v trailing=%d wire=% x", err, trailing, o.srvWire[:min(len(o.srvWire), 40)])
		}
		// method selection: the server's own method if offered, else X'FF'
		wantSel := 0xff
		if contains(offered, want) {
			wantSel = int(want)
		}
		if w.Sel != wantSel {
			return viol(p, "method-selection", "server selected METHOD %#x, want %#x (offered n=%d, server's method at %d)", w.Sel, wantSel, len(offered), bytes.IndexByte(offered, want))
		}
		// what the client was told
		clientTold := func() string {
			switch {
			case p.Peer == "raw":
				r := o.raw5
				if r.Sel != w.Sel || r.Auth != w.Auth || r.Rep != w.Rep {
					return viol(p, "handshake-bytes", "harness client decoded sel=%d auth=%d rep=%d (stage %s, err %v), wire says sel=%d auth=%d rep=%d", r.Sel, r.Auth, r.Rep, r.Stage, r.Err, w.Sel, w.Auth, w.Rep)
				}
			case w.Auth > 0:
				if !errors.Is(o.cliErr, socks5.ErrIncorrectUsernamePassword) {
					return viol(p, "client-error", "server refused the credentials (STATUS=%d) but the client reports %v", w.Auth, o.cliErr)
				}
			case w.Rep == 0:
				if o.cliErr != nil {
					return viol(p, "client-error", "server replied success but the client reports %v", o.cliErr)
				}
			default:
				var re socks5.ReplyError
				if o.cliErr == nil || (errors.As(o.cliErr, &re) && int(re) != w.Rep) {
					return viol(p, "client-error", "server replied REP=%d but the client reports %v", w.Rep, o.cliErr)
				}
			}
			return ""
		}
		stage := "request"
		if wantSel == 0xff {
			stage = "refused"
		} else if want == 2 {
			ok := inTable(p.Users, p.Pres[0])
			if (w.Auth == 0) != ok || w.Auth < 0 {
				return viol(p, "auth-gate", "RFC 1929 STATUS=%d for presented %v; in table: %v", w.Auth, p.Pres[0], ok)
			}
			if !ok {
				stage = "refused"
			} else {
				user = p.Pres[0].U
			}
		}
		if stage == "refused" {
			if w.Rep != -1 {
				return viol(p, "auth-gate", "a reply (REP=%d) was sent although the negotiation failed", w.Rep)
			}
			if o.srvErr == nil || o.srvHonoured {
				return viol(p, "auth-gate", "request honoured although the negotiation failed (presented %v, selection %#x)", p.Pres, w.Sel)
			}
			if v := clientTold(); v != "" {
				return v
			}
			break
		}
		switch {
		case p.Cmd == 1 && p.EnableTCP:
			honoured = true
			wantR := 0
			if p.Abort {
				wantR = wantRep(p.Code)
			}
			if o.srvHonoured && (w.Rep < 0 || (wantR >= 0 && w.Rep != wantR) || (wantR < 0 && (w.Rep < 1 || w.Rep > 8))) {
				return viol(p, "reply-code", "REP=%d for abort=%v code=%d, want %d (-1: any of 1..8)", w.Rep, p.Abort, p.Code, wantR)
			}
		case p.Cmd == 3 && p.EnableUDP:
			if !errors.Is(o.srvErr, netio.ErrHandleStreamDone) || o.srvHonoured {
				return viol(p, "command", "UDP ASSOCIATE with UDP enabled: HandleStream returned err=%v pending=%v, want ErrHandleStreamDone", o.srvErr, o.srvHonoured)
			}
			if w.Rep != 0 {
				return viol(p, "reply-code", "UDP ASSOCIATE with UDP enabled: REP=%d, want 0", w.Rep)
			}
			// BND.ADDR/BND.PORT: documented as the connection's local address
			wl := p.Local.Addr().Unmap()
			ok := w.BndPort == p.Local.Port()
			if wl.Is4() {
				a := wl.As4()
				ok = ok && w.BndAtyp == 1 && bytes.Equal(w.BndHost, a[:])
			} else {
				a := wl.As16()
				ok = ok && w.BndAtyp == 4 && bytes.Equal(w.BndHost, a[:])
			}
			if !ok {
				return viol(p, "udp-bound-addr", "BND=atyp %d % x port %d, want local address %s", w.BndAtyp, w.BndHost, w.BndPort, p.Local)
			}
			if p.Peer == "repo" {
				if o.cliErr != nil || !o.cliBnd.IsIP() || o.cliBnd.IP().Unmap() != wl || o.cliBnd.Port() != p.Local.Port() {
					return viol(p, "udp-bound-addr", "client decoded bound address %v err=%v, want %s", o.cliBnd, o.cliErr, p.Local)
				}
			}
		default:
			// RFC 1928: X'07' Command not supported for a command outside the server's repertoire;
			// a known but disabled command must at least not be granted.
			if w.Rep < 1 || w.Rep > 8 || (p.Cmd != 1 && p.Cmd != 3 && w.Rep != 7) {
				return viol(p, "reply-code", "CMD=%d (tcp=%v udp=%v): REP=%d, want 7 (disabled known command: any of 1..8)", p.Cmd, p.EnableTCP, p.EnableUDP, w.Rep)
			}
			if o.srvErr == nil || o.srvHonoured || errors.Is(o.srvErr, netio.ErrHandleStreamDone) {
				return viol(p, "command", "CMD=%d (tcp=%v udp=%v) was granted: err=%v pending=%v", p.Cmd, p.EnableTCP, p.EnableUDP, o.srvErr, o.srvHonoured)
			}
			var uc socks5.UnsupportedCommandError
			if errors.As(o.srvErr, &uc) && byte(uc) != p.Cmd {
				return viol(p, "command", "server extracted CMD=%d, client sent %d", byte(uc), p.Cmd)
			}
		}
		if v := clientTold(); v != "" {
			return v
		}

	case "http":
		// Under TLS the transport recording is ciphertext and neither side's tls.Config can be tapped,
		// so the responses are taken from where they can be seen in clear: the harness client's
		// plaintext reads; for the repository client only the status it reports is known.
		wire := o.srvWire
		if p.TLS {
			wire = o.tlsPlain
		}
		st, trailing, err := parseHTTPServerBytes(wire)
		if err != nil || trailing != 0 {
			return viol(p, "handshake-bytes", "server handshake bytes do not decode as HTTP response heads: %v trailing=%d wire=%q", err, trailing, clip(string(wire), 120))
		}
		if p.TLS && p.Peer == "repo" {
			var ce httpproxy.ConnectNonSuccessfulResponseError
			switch {
			case o.cliErr == nil && o.cliGotConn:
				st = []int{200}
			case errors.As(o.cliErr, &ce):
				st = []int{ce.StatusCode}
			}
		}
		if p.tlsRefuses() {
			// RequireAndVerifyClientCert: a client without a certificate that chains to ClientCAs must not
			// get anything granted, whatever it says at the HTTP level (valid Basic credentials included).
			if o.srvHonoured || o.srvErr == nil {
				return viol(p, "tls-client-auth", "client certificate %q (server requires one under its ClientCAs): request honoured, addr %v user %q err %v", p.TLSCert, o.srvAddr, o.srvUser, o.srvErr)
			}
			for _, code := range st {
				if code/100 == 2 {
					return viol(p, "tls-client-auth", "client certificate %q: the client was answered %v", p.TLSCert, st)
				}
			}
			if o.cliOK || (p.Peer == "repo" && o.cliErr == nil) {
				return viol(p, "client-error", "client certificate %q was not accepted but the client believes the request was granted (cliErr=%v rawErr=%v)", p.TLSCert, o.cliErr, o.rawErr)
			}
			return ""
		}
		var want []int // -400: 400 or nothing
		granted := false
		for _, c := range p.Pres {
			if p.SrvAuth && !inTable(p.Users, c) {
				want = append(want, 407)
				continue
			}
			granted = true
			if p.SrvAuth {
				user = c.U
			}
			break
		}
		if granted && !p.SrvAuth && p.TLS && p.TLSReq {
			// documented in TLSProxyServer.HandleStream: without Basic authentication a verified client
			// certificate names the user (the leaf's common name)
			user = p.TLSCN
		}
		final := 0
		switch {
		case !granted:
		case p.BadTarget != "":
			final = -400
		case p.Abort:
			honoured, final = true, 502
		default:
			honoured, final = true, 200
		}
		// compare status sequence
		bad := false
		if p.BadTarget != "" {
			// RFC 9110 §9.3.6: MUST reject, "typically" with 400. A request line that does not parse at
			// all may be rejected before authentication and without a response.
			for _, s := range st {
				if s != 400 && s != 407 {
					return viol(p, "bad-target", "request-target %q: server sent statuses %v, want only 400/407", p.BadTarget, st)
				}
			}
			if o.srvErr == nil || o.srvHonoured {
				return viol(p, "bad-target", "request-target %q was honoured (addr %v)", p.BadTarget, o.srvAddr)
			}
		} else if closedEarly := (len(st) < len(want) || (len(st) == len(want) && len(want) > 0 && final != 0)) && equalInts(st, want[:len(st)]) && o.srvErr != nil && !o.srvHonoured; closedEarly {
			// The server gave up on the connection after some refused attempts instead of answering the
			// next one: acceptable (a server MAY close at any time), as long as nothing was granted.
			honoured, user = false, ""
			o.closedEarly = true
		} else if final == 0 {
			bad = !equalInts(st, want)
		} else {
			switch {
			case len(st) == len(want) && final == -400: // rejected without any response
			case len(st) != len(want)+1 || !equalInts(st[:len(want)], want):
				bad = true
			case final == -400:
				bad = st[len(want)] != 400
			case final == 200:
				bad = st[len(want)]/100 != 2
			default:
				bad = st[len(want)] != final
			}
		}
		if bad {
			// a 407 too many or too few is a wrong authentication verdict; anything else a wrong status
			sig := "status"
			n407 := 0
			for _, s := range st {
				if s == 407 {
					n407++
				}
			}
			if n407 != len(want) || len(st) < len(want) {
				sig = "auth-gate"
			}
			return viol(p, sig, "server sent statuses %v; want %v then %d (0: nothing more, -400: 400 or nothing, 200: any 2xx)", st, want, final)
		}
		if !honoured && (o.srvErr == nil || o.srvHonoured) {
			sig := "auth-gate"
			if granted {
				sig = "bad-target"
			}
			return viol(p, sig, "request honoured (addr %v user %q) although it had to be refused", o.srvAddr, o.srvUser)
		}
		// what the client was told
		if p.Peer == "raw" {
			if !equalInts(o.rawHTTP, st) && !(o.rawErr != nil && equalInts(o.rawHTTP, st[:min(len(st), len(o.rawHTTP))])) {
				return viol(p, "handshake-bytes", "harness client decoded statuses %v (err %v), wire says %v", o.rawHTTP, o.rawErr, st)
			}
		} else {
			last := 0
			if len(st) > 0 {
				last = st[len(st)-1]
			}
			var ce httpproxy.ConnectNonSuccessfulResponseError
			switch {
			case last/100 == 2 && o.cliErr != nil:
				return viol(p, "client-error", "server replied %d but the client reports %v", last, o.cliErr)
			case last/100 != 2 && (o.cliErr == nil || (errors.As(o.cliErr, &ce) && ce.StatusCode != last)):
				return viol(p, "client-error", "server replied %v but the client reports %v", st, o.cliErr)
			}
		}
	}

	// what the server extracted
	if honoured {
		if !o.srvHonoured || o.srvErr != nil {
			return viol(p, "not-honoured", "a valid request was not handed to the relay: err=%v", o.srvErr)
		}
		if !p.Target.matches(o.srvAddr) {
			return viol(p, "addr-mismatch", "server extracted address %v (domain=%v), client asked for %s", o.srvAddr, o.srvAddr.IsDomain(), p.Target)
		}
		if o.srvUser != user {
			return viol(p, "username-mismatch", "server extracted user %q, want %q", clip(o.srvUser, 40), clip(user, 40))
		}
		if o.srvActErr != nil {
			return viol(p, "proceed-abort-error", "Proceed/Abort failed on a healthy connection: %v", o.srvActErr)
		}
	} else if o.srvHonoured {
		return viol(p, "honoured-unexpectedly", "server handed a request (addr %v user %q) to the relay; the handshake should have ended before", o.srvAddr, o.srvUser)
	}

	// transparency after the handshake
	if honoured && !p.Abort {
		if !o.cliOK || !o.cliPumped {
			return viol(p, "client-error", "request was granted but the client did not get a stream: cliErr=%v rawErr=%v raw5=%+v rawHTTP=%v", o.cliErr, o.rawErr, o.raw5, o.rawHTTP)
		}
		got := append(append([]byte(nil), o.srvPayload...), o.srvRecv...)
		if !bytes.Equal(got, up) || o.srvRecvErr != nil {
			return viol(p, "stream-c2s", "client->server bytes differ: %s; read error %v", diffAt(got, up), o.srvRecvErr)
		}
		if !bytes.Equal(o.cliRecv, down) || o.cliRecvErr != nil {
			return viol(p, "stream-s2c", "server->client bytes differ: %s; read error %v; readAhead=%v", diffAt(o.cliRecv, down), o.cliRecvErr, o.readAhead)
		}
	} else if o.cliOK && !(p.Proto == "socks5" && p.Cmd == 3 && p.EnableUDP) && p.Proto != "ssnone" {
		return viol(p, "client-error", "client believes the request was granted (abort=%v honoured=%v)", p.Abort, honoured)
	}
	return ""
}

func equalInts(a, b []int) bool {
	if len(a) != len(b) {
		return false
	}
	for i := range a {
		if a[i] != b[i] {
			return false
		}
	}
	return true
}

// ---------------------------------------------------------------------------------------------
// the property

var recHS = ev.New("C07", "handshake",
	"rapid: protocol {socks5,http,ssnone} x peer {repo client code, harness RFC client} x server auth x user table (0..4 users, names related by prefix / shared "+
		"password / name=password) x presented credentials (exact, other user's password, swapped, affixes, bit flip, fresh, lengths 1 and 255, all byte values, none) "+
		"x target (IPv4, IPv6, IPv4-mapped, domain 1..255 bytes, boundary and random ports) x method list (1..255, server's method at any position or absent; the harness client optionally pushes its request after a refusal) "+
		"x retry storms (raw HTTP: k in {1,2,5..12,16,25,40} consecutive refused CONNECTs on one connection - missing field, wrong password, unknown user, malformed token - optionally followed by a correct one; raw SOCKS5: further RFC 1929 messages after a refusal) "+
		"x early application bytes behind the SOCKS5 request (same write / own write, before the reply) x dial-context cancellation for repo clients (before, during the k-th client write, after return) "+
		"x command (CONNECT, UDP ASSOCIATE, unsupported) x TCP/UDP enablement x Proceed/Abort(any code) x per-direction read fragmentation x post-handshake traffic "+
		"both ways (server-first data optionally in the same segment as the success reply). Oracle: membership in the user table, RFC 1928/1929/9110 reply tables "+
		"decoded from the server's wire bytes by the harness, byte-exact stream comparison. Non-trivial: domain >= 64 bytes, or server auth enabled, or a read limit "+
		"small enough to cut fields (<=3 bytes binary, <=7 bytes HTTP). Distinct key: protocol|peer|auth|credential class+verdict|address class|command|outcome|fragmentation class|glue").
	Require("proto:socks5", "proto:http", "proto:ssnone", "peer:raw", "peer:repo", "auth:on", "auth:off",
		"cred:accepted", "cred:wrong-password", "cred:unknown-user", "cred:affix", "cred:len255", "cred:len1", "cred:anybytes",
		"addr:v4", "addr:v6", "addr:mapped", "addr:domain", "dom>=64", "dom=255", "dom=1", "port=0", "port=65535",
		"cmd:udp", "cmd:unsupported", "cmd:disabled", "method:absent", "pushy-after-refusal", "early:same-write", "early:own-write", "early:granted-stream", "ssnone:payload-with-address",
		"ctx:before", "ctx:during-then-granted", "ctx:after-return-stream", "outcome:abort", "outcome:proceed",
		"abort:unknown-code", "frag:midfield", "glue", "http:readahead", "http:retry-after-407", "stream:both-ways",
		"storm:k>=10", "storm:k>=25", "storm:then-correct-granted", "cred:malformed-token", "socks5:auth-retry-after-refusal",
		// round 6
		"tls:repo-client", "tls:harness-client", "tls:1.2", "tls:1.3", "tls:granted", "tls:req-valid-granted", "tls:user-from-cn", "tls:basic-user-over-cn",
		"tls:cert-missing-refused", "tls:cert-untrusted-refused", "tls:cert-refused-despite-valid-basic", "tls:auth-on-granted", "tls:auth-on-refused",
		"tls:valid-cert-but-bad-basic-refused", "tls:stream-both-ways", "tls:abort", "tls:plaintext-cut", "auth:on-empty-table",
		"greeting:dup+stream", "greeting:first-of-many+stream", "greeting:middle+stream", "greeting:last-of-many+stream", "greeting:255+stream",
		"s5:pipelined-one-write", "s5:pipelined-own-writes", "s5:pipelined-granted-stream", "s5:pipelined-auth-granted-stream", "s5:pipelined-refused",
		"http:v6-lead-letter", "http:v6-lead-digit", "http:v6-lead-colon", "http:name-lead-digit", "http:name-lead-hexletter",
		"http:v6-spell:expanded", "http:v6-spell:nozip", "http:v6-spell:upper", "http:v6-spell:v4tail",
		"http:hostform:origin", "http:hostform:absolute", "http:host-noport:domain", "http:host-noport:v4", "http:host-noport:v6", "http:host-port:v6")

func lenClass(n int) string {
	switch {
	case n == 1:
		return "1"
	case n < 64:
		return "<64"
	case n < 255:
		return "64..254"
	default:
		return "255"
	}
}

func minPositive(pl []int) int {
	m := 0
	for _, v := range pl {
		if v > 0 && (m == 0 || v < m) {
			m = v
		}
	}
	return m
}

func classify(p plan, o *obs) (key string, nontrivial bool, labels []string) {
	add := func(l string) { labels = append(labels, l) }
	add("proto:" + p.Proto)
	add("peer:" + p.Peer)
	if p.SrvAuth {
		add("auth:on")
	} else {
		add("auth:off")
	}
	if p.SrvAuth && len(p.Users) == 0 {
		add("auth:on-empty-table")
	}
	tlsKey := "plain"
	if p.TLS {
		tlsKey = fmt.Sprintf("tls/req=%v/cert=%s/12=%v", p.TLSReq, p.TLSCert, p.TLS12)
		add("tls")
		if p.Peer == "repo" {
			add("tls:repo-client")
		} else {
			add("tls:harness-client")
			switch o.tlsState.Version {
			case tls.VersionTLS12:
				add("tls:1.2")
			case tls.VersionTLS13:
				add("tls:1.3")
			}
		}
		n407 := 0
		for _, c := range p.Pres {
			if p.SrvAuth && !inTable(p.Users, c) {
				n407++
			}
		}
		switch {
		case p.tlsRefuses() && p.TLSCert == "":
			add("tls:cert-missing-refused")
			if grantableAtHTTP(p) {
				add("tls:cert-refused-despite-valid-basic")
			}
		case p.tlsRefuses():
			add("tls:cert-untrusted-refused")
			if grantableAtHTTP(p) {
				add("tls:cert-refused-despite-valid-basic")
			}
		case o.srvHonoured:
			add("tls:granted")
			if p.TLSReq {
				add("tls:req-valid-granted")
				if !p.SrvAuth {
					add("tls:user-from-cn")
				} else if o.srvUser != p.TLSCN {
					add("tls:basic-user-over-cn")
				}
			}
			if p.SrvAuth {
				add("tls:auth-on-granted")
			}
			if !p.Abort && len(o.srvRecv) > 0 && len(o.cliRecv) > 0 {
				add("tls:stream-both-ways")
			}
			if p.Abort {
				add("tls:abort")
			}
		case p.SrvAuth && n407 > 0:
			add("tls:auth-on-refused")
			if p.TLSReq && p.TLSCert == "valid" {
				add("tls:valid-cert-but-bad-basic-refused")
			}
		}
		if o.tlsCut {
			add("tls:plaintext-cut")
		}
	}
	credKey := ""
	if p.Storm > 0 {
		add("storm")
		if p.Storm >= 10 {
			add("storm:k>=10")
		}
		if p.Storm >= 25 {
			add("storm:k>=25")
		}
		n407 := 0
		for _, s := range o.rawHTTP {
			if s == 407 {
				n407++
			}
		}
		if n407 >= 10 {
			add("storm:ten-407-on-one-connection")
		}
		if len(p.Pres) > p.Storm && o.srvHonoured {
			add("storm:then-correct-granted")
		}
		if o.closedEarly {
			add("storm:closed-early")
		}
	}
	if len(o.raw5.Stage) > 0 && o.raw5.Retried > 0 {
		add("socks5:auth-retry-after-refusal")
	}
	for i, c := range p.Pres {
		if !p.SrvAuth {
			break
		}
		if p.Storm > 0 && i < p.Storm {
			if c.Bad {
				add("cred:malformed-token")
			}
			if i == 0 {
				credKey += fmt.Sprintf("storm%d,", p.Storm)
			}
			continue
		}
		switch {
		case c.None:
			add("cred:none")
			credKey += "n"
		case inTable(p.Users, c):
			add("cred:accepted")
			credKey += "a"
		default:
			known := false
			for _, u := range p.Users {
				known = known || u.U == c.U
			}
			if known {
				add("cred:wrong-password")
				credKey += "w"
			} else {
				add("cred:unknown-user")
				credKey += "u"
			}
		}
		if strings.HasSuffix(p.CredClass[i], "affix") {
			add("cred:affix")
		}
		credKey += ":" + p.CredClass[i] + ","
		if !c.None {
			if len(c.U) == 255 || len(c.P) == 255 {
				add("cred:len255")
			}
			if len(c.U) == 1 || len(c.P) == 1 {
				add("cred:len1")
			}
			for _, b := range []byte(c.U + c.P) {
				if b < 0x20 || b >= 0x7f {
					add("cred:anybytes")
					break
				}
			}
		}
	}
	if p.Proto == "http" && p.Peer == "raw" && len(o.rawHTTP) > 1 {
		add("http:retry-after-407")
	}
	add("addr:" + p.Target.Kind)
	addrKey := p.Target.Kind
	if p.Target.Kind == "domain" {
		n := len(p.Target.Domain)
		if n >= 64 {
			add("dom>=64")
		}
		if n == 255 {
			add("dom=255")
		}
		if n == 1 {
			add("dom=1")
		}
		addrKey += lenClass(n)
	}
	switch p.Target.Port {
	case 0:
		add("port=0")
		addrKey += "p0"
	case 65535:
		add("port=65535")
		addrKey += "pmax"
	}
	cmdKey := "connect"
	if p.Proto == "socks5" {
		var uc socks5.UnsupportedCommandError
		switch {
		case p.Cmd == 3 && p.EnableUDP:
			cmdKey = "udp"
			if errors.Is(o.srvErr, netio.ErrHandleStreamDone) {
				add("cmd:udp")
			}
		case p.Cmd != 1 && p.Cmd != 3:
			cmdKey = "unsupported"
			if errors.As(o.srvErr, &uc) {
				add("cmd:unsupported")
			}
		case (p.Cmd == 1 && !p.EnableTCP) || (p.Cmd == 3 && !p.EnableUDP):
			cmdKey = fmt.Sprintf("disabled%d", p.Cmd)
			if errors.As(o.srvErr, &uc) {
				add("cmd:disabled")
			}
		}
		if p.Peer == "raw" {
			if p.WantPos < 0 {
				add("method:absent")
				cmdKey += "|m-absent"
			} else {
				if len(p.Methods) == 255 && p.WantPos == 254 {
					add("method:last-of-255")
				}
				if n := len(p.Methods); n >= 3 && o.srvHonoured && !p.Abort {
					// the greeting shape was followed by a complete request and a byte-exact stream
					switch {
					case p.MethodDup > 0:
						add("greeting:dup+stream")
					case p.WantPos == 0:
						add("greeting:first-of-many+stream")
					case p.WantPos == n-1:
						add("greeting:last-of-many+stream")
					default:
						add("greeting:middle+stream")
					}
					if n == 255 {
						add("greeting:255+stream")
					}
				}
				if p.MethodDup > 0 {
					cmdKey += "|m-dup"
				}
				switch {
				case p.WantPos == 0:
					cmdKey += "|m-first"
				case p.WantPos == len(p.Methods)-1:
					cmdKey += "|m-last"
				default:
					cmdKey += "|m-mid"
				}
			}
		}
	}
	outKey := "refused"
	if o.raw5.Pushed {
		add("pushy-after-refusal")
		outKey = "refused+pushed"
	}
	if o.srvHonoured {
		if p.Abort {
			add("outcome:abort")
			outKey = fmt.Sprintf("abort%d", p.Code)
			if !isNamedCode(p.Code) {
				add("abort:unknown-code")
				outKey = "abort-unknown"
			}
		} else {
			add("outcome:proceed")
			outKey = "proceed"
			if len(o.srvRecv) > 0 && len(o.cliRecv) > 0 {
				add("stream:both-ways")
			}
		}
	}
	if o.raw5.EarlySent {
		if p.EarlyData == 1 {
			add("early:same-write")
		} else {
			add("early:own-write")
		}
		if o.srvHonoured && !p.Abort {
			add("early:granted-stream")
		}
		outKey += fmt.Sprintf("|early%d", p.EarlyData)
	}
	if p.Proto == "ssnone" && p.InitPayload > 0 {
		add("ssnone:payload-with-address")
	}
	if o.raw5.Pipelined > 0 {
		outKey += fmt.Sprintf("|pipe%d", p.Pipeline)
		if p.Pipeline == 1 {
			add("s5:pipelined-one-write")
		} else {
			add("s5:pipelined-own-writes")
		}
		switch {
		case o.srvHonoured && !p.Abort && len(o.srvRecv)+len(o.srvPayload) > 0:
			add("s5:pipelined-granted-stream")
			if p.SrvAuth {
				add("s5:pipelined-auth-granted-stream")
			}
		case o.raw5.Pushed:
			add("s5:pipelined-refused")
		}
	}
	if p.Proto == "http" && o.srvHonoured {
		// round 6: what kind of host text the server had to turn into an address
		host := p.Target.host()
		if p.Peer == "repo" {
			host = p.Target.connAddr().Host()
			if p.Target.Kind != "domain" && p.Target.Kind != "v4" {
				host = "[" + host + "]"
			}
		}
		lead := host[0]
		if lead == '[' {
			lead = host[1]
		}
		switch p.Target.Kind {
		case "domain":
			switch {
			case lead >= '0' && lead <= '9':
				add("http:name-lead-digit")
			case strings.IndexByte("abcdefABCDEF", lead) >= 0:
				add("http:name-lead-hexletter")
			}
		case "v6", "mapped":
			switch {
			case lead == ':':
				add("http:v6-lead-colon")
			case lead >= '0' && lead <= '9':
				add("http:v6-lead-digit")
			default:
				add("http:v6-lead-letter")
			}
			if p.Peer == "raw" && p.Target.Spell != "" {
				add("http:v6-spell:" + p.Target.Spell)
			}
		}
		if p.HostForm != "" {
			add("http:hostform:" + p.HostForm)
			outKey += "|host-" + p.HostForm
			if p.Target.NoPort {
				add("http:host-noport:" + p.Target.Kind)
				outKey += "-noport"
			} else {
				add("http:host-port:" + p.Target.Kind)
			}
		}
	}
	if p.Cancel != "" {
		outKey += "|ctx-" + p.Cancel
		switch {
		case p.Cancel == "before":
			add("ctx:before")
		case o.cancelDuring && o.srvHonoured && !p.Abort:
			add("ctx:during-then-granted") // the proxy answered success to a client whose context was already cancelled
		case o.cancelDuring:
			add("ctx:during")
		case o.cliOK && len(o.srvRecv) > 0:
			add("ctx:after-return-stream") // cancelled only after DialStream returned; the connection carried client bytes afterwards
		}
	}
	if p.BadTarget != "" {
		add("http:bad-target")
		outKey += "|badtarget"
	}
	lim := 3
	if p.Proto == "http" {
		lim = 7
	}
	fragKey := ""
	mid := false
	if m := minPositive(p.SrvPlan); m > 0 && m <= lim {
		mid = true
		fragKey += "s-cut"
	}
	if m := minPositive(p.CliPlan); m > 0 && m <= lim && p.Proto != "ssnone" {
		mid = true
		fragKey += "c-cut"
	}
	if p.TLS {
		// under TLS the transport plans cut records, not HTTP fields; fields are cut only where the
		// harness client wrote its request in small records
		mid = o.tlsCut
		if fragKey != "" {
			fragKey = "rec-" + fragKey
		}
		if o.tlsCut {
			fragKey += "+plaincut"
		}
	}
	if mid {
		add("frag:midfield")
	}
	if p.SrvCoalesce || p.CliCoalesce {
		fragKey += "+co"
	}
	if p.Glue && o.srvHonoured {
		add("glue")
		fragKey += "+glue"
	}
	if o.readAhead {
		add("http:readahead")
		fragKey += "+ra"
	}
	nontrivial = mid || p.SrvAuth || (p.Target.Kind == "domain" && len(p.Target.Domain) >= 64)
	key = strings.Join([]string{p.Proto, p.Peer, fmt.Sprint(p.SrvAuth), tlsKey, credKey, addrKey, cmdKey, outKey, fragKey}, "|")
	return
}

// grantableAtHTTP: some presented credential would be accepted by the HTTP layer (or none is needed).
func grantableAtHTTP(p plan) bool {
	if !p.SrvAuth {
		return true
	}
	for _, c := range p.Pres {
		if inTable(p.Users, c) {
			return true
		}
	}
	return false
}

func TestHandshake(t *testing.T) {
	rapid.Check(t, func(rt *rapid.T) {
		p := genPlan(rt)
		srv, err := newServer(p)
		if err != nil {
			rt.Fatalf("SIG=C07/%s/config-rejected a valid configuration was rejected: %v\n  plan: %s", p.Proto, err, p.describe())
		}
		var (
			o *obs
			v string
		)
		if _, err := p.Target.connAddrErr(); err != nil {
			v = viol(p, "addr-rejected", "conn.AddrFromDomainPort refused a %d-byte domain: %v", len(p.Target.Domain), err)
		} else {
			synctest.Test(t, func(*testing.T) {
				o = run(p, srv)
				v = check(p, o)
			})
		}
		if v != "" {
			sig := strings.TrimPrefix(strings.SplitN(v, " ", 2)[0], "SIG=")
			if ev.IsKnown("C07", sig) {
				recHS.KnownHit(sig)
				return
			}
			rt.Fatalf("%s", v)
		}
		key, nt, labels := classify(p, o)
		recHS.Case(key, nt, labels...)
		if nt {
			recHS.Sample(map[string]any{"key": key, "target": p.Target.String(), "presented": clip(fmt.Sprint(p.Pres), 200), "users": len(p.Users),
				"srvPlan": p.SrvPlan, "cliPlan": p.CliPlan, "up": p.InitPayload + sum(p.C2S), "down": sum(p.S2C)})
		}
	})
}

func sum(a []int) int {
	s := 0
	for _, v := range a {
		s += v
	}
	return s
}
