package c07

// TestInterleaved: several sessions of the *same* client and server objects inside one case, as the
// service runs them (one netio.StreamClient / StreamServer per configured client / server, one
// DialStream / HandleStream per connection). The handshake of a later session runs between the
// handshake of an earlier session and that session's first application read, so state that leaks
// from one session into another (a pooled or shared buffer, a field on the client object) breaks
// the earlier session's byte ledger. Every session is judged by the single-session oracle (check),
// independently of the others.

import (
	"fmt"
	"os"
	"runtime"
	"strconv"
	"strings"
	"testing"
	"testing/synctest"

	"pgregory.net/rapid"

	"verif/internal/ev"
)

type step struct {
	Handshake bool // true: start session I and run its handshake; false: let session I read and write
	I         int
}

type multiPlan struct {
	Base  plan
	Sess  []plan
	Steps []step
}

func genInterleaved(rt *rapid.T) multiPlan {
	var m multiPlan
	b := genPlanOf(rt, []string{"http", "http", "http", "socks5", "ssnone"})
	b.Cmd, b.EnableTCP, b.BadTarget, b.Glue = 1, true, "", false
	// round-6 dimensions of the single-session generator that do not belong here: TLS (its own client
	// object state is covered per session by TestHandshake), non-CONNECT requests (always aborted)
	b.TLS, b.TLSReq, b.TLSCert, b.TLSCN, b.TLS12, b.HostForm, b.HostVerb = false, false, "", "", false, "", ""
	want := byte(0)
	if b.SrvAuth {
		want = 2
	}
	// b.Pres / b.CredClass become the configuration of the shared repository client objects;
	// rawPres is what harness-client sessions present.
	rawPres, rawClass := b.Pres, b.CredClass
	if b.Proto != "ssnone" {
		if b.Peer == "raw" {
			b.CliAuth = !rawPres[0].None && rapid.Bool().Draw(rt, "cliauth")
		}
		// most cases describe sessions that have to be granted
		if b.SrvAuth && rapid.IntRange(0, 5).Draw(rt, "force-grant") > 0 {
			if len(b.Users) == 0 {
				b.Users = []cred{{U: "alice", P: "wonderland"}}
			}
			u := b.Users[rapid.IntRange(0, len(b.Users)-1).Draw(rt, "grant-user")]
			b.CliAuth, rawPres, rawClass = true, []cred{u}, []string{"exact"}
		}
		if !b.SrvAuth && rapid.IntRange(0, 3).Draw(rt, "no-cliauth") > 0 {
			b.CliAuth = false
		}
		if b.CliAuth && !rawPres[0].None {
			b.Pres, b.CredClass = rawPres[:1], rawClass[:1]
		} else {
			b.CliAuth, b.Pres, b.CredClass = false, []cred{{None: true}}, []string{"none"}
		}
	}
	b.Peer = "repo"
	m.Base = b
	n := rapid.IntRange(2, 3).Draw(rt, "sessions")
	for i := 0; i < n; i++ {
		p := b
		p.Peer = "repo"
		if rapid.IntRange(0, 4).Draw(rt, "raw-session") == 0 {
			p.Peer = "raw"
			if p.Proto != "ssnone" {
				p.Pres, p.CredClass = rawPres, rawClass
			}
			if p.Proto == "socks5" {
				if p.Pres[0].None {
					p.Pres, p.CredClass = []cred{{U: "nobody", P: "nothing"}}, []string{"fresh"}
				}
				p.Methods, p.WantPos = []byte{1, want}, 1
			}
			if p.Variant.Scheme == "" {
				p.Variant = httpVariant{Scheme: "Basic", Field: "Proxy-Authorization"}
			}
		}
		p.Target = genTarget(rt, p.Proto)
		p.Abort, p.Code = false, 0
		if rapid.IntRange(0, 5).Draw(rt, "abort") == 0 {
			p.Abort, p.Code = true, rapid.SampledFrom(namedFailureCodes).Draw(rt, "code")
		}
		p.SrvPlan, p.SrvCoalesce = genFrag(rt, "srv")
		p.CliPlan, p.CliCoalesce = genFrag(rt, "cli")
		p.InitPayload = 0
		if rapid.Bool().Draw(rt, "init-mode") {
			p.InitPayload = rapid.IntRange(1, 3000).Draw(rt, "init")
		}
		p.C2S = genChunks(rt, "c2s", 3)
		p.S2C = genChunks(rt, "s2c", 3)
		if rapid.IntRange(0, 3).Draw(rt, "server-first") > 0 {
			p.S2C = append([]int{rapid.IntRange(1, 600).Draw(rt, "first-down")}, p.S2C...)
		}
		p.Seed = rapid.Uint64().Draw(rt, "traffic-seed")
		p.CliBuf = rapid.SampledFrom([]int{4096, 1, 17, 65536}).Draw(rt, "clibuf")
		p.SrvBuf = rapid.SampledFrom([]int{4096, 1, 17, 65536}).Draw(rt, "srvbuf")
		p.CliWriteTo = rapid.Bool().Draw(rt, "cliwriteto")
		if sum(p.S2C) > 0 && p.grantExpected() && !p.Abort && p.Proto != "ssnone" {
			p.Glue = rapid.IntRange(0, 3).Draw(rt, "glue") > 0
		}
		m.Sess = append(m.Sess, p)
	}
	// schedule: handshakes in session order, each session's traffic any time after its handshake.
	// Choice 0 is always "next handshake", so shrinking moves towards maximal interleaving.
	next := 0
	var open []int
	for next < n || len(open) > 0 {
		var allowed []step
		if next < n {
			allowed = append(allowed, step{true, next})
		}
		for _, i := range open {
			allowed = append(allowed, step{false, i})
		}
		st := allowed[rapid.IntRange(0, len(allowed)-1).Draw(rt, "step")]
		m.Steps = append(m.Steps, st)
		if st.Handshake {
			open = append(open, next)
			next++
		} else {
			for k, i := range open {
				if i == st.I {
					open = append(open[:k:k], open[k+1:]...)
					break
				}
			}
		}
	}
	return m
}

func (m multiPlan) schedule() string {
	var sb strings.Builder
	for _, st := range m.Steps {
		if st.Handshake {
			fmt.Fprintf(&sb, "H%d ", st.I)
		} else {
			fmt.Fprintf(&sb, "R%d ", st.I)
		}
	}
	return strings.TrimSpace(sb.String())
}

var recIL = ev.New("C07", "interleaved",
	"rapid: one server object and one set of repository client objects (http x3, socks5, ssnone; auth on/off) serve 2..3 sessions inside one case; per session: "+
		"peer (repo 4/5, harness 1/5), target, Proceed/Abort, fragmentation, traffic both ways, server-first data glued to the success reply (3/4 when possible); "+
		"schedule: handshakes in order, every session's application traffic at a drawn point after its handshake, with synctest.Wait between steps (GOMAXPROCS 1 by default so "+
		"that per-P caches such as sync.Pool behave deterministically). Oracle: the single-session oracle per session, independently. Non-trivial: some handshake runs between "+
		"another session's handshake and its first application read. Distinct key: protocol|auth|peers|schedule|glue and read-ahead flags|outcomes").
	Require("interleave:second-handshake-before-glued-read", "interleave:readahead-then-same-client-handshake", "sessions:3", "proto:http", "proto:socks5", "proto:ssnone")

func TestInterleaved(t *testing.T) {
	procs := 1
	if v, err := strconv.Atoi(os.Getenv("VERIF_C07_PROCS")); err == nil {
		procs = v
	}
	if procs > 0 {
		defer runtime.GOMAXPROCS(runtime.GOMAXPROCS(procs))
	}
	rapid.Check(t, func(rt *rapid.T) {
		m := genInterleaved(rt)
		srv, err := newServer(m.Base)
		if err != nil {
			rt.Fatalf("SIG=C07/%s/config-rejected a valid configuration was rejected: %v\n  plan: %s", m.Base.Proto, err, m.Base.describe())
		}
		for _, p := range m.Sess {
			if _, err := p.Target.connAddrErr(); err != nil {
				rt.Fatalf("%s", viol(p, "addr-rejected", "conn.AddrFromDomainPort refused a %d-byte domain: %v", len(p.Target.Domain), err))
			}
		}
		var (
			obsv   = make([]*obs, len(m.Sess))
			viols  = make([]string, len(m.Sess))
			cfgErr error
		)
		synctest.Test(t, func(*testing.T) {
			shared, err := newClients(m.Base)
			if err != nil {
				cfgErr = err
				return
			}
			ss := make([]*session, len(m.Sess))
			for _, st := range m.Steps {
				if st.Handshake {
					ss[st.I] = start(m.Sess[st.I], srv, shared, true)
					synctest.Wait()
					ss[st.I].handshakeSettled()
				} else {
					ss[st.I].release()
					synctest.Wait()
				}
			}
			for i, s := range ss {
				obsv[i] = s.finish()
				viols[i] = check(m.Sess[i], obsv[i])
			}
		})
		if cfgErr != nil {
			rt.Fatalf("SIG=C07/%s/config-rejected %v\n  plan: %s", m.Base.Proto, cfgErr, m.Base.describe())
		}
		for i, v := range viols {
			if v == "" {
				continue
			}
			sig := strings.TrimPrefix(strings.SplitN(v, " ", 2)[0], "SIG=") + "/interleaved"
			if ev.IsKnown("C07", sig) {
				recIL.KnownHit(sig)
				return
			}
			first, rest, _ := strings.Cut(v, " ")
			rt.Fatalf("%s/interleaved session %d of %d, schedule [%s]: %s", first, i, len(m.Sess), m.schedule(), rest)
		}

		// evidence
		pos := func(h bool, i int) int {
			for k, st := range m.Steps {
				if st.Handshake == h && st.I == i {
					return k
				}
			}
			return -1
		}
		labels := []string{"proto:" + m.Base.Proto, fmt.Sprintf("sessions:%d", len(m.Sess))}
		seen := map[string]bool{}
		add := func(l string) {
			if !seen[l] {
				seen[l] = true
				labels = append(labels, l)
			}
		}
		inter := false
		flags := ""
		for x := range m.Sess {
			px, ox := m.Sess[x], obsv[x]
			if px.Glue && ox.srvHonoured {
				flags += fmt.Sprintf("g%d", x)
			}
			if ox.readAhead {
				flags += fmt.Sprintf("a%d", x)
			}
			if ox.srvHonoured && !px.Abort {
				flags += fmt.Sprintf("p%d", x)
			}
			for y := range m.Sess {
				hy := pos(true, y)
				if y == x || hy < pos(true, x) || hy > pos(false, x) {
					continue
				}
				inter = true
				add("interleave:handshake-inside-open-session")
				if px.Glue && ox.srvHonoured && !px.Abort {
					add("interleave:second-handshake-before-glued-read")
				}
				if ox.readAhead && m.Sess[y].Peer == "repo" {
					add("interleave:readahead-then-same-client-handshake")
				}
				if px.Peer == "repo" && m.Sess[y].Peer == "repo" {
					add("interleave:same-client-object")
				}
			}
		}
		if m.Base.SrvAuth {
			add("auth:on")
		}
		peers := ""
		for _, p := range m.Sess {
			peers += p.Peer[:1]
		}
		key := strings.Join([]string{m.Base.Proto, fmt.Sprint(m.Base.SrvAuth), peers, m.schedule(), flags}, "|")
		recIL.Case(key, inter, labels...)
		if inter {
			recIL.Sample(map[string]any{"key": key, "schedule": m.schedule(), "down": []int{sum(m.Sess[0].S2C), sum(m.Sess[1].S2C)}})
		}
	})
}
