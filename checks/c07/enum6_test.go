package c07

// Round 6: two more bounded-exhaustive companions of TestHandshake. Like the others they only
// enumerate plans; execution (run) and judgement (check) are the single-session runner and oracle.

import (
	"fmt"
	"net/netip"
	"strings"
	"testing"

	"verif/internal/ev"
)

// ---------------------------------------------------------------------------------------------
// HTTP proxy: {plain, TLS} x Basic authentication x client-certificate policy x client

var recTLS = ev.New("C07", "tls-matrix",
	"bounded-exhaustive: HTTP proxy transport {plain, TLS, TLS with an unrequested client certificate configured, RequireAndVerifyClientCert with a valid (leaf+intermediate under ClientCAs) / "+
		"missing / untrusted (same names, other keys) client certificate} x Basic authentication {off, one user, three users (one of them named like the certificate), on with an empty table} x "+
		"presented credentials {exact, wrong password, unknown user, another user's password, none} x client {repository ProxyClient (UseTLS, RootCAs, ServerName, certificate), harness crypto/tls client "+
		"TLS 1.3, harness client TLS 1.2} x {Proceed with traffic both ways, Abort} x certificate common name {carol, first configured user's name, empty}; transport fragmentation cycles through "+
		"whole frames / 1-byte dribble / 2,3,5. Oracle: the single-session oracle (Basic gate by table membership, client-certificate gate, user = Basic user, else the certificate's common name when "+
		"certificates are required, else empty). Non-trivial: TLS or authentication enabled; distinct = every tuple").
	Require("plain", "tls", "tls:req-valid", "tls:req-missing-refused", "tls:req-untrusted-refused", "tls:refused-despite-valid-basic", "auth:on-empty-table", "auth:three-users",
		"user:from-cert-cn", "user:empty-cn", "user:basic-over-cert", "user:basic-named-like-cert", "granted", "granted:stream", "refused-407", "valid-cert-bad-basic-407",
		"peer:repo", "peer:raw-tls13", "peer:raw-tls12", "abort-502")

func TestTLSMatrix(t *testing.T) {
	shard, shards := shardOf()
	thePKI()
	type mode struct {
		name     string
		tls, req bool
		cert     string
	}
	modes := []mode{{"plain", false, false, ""}, {"tls", true, false, ""}, {"tls+unasked-cert", true, false, "valid"},
		{"req+valid", true, true, "valid"}, {"req+missing", true, true, ""}, {"req+untrusted", true, true, "untrusted"}}
	tables := map[string][]cred{
		"off":   nil,
		"one":   {{U: "alice", P: "wonderland"}},
		"three": {{U: "alice", P: "wonderland"}, {U: "carol", P: "christmas"}, {U: "bob", P: "wonderland"}},
		"empty": {},
	}
	idx := 0
	for _, m := range modes {
		for _, auth := range []string{"off", "one", "three", "empty"} {
			users := tables[auth]
			for _, peer := range []string{"repo", "raw13", "raw12"} {
				if !m.tls && peer == "raw12" {
					continue
				}
				for _, credClass := range []string{"exact", "exact-last", "wrong-password", "unknown-user", "other-users-password", "none"} {
					var c cred
					switch {
					case credClass == "none":
						c = cred{None: true}
					case credClass == "unknown-user":
						c = cred{U: "mallory", P: "wonderland"}
					case len(users) == 0:
						continue
					case credClass == "exact":
						c = users[0]
					case credClass == "exact-last":
						c = users[len(users)-1]
					case credClass == "wrong-password":
						c = cred{U: users[0].U, P: users[0].P + "x"}
					default:
						if len(users) < 2 {
							continue
						}
						c = cred{U: users[0].U, P: users[1].P}
					}
					cns := []string{"carol"}
					if m.cert != "" {
						cns = append(cns, "")
						if len(users) > 0 {
							cns = append(cns, users[0].U)
						}
					}
					for _, cn := range cns {
						for _, abort := range []bool{false, true} {
							idx++
							if idx%shards != shard {
								continue
							}
							p := basePlan("http", strings.TrimRight(peer, "123"))
							p.TLS, p.TLSReq, p.TLSCert, p.TLS12 = m.tls, m.req, m.cert, peer == "raw12"
							p.TLSName = tlsServerNames[idx%len(tlsServerNames)]
							p.TLSFunc = idx%2 == 0
							if m.cert != "" {
								p.TLSCN = cn
							}
							p.SrvAuth, p.Users = auth != "off", users
							p.Pres, p.CredClass = []cred{c}, []string{credClass}
							p.CliAuth = !c.None
							p.Abort, p.Code = abort, 111
							p.InitPayload, p.C2S, p.S2C = idx%3, []int{7}, []int{11, 2}
							switch idx % 3 {
							case 1:
								p.SrvPlan, p.CliPlan = []int{1}, []int{1}
							case 2:
								p.SrvPlan, p.CliPlan = []int{2, 3, 5}, []int{3, 2}
							}
							o, v := runPlan(t, p)
							if failOrKnown(t, recTLS, v) {
								continue
							}
							wantGrant := !p.tlsRefuses() && (!p.SrvAuth || inTable(users, c))
							if o.srvHonoured != wantGrant {
								t.Fatalf("harness: honoured=%v, the enumeration expects %v: %s", o.srvHonoured, wantGrant, p.describe())
							}
							labels := []string{"peer:" + map[string]string{"repo": "repo", "raw13": "raw-tls13", "raw12": "raw-tls12"}[peer]}
							if !m.tls {
								labels[0] = "peer:" + p.Peer + "-plain"
							}
							add := func(l string) { labels = append(labels, l) }
							if m.tls {
								add("tls")
							} else {
								add("plain")
							}
							switch auth {
							case "empty":
								add("auth:on-empty-table")
							case "three":
								add("auth:three-users")
							}
							switch {
							case p.tlsRefuses():
								add("tls:req-" + map[string]string{"": "missing", "untrusted": "untrusted"}[m.cert] + "-refused")
								if !p.SrvAuth || inTable(users, c) {
									add("tls:refused-despite-valid-basic")
								}
							case wantGrant:
								add("granted")
								if m.req {
									add("tls:req-valid")
								}
								switch {
								case m.req && !p.SrvAuth && cn == "":
									add("user:empty-cn")
								case m.req && !p.SrvAuth:
									add("user:from-cert-cn")
								case m.req && o.srvUser != cn:
									add("user:basic-over-cert")
								case m.req:
									add("user:basic-named-like-cert")
								}
								if abort {
									add("abort-502")
								} else if len(o.cliRecv) == 13 && len(o.srvPayload)+len(o.srvRecv) == 7+p.InitPayload {
									add("granted:stream")
								}
							default:
								add("refused-407")
								if m.req {
									add("valid-cert-bad-basic-407")
								}
							}
							recTLS.Case(fmt.Sprintf("%s|%s|%s|%s|%q|%v", m.name, auth, peer, credClass, cn, abort), m.tls || p.SrvAuth, labels...)
						}
					}
				}
			}
		}
	}
	recTLS.Exhaustive(true)
}

// ---------------------------------------------------------------------------------------------
// HTTP: how the target is spelled, in CONNECT's authority-form and in the Host forms

var recForms = ev.New("C07", "target-forms",
	"bounded-exhaustive: HTTP targets spelled by the harness client: IPv6 literals with every leading hex digit 0..f (two shapes each) plus the literals people type (fd00::1, fe80::1, ff02::1, "+
		"abcd::, ::1, 2001:db8::1, ::, IPv4-mapped ...) in five spellings (RFC 5952, four-digit groups, no zero compression, upper case, dotted-quad tail); IPv4 literals with every leading digit; "+
		"host names beginning with every digit and letter (bare, hex-looking, dotted, the literal look-alikes) x request form {CONNECT [h]:port, Host h:port, Host h, absolute URI with and without "+
		"port} x {repository client (CONNECT only), harness client} x Basic auth off / on. Oracle: the extracted address is IP-typed for literals and equals the address asked for (after Unmap), "+
		"is a byte-identical domain otherwise, port as given or the documented default 80. Non-trivial: always (every case is a boundary spelling); distinct = spelled host, form, peer").
	Require("v6-lead:0", "v6-lead:1", "v6-lead:2", "v6-lead:3", "v6-lead:4", "v6-lead:5", "v6-lead:6", "v6-lead:7", "v6-lead:8", "v6-lead:9",
		"v6-lead:a", "v6-lead:b", "v6-lead:c", "v6-lead:d", "v6-lead:e", "v6-lead:f", "v6-lead::", "v6-lead:upper-letter",
		"form:connect", "form:origin", "form:absolute", "noport:v6", "noport:v4", "noport:domain", "port:v6", "peer:repo", "peer:raw",
		"name-lead:digit", "name-lead:hexletter", "name-lead:other", "name:lookalike", "v4", "mapped", "auth:on")

func TestTargetForms(t *testing.T) {
	shard, shards := shardOf()
	var targets []target
	seen := map[string]bool{}
	addV6 := func(a netip.Addr) {
		kind := "v6"
		if a.Is4In6() {
			kind = "mapped"
		}
		for _, sp := range []string{"", "expanded", "nozip", "upper", "v4tail"} {
			tg := target{Kind: kind, IP: a, Spell: sp}
			if h := tg.host(); !seen[h] {
				seen[h] = true
				targets = append(targets, tg)
			}
		}
	}
	for nib := 0; nib < 16; nib++ {
		addV6(netip.AddrFrom16([16]byte{0: byte(nib)<<4 | 0x0d, 15: 1}))                                   // fd00::1, ed00::1, ... d00::1
		addV6(netip.AddrFrom16([16]byte{0: byte(nib) << 4, 1: byte(nib)<<4 | 1, 2: 0xab, 3: 0xcd, 14: 2})) // f0f1:abcd::200, ..., 1:abcd::200
	}
	for _, s := range namedV6 {
		addV6(netip.MustParseAddr(s))
	}
	addV6(netip.MustParseAddr("::ffff:1.2.3.4"))
	addV6(netip.MustParseAddr("::ffff:255.255.255.255"))
	for _, s := range []string{"0.0.0.0", "1.2.3.4", "2.0.0.2", "34.5.6.7", "4.4.4.4", "56.0.0.1", "6.6.6.6", "78.9.10.11", "8.8.8.8", "9.9.9.9", "10.0.0.1", "127.0.0.1", "192.0.2.1", "255.255.255.255"} {
		targets = append(targets, target{Kind: "v4", IP: netip.MustParseAddr(s)})
	}
	lookalike := map[string]bool{}
	for _, s := range literalLookalikes {
		lookalike[s] = true
		targets = append(targets, target{Kind: "domain", Domain: s})
	}
	for _, c := range "0123456789abcdefghijklmnopqrstuvwxyzABCDEFXYZ" {
		for _, suffix := range []string{"", "d00", "e80.example", "-1", "0.example.com", "00--1"} {
			name := string(c) + suffix
			if !lookalike[name] {
				targets = append(targets, target{Kind: "domain", Domain: name})
			}
		}
	}
	type form struct {
		peer, hostForm string
		noPort         bool
	}
	forms := []form{{"raw", "", false}, {"repo", "", false}, {"raw", "origin", false}, {"raw", "origin", true}, {"raw", "absolute", false}, {"raw", "absolute", true}}
	ports := []uint16{443, 80, 8080, 65535, 1, 0}
	idx := 0
	for _, tg := range targets {
		for _, f := range forms {
			if f.peer == "repo" && tg.Spell != "" {
				continue // the repository client spells addresses its own way
			}
			idx++
			if idx%shards != shard {
				continue
			}
			p := basePlan("http", f.peer)
			p.Target = tg
			p.Target.Port = ports[idx%len(ports)]
			if f.noPort {
				p.Target.NoPort, p.Target.Port = true, 80
			}
			p.HostForm = f.hostForm
			if f.hostForm != "" {
				p.HostVerb = []string{"GET", "HEAD", "OPTIONS"}[idx%3]
				p.Abort, p.Code = true, 113
			} else if idx%4 == 0 {
				p.Abort, p.Code = true, 111
			} else {
				p.C2S, p.S2C = []int{2}, []int{3}
			}
			if idx%2 == 0 {
				p.SrvAuth, p.CliAuth = true, true
				p.Users = []cred{{U: "alice", P: "wonderland"}}
				p.Pres, p.CredClass = []cred{p.Users[0]}, []string{"exact"}
			}
			if idx%5 == 0 {
				p.SrvPlan = []int{1}
			}
			o, v := runPlan(t, p)
			if failOrKnown(t, recForms, v) {
				continue
			}
			if !o.srvHonoured {
				t.Fatalf("harness: plan not honoured: %s", p.describe())
			}
			labels := []string{"peer:" + f.peer}
			add := func(l string) { labels = append(labels, l) }
			if f.hostForm == "" {
				add("form:connect")
			} else {
				add("form:" + f.hostForm)
			}
			if p.SrvAuth {
				add("auth:on")
			}
			host := p.Target.host()
			if f.peer == "repo" && tg.Kind != "domain" && tg.Kind != "v4" {
				host = "[" + p.Target.connAddr().Host() + "]"
			}
			switch tg.Kind {
			case "v6", "mapped":
				lead := host[1]
				switch {
				case lead >= 'A' && lead <= 'F':
					add("v6-lead:upper-letter")
				default:
					add("v6-lead:" + string(lead))
				}
				if tg.Kind == "mapped" {
					add("mapped")
				}
				if f.noPort {
					add("noport:v6")
				} else if f.hostForm != "" {
					add("port:v6")
				}
			case "v4":
				add("v4")
				if f.noPort {
					add("noport:v4")
				}
			default:
				lead := host[0]
				switch {
				case lead >= '0' && lead <= '9':
					add("name-lead:digit")
				case strings.IndexByte("abcdefABCDEF", lead) >= 0:
					add("name-lead:hexletter")
				default:
					add("name-lead:other")
				}
				if lookalike[tg.Domain] {
					add("name:lookalike")
				}
				if f.noPort {
					add("noport:domain")
				}
			}
			recForms.Case(fmt.Sprintf("%s|%s|%s|%v", host, f.peer, f.hostForm, f.noPort), true, labels...)
		}
	}
	recForms.Exhaustive(true)
	recForms.Extra("targets", len(targets))
}
