package c09

import (
	"fmt"
	"net/netip"
	"strings"
	"testing"

	"github.com/database64128/shadowsocks-go/router"

	"verif/internal/ev"
)

var recRegress = ev.New("C09", "port0-regression",
	"fixed replay of the shrunk finding: one route whose port criterion has 17 disjoint ranges (bit-set representation), plain and inverted, source side and destination side; "+
		"requests with port 0, 1, an inner port and 65535; oracle: port 0 is in no port set. Non-trivial: the request carries port 0")

// TestPort0Bitmap replays the minimal form of C09/port0-bitmap-panic without rapid.
func TestPort0Bitmap(t *testing.T) {
	var parts []string
	pm := &portModel{}
	for i := 0; i < 17; i++ {
		p := 1000 + 10*i
		parts = append(parts, fmt.Sprint(p))
		pm.set[p] = true
	}
	pm.finish()
	ranges := strings.Join(parts, ",")
	for _, side := range []string{"to", "from"} {
		for _, inv := range []bool{false, true} {
			g := &genCase{w: &world{servers: []string{"s0"}, tcp: map[string]bool{"c0": true, "c1": true}, udp: map[string]bool{"c0": true, "c1": true},
				dsets: map[string]*dsModel{}, psets: map[string]*psModel{}, defTCP: "client:c0", defUDP: "client:c0"},
				files: map[string][]byte{}, labels: map[string]bool{}}
			g.cfg.DefaultTCPClientName, g.cfg.DefaultUDPClientName = "c0", "c0"
			g.cfg.Routes = []router.RouteConfig{{Name: "many-ports", Client: "c1"}}
			rm := routeModel{rc: &g.cfg.Routes[0]}
			if side == "to" {
				g.cfg.Routes[0].ToPortRanges, g.cfg.Routes[0].InvertToPorts, rm.toPort = ranges, inv, pm
			} else {
				g.cfg.Routes[0].FromPortRanges, g.cfg.Routes[0].InvertFromPorts, rm.fromPort = ranges, inv, pm
			}
			g.w.routes = []routeModel{rm}
			var qs []request
			for _, udp := range []bool{false, true} {
				for _, port := range []uint16{0, 1, 1000, 1001, 65535} {
					q := request{UDP: udp, Src: netip.MustParseAddrPort("192.0.2.1:40000"), IsIP: true, IP: netip.MustParseAddr("192.0.2.2"), Port: 443}
					if side == "to" {
						q.Port = port
					} else {
						q.Src = netip.AddrPortFrom(q.Src.Addr(), port)
					}
					qs = append(qs, q)
				}
			}
			runCase(t, g, qs, recRegress, func(q *request) bool { return q.Port == 0 || q.Src.Port() == 0 })
		}
	}
}

var recOrder = ev.New("C09", "cheap-condition-regression",
	"fixed cases: a route whose resolver-independent condition (destination port, source port, user, network) is false, a domain target and a resolver that fails (no address / other error / ErrLookup only); "+
		"oracle: the route does not match, the request is routed by the next route or the default - never the resolver's error. Non-trivial: every case")

// TestCheapConditionFalseNeverResolverError pins the round-3 reading of the statement: the chosen
// client is that of the first route whose conditions are all satisfied; a route with a false
// condition that needs no resolver is not such a route, whatever its resolver would answer.
func TestCheapConditionFalseNeverResolverError(t *testing.T) {
	for _, failKind := range []int{3, 4, 5} {
		for _, variant := range []string{"toPorts", "fromPorts", "fromUsers", "network"} {
			rm := &resolverModel{Name: "r0", ByName: map[string]answer{}, Def: answer{Kind: failKind}}
			g := &genCase{w: &world{servers: []string{"s0"}, tcp: map[string]bool{"c0": true, "c1": true}, udp: map[string]bool{"c0": true, "c1": true},
				dsets: map[string]*dsModel{}, psets: map[string]*psModel{}, defTCP: "client:c0", defUDP: "client:c0", resolvers: []*resolverModel{rm}},
				files: map[string][]byte{}, labels: map[string]bool{}}
			g.resolvers = []*fakeResolver{{m: rm, other: fmt.Errorf("scripted failure")}}
			g.cfg.DefaultTCPClientName, g.cfg.DefaultUDPClientName = "c0", "c0"
			g.cfg.Routes = []router.RouteConfig{{Name: "lan", Client: "c1", ToPrefixes: []netip.Prefix{netip.MustParsePrefix("10.0.0.0/8")}}}
			rc := &g.cfg.Routes[0]
			model := routeModel{rc: rc}
			pm := &portModel{}
			pm.set[53] = true
			pm.finish()
			switch variant {
			case "toPorts":
				rc.ToPorts, model.toPort = []uint16{53}, pm
			case "fromPorts":
				rc.FromPorts, model.fromPort = []uint16{53}, pm
			case "fromUsers":
				rc.FromUsers = []string{"alice"}
			case "network":
				rc.Network = "udp"
			}
			g.w.routes = []routeModel{model}
			qs := []request{{UDP: false, User: "bob", Src: netip.MustParseAddrPort("192.0.2.1:40000"), Domain: "a.com", Port: 443}}
			runCase(t, g, qs, recOrder, func(q *request) bool { return true })
		}
	}
}

var recEmpty = ev.New("C09", "empty-member-regression",
	"fixed cases: fromUsers lists \"\" alone / first / last / between real names, plain and inverted, requests from \"\", a listed name and an unlisted name, tcp and udp; "+
		"fromServers listing an unnamed server; toDomains listing \"\"; oracle: plain list membership. Non-trivial: the request is anonymous or comes from the unnamed server")

// TestEmptyStringMembers: the empty string is an ordinary member of the string-valued criteria.
func TestEmptyStringMembers(t *testing.T) {
	mk := func(servers []string) *genCase {
		g := &genCase{w: &world{servers: servers, tcp: map[string]bool{"c0": true, "c1": true}, udp: map[string]bool{"c0": true, "c1": true},
			dsets: map[string]*dsModel{}, psets: map[string]*psModel{}, defTCP: "client:c0", defUDP: "client:c0"},
			files: map[string][]byte{}, labels: map[string]bool{}}
		g.cfg.DefaultTCPClientName, g.cfg.DefaultUDPClientName = "c0", "c0"
		return g
	}
	src := netip.MustParseAddrPort("192.0.2.1:40000")
	for _, users := range [][]string{{""}, {"", "alice"}, {"alice", ""}, {"alice", "", "bob"}} {
		for _, inv := range []bool{false, true} {
			g := mk([]string{"s0"})
			g.cfg.Routes = []router.RouteConfig{{Name: "by-user", Client: "c1", FromUsers: users, InvertFromUsers: inv}}
			g.w.routes = []routeModel{{rc: &g.cfg.Routes[0]}}
			var qs []request
			for _, udp := range []bool{false, true} {
				for _, u := range []string{"", "alice", "bob", "mallory"} {
					qs = append(qs, request{UDP: udp, User: u, Src: src, IsIP: true, IP: netip.MustParseAddr("192.0.2.2"), Port: 443})
				}
			}
			runCase(t, g, qs, recEmpty, func(q *request) bool { return q.User == "" })
		}
	}
	for _, inv := range []bool{false, true} {
		g := mk([]string{"s0", "", "s2"})
		g.cfg.Routes = []router.RouteConfig{{Name: "by-server", Client: "c1", FromServers: []string{""}, InvertFromServers: inv},
			{Name: "by-domain", Client: "reject", ToDomains: []string{"", "a.com"}}}
		g.w.routes = []routeModel{{rc: &g.cfg.Routes[0]}, {rc: &g.cfg.Routes[1]}}
		var qs []request
		for srv := 0; srv < 3; srv++ {
			qs = append(qs, request{Server: srv, User: "", Src: src, Domain: "a.com", Port: 443},
				request{Server: srv, User: "", Src: src, Domain: "b.com", Port: 443},
				request{Server: srv, UDP: true, User: "", Src: src, IsIP: true, IP: netip.MustParseAddr("0.0.0.0"), Port: 53})
		}
		runCase(t, g, qs, recEmpty, func(q *request) bool { return q.Server == 1 })
	}
}

var recPort0All = ev.New("C09", "port0-all-representations-regression",
	"fixed cases: one route with a port criterion in each of the three representations (single port; 3 ranges; 17 ranges = bit set), source side and destination side, plain and inverted, "+
		"tcp and udp, IP target and domain target; requests with port 0, 1, a listed port, a port next to it and 65535; oracle: \"all ports except those listed\" - port 0 can not be listed, so an inverted criterion is met by port 0 and a plain one is not. "+
		"Non-trivial: the request carries port 0 on the side of the criterion")

// TestPort0AllRepresentations: the port-0 question of TestPort0Bitmap for all three representations,
// both target kinds and both invert settings.
func TestPort0AllRepresentations(t *testing.T) {
	reprs := map[string][]int{"single": {1000}, "ranges": {1000, 2000, 3000}, "bitmap": nil}
	for i := 0; i < 17; i++ {
		reprs["bitmap"] = append(reprs["bitmap"], 1000+10*i)
	}
	for _, name := range []string{"single", "ranges", "bitmap"} {
		var parts []string
		pm := &portModel{}
		for _, p := range reprs[name] {
			parts = append(parts, fmt.Sprint(p))
			pm.set[p] = true
		}
		pm.finish()
		if pm.repr() != name {
			t.Fatalf("harness: %v is not the %s representation", reprs[name], name)
		}
		ranges := strings.Join(parts, ",")
		for _, side := range []string{"to", "from"} {
			for _, inv := range []bool{false, true} {
				g := &genCase{w: &world{servers: []string{"s0"}, tcp: map[string]bool{"c0": true, "c1": true}, udp: map[string]bool{"c0": true, "c1": true},
					dsets: map[string]*dsModel{}, psets: map[string]*psModel{}, defTCP: "client:c0", defUDP: "client:c0"},
					files: map[string][]byte{}, labels: map[string]bool{}}
				g.cfg.DefaultTCPClientName, g.cfg.DefaultUDPClientName = "c0", "c0"
				g.cfg.Routes = []router.RouteConfig{{Name: "ports", Client: "c1"}}
				rm := routeModel{rc: &g.cfg.Routes[0]}
				if side == "to" {
					g.cfg.Routes[0].ToPortRanges, g.cfg.Routes[0].InvertToPorts, rm.toPort = ranges, inv, pm
				} else {
					g.cfg.Routes[0].FromPortRanges, g.cfg.Routes[0].InvertFromPorts, rm.fromPort = ranges, inv, pm
				}
				g.w.routes = []routeModel{rm}
				var qs []request
				for _, udp := range []bool{false, true} {
					for _, isIP := range []bool{true, false} {
						for _, port := range []uint16{0, 1, 1000, 1001, 65535} {
							q := request{UDP: udp, Src: netip.MustParseAddrPort("192.0.2.1:40000"), IsIP: isIP, Port: 443}
							if isIP {
								q.IP = netip.MustParseAddr("192.0.2.2")
							} else {
								q.Domain = "a.com"
							}
							if side == "to" {
								q.Port = port
							} else {
								q.Src = netip.AddrPortFrom(q.Src.Addr(), port)
							}
							qs = append(qs, q)
						}
					}
				}
				runCase(t, g, qs, recPort0All, func(q *request) bool {
					return side == "to" && q.Port == 0 || side == "from" && q.Src.Port() == 0
				})
			}
		}
	}
}
