package c09

import (
	"bytes"
	"context"
	"encoding/json"
	"errors"
	"fmt"
	"net/netip"
	"os"
	"path/filepath"
	"slices"
	"sort"
	"strconv"
	"strings"
	"sync/atomic"
	"testing"

	"github.com/database64128/shadowsocks-go/conn"
	"github.com/database64128/shadowsocks-go/dns"
	"github.com/database64128/shadowsocks-go/domainset"
	"github.com/database64128/shadowsocks-go/netio"
	"github.com/database64128/shadowsocks-go/portset"
	"github.com/database64128/shadowsocks-go/prefixset"
	"github.com/database64128/shadowsocks-go/router"
	"github.com/database64128/shadowsocks-go/zerocopy"
	"go.uber.org/zap"
	"pgregory.net/rapid"

	"verif/internal/ev"
	"verif/internal/mmdbx"
	"verif/internal/routex"
)

// ---- fakes handed to router.Config.Router (identities only; never dialled)

type fakeTCP struct{ name string }

func (f *fakeTCP) DialStream(ctx context.Context, addr conn.Addr, payload []byte) (netio.Conn, error) {
	return nil, errors.New("fake client")
}
func (f *fakeTCP) NewStreamDialer() (netio.StreamDialer, netio.StreamDialerInfo) {
	return f, netio.StreamDialerInfo{Name: f.name}
}

type fakeUDP struct{ name string }

func (f *fakeUDP) Info() zerocopy.UDPClientInfo { return zerocopy.UDPClientInfo{Name: f.name} }
func (f *fakeUDP) NewSession(ctx context.Context) (zerocopy.UDPClientSessionInfo, zerocopy.UDPClientSession, error) {
	return zerocopy.UDPClientSessionInfo{Name: f.name}, zerocopy.UDPClientSession{}, errors.New("fake client")
}

// scripted dns.SimpleResolver
type fakeResolver struct {
	m     *resolverModel
	other error
	calls int
}

func (r *fakeResolver) answer(name string) answer {
	if a, ok := r.m.ByName[name]; ok {
		return a
	}
	return r.m.Def
}

// LookupIP returns "one of the associated IP addresses": like the real resolver, the first AAAA
// if there is one, else the first A.
func (r *fakeResolver) LookupIP(ctx context.Context, name string) (netip.Addr, error) {
	r.calls++
	a := r.answer(name)
	switch a.Kind {
	case 0, 2:
		return a.V6, nil
	case 1:
		return a.V4, nil
	case 3:
		return netip.Addr{}, dns.ErrDomainNoAssociatedIPs
	case 4:
		return netip.Addr{}, dns.ErrLookup
	default:
		return netip.Addr{}, r.other
	}
}

func (r *fakeResolver) LookupIPs(ctx context.Context, name string) ([]netip.Addr, error) {
	r.calls++
	a := r.answer(name)
	switch a.Kind {
	case 0:
		return []netip.Addr{a.V6, a.V4}, nil
	case 1:
		return []netip.Addr{a.V4}, nil
	case 2:
		return []netip.Addr{a.V6}, nil
	case 3:
		return nil, nil
	case 4:
		return nil, dns.ErrLookup
	default:
		return nil, r.other
	}
}

// ---- vocabularies

var prefixPool = func() []netip.Prefix {
	var out []netip.Prefix
	for _, s := range []string{
		"10.0.0.0/8", "10.1.0.0/16", "10.1.2.0/24", "10.1.2.128/25", "10.1.2.3/32", "192.168.0.0/16", "172.16.0.0/12",
		"127.0.0.1/32", "0.0.0.0/1", "128.0.0.0/1", "255.255.255.255/32",
		"2001:db8::/32", "2001:db8:1::/48", "2001:db8:1:2::/64", "2001:db8::1/128", "::1/128", "fd00::/8", "fe80::/10",
		"::/1", "8000::/1",
	} {
		out = append(out, netip.MustParsePrefix(s))
	}
	return out
}()

var widePool = []netip.Prefix{netip.MustParsePrefix("0.0.0.0/0"), netip.MustParsePrefix("::/0")}

var addrPool = func() (out []netip.Addr) {
	seen := map[netip.Addr]bool{}
	for _, p := range prefixPool {
		for _, a := range routex.Boundary(p) {
			if !seen[a] && !a.Is4In6() {
				seen[a] = true
				out = append(out, a)
			}
		}
	}
	for _, s := range []string{"8.8.8.8", "10.1.2.200", "10.1.3.1", "2001:db8:1:2::5", "2606:4700::1111"} {
		a := netip.MustParseAddr(s)
		if !seen[a] {
			out = append(out, a)
		}
	}
	return
}()

var addrPool4, addrPool6 = func() (v4, v6 []netip.Addr) {
	for _, a := range addrPool {
		if a.Is4() {
			v4 = append(v4, a)
		} else {
			v6 = append(v6, a)
		}
	}
	return
}()

var domainVocab = []string{"com", "a.com", "b.com", "a.a.com", "b.a.com", "a.b.com", "b.b.a.com", "xa.com", "a.comx",
	"net", "a.net", "b.a.net", "a.com.", "a", "other.example"}

var ruleTexts = [4][]string{
	{"a.com", "b.com", "b.a.com", "a.net", "com", "a", "b.b.a.com", "a.com."},
	{"com", "a.com", "b.a.com", "net", "a.net", "b.com", "a", "example"},
	{"a.", "b.", "net", "xa", ".a.", "other"},
	{`^a\.`, `\.net$`, `^b\.a\.com$`, `a.*b`, `^[ab]\.com$`},
}

// networks of the generated country databases: the prefix pool (so that the boundary addresses of
// the address pool are boundary addresses of the database too) minus what the MMDB tree reserves
// for IPv4 (IPv6 networks longer than /80 inside ::/80), plus the 6to4 range
var geoPrefixPool = func() []netip.Prefix {
	var out []netip.Prefix
	for _, p := range append(slices.Clone(prefixPool), netip.MustParsePrefix("2002::/16"), netip.MustParsePrefix("0.0.0.0/0"), netip.MustParsePrefix("10.1.2.0/25")) {
		if mmdbx.Check(mmdbx.Entry{Prefix: p}) == nil {
			out = append(out, p)
		}
	}
	return out
}()

// countries: the first four occur in databases, the last two never do. Matching is by the exact
// ISO code the database holds (the field comments say nothing about letter case: no case variants).
var geoDBCountries = []string{"CN", "CN", "US", "DE", "JP", ""} // "" = record without a country
var geoRegistered = []string{"CN", "US", "DE", "JP", ""}
var geoListCountries = []string{"CN", "US", "DE", "JP", "FR", "ZZ"}

var userVocab = []string{"alice", "bob", "carol"}
var requestUsers = []string{"alice", "bob", "carol", "mallory", ""}

// ---- generators

func drawPrefix(rt *rapid.T, label string) netip.Prefix {
	switch k := rapid.IntRange(0, 19).Draw(rt, label+"-kind"); {
	case k < 16:
		return rapid.SampledFrom(prefixPool).Draw(rt, label)
	case k == 16 || k == 17:
		return rapid.SampledFrom(widePool).Draw(rt, label)
	}
	// a random prefix around a pool address
	a := rapid.SampledFrom(addrPool).Draw(rt, label+"-addr")
	bits := rapid.IntRange(1, a.BitLen()).Draw(rt, label+"-bits")
	return netip.PrefixFrom(a, bits).Masked()
}

func drawPrefixes(rt *rapid.T, label string, minN, maxN int) []netip.Prefix {
	n := rapid.IntRange(minN, maxN).Draw(rt, label+"-n")
	out := make([]netip.Prefix, 0, n)
	for i := 0; i < n; i++ {
		out = append(out, drawPrefix(rt, label))
	}
	return out
}

func drawAddr(rt *rapid.T, label string) netip.Addr {
	return rapid.SampledFrom(addrPool).Draw(rt, label)
}

type portItem struct{ from, to uint16 } // single port when from == to

// drawPorts draws a port criterion: a uint16 list and/or a range string, with the model set.
func drawPorts(rt *rapid.T, label string) ([]uint16, string, *portModel, []uint16) {
	mode := rapid.SampledFrom([]string{"single", "single", "few", "few", "many", "many", "sixteen", "seventeen", "merge"}).Draw(rt, label+"-mode")
	var items []portItem
	edge := func(base int) uint16 {
		v := base + rapid.IntRange(0, 40).Draw(rt, label+"-off")
		if v < 1 {
			v = 1
		}
		if v > 65535 {
			v = 65535
		}
		return uint16(v)
	}
	spaced := func(n int) {
		// n disjoint, non-adjacent items; optionally touching port 1 and port 65535
		step := 65000 / n
		for i := 0; i < n; i++ {
			from := uint16(100 + i*step + rapid.IntRange(0, step/2).Draw(rt, label+"-pos"))
			w := rapid.SampledFrom([]int{0, 0, 1, 2, 63, 64, 65, 200}).Draw(rt, label+"-w")
			if w > step/2-2 {
				w = 0
			}
			items = append(items, portItem{from, from + uint16(w)})
		}
		if rapid.Bool().Draw(rt, label+"-one") {
			items[0] = portItem{1, uint16(1 + rapid.IntRange(0, 3).Draw(rt, label+"-w1"))}
		}
		if rapid.Bool().Draw(rt, label+"-max") {
			items[n-1] = portItem{uint16(65535 - rapid.IntRange(0, 3).Draw(rt, label+"-wm")), 65535}
		}
	}
	switch mode {
	case "single":
		p := rapid.SampledFrom([]uint16{1, 53, 80, 443, 8080, 65535}).Draw(rt, label+"-p")
		items = append(items, portItem{p, p})
		if rapid.Bool().Draw(rt, label+"-dup") {
			items = append(items, portItem{p, p})
		}
	case "few":
		n := rapid.IntRange(1, 5).Draw(rt, label+"-n")
		for i := 0; i < n; i++ {
			from := edge(rapid.SampledFrom([]int{1, 60, 120, 440, 1000, 32768, 65490}).Draw(rt, label+"-base"))
			w := rapid.SampledFrom([]int{0, 0, 1, 5, 64, 1000}).Draw(rt, label+"-w")
			to := int(from) + w
			if to > 65535 {
				to = 65535
			}
			items = append(items, portItem{from, uint16(to)})
		}
	case "many":
		spaced(rapid.IntRange(17, 24).Draw(rt, label+"-n"))
	case "sixteen":
		spaced(16)
	case "seventeen":
		spaced(17)
	case "merge":
		// 20 adjacent single ports and a range that touches them: collapses to one range
		base := uint16(rapid.IntRange(1, 60000).Draw(rt, label+"-base"))
		for i := uint16(0); i < 20; i++ {
			items = append(items, portItem{base + i, base + i})
		}
		items = append(items, portItem{base + 20, base + 30})
	}
	// shuffle presentation order
	perm := rapid.Permutation(items).Draw(rt, label+"-perm")
	pm := &portModel{}
	var list []uint16
	var parts []string
	var probes []uint16
	for _, it := range perm {
		for p := int(it.from); p <= int(it.to); p++ {
			pm.set[p] = true
		}
		probes = append(probes, it.from-1, it.from, it.to, it.to+1) // wraps to 0 at the ends on purpose
		if it.from == it.to {
			if rapid.Bool().Draw(rt, label+"-aslist") {
				list = append(list, it.from)
			} else {
				parts = append(parts, strconv.Itoa(int(it.from)))
			}
		} else {
			parts = append(parts, fmt.Sprintf("%d-%d", it.from, it.to))
		}
	}
	pm.finish()
	return list, strings.Join(parts, ","), pm, probes
}

func drawRules(rt *rapid.T, label string) []routex.Rule {
	var rules []routex.Rule
	n := rapid.IntRange(1, 5).Draw(rt, label+"-n")
	for i := 0; i < n; i++ {
		k := rapid.SampledFrom([]int{0, 1, 1, 1, 2, 3}).Draw(rt, label+"-kind")
		rules = append(rules, routex.Rule{Kind: k, Text: rapid.SampledFrom(ruleTexts[k]).Draw(rt, label+"-text")})
	}
	// push a kind over its matcher threshold with filler rules that match nothing in the vocabulary
	switch rapid.IntRange(0, 5).Draw(rt, label+"-fill") {
	case 0:
		for i := 0; i < 17; i++ {
			rules = append(rules, routex.Rule{Kind: routex.KindDomain, Text: fmt.Sprintf("d%d.filler.test", i)})
		}
	case 1:
		for i := 0; i < 5; i++ {
			rules = append(rules, routex.Rule{Kind: routex.KindSuffix, Text: fmt.Sprintf("s%d.filler.test", i)})
		}
	}
	return rapid.Permutation(rules).Draw(rt, label+"-perm")
}

func subset(rt *rapid.T, label string, from []string, minN int) []string {
	var out []string
	for _, s := range from {
		if rapid.Bool().Draw(rt, label+"-"+s) {
			out = append(out, s)
		}
	}
	for len(out) < minN {
		out = append(out, rapid.SampledFrom(from).Draw(rt, label+"-extra"))
	}
	return out
}

// present: 0 absent, 1 present, 2 present and inverted
func drawPresence(rt *rapid.T, label string) int {
	return rapid.SampledFrom([]int{0, 0, 0, 0, 1, 2}).Draw(rt, label)
}

type genCase struct {
	w         *world
	cfg       router.Config
	resolvers []*fakeResolver
	portProbe []uint16
	files     map[string][]byte // file name -> content
	labels    map[string]bool
	// some route lists "" in fromUsers: anonymous requests are drawn more often
	emptyUserListed bool
	// boundary addresses of the networks of the country database (never in IPv4-mapped form)
	geoProbe, geoProbe4, geoProbe6 []netip.Addr
	// the configuration carries a GeoIP criterion but names no database: it must be refused at load
	expectRefusal bool
	// the focused sub-space of TestRouterModelExpectation
	focus bool
	// names matched by the domain criterion of routes that carry a toMatchedDomainExpected… requirement
	focusDomains []string
}

// genGeo draws the country database of a world and writes it with the harness's own MMDB writer.
func genGeo(rt *rapid.T, g *genCase, dir string) {
	n := rapid.IntRange(1, 8).Draw(rt, "geo-n")
	var es []mmdbx.Entry
	for i := 0; i < n; i++ {
		var p netip.Prefix
		if rapid.IntRange(0, 5).Draw(rt, "geo-random") == 0 {
			a := rapid.SampledFrom(addrPool).Draw(rt, "geo-addr")
			p = netip.PrefixFrom(a, rapid.IntRange(1, a.BitLen()).Draw(rt, "geo-bits")).Masked()
		}
		if !p.IsValid() || mmdbx.Check(mmdbx.Entry{Prefix: p}) != nil {
			p = rapid.SampledFrom(geoPrefixPool).Draw(rt, "geo-prefix")
		}
		es = append(es, mmdbx.Entry{Prefix: p,
			Country:    rapid.SampledFrom(geoDBCountries).Draw(rt, "geo-country"),
			Registered: rapid.SampledFrom(geoRegistered).Draw(rt, "geo-registered")})
	}
	o := mmdbx.Options{
		RecordSize: rapid.SampledFrom([]int{24, 24, 28, 32}).Draw(rt, "geo-rs"),
		NoAlias:    rapid.IntRange(0, 5).Draw(rt, "geo-noalias") == 0,
		Pointers:   rapid.Bool().Draw(rt, "geo-pointers"),
		BuildEpoch: 1700000000,
	}
	b, err := mmdbx.Build(es, o)
	if err != nil {
		rt.Fatalf("harness: mmdbx.Build(%v): %v", es, err)
	}
	path := filepath.Join(dir, "Country.mmdb")
	g.files[path] = b
	g.cfg.GeoLite2CountryDbPath = path
	g.w.geo = &geoModel{table: mmdbx.Table{Entries: es, NoAlias: o.NoAlias}, path: path}
	for _, a := range mmdbx.Probes(es) {
		switch {
		case a.Is4In6():
			continue
		case a.Is4():
			g.geoProbe4 = append(g.geoProbe4, a)
		default:
			g.geoProbe6 = append(g.geoProbe6, a)
		}
		g.geoProbe = append(g.geoProbe, a)
	}
	g.labels["geoip-db"] = true
	g.labels[fmt.Sprintf("geoip-db/record-size-%d", o.RecordSize)] = true
	if o.NoAlias {
		g.labels["geoip-db/no-mapped-alias"] = true
	}
	if o.Pointers {
		g.labels["geoip-db/data-pointers"] = true
	}
}

// drawCountries draws a country list for a GeoIP criterion.
func drawCountries(rt *rapid.T, label string) []string {
	out := subset(rt, label, geoListCountries[:4], 0)
	for _, c := range geoListCountries[4:] {
		if rapid.IntRange(0, 3).Draw(rt, label+"-absent-"+c) == 0 {
			out = append(out, c)
		}
	}
	if len(out) == 0 {
		out = append(out, rapid.SampledFrom(geoListCountries).Draw(rt, label+"-one"))
	}
	// "" is accepted at load; it is not a country
	if rapid.IntRange(0, 19).Draw(rt, label+"-empty") == 0 {
		out = append(out, "")
	}
	return rapid.Permutation(out).Draw(rt, label+"-perm")
}

// genWorld draws a configuration. focus selects the sub-space of the stage TestRouterModelExpectation:
// every route carries a domain criterion with a toMatchedDomainExpected… requirement (plain or under
// invertToDomains), the other criterion kinds are rare, there are always resolvers and prefix sets.
func genWorld(rt *rapid.T, dir string, focus bool) *genCase {
	presence := func(label string) int {
		if focus {
			return rapid.SampledFrom([]int{0, 0, 0, 0, 0, 0, 0, 1, 2}).Draw(rt, label)
		}
		return drawPresence(rt, label)
	}
	lo := 0 // at least one resolver / prefix set in the focused sub-space
	if focus {
		lo = 1
	}
	g := &genCase{focus: focus, w: &world{tcp: map[string]bool{}, udp: map[string]bool{}, dsets: map[string]*dsModel{}, psets: map[string]*psModel{}},
		files: map[string][]byte{}, labels: map[string]bool{}}
	w := g.w

	nServers := rapid.IntRange(1, 3).Draw(rt, "servers")
	for i := 0; i < nServers; i++ {
		w.servers = append(w.servers, fmt.Sprintf("s%d", i))
	}
	// the service accepts a server with an empty name (only duplicates are refused at load)
	if rapid.IntRange(0, 4).Draw(rt, "unnamed-server") == 0 {
		w.servers[rapid.IntRange(0, nServers-1).Draw(rt, "unnamed-server-idx")] = ""
	}

	nClients := rapid.IntRange(1, 3).Draw(rt, "clients")
	var clientNames, tcpNames, udpNames []string
	for i := 0; i < nClients; i++ {
		name := fmt.Sprintf("c%d", i)
		mode := rapid.SampledFrom([]string{"both", "both", "both", "tcp", "udp"}).Draw(rt, "client-mode")
		clientNames = append(clientNames, name)
		if mode != "udp" {
			w.tcp[name] = true
			tcpNames = append(tcpNames, name)
		}
		if mode != "tcp" {
			w.udp[name] = true
			udpNames = append(udpNames, name)
		}
	}

	// country database on a third of the worlds
	geoOdds := 2
	if focus {
		geoOdds = 1
	}
	if rapid.IntRange(0, geoOdds).Draw(rt, "geo-db") == 0 {
		genGeo(rt, g, dir)
	}

	// resolvers
	nRes := rapid.IntRange(lo, 3).Draw(rt, "resolvers")
	drawAnswer := func(label string) answer {
		k := rapid.SampledFrom([]int{0, 0, 1, 1, 2, 3, 4, 4, 5}).Draw(rt, label)
		a := answer{Kind: k,
			V6: rapid.SampledFrom(addrPool6).Draw(rt, label+"-v6"),
			V4: rapid.SampledFrom(addrPool4).Draw(rt, label+"-v4")}
		// with a country database: answers on the boundaries of its networks
		if len(g.geoProbe6) > 0 && rapid.Bool().Draw(rt, label+"-geo6") {
			a.V6 = rapid.SampledFrom(g.geoProbe6).Draw(rt, label+"-v6g")
		}
		if len(g.geoProbe4) > 0 && rapid.Bool().Draw(rt, label+"-geo4") {
			a.V4 = rapid.SampledFrom(g.geoProbe4).Draw(rt, label+"-v4g")
		}
		return a
	}
	for i := 0; i < nRes; i++ {
		rm := &resolverModel{Name: fmt.Sprintf("r%d", i), ByName: map[string]answer{}}
		for _, d := range domainVocab {
			rm.ByName[d] = drawAnswer("ans")
		}
		rm.Def = answer{Kind: rapid.SampledFrom([]int{3, 4, 5}).Draw(rt, "ans-def")}
		w.resolvers = append(w.resolvers, rm)
		g.resolvers = append(g.resolvers, &fakeResolver{m: rm, other: fmt.Errorf("scripted failure of resolver %s", rm.Name)})
	}

	// domain sets
	nDS := rapid.IntRange(0, 3).Draw(rt, "dsets")
	var dsNames []string
	for i := 0; i < nDS; i++ {
		ds := &dsModel{Name: fmt.Sprintf("ds%d", i), Type: rapid.SampledFrom([]string{"text", "", "gob"}).Draw(rt, "ds-type")}
		ds.Rules = drawRules(rt, "ds")
		naive, err := routex.NewNaive(ds.Rules)
		if err != nil {
			rt.Fatalf("harness: bad regexp in vocabulary: %v", err)
		}
		ds.naive = naive
		text := routex.Text(ds.Rules, routex.TextOpts{
			Hint: rapid.IntRange(0, 1).Draw(rt, "ds-hint"),
			CRLF: rapid.Bool().Draw(rt, "ds-crlf"),
		})
		path := filepath.Join(dir, ds.Name)
		if ds.Type == "gob" {
			// the gob form is produced with the repo's own writer (what the converter does)
			b, err := domainset.BuilderFromText(text)
			if err != nil {
				rt.Fatalf("SIG=C09/harness-text-rejected %q: %v", text, err)
			}
			var buf bytes.Buffer
			if err := b.WriteGob(&buf); err != nil {
				rt.Fatalf("SIG=C09/harness-gob-write: %v", err)
			}
			g.files[path] = buf.Bytes()
			g.labels["gob-set"] = true
		} else {
			g.files[path] = []byte(text)
			g.labels["text-set"] = true
		}
		c := routex.Count(ds.Rules)
		if c[0] > 16 {
			g.labels["set-domains-over-16"] = true
		}
		if c[1] > 4 {
			g.labels["set-suffixes-over-4"] = true
		}
		w.dsets[ds.Name] = ds
		dsNames = append(dsNames, ds.Name)
		g.cfg.DomainSets = append(g.cfg.DomainSets, domainset.Config{Name: ds.Name, Type: ds.Type, Path: path})
	}

	// prefix sets
	nPS := rapid.IntRange(lo, 2).Draw(rt, "psets")
	var psNames []string
	for i := 0; i < nPS; i++ {
		ps := &psModel{Name: fmt.Sprintf("ps%d", i), Prefixes: drawPrefixes(rt, "ps", 1, 4)}
		var sb strings.Builder
		nl := "\n"
		if rapid.Bool().Draw(rt, "ps-crlf") {
			nl = "\r\n"
		}
		sb.WriteString("# prefix set " + ps.Name + nl)
		for _, p := range ps.Prefixes {
			sb.WriteString(p.String() + nl)
			if rapid.IntRange(0, 3).Draw(rt, "ps-blank") == 0 {
				sb.WriteString(nl)
			}
		}
		path := filepath.Join(dir, ps.Name)
		g.files[path] = []byte(sb.String())
		w.psets[ps.Name] = ps
		psNames = append(psNames, ps.Name)
		g.cfg.PrefixSets = append(g.cfg.PrefixSets, prefixset.Config{Name: ps.Name, Path: path})
	}

	// defaults
	drawDefault := func(label string, names []string) (string, string) {
		opts := []string{"reject"}
		if len(names) == 1 {
			opts = append(opts, "", "")
		}
		for _, n := range names {
			opts = append(opts, n, n)
		}
		name := rapid.SampledFrom(opts).Draw(rt, label)
		switch name {
		case "reject":
			g.labels["default-reject"] = true
			return name, "reject"
		case "":
			// implicit: exactly one client of this network exists. (With zero or several clients
			// and no name the behaviour is undocumented and is not generated.)
			g.labels["default-implicit"] = true
			return name, "client:" + names[0]
		}
		g.labels["default-named"] = true
		return name, "client:" + name
	}
	g.cfg.DefaultTCPClientName, w.defTCP = drawDefault("def-tcp", tcpNames)
	g.cfg.DefaultUDPClientName, w.defUDP = drawDefault("def-udp", udpNames)

	// routes
	routeCounts := []int{0, 1, 2, 2, 3, 3, 4, 5, 6}
	if focus {
		routeCounts = []int{1, 2, 2, 3, 3, 4}
	}
	nRoutes := rapid.SampledFrom(routeCounts).Draw(rt, "routes")
	g.cfg.Routes = make([]router.RouteConfig, nRoutes)
	for i := 0; i < nRoutes; i++ {
		rc := &g.cfg.Routes[i]
		rm := routeModel{rc: rc}
		rc.Name = fmt.Sprintf("route%d", i)

		// network and client must be consistent: the client must exist for every network the route covers
		var nets []string
		nets = append(nets, "reject:", "reject:tcp", "reject:udp")
		for _, c := range clientNames {
			if w.tcp[c] && w.udp[c] {
				nets = append(nets, c+":", c+":", c+":")
			}
			if w.tcp[c] {
				nets = append(nets, c+":tcp")
			}
			if w.udp[c] {
				nets = append(nets, c+":udp")
			}
		}
		cn := strings.SplitN(rapid.SampledFrom(nets).Draw(rt, "route-client-net"), ":", 2)
		rc.Client, rc.Network = cn[0], cn[1]

		if p := presence("from-servers"); p > 0 {
			rc.FromServers = subset(rt, "srv", w.servers, 1)
			rc.InvertFromServers = p == 2
		}
		if p := presence("from-users"); p > 0 {
			rc.FromUsers = subset(rt, "usr", userVocab, 1)
			rc.InvertFromUsers = p == 2
			// "" is a legal member: requests that carry no authenticated user
			switch rapid.SampledFrom([]string{"no", "no", "alone", "first", "last", "middle"}).Draw(rt, "usr-empty") {
			case "alone":
				rc.FromUsers = []string{""}
			case "first":
				rc.FromUsers = append([]string{""}, rc.FromUsers...)
			case "last":
				rc.FromUsers = append(rc.FromUsers, "")
			case "middle":
				rc.FromUsers = append(append([]string{rc.FromUsers[0], ""}, rc.FromUsers[1:]...), "carol")
			}
			if slices.Contains(rc.FromUsers, "") {
				g.emptyUserListed = true
			}
		}
		if p := presence("from-ports"); p > 0 {
			var probes []uint16
			rc.FromPorts, rc.FromPortRanges, rm.fromPort, probes = drawPorts(rt, "fp")
			rc.InvertFromPorts = p == 2
			g.portProbe = append(g.portProbe, probes...)
		}
		if p := presence("from-prefixes"); p > 0 {
			which := rapid.IntRange(0, 2).Draw(rt, "from-prefix-which")
			if len(psNames) == 0 {
				which = 0
			}
			if which != 1 {
				rc.FromPrefixes = drawPrefixes(rt, "fpx", 1, 3)
			}
			if which != 0 {
				rc.FromPrefixSets = subset(rt, "fps", psNames, 1)
			}
			rc.InvertFromPrefixes = p == 2
		}
		if w.geo != nil {
			if p := presence("from-geo"); p > 0 {
				rc.FromGeoIPCountries = drawCountries(rt, "fgc")
				rc.InvertFromGeoIPCountries = p == 2
			}
		}
		if p := presence("to-ports"); p > 0 {
			var probes []uint16
			rc.ToPorts, rc.ToPortRanges, rm.toPort, probes = drawPorts(rt, "tp")
			rc.InvertToPorts = p == 2
			g.portProbe = append(g.portProbe, probes...)
		}
		pd := drawPresence(rt, "to-domains")
		if focus {
			pd = rapid.IntRange(1, 2).Draw(rt, "to-domains-focus")
		}
		if pd > 0 {
			which := rapid.IntRange(0, 2).Draw(rt, "to-domain-which")
			if len(dsNames) == 0 {
				which = 0
			}
			if which != 1 {
				rc.ToDomains = subset(rt, "td", domainVocab[:10], 1)
				// a zero-length name is accepted at load; no request can carry one, so it matches nothing
				switch rapid.IntRange(0, 7).Draw(rt, "td-empty") {
				case 0:
					rc.ToDomains = append([]string{""}, rc.ToDomains...)
				case 1:
					rc.ToDomains = append(rc.ToDomains, "")
				}
				if rapid.IntRange(0, 3).Draw(rt, "td-big") == 0 {
					for k := 0; k < 17; k++ {
						rc.ToDomains = append(rc.ToDomains, fmt.Sprintf("t%d.filler.test", k))
					}
					rc.ToDomains = rapid.Permutation(rc.ToDomains).Draw(rt, "td-perm")
					g.labels["todomains-over-16"] = true
				}
			}
			if which != 0 {
				rc.ToDomainSets = subset(rt, "tds", dsNames, 1)
			}
			// "require the matched domain to resolve into": needs resolvers. Since round 6 also together
			// with invertToDomains (two documented readings, see the model)
			rc.InvertToDomains = pd == 2
			expectedOdds := 2 // one in three
			if w.geo != nil {
				expectedOdds = 1 // with a country database: one in two
			}
			if focus {
				expectedOdds = 0
			}
			if nRes > 0 && rapid.IntRange(0, expectedOdds).Draw(rt, "expected") == 0 {
				// which address kinds the requirement names: prefixes, countries (needs a database), both
				ekind := "prefixes"
				if w.geo != nil {
					kinds := []string{"prefixes", "countries", "countries", "countries", "both"}
					if focus {
						kinds = []string{"prefixes", "prefixes", "countries", "countries", "both"}
					}
					ekind = rapid.SampledFrom(kinds).Draw(rt, "expected-kind")
				}
				if ekind != "countries" {
					pe := rapid.IntRange(1, 2).Draw(rt, "expected-inv")
					which := rapid.IntRange(0, 2).Draw(rt, "expected-which")
					if len(psNames) == 0 {
						which = 0
					}
					if which != 1 {
						rc.ToMatchedDomainExpectedPrefixes = drawPrefixes(rt, "epx", 1, 3)
					}
					if which != 0 {
						rc.ToMatchedDomainExpectedPrefixSets = subset(rt, "eps", psNames, 1)
					}
					rc.InvertToMatchedDomainExpectedPrefixes = pe == 2
					g.labels["expected-prefixes"] = true
				}
				if ekind != "prefixes" {
					rc.ToMatchedDomainExpectedGeoIPCountries = drawCountries(rt, "egc")
					rc.InvertToMatchedDomainExpectedGeoIPCountries = rapid.IntRange(0, 2).Draw(rt, "expected-geo-inv") == 0
				}
				// requests aim at the names this route lists (and, for sets, at the vocabulary names they match)
				filler := false
				for _, d := range rc.ToDomains {
					// of the filler names (resolved by no resolver) one is enough
					if slices.Contains(domainVocab, d) || !filler && d != "" {
						g.focusDomains = append(g.focusDomains, d)
						filler = filler || !slices.Contains(domainVocab, d)
					}
				}
				for _, n := range rc.ToDomainSets {
					for _, d := range domainVocab {
						if w.dsets[n].naive.Match(d) {
							g.focusDomains = append(g.focusDomains, d)
						}
					}
				}
			}
		}
		if p := presence("to-prefixes"); p > 0 {
			rc.DisableNameResolutionForIPRules = nRes == 0 || rapid.IntRange(0, 3).Draw(rt, "disable-resolve") == 0
			which := rapid.IntRange(0, 2).Draw(rt, "to-prefix-which")
			if len(psNames) == 0 {
				which = 0
			}
			if which != 1 {
				rc.ToPrefixes = drawPrefixes(rt, "tpx", 1, 3)
			}
			if which != 0 {
				rc.ToPrefixSets = subset(rt, "tps", psNames, 1)
			}
			rc.InvertToPrefixes = p == 2
		}
		if w.geo != nil {
			if p := presence("to-geo"); p > 0 {
				if len(rc.ToPrefixes) == 0 && len(rc.ToPrefixSets) == 0 {
					rc.DisableNameResolutionForIPRules = nRes == 0 || rapid.IntRange(0, 3).Draw(rt, "disable-resolve-geo") == 0
				}
				rc.ToGeoIPCountries = drawCountries(rt, "tgc")
				rc.InvertToGeoIPCountries = p == 2
			}
		}
		if nRes > 0 && rapid.IntRange(0, 2).Draw(rt, "route-resolver") == 0 {
			rc.Resolver = w.resolvers[rapid.IntRange(0, nRes-1).Draw(rt, "route-resolver-idx")].Name
			g.labels["route-resolver"] = true
		}
		w.routes = append(w.routes, rm)
	}
	// A GeoIP criterion without a database cannot be evaluated: such a configuration is refused at
	// load ("missing GeoLite2 country database path"). Generated on a few of the worlds without one.
	if w.geo == nil && nRoutes > 0 && rapid.IntRange(0, 24).Draw(rt, "geo-without-db") == 0 {
		rc := &g.cfg.Routes[rapid.IntRange(0, nRoutes-1).Draw(rt, "geo-without-db-route")]
		list := drawCountries(rt, "ngc")
		switch rapid.IntRange(0, 2).Draw(rt, "geo-without-db-kind") {
		case 0:
			rc.FromGeoIPCountries = list
		case 1:
			rc.ToGeoIPCountries = list
		default:
			rc.ToMatchedDomainExpectedGeoIPCountries = list
		}
		g.expectRefusal = true
	}
	return g
}

func drawRequest(rt *rapid.T, g *genCase) request {
	w := g.w
	var q request
	q.UDP = rapid.Bool().Draw(rt, "udp")
	q.Server = rapid.IntRange(0, len(w.servers)-1).Draw(rt, "server")
	q.User = rapid.SampledFrom(requestUsers).Draw(rt, "user")
	if g.emptyUserListed && rapid.IntRange(0, 2).Draw(rt, "anonymous") == 0 {
		q.User = ""
	}
	drawPort := func(label string) uint16 {
		k := rapid.IntRange(0, 9).Draw(rt, label+"-kind")
		switch {
		case k < 3:
			return rapid.SampledFrom([]uint16{0, 0, 1, 65535, 53, 80, 443}).Draw(rt, label+"-b")
		case k < 8 && len(g.portProbe) > 0:
			return rapid.SampledFrom(g.portProbe).Draw(rt, label+"-edge")
		}
		return rapid.Uint16().Draw(rt, label+"-any")
	}
	drawAddr := func(rt *rapid.T, label string) netip.Addr {
		if len(g.geoProbe) > 0 && rapid.Bool().Draw(rt, label+"-geo") {
			return rapid.SampledFrom(g.geoProbe).Draw(rt, label+"-geo-addr")
		}
		return drawAddr(rt, label)
	}
	src := drawAddr(rt, "src")
	if src.Is4() && rapid.IntRange(0, 2).Draw(rt, "src-mapped") == 0 {
		src = netip.AddrFrom16(src.As16())
	}
	q.Src = netip.AddrPortFrom(src, drawPort("sport"))
	q.Port = drawPort("dport")
	ipOdds, focusOdds := 1, 1 // one in two
	if g.focus {
		ipOdds, focusOdds = 3, 2 // IP target one in four; a name the routes list two in three
	}
	if rapid.IntRange(0, ipOdds).Draw(rt, "target-ip") == 0 {
		q.IsIP = true
		q.IP = drawAddr(rt, "dst")
		if q.IP.Is4() && rapid.IntRange(0, 4).Draw(rt, "dst-mapped") == 0 {
			q.IP = netip.AddrFrom16(q.IP.As16())
		}
	} else {
		q.Domain = rapid.SampledFrom(domainVocab).Draw(rt, "domain")
		if len(g.focusDomains) > 0 && rapid.IntRange(0, focusOdds).Draw(rt, "domain-focus") > 0 {
			if d := rapid.SampledFrom(g.focusDomains).Draw(rt, "domain-focus-name"); d != "" {
				q.Domain = d
			}
		}
	}
	return q
}

func (q request) String() string {
	n := "tcp"
	if q.UDP {
		n = "udp"
	}
	t := q.Domain
	if q.IsIP {
		t = q.IP.String()
	}
	return fmt.Sprintf("{%s server=%d user=%q src=%s target=%s port=%d}", n, q.Server, q.User, q.Src, t, q.Port)
}

// ---- running the real router

type outcome struct {
	s       string // "client:<name>", "reject", "error:<kind>", "panic:<value>"
	err     error
	panicV  any
	zeroPtr bool
}

func classifyErr(err error, resolvers []*fakeResolver) string {
	switch {
	case errors.Is(err, router.ErrRejected):
		return "reject"
	case errors.Is(err, dns.ErrDomainNoAssociatedIPs):
		return "error:noips"
	case strings.Contains(err.Error(), "no available resolvers"):
		return "error:noresolvers"
	}
	for _, r := range resolvers {
		if errors.Is(err, r.other) {
			return "error:other:" + r.m.Name
		}
	}
	if errors.Is(err, dns.ErrLookup) {
		return "error:errlookup-leaked"
	}
	return "error:unknown:" + err.Error()
}

func ask(r *router.Router, q *request, resolvers []*fakeResolver) (o outcome) {
	defer func() {
		if p := recover(); p != nil {
			// A panic is never a pass: it becomes a failure below.
			o = outcome{s: fmt.Sprintf("panic:%v", p), panicV: p}
		}
	}()
	var target conn.Addr
	if q.IsIP {
		target = conn.AddrFromIPAndPort(q.IP, q.Port)
	} else {
		target = conn.MustAddrFromDomainPort(q.Domain, q.Port)
	}
	info := router.RequestInfo{ServerIndex: q.Server, Username: q.User, SourceAddrPort: q.Src, TargetAddr: target}
	ctx := context.Background()
	if q.UDP {
		c, err := r.GetUDPClient(ctx, info)
		if err != nil {
			return outcome{s: classifyErr(err, resolvers), err: err}
		}
		f, ok := c.(*fakeUDP)
		if !ok || f == nil {
			return outcome{s: fmt.Sprintf("client:<foreign %T>", c)}
		}
		return outcome{s: "client:" + f.name}
	}
	c, err := r.GetTCPClient(ctx, info)
	if err != nil {
		return outcome{s: classifyErr(err, resolvers), err: err}
	}
	f, ok := c.(*fakeTCP)
	if !ok || f == nil {
		return outcome{s: fmt.Sprintf("client:<foreign %T>", c)}
	}
	return outcome{s: "client:" + f.name}
}

func buildRouter(g *genCase) (*router.Router, error) {
	for p, b := range g.files {
		if err := os.MkdirAll(filepath.Dir(p), 0o755); err != nil {
			return nil, fmt.Errorf("harness: %w", err)
		}
		if err := os.WriteFile(p, b, 0o644); err != nil {
			return nil, fmt.Errorf("harness: %w", err)
		}
	}
	// configurations reach the router as JSON
	js, err := json.Marshal(&g.cfg)
	if err != nil {
		return nil, fmt.Errorf("marshal: %w", err)
	}
	var cfg router.Config
	if err := json.Unmarshal(js, &cfg); err != nil {
		return nil, fmt.Errorf("unmarshal: %w", err)
	}
	tcpMap := map[string]netio.StreamClient{}
	udpMap := map[string]zerocopy.UDPClient{}
	for n := range g.w.tcp {
		tcpMap[n] = &fakeTCP{name: n}
	}
	for n := range g.w.udp {
		udpMap[n] = &fakeUDP{name: n}
	}
	var resolvers []dns.SimpleResolver
	resolverMap := map[string]dns.SimpleResolver{}
	for _, r := range g.resolvers {
		resolvers = append(resolvers, r)
		resolverMap[r.m.Name] = r
	}
	serverIndex := map[string]int{}
	for i, s := range g.w.servers {
		serverIndex[s] = i
	}
	return cfg.Router(zap.NewNop(), resolvers, resolverMap, tcpMap, udpMap, serverIndex)
}

const sigPort0 = "port0-bitmap-panic"

var recRouter = ev.New("C09", "router-model",
	"rapid: router.Config (JSON round-tripped) with 0-6 routes; each criterion kind absent/present/inverted; port criteria forcing single / <=16 ranges / bitmap; "+
		"toDomains below/above 16; domain-set (text, gob) and prefix-set files written by the harness; 0-3 scripted resolvers (AAAA+A, A, AAAA, none, ErrLookup, other error) global or per route; "+
		"on a third of the configurations a GeoLite2-Country database written by the harness's own MMDB writer (1-8 nested IPv4/IPv6 networks, 24/28/32-bit records, with/without the ::ffff:0:0/96 alias, records without a country) and fromGeoIPCountries / toGeoIPCountries / toMatchedDomainExpectedGeoIPCountries absent/present/inverted, a few configurations with a GeoIP criterion and no database (refused at load); "+
		"invertToDomains also together with toMatchedDomainExpected… (two documented readings: every outcome must fit one of them and one reading must fit all requests of the configuration); the requirement stated through inline prefixes / named sets / countries, each alone or mixed; "+
		"default named/reject/implicit-single; 12 requests per config over the config's vocabulary and boundaries (port 0/1/65535 and range edges, mapped sources, IP and domain targets, unknown users, tcp/udp, each server). "+
		"Oracle: three-valued reference evaluator of the RouteConfig field comments. One evaluation = one (config, request) pair. "+
		"Non-trivial: >=2 routes, deciding route not the first, and an inverted or OR-group criterion in a reached route; distinct key = config shape + request class + decider").
	Require("nonfirst-route", "decided-default", "reject", "error-required", "src-mapped", "port0-vs-bitmap", "port0-vs-ranges",
		"repr-single", "repr-ranges", "repr-bitmap", "todomains-over-16", "gob-set", "text-set", "resolved", "inverted", "or-group",
		"target-ip", "target-domain", "unknown-user", "default-implicit", "default-reject", "errlookup-skipped", "route-resolver", "expected-prefixes", "cheap-false-resolver-fails",
		"fromUsers-contains-empty/anonymous-request", "fromUsers-contains-empty/anonymous-request/inverted", "fromUsers-contains-empty/named-request",
		"fromServers-contains-empty/request-from-unnamed-server", "fromServers-contains-empty/request-from-unnamed-server/inverted",
		"toDomains-contains-empty", "prefix-/0", "unspecified-address", "reject-route-network-restricted/other-network-request",
		"geoip-from", "geoip-from/inverted", "geoip-from/or-prefixes", "geoip-to", "geoip-to/inverted", "geoip-to-ip-target", "geoip-to-domain-resolved",
		"geoip-to-domain-not-resolved", "geoip-to-domain-resolver-fails", "geoip-expected", "geoip-expected/inverted", "geoip-expected/domain-matched",
		"geoip-inverted", "geoip-addr-not-in-db", "geoip-record-without-country", "geoip-in-listed-country", "geoip-longest-network-decides",
		"geoip-mapped-address", "geoip-v4-address-under-v6-network", "geoip-decides", "geoip-decides/from", "geoip-decides/to", "geoip-decides/expected",
		"geoip-no-db-refused", "geoip-db/record-size-24", "geoip-db/record-size-28", "geoip-db/record-size-32", "geoip-db/data-pointers",
		// round 6
		"invert-domains-with-expectation", "invert-domains-with-expectation/readings-differ",
		"invert-domains-with-expectation/expectation-plain", "invert-domains-with-expectation/expectation-inverted",
		"expected-alone/inline-prefixes", "expected-alone/prefix-sets", "expected-alone/countries",
		"port0-inverted/from-single/ip-target", "port0-inverted/from-single/domain-target",
		"port0-inverted/from-ranges/ip-target", "port0-inverted/from-ranges/domain-target",
		"port0-inverted/from-bitmap/ip-target", "port0-inverted/from-bitmap/domain-target",
		"port0-inverted/to-single/ip-target", "port0-inverted/to-single/domain-target",
		"port0-inverted/to-ranges/ip-target", "port0-inverted/to-ranges/domain-target",
		"port0-inverted/to-bitmap/ip-target", "port0-inverted/to-bitmap/domain-target")

// The focused sub-space (round 6): see genWorld. Same runner, same model, same failure signatures.
var recExpect = ev.New("C09", "router-model-expectation",
	"rapid: the generator of router-model restricted to configurations with 1-4 routes that all carry a domain criterion (toDomains and/or toDomainSets, plain or invertToDomains) "+
		"with a toMatchedDomainExpected… requirement stated through inline prefixes alone / named prefix sets alone / countries alone / a mixture, plain or with the requirement's own invert flag; every other criterion kind present on 2 of 9 routes; 1-3 resolvers, 1-2 prefix sets, a country database on half; "+
		"12 requests per configuration, three quarters with a domain target, two thirds of those a name the routes list. "+
		"Oracle: the same reference evaluator; for invertToDomains with a requirement the union of the two documented readings, one of which must account for all 12 requests of the configuration. "+
		"Non-trivial: the same rule as router-model").
	Require(func() []string {
		out := []string{"invert-domains-with-expectation", "invert-domains-with-expectation/readings-differ", "error-required", "resolved", "errlookup-skipped", "nonfirst-route", "decided-default"}
		for _, c := range []string{"listed-resolves-inside", "listed-resolves-outside", "unlisted-resolves-inside", "unlisted-resolves-outside", "ip-target", "listed-resolver-fails", "unlisted-resolver-fails"} {
			out = append(out, "invert-domains-with-expectation/"+c, "invert-domains-with-expectation/expectation-inverted/"+c)
		}
		for _, way := range []string{"inline-prefixes", "prefix-sets", "countries"} {
			out = append(out, "expected-alone/"+way)
			for _, c := range []string{"listed-resolves-inside", "listed-resolves-outside", "listed-resolver-fails", "listed-resolver-fails-empty"} {
				out = append(out, "expected-alone/"+way+"/"+c)
			}
		}
		return out
	}()...)

var dirSeq atomic.Int64

// workDir names a fresh directory for the set files of one case; it is created only when the case
// has files to write.
func workDir(t interface{ Fatalf(string, ...any) }) string {
	base := os.Getenv("VERIF_WORK")
	if base == "" {
		base = os.TempDir()
	}
	return filepath.Join(base, fmt.Sprintf("c09-%d-%d", os.Getpid(), dirSeq.Add(1)))
}

const requestsPerConfig = 12

func TestRouterModel(t *testing.T) {
	rapid.Check(t, func(rt *rapid.T) {
		dir := workDir(rt)
		defer os.RemoveAll(dir)
		g := genWorld(rt, dir, false)
		qs := make([]request, requestsPerConfig)
		for i := range qs {
			qs[i] = drawRequest(rt, g)
		}
		runCase(rt, g, qs, recRouter, nil)
	})
}

// TestRouterModelExpectation runs the router model on the focused sub-space of genWorld.
func TestRouterModelExpectation(t *testing.T) {
	rapid.Check(t, func(rt *rapid.T) {
		dir := workDir(rt)
		defer os.RemoveAll(dir)
		g := genWorld(rt, dir, true)
		qs := make([]request, requestsPerConfig)
		for i := range qs {
			qs[i] = drawRequest(rt, g)
		}
		runCase(rt, g, qs, recExpect, nil)
	})
}

type fataler interface {
	Fatalf(string, ...any)
}

func runCase(rt fataler, g *genCase, qs []request, rec *ev.Recorder, ntRule func(q *request) bool) {
	r, err := buildRouter(g)
	if g.expectRefusal {
		js, _ := json.Marshal(&g.cfg)
		if err == nil {
			r.Close()
			rt.Fatalf("SIG=C09/geoip-criterion-without-database-accepted config=%s", js)
		}
		l := "geoip-no-db-refused"
		if !strings.Contains(err.Error(), "missing GeoLite2 country database path") {
			l = "geoip-no-db-refused/other-message"
		}
		rec.Case("refused-at-load", false, l)
		return
	}
	if err != nil {
		js, _ := json.Marshal(&g.cfg)
		rt.Fatalf("SIG=C09/valid-config-rejected err=%v config=%s", err, js)
	}
	defer r.Close()
	w := g.w
	cfgJSON := func() string {
		js, _ := json.Marshal(&g.cfg)
		if w.geo != nil {
			// the database file is gone after the run: print its content
			var sb strings.Builder
			for _, e := range w.geo.table.Entries {
				fmt.Fprintf(&sb, " %v=%q(registered %q)", e.Prefix, e.Country, e.Registered)
			}
			return fmt.Sprintf("%s country-db(mapped-alias=%v):%s", js, !w.geo.table.NoAlias, sb.String())
		}
		return string(js)
	}

	// invertToDomains together with toMatchedDomainExpected…: two documented readings (model, NOTES.md
	// round 6). Every outcome must be acceptable under reading (a) or under reading (b), and one of the
	// two readings must account for all requests of the configuration.
	twoReadings := false
	for i := range w.routes {
		rc := w.routes[i].rc
		if rc.InvertToDomains && len(rc.ToMatchedDomainExpectedPrefixes)+len(rc.ToMatchedDomainExpectedPrefixSets)+len(rc.ToMatchedDomainExpectedGeoIPCountries) > 0 {
			twoReadings = true
		}
	}
	refutesA, refutesB := "", ""

	shape := configShape(g)
	for i := range qs {
		q := &qs[i]
		want := w.route(q)
		accept := want.accept
		var wantB verdict
		if twoReadings {
			w.readingB = true
			wantB = w.route(q)
			w.readingB = false
			accept = map[string]bool{}
			for k := range want.accept {
				accept[k] = true
			}
			for k := range wantB.accept {
				accept[k] = true
			}
		}
		for _, fr := range g.resolvers {
			fr.calls = 0
		}
		got := ask(r, q, g.resolvers)

		labels := []string{}
		add := func(l string) { labels = append(labels, l) }
		for l := range g.labels {
			add(l)
		}
		sort.Strings(labels)
		port0 := ""
		anyInv, anyOr, resolved, skipped := false, false, false, false
		for _, inf := range want.infos {
			if inf.port0VsSet != "" {
				port0 = inf.port0VsSet
				add("port0-vs-" + strings.SplitN(inf.port0VsSet, "-", 2)[1])
			}
			if inf.fromRepr != "" {
				add("repr-" + inf.fromRepr)
			}
			if inf.toRepr != "" {
				add("repr-" + inf.toRepr)
			}
			anyInv = anyInv || inf.inverted
			anyOr = anyOr || inf.orGroup
			resolved = resolved || inf.resolved
			skipped = skipped || inf.skipped
			if inf.cheapFalseResolverFails {
				add("cheap-false-resolver-fails")
			}
			for _, l := range inf.degenerate {
				add(l)
			}
		}
		// round-6 labels: once per pair
		r6Seen := map[string]bool{}
		for _, inf := range want.infos {
			for _, l := range inf.r6 {
				if !r6Seen[l] {
					r6Seen[l] = true
					add(l)
				}
			}
		}
		if twoReadings && !slices.Equal(keys(want.accept), keys(wantB.accept)) {
			add("invert-domains-with-expectation/readings-differ")
		}
		// GeoIP labels: once per pair
		geoSeen := map[string]bool{}
		for _, inf := range want.infos {
			for _, l := range inf.geo {
				if !geoSeen[l] {
					geoSeen[l] = true
					add(l)
				}
			}
		}
		if len(geoSeen) > 0 {
			add("geoip-evaluated")
			// does a GeoIP criterion decide this request? Negate the verdict of the GeoIP criteria of
			// one kind in the model and see whether the acceptable outcomes change.
			decides := false
			for _, k := range []struct {
				bit  uint8
				name string
			}{{geoFrom, "from"}, {geoTo, "to"}, {geoExp, "expected"}} {
				w.geoFlip = k.bit
				alt := w.route(q)
				w.geoFlip = 0
				if !slices.Equal(keys(alt.accept), keys(want.accept)) {
					decides = true
					add("geoip-decides/" + k.name)
				}
			}
			if decides {
				add("geoip-decides")
			}
		}

		if got.panicV != nil {
			sig := "panic"
			if e, ok := got.panicV.(error); ok && errors.Is(e, portset.ErrZeroPort) && (q.Port == 0 || q.Src.Port() == 0) {
				sig = sigPort0
			}
			if sig == sigPort0 && ev.IsKnown("C09", sig) {
				rec.KnownHit(sig)
				rec.Label("port0-vs-bitmap", 1)
				continue
			}
			rt.Fatalf("SIG=C09/%s request=%v panicked: %v (port-0-vs=%q) config=%s", sig, *q, got.panicV, port0, cfgJSON())
		}

		if !accept[got.s] {
			sig := "wrong-route"
			switch {
			case strings.HasPrefix(got.s, "error:") && !hasErrorOutcome(accept):
				sig = "unexpected-error"
			case !strings.HasPrefix(got.s, "error:") && onlyErrorOutcomes(accept):
				sig = "resolver-failure-swallowed"
			case strings.HasPrefix(got.s, "error:"):
				sig = "wrong-error"
			case got.s == "reject" || accept["reject"]:
				sig = "wrong-reject"
			}
			readings := ""
			if twoReadings {
				readings = fmt.Sprintf(" (invertToDomains with toMatchedDomainExpected…: reading a %v, reading b %v)", keys(want.accept), keys(wantB.accept))
			}
			rt.Fatalf("SIG=C09/%s request=%v got=%s (err=%v) acceptable=%v%s config=%s", sig, *q, got.s, got.err, keys(accept), readings, cfgJSON())
		}
		if twoReadings {
			if !want.accept[got.s] && refutesA == "" {
				refutesA = fmt.Sprintf("request=%v got=%s, reading a accepts %v", *q, got.s, keys(want.accept))
			}
			if !wantB.accept[got.s] && refutesB == "" {
				refutesB = fmt.Sprintf("request=%v got=%s, reading b accepts %v", *q, got.s, keys(wantB.accept))
			}
			if refutesA != "" && refutesB != "" {
				rt.Fatalf("SIG=C09/invert-domains-with-expectation-follows-neither-reading the outcomes of one configuration fit neither documented reading of invertToDomains with toMatchedDomainExpected…: "+
					"against (a) \"not (listed and resolves as expected)\": %s; against (b) \"not listed, and resolves as expected\": %s; config=%s", refutesA, refutesB, cfgJSON())
			}
		}

		// classification
		if q.UDP {
			add("net-udp")
		} else {
			add("net-tcp")
		}
		if q.IsIP {
			add("target-ip")
			if q.IP.Is4In6() {
				add("target-mapped")
			}
		} else {
			add("target-domain")
		}
		if q.Src.Addr().Is4In6() {
			add("src-mapped")
		}
		if q.Src.Addr().Unmap().IsUnspecified() || q.IsIP && q.IP.Unmap().IsUnspecified() {
			add("unspecified-address")
		}
		if q.User == "mallory" || q.User == "" {
			add("unknown-user")
		}
		if q.Port == 0 || q.Src.Port() == 0 {
			add("port0")
		}
		if want.ambiguous {
			add("ambiguous-order")
		}
		if resolved {
			add("resolved")
		}
		if anyInv {
			add("inverted")
		}
		if anyOr {
			add("or-group")
		}
		switch {
		case strings.HasPrefix(got.s, "error:"):
			add("error")
			if onlyErrorOutcomes(accept) {
				add("error-required")
			}
			add(strings.Join(strings.SplitN(got.s, ":", 3)[:2], "-"))
		case got.s == "reject":
			add("reject")
		}
		if want.decider == len(w.routes) {
			add("decided-default")
		} else if want.decider >= 0 {
			add("decided-route")
		}
		if want.decider >= 1 {
			add("nonfirst-route")
		}
		if skipped {
			add("errlookup-skipped")
		}
		nt := len(w.routes) >= 2 && want.decider >= 1 && (anyInv || anyOr)
		if ntRule != nil {
			nt = ntRule(q)
		}
		key := fmt.Sprintf("%s|%s|d%d|%s", shape, requestClass(q, port0), want.decider, got.s)
		rec.Case(key, nt, labels...)
		if nt {
			rec.Sample(map[string]any{"routes": len(w.routes), "decider": want.decider, "request": q.String(), "outcome": got.s,
				"shape": shape})
		}
	}
}

func hasErrorOutcome(m map[string]bool) bool {
	for k := range m {
		if strings.HasPrefix(k, "error:") {
			return true
		}
	}
	return false
}

func onlyErrorOutcomes(m map[string]bool) bool {
	for k := range m {
		if !strings.HasPrefix(k, "error:") {
			return false
		}
	}
	return len(m) > 0
}

func keys(m map[string]bool) []string {
	var out []string
	for k := range m {
		out = append(out, k)
	}
	sort.Strings(out)
	return out
}

// configShape summarises which criteria each route carries (presence/inversion/representation).
func configShape(g *genCase) string {
	var sb strings.Builder
	for i := range g.w.routes {
		rm := &g.w.routes[i]
		rc := rm.rc
		f := func(present, inv bool, c byte) {
			switch {
			case !present:
				sb.WriteByte('-')
			case inv:
				sb.WriteByte(c - 32) // upper case = inverted
			default:
				sb.WriteByte(c)
			}
		}
		sb.WriteString(rc.Network)
		if rc.Client == "reject" {
			sb.WriteByte('!')
		}
		f(len(rc.FromServers) > 0, rc.InvertFromServers, 's')
		f(len(rc.FromUsers) > 0, rc.InvertFromUsers, 'u')
		f(rm.fromPort != nil, rc.InvertFromPorts, 'p')
		if rm.fromPort != nil {
			sb.WriteString(rm.fromPort.repr()[:1])
		}
		f(len(rc.FromPrefixes) > 0, rc.InvertFromPrefixes, 'x')
		f(len(rc.FromPrefixSets) > 0, rc.InvertFromPrefixes, 'y')
		f(rm.toPort != nil, rc.InvertToPorts, 'q')
		if rm.toPort != nil {
			sb.WriteString(rm.toPort.repr()[:1])
		}
		f(len(rc.ToDomains) > 0, rc.InvertToDomains, 'd')
		f(len(rc.ToDomainSets) > 0, rc.InvertToDomains, 'e')
		f(len(rc.ToMatchedDomainExpectedPrefixes)+len(rc.ToMatchedDomainExpectedPrefixSets) > 0, rc.InvertToMatchedDomainExpectedPrefixes, 'm')
		f(len(rc.FromGeoIPCountries) > 0, rc.InvertFromGeoIPCountries, 'g')
		f(len(rc.ToGeoIPCountries) > 0, rc.InvertToGeoIPCountries, 'h')
		f(len(rc.ToMatchedDomainExpectedGeoIPCountries) > 0, rc.InvertToMatchedDomainExpectedGeoIPCountries, 'k')
		f(len(rc.ToPrefixes) > 0, rc.InvertToPrefixes, 'v')
		f(len(rc.ToPrefixSets) > 0, rc.InvertToPrefixes, 'w')
		f(rc.DisableNameResolutionForIPRules, false, 'n')
		f(rc.Resolver != "", false, 'r')
		sb.WriteByte('/')
	}
	return sb.String()
}

func requestClass(q *request, port0 string) string {
	c := "t"
	if q.UDP {
		c = "u"
	}
	if q.IsIP {
		if q.IP.Unmap().Is4() {
			c += "4"
		} else {
			c += "6"
		}
		if q.IP.Is4In6() {
			c += "m"
		}
	} else {
		c += "d"
	}
	if q.Src.Addr().Is4In6() {
		c += "M"
	}
	return c + port0
}
