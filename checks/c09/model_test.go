package c09

// Reference evaluator of the routing rules, written from the field comments of
// router.RouteConfig and the C09 statement only:
//
//   * criteria of different kinds combine with AND;
//   * the source-address kinds (fromPrefixes ∪ fromPrefixSets, fromGeoIPCountries) combine with OR,
//     the destination kinds (toDomains ∪ toDomainSets, toPrefixes ∪ toPrefixSets, toGeoIPCountries)
//     combine with OR;
//   * "IP addresses in these countries": the country is country.iso_code of the record the GeoLite2
//     country database holds for the address (longest network, MaxMind DB lookup rules); an address
//     without a record, or with a record that names no country, is in no country;
//   * each invert flag negates its own criterion;
//   * "toMatchedDomainExpected…" *requires* (AND) the matched domain to resolve into the prefixes;
//   * invertToDomains on a route that also states such a requirement is documented in two ways and the
//     evaluator implements both (world.readingB): (a) "Invert destination domain matching logic" - the
//     flag negates the domain criterion as a whole, i.e. NOT(listed AND resolves as expected); (b) "Match
//     requests to all domains except those in ToDomains or ToDomainSets" + "Require the matched domain
//     target to resolve to …" - the flag negates the list membership, the requirement still holds:
//     (NOT listed) AND resolves as expected. The runner accepts the union and demands that one reading
//     accounts for all requests of a configuration;
//   * port 0 (which can be requested but never listed) is in no port set: a plain port criterion is not
//     met by it, an inverted one ("all ports except those in …") is;
//   * IP criteria on a domain target use the address the resolver returns (the route's named
//     resolver, else all resolvers by order, skipping those that fail with dns.ErrLookup), unless
//     disableNameResolutionForIPRules;
//   * first matching route wins, otherwise the default; "reject" rejects;
//   * resolver failures are errors, never a match.
//
// The evaluator is three-valued (true / false / error). Inside the destination group and inside
// "matched domain AND expected prefixes" it does not fix an evaluation order: and3(false, error)
// and or3(true, error) allow both results. Across kinds it is stricter: when a condition that
// needs no resolver is false, the route is a definite non-match (never an error).

import (
	"net/netip"
	"slices"
	"strings"

	"github.com/database64128/shadowsocks-go/router"

	"verif/internal/mmdbx"
	"verif/internal/routex"
)

const (
	vT uint8 = 1
	vF uint8 = 2
	vE uint8 = 4
)

func b3(b bool) uint8 {
	if b {
		return vT
	}
	return vF
}

func not3(s uint8) uint8 {
	var out uint8
	if s&vT != 0 {
		out |= vF
	}
	if s&vF != 0 {
		out |= vT
	}
	out |= s & vE
	return out
}

// and3 over sets of possible values.
func and3(a, b uint8) uint8 {
	var out uint8
	for _, x := range []uint8{vT, vF, vE} {
		if a&x == 0 {
			continue
		}
		for _, y := range []uint8{vT, vF, vE} {
			if b&y == 0 {
				continue
			}
			switch {
			case x == vT && y == vT:
				out |= vT
			case x == vE && y == vF, x == vF && y == vE:
				out |= vF | vE // order of evaluation decides
			case x == vF || y == vF:
				out |= vF
			default: // an error with nothing false
				out |= vE
			}
		}
	}
	return out
}

func or3(a, b uint8) uint8 { return not3(and3(not3(a), not3(b))) }

// ---- configuration model

type answer struct {
	Kind int // 0 AAAA+A, 1 A only, 2 AAAA only, 3 no address, 4 ErrLookup, 5 other error
	V6   netip.Addr
	V4   netip.Addr
}

type resolverModel struct {
	Name   string
	ByName map[string]answer
	Def    answer
}

type portModel struct {
	set        [65536]bool
	count      int
	rangeCount int
}

func (p *portModel) repr() string {
	switch {
	case p.count == 1:
		return "single"
	case p.rangeCount <= 16:
		return "ranges"
	default:
		return "bitmap"
	}
}

func (p *portModel) finish() {
	p.count, p.rangeCount = 0, 0
	prev := false
	for i := 1; i < 65536; i++ {
		if p.set[i] {
			p.count++
			if !prev {
				p.rangeCount++
			}
		}
		prev = p.set[i]
	}
}

type dsModel struct {
	Name  string
	Type  string
	Rules []routex.Rule
	naive *routex.Naive
}

type psModel struct {
	Name     string
	Prefixes []netip.Prefix
}

type routeModel struct {
	rc       *router.RouteConfig
	fromPort *portModel // nil when no source port criterion
	toPort   *portModel
}

// geoModel is the country database of a world: the entries the harness wrote into the file.
type geoModel struct {
	table mmdbx.Table
	path  string
}

// kinds of GeoIP criteria (bits of world.geoFlip)
const (
	geoFrom uint8 = 1
	geoTo   uint8 = 2
	geoExp  uint8 = 4
)

type world struct {
	geo *geoModel // nil: no geoLite2CountryDbPath
	// counterfactual switch used only for the label "geoip-decides": the verdict of the GeoIP
	// criteria of these kinds is negated
	geoFlip uint8
	// which of the two documented readings of invertToDomains together with toMatchedDomainExpected…
	// the model evaluates (NOTES.md, round 6): false = (a) the flag negates the composite "listed AND
	// resolves as expected"; true = (b) the flag negates the list membership and the expectation is
	// still required of the domain. The runner accepts exactly the union of the two.
	readingB  bool
	servers   []string
	tcp       map[string]bool
	udp       map[string]bool
	resolvers []*resolverModel
	dsets     map[string]*dsModel
	psets     map[string]*psModel
	routes    []routeModel
	defTCP    string // outcome string of the default route for TCP
	defUDP    string
}

type request struct {
	UDP    bool
	Server int
	User   string
	Src    netip.AddrPort
	IsIP   bool
	IP     netip.Addr
	Domain string
	Port   uint16
}

// lookup models "use this resolver … if unspecified, use all resolvers by order"; a resolver
// that fails with ErrLookup is skipped, any other result is final.
func (w *world) lookup(rc *router.RouteConfig, domain string) (ip netip.Addr, errKind string, skipped bool) {
	defer func() { skipped = skipped && errKind != "noresolvers" }()
	for _, r := range w.resolvers {
		if rc.Resolver != "" && r.Name != rc.Resolver {
			continue
		}
		a, ok := r.ByName[domain]
		if !ok {
			a = r.Def
		}
		switch a.Kind {
		case 0, 2:
			return a.V6, "", skipped
		case 1:
			return a.V4, "", skipped
		case 3:
			return netip.Addr{}, "noips", skipped
		case 4:
			skipped = true
			continue
		default:
			return netip.Addr{}, "other:" + r.Name, skipped
		}
	}
	return netip.Addr{}, "noresolvers", skipped
}

func (w *world) prefixes(list []netip.Prefix, sets []string) []netip.Prefix {
	out := slices.Clone(list)
	for _, s := range sets {
		out = append(out, w.psets[s].Prefixes...)
	}
	return out
}

type evalInfo struct {
	errKind  string
	resolved bool
	skipped  bool // a resolver failing with ErrLookup was passed over and a later one answered
	inverted bool // a present criterion of this route carries an invert flag
	orGroup  bool // a group with more than one member list is present
	// a resolver-independent condition is false and the destination group could only be decided
	// through a failing resolver: the route simply does not match
	cheapFalseResolverFails bool
	degenerate              []string // labels for degenerate list members met by this request
	geo                     []string // labels of the GeoIP criteria evaluated for this request
	r6                      []string // round-6 labels (invert+expectation, expectation given one way only, inverted port criterion vs port 0)
	fromRepr                string
	toRepr                  string
	port0VsSet              string // "", "from-<repr>", "to-<repr>"
}

// inCountries: is an address whose database country is c "in these countries"? An address that has
// no country is in none; whether a list member "" (accepted at load, not a country) stands for
// "no country" is not documented, so both verdicts are accepted for that one combination.
func inCountries(list []string, c string, info *evalInfo) uint8 {
	if c == "" {
		if slices.Contains(list, "") {
			info.geo = append(info.geo, "geoip-open/no-country-vs-empty-list-member")
			return vT | vF
		}
		return vF
	}
	return b3(slices.Contains(list, c))
}

// geoMatch evaluates "IP addresses in these countries" for one address.
func (w *world) geoMatch(list []string, a netip.Addr, kind uint8, info *evalInfo) uint8 {
	g := func(l string) { info.geo = append(info.geo, l) }
	tab := w.geo.table
	e, found := tab.Lookup(a)
	switch {
	case !found:
		g("geoip-addr-not-in-db")
	case e.Country == "":
		g("geoip-record-without-country")
	default:
		if rest, ok := (mmdbx.Table{Entries: entriesWithout(tab.Entries, e.Prefix), NoAlias: tab.NoAlias}).Lookup(a); ok && rest.Country != e.Country {
			g("geoip-longest-network-decides")
		}
		if !e.Prefix.Addr().Is4() && a.Unmap().Is4() && (a.Is4() || !tab.NoAlias) {
			g("geoip-v4-address-under-v6-network")
		}
	}
	if slices.Contains(list, "") {
		g("geoip-list-contains-empty")
	}
	res := inCountries(list, e.Country, info)
	if a.Is4In6() {
		g("geoip-mapped-address")
		if tab.NoAlias {
			// A database without the ::ffff:0:0/96 alias (the published GeoLite2 files have it) holds
			// nothing of its own for IPv4-mapped addresses. Whether the address is taken literally or as
			// the IPv4 address it stands for (as the prefix criteria do) is not documented: both accepted.
			e4, _ := tab.Lookup(a.Unmap())
			res |= inCountries(list, e4.Country, info)
			if res == vT|vF {
				g("geoip-open/mapped-address-no-alias")
			}
		}
	}
	if res == vT {
		g("geoip-in-listed-country")
	}
	if w.geoFlip&kind != 0 {
		res = not3(res)
	}
	return res
}

func entriesWithout(es []mmdbx.Entry, p netip.Prefix) []mmdbx.Entry {
	out := make([]mmdbx.Entry, 0, len(es))
	for _, e := range es {
		if e.Prefix != p {
			out = append(out, e)
		}
	}
	return out
}

// evalRoute returns the set of acceptable verdicts of one route for one request.
func (w *world) evalRoute(rm *routeModel, q *request) (uint8, evalInfo) {
	rc := rm.rc
	var info evalInfo
	acc := vT

	switch rc.Network {
	case "tcp":
		acc = and3(acc, b3(!q.UDP))
	case "udp":
		acc = and3(acc, b3(q.UDP))
	}

	inv := func(v uint8, flag bool) uint8 {
		if flag {
			info.inverted = true
			return not3(v)
		}
		return v
	}

	deg := func(l string) { info.degenerate = append(info.degenerate, l) }
	// Inverted port criteria met by a request that carries port 0. "Match requests from/to all ports
	// except those in FromPorts/ToPorts": port 0 cannot be listed (refused at load), so it is never one
	// of "those in …" and the inverted criterion is met. The label is counted when the route matches,
	// i.e. when that verdict was necessary for the outcome.
	var port0Inverted []string
	finish := func(acc uint8) {
		if acc != vT {
			return
		}
		kind := "domain"
		if q.IsIP {
			kind = "ip"
		}
		for _, l := range port0Inverted {
			info.r6 = append(info.r6, "port0-inverted/"+l, "port0-inverted/"+l+"/"+kind+"-target")
		}
	}
	invSuffix := func(flag bool) string {
		if flag {
			return "/inverted"
		}
		return ""
	}
	if rc.Client == "reject" && (rc.Network == "tcp" && q.UDP || rc.Network == "udp" && !q.UDP) {
		deg("reject-route-network-restricted/other-network-request")
	}
	if len(rc.FromServers) > 0 && slices.Contains(rc.FromServers, "") {
		if w.servers[q.Server] == "" {
			deg("fromServers-contains-empty/request-from-unnamed-server" + invSuffix(rc.InvertFromServers))
		}
	}
	if len(rc.FromUsers) > 0 && slices.Contains(rc.FromUsers, "") {
		// plain membership: "" is an ordinary list member (requests without an authenticated user)
		if q.User == "" {
			deg("fromUsers-contains-empty/anonymous-request" + invSuffix(rc.InvertFromUsers))
		} else {
			deg("fromUsers-contains-empty/named-request")
		}
	}
	if slices.Contains(rc.ToDomains, "") {
		deg("toDomains-contains-empty")
	}
	for _, ps := range [][]netip.Prefix{rc.FromPrefixes, rc.ToPrefixes, rc.ToMatchedDomainExpectedPrefixes} {
		for _, p := range ps {
			if p.Bits() == 0 {
				deg("prefix-/0")
			}
		}
	}
	if len(rc.FromServers) > 0 {
		acc = and3(acc, inv(b3(slices.Contains(rc.FromServers, w.servers[q.Server])), rc.InvertFromServers))
	}
	if len(rc.FromUsers) > 0 {
		acc = and3(acc, inv(b3(slices.Contains(rc.FromUsers, q.User)), rc.InvertFromUsers))
	}
	if rm.fromPort != nil {
		info.fromRepr = rm.fromPort.repr()
		if q.Src.Port() == 0 {
			info.port0VsSet = "from-" + info.fromRepr
			if rc.InvertFromPorts {
				port0Inverted = append(port0Inverted, "from-"+info.fromRepr)
			}
		}
		acc = and3(acc, inv(b3(rm.fromPort.set[q.Src.Port()]), rc.InvertFromPorts))
	}
	hasFromPrefix := len(rc.FromPrefixes) > 0 || len(rc.FromPrefixSets) > 0
	hasFromGeo := len(rc.FromGeoIPCountries) > 0
	if hasFromPrefix || hasFromGeo {
		// the source-address kinds combine with OR; each invert flag negates its own kind
		group := vF
		if hasFromPrefix {
			if len(rc.FromPrefixes) > 0 && len(rc.FromPrefixSets) > 0 {
				info.orGroup = true
			}
			ps := w.prefixes(rc.FromPrefixes, rc.FromPrefixSets)
			group = or3(group, inv(b3(routex.AnyContains(ps, q.Src.Addr().Unmap())), rc.InvertFromPrefixes))
		}
		if hasFromGeo {
			info.geo = append(info.geo, "geoip-from")
			if rc.InvertFromGeoIPCountries {
				info.geo = append(info.geo, "geoip-inverted", "geoip-from/inverted")
			}
			if hasFromPrefix {
				info.orGroup = true
				info.geo = append(info.geo, "geoip-from/or-prefixes")
			}
			group = or3(group, inv(w.geoMatch(rc.FromGeoIPCountries, q.Src.Addr(), geoFrom, &info), rc.InvertFromGeoIPCountries))
		}
		acc = and3(acc, group)
	}
	if rm.toPort != nil {
		info.toRepr = rm.toPort.repr()
		if q.Port == 0 {
			info.port0VsSet = "to-" + info.toRepr
			if rc.InvertToPorts {
				port0Inverted = append(port0Inverted, "to-"+info.toRepr)
			}
		}
		acc = and3(acc, inv(b3(rm.toPort.set[q.Port]), rc.InvertToPorts))
	}

	hasDomain := len(rc.ToDomains) > 0 || len(rc.ToDomainSets) > 0
	hasExpPrefix := len(rc.ToMatchedDomainExpectedPrefixes) > 0 || len(rc.ToMatchedDomainExpectedPrefixSets) > 0
	hasExpGeo := len(rc.ToMatchedDomainExpectedGeoIPCountries) > 0
	hasExpected := hasExpPrefix || hasExpGeo
	hasPrefix := len(rc.ToPrefixes) > 0 || len(rc.ToPrefixSets) > 0
	hasToGeo := len(rc.ToGeoIPCountries) > 0
	if hasDomain || hasPrefix || hasToGeo {
		members := 0
		group := vF
		others := vF     // the prefix and country members of the group
		var domExp uint8 // verdict of the "resolves as expected" requirement for a domain target
		var domExpSet, domListed bool
		if hasDomain {
			members++
			if len(rc.ToDomains) > 0 && len(rc.ToDomainSets) > 0 || len(rc.ToDomainSets) > 1 {
				info.orGroup = true
			}
			dm := false
			if !q.IsIP {
				dm = slices.Contains(rc.ToDomains, q.Domain)
				for _, s := range rc.ToDomainSets {
					if w.dsets[s].naive.Match(q.Domain) {
						dm = true
					}
				}
			}
			var member uint8
			if hasExpected {
				// the requirement evaluated for one address
				expOn := func(ip netip.Addr, info *evalInfo, resolved bool) uint8 {
					var expP, expG uint8
					if hasExpPrefix {
						eps := w.prefixes(rc.ToMatchedDomainExpectedPrefixes, rc.ToMatchedDomainExpectedPrefixSets)
						expP = b3(routex.AnyContains(eps, ip.Unmap()))
						if rc.InvertToMatchedDomainExpectedPrefixes {
							info.inverted = true
							expP = not3(expP)
						}
					}
					if hasExpGeo {
						if resolved {
							info.geo = append(info.geo, "geoip-expected")
							if rc.InvertToMatchedDomainExpectedGeoIPCountries {
								info.geo = append(info.geo, "geoip-inverted", "geoip-expected/inverted")
							}
							if dm {
								info.geo = append(info.geo, "geoip-expected/domain-matched")
							}
						}
						expG = w.geoMatch(rc.ToMatchedDomainExpectedGeoIPCountries, ip, geoExp, info)
						if rc.InvertToMatchedDomainExpectedGeoIPCountries {
							info.inverted = true
							expG = not3(expG)
						}
					}
					switch {
					case hasExpPrefix && hasExpGeo:
						// Two "Require the matched domain target to resolve to IP addresses in these …"
						// sentences: read as one requirement over the union of the address kinds (OR, as
						// for every other pair of address kinds) or as two requirements (AND). The comments
						// do not decide; both are accepted.
						if resolved {
							info.geo = append(info.geo, "geoip-expected/with-expected-prefixes")
							if or3(expP, expG) != and3(expP, expG) {
								info.geo = append(info.geo, "geoip-open/expected-prefixes-and-countries")
							}
						}
						return or3(expP, expG) | and3(expP, expG)
					case hasExpGeo:
						return expG
					}
					return expP
				}
				var exp uint8 // domain targets only
				if !q.IsIP {
					ip, ek, sk := w.lookup(rc, q.Domain)
					info.skipped = info.skipped || sk
					if ek != "" {
						exp = vE
						info.errKind = ek
					} else {
						info.resolved = true
						exp = expOn(ip, &info, true)
					}
				}
				switch {
				case !rc.InvertToDomains:
					// "Require the matched domain target to resolve to …": listed AND resolves as expected;
					// an IP target is not a listed domain
					if q.IsIP {
						member = vF
					} else {
						member = and3(b3(dm), exp)
					}
				case !w.readingB:
					// reading (a): "Invert destination domain matching logic" negates the whole domain
					// criterion, which with an expectation is the composite "listed AND resolves as expected"
					info.inverted = true
					if q.IsIP {
						member = vT
					} else {
						member = not3(and3(b3(dm), exp))
					}
				default:
					// reading (b): "Match requests to all domains except those in ToDomains or ToDomainSets"
					// negates the list membership; "Require the matched domain target to resolve to …" still
					// holds for the domain the route now matches. For an IP target nothing is listed and
					// there is no domain to resolve: either nothing is required, or the address itself is
					// held to the requirement (what every "resolved IP" criterion of the package does with
					// IP targets) - the sentence does not say; both are accepted under this reading.
					info.inverted = true
					if q.IsIP {
						var scratch evalInfo
						member = vT | expOn(q.IP, &scratch, false)
					} else {
						member = and3(not3(b3(dm)), exp)
					}
				}
				domExp, domExpSet = exp, true
			} else {
				member = inv(b3(dm), rc.InvertToDomains)
			}
			domListed = dm
			group = or3(group, member)
		}
		if hasPrefix {
			members++
			ps := w.prefixes(rc.ToPrefixes, rc.ToPrefixSets)
			var member uint8
			switch {
			case q.IsIP:
				member = inv(b3(routex.AnyContains(ps, q.IP.Unmap())), rc.InvertToPrefixes)
			case rc.DisableNameResolutionForIPRules:
				member = inv(vF, rc.InvertToPrefixes)
			default:
				ip, ek, sk := w.lookup(rc, q.Domain)
				info.skipped = info.skipped || sk
				if ek != "" {
					member = vE
					info.errKind = ek
				} else {
					info.resolved = true
					member = inv(b3(routex.AnyContains(ps, ip.Unmap())), rc.InvertToPrefixes)
				}
			}
			group = or3(group, member)
			others = or3(others, member)
		}
		if hasToGeo {
			members++
			info.geo = append(info.geo, "geoip-to")
			if rc.InvertToGeoIPCountries {
				info.geo = append(info.geo, "geoip-inverted", "geoip-to/inverted")
			}
			var member uint8
			switch {
			case q.IsIP:
				info.geo = append(info.geo, "geoip-to-ip-target")
				member = inv(w.geoMatch(rc.ToGeoIPCountries, q.IP, geoTo, &info), rc.InvertToGeoIPCountries)
			case rc.DisableNameResolutionForIPRules:
				// "Do not resolve destination domains to match IP rules": a domain target is not an IP
				// address in these countries (same reading as for the prefix member)
				info.geo = append(info.geo, "geoip-to-domain-not-resolved")
				member = inv(vF, rc.InvertToGeoIPCountries)
			default:
				ip, ek, sk := w.lookup(rc, q.Domain)
				info.skipped = info.skipped || sk
				if ek != "" {
					member = vE
					info.errKind = ek
					info.geo = append(info.geo, "geoip-to-domain-resolver-fails")
				} else {
					info.resolved = true
					info.geo = append(info.geo, "geoip-to-domain-resolved")
					member = inv(w.geoMatch(rc.ToGeoIPCountries, ip, geoTo, &info), rc.InvertToGeoIPCountries)
				}
			}
			group = or3(group, member)
			others = or3(others, member)
		}
		if members > 1 {
			info.orGroup = true
		}
		if domExpSet {
			w.labelExpectation(rm, q, &info, acc == vT && others == vF, domListed, domExp)
		}
		if acc == vF {
			// A resolver-independent condition of this route (network, server, user, source or
			// destination port, source prefix) is already false: the route's "stated conditions" are
			// not all satisfied whatever the resolver would say, so by the statement the request goes
			// on to the next route. A resolver error is NOT accepted here (see NOTES.md, round 3).
			if group&vE != 0 {
				info.cheapFalseResolverFails = true
			}
			return vF, info
		}
		acc = and3(acc, group)
	}
	finish(acc)
	return acc, info
}

// labelExpectation classifies a request met by a route that carries a "toMatchedDomainExpected…"
// requirement. decisive: every other condition of the route holds and no other member of the
// destination group matches, so the route's verdict is exactly that of the domain member.
func (w *world) labelExpectation(rm *routeModel, q *request, info *evalInfo, decisive, listed bool, exp uint8) {
	rc := rm.rc
	add := func(l string) { info.r6 = append(info.r6, l) }
	class := ""
	if q.IsIP {
		class = "ip-target"
	} else {
		class = "unlisted"
		if listed {
			class = "listed"
		}
		switch exp {
		case vT:
			class += "-resolves-inside"
		case vF:
			class += "-resolves-outside"
		case vE:
			class += "-resolver-fails"
			if info.errKind == "noips" {
				class += "-empty"
			}
		default:
			class = "" // an open GeoIP point: no class
		}
	}
	expInverted := len(rc.ToMatchedDomainExpectedPrefixes)+len(rc.ToMatchedDomainExpectedPrefixSets) > 0 && rc.InvertToMatchedDomainExpectedPrefixes ||
		len(rc.ToMatchedDomainExpectedGeoIPCountries) > 0 && rc.InvertToMatchedDomainExpectedGeoIPCountries
	if rc.InvertToDomains {
		// "inside"/"outside" = the requirement (after its own invert flag) holds / does not hold
		const l = "invert-domains-with-expectation"
		add(l)
		if decisive && class != "" {
			class = strings.TrimSuffix(class, "-empty")
			add(l + "/" + class)
			if expInverted {
				add(l + "/expectation-inverted")
				add(l + "/expectation-inverted/" + class)
			} else {
				add(l + "/expectation-plain")
			}
		}
		return
	}
	// the three ways of stating the requirement, each alone
	way := ""
	switch np, ns, nc := len(rc.ToMatchedDomainExpectedPrefixes), len(rc.ToMatchedDomainExpectedPrefixSets), len(rc.ToMatchedDomainExpectedGeoIPCountries); {
	case np > 0 && ns == 0 && nc == 0:
		way = "inline-prefixes"
	case np == 0 && ns > 0 && nc == 0:
		way = "prefix-sets"
	case np == 0 && ns == 0 && nc > 0:
		way = "countries"
	default:
		return
	}
	add("expected-alone/" + way)
	if decisive && listed && class != "" {
		add("expected-alone/" + way + "/" + class)
		if strings.HasSuffix(class, "-empty") {
			add("expected-alone/" + way + "/" + strings.TrimSuffix(class, "-empty"))
		}
	}
}

type verdict struct {
	accept    map[string]bool // acceptable outcomes: "client:<name>", "reject", "error:<kind>"
	decider   int             // index of the deciding route (len(routes) = default), -1 when ambiguous or error
	reached   int             // number of configured routes evaluated for certain or possibly
	ambiguous bool
	infos     []evalInfo
}

func (w *world) clientOutcome(rc *router.RouteConfig) string {
	if rc.Client == "reject" {
		return "reject"
	}
	return "client:" + rc.Client
}

// route evaluates the whole route list.
func (w *world) route(q *request) verdict {
	v := verdict{accept: map[string]bool{}, decider: -1}
	for i := range w.routes {
		s, info := w.evalRoute(&w.routes[i], q)
		v.infos = append(v.infos, info)
		v.reached++
		if s&vE != 0 {
			v.accept["error:"+info.errKind] = true
		}
		if s&vT != 0 {
			v.accept[w.clientOutcome(w.routes[i].rc)] = true
		}
		if s&vF == 0 {
			if s == vT && len(v.accept) == 1 {
				v.decider = i
			}
			v.ambiguous = len(v.accept) > 1
			return v
		}
	}
	if q.UDP {
		v.accept[w.defUDP] = true
	} else {
		v.accept[w.defTCP] = true
	}
	if len(v.accept) == 1 {
		v.decider = len(w.routes)
	}
	v.ambiguous = len(v.accept) > 1
	return v
}
