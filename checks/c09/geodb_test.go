package c09

import (
	"fmt"
	"net/netip"
	"testing"

	"github.com/oschwald/geoip2-golang/v2"
	"pgregory.net/rapid"

	"verif/internal/ev"
	"verif/internal/mmdbx"
)

var recGeoDB = ev.New("C09", "geoip-db-writer-selfcheck",
	"harness self-check, not a statement about /repo: country databases exactly as TestRouterModel generates them (same generator), written by the harness's MMDB writer and read back through "+
		"geoip2.Reader.Country (the reader the router uses) for every boundary address of every network in IPv4, IPv4-mapped and IPv6 form; oracle: the naive longest-network table the C09 model uses. "+
		"One evaluation = one (database, address) pair. Non-trivial: the address lies in nested networks of different countries, or is IPv4-mapped, or is not in the database").
	Require("found", "not-found", "mapped-alias", "mapped-no-alias", "nested-decides", "record-without-country", "v4-under-v6-network", "record-size-24", "record-size-28", "record-size-32", "data-pointers")

// TestGeoDBWriter: the premise of the GeoIP part of TestRouterModel is that the file the harness
// writes says, through the reader the router uses, what the model's table says.
func TestGeoDBWriter(t *testing.T) {
	rapid.Check(t, func(rt *rapid.T) {
		g := &genCase{w: &world{}, files: map[string][]byte{}, labels: map[string]bool{}}
		genGeo(rt, g, "/nonexistent")
		tab := g.w.geo.table
		r, err := geoip2.OpenBytes(g.files[g.w.geo.path])
		if err != nil {
			rt.Fatalf("SIG=C09/harness-geodb-unreadable %v (entries %v)", err, tab.Entries)
		}
		defer r.Close()
		probes := mmdbx.Probes(tab.Entries)
		probes = append(probes, addrPool...)
		for _, a := range addrPool4 {
			probes = append(probes, netip.AddrFrom16(a.As16()))
		}
		for _, a := range probes {
			want, ok := tab.Lookup(a)
			got, err := r.Country(a)
			if err != nil {
				rt.Fatalf("SIG=C09/harness-geodb-lookup-error Country(%v): %v (entries %v)", a, err, tab.Entries)
			}
			if got.Country.ISOCode != want.Country || got.RegisteredCountry.ISOCode != want.Registered || got.HasData() != ok {
				rt.Fatalf("SIG=C09/harness-geodb-mismatch Country(%v) = %q (registered %q, data %v); table: %+v found=%v; entries %v noAlias=%v",
					a, got.Country.ISOCode, got.RegisteredCountry.ISOCode, got.HasData(), want, ok, tab.Entries, tab.NoAlias)
			}
			var labels []string
			for l := range g.labels {
				if len(l) > len("geoip-db/") {
					labels = append(labels, l[len("geoip-db/"):])
				}
			}
			nt := false
			if ok {
				labels = append(labels, "found")
				if want.Country == "" {
					labels = append(labels, "record-without-country")
				}
				if rest, ok2 := (mmdbx.Table{Entries: entriesWithout(tab.Entries, want.Prefix), NoAlias: tab.NoAlias}).Lookup(a); ok2 && rest.Country != want.Country {
					labels = append(labels, "nested-decides")
					nt = true
				}
				if !want.Prefix.Addr().Is4() && a.Unmap().Is4() && (a.Is4() || !tab.NoAlias) {
					labels = append(labels, "v4-under-v6-network")
				}
			} else {
				labels = append(labels, "not-found")
				nt = true
			}
			if a.Is4In6() {
				nt = true
				if tab.NoAlias {
					labels = append(labels, "mapped-no-alias")
				} else {
					labels = append(labels, "mapped-alias")
				}
			}
			recGeoDB.Case(fmt.Sprintf("%v|%v|%v", tab.Entries, tab.NoAlias, a), nt, labels...)
		}
	})
}
