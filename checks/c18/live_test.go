package c18

import (
	"context"
	"fmt"
	"net"
	"net/netip"
	"os"
	"path/filepath"
	"time"
)

// natLive starts tunnel -> ss2022 client -> ss2022 server (natTimeout in the given default
// representation) -> direct -> echo, sends one UDP request, stays silent for 55 s and lets the
// target send once more on the same mapping. Returns "" when the late datagram is relayed.
func natLive(name string, legacy bool, mode vmode) string {
	w := &world{files: map[string]string{}, target: "127.0.0.1:@@ECHO@@", nports: 2}
	t0 := &srv{name: "tun", proto: "direct", f: fields{}, tunnel: w.target, mtu: intp(1500), upUDP: "c1"}
	t0.udp = []*lst{{network: "udp", port: 0, f: fields{"natTimeout": &dfield{Mode: mValue, Val: "5m0s"}}}}
	s1 := &srv{name: "ss", proto: "2022-blake3-aes-128-gcm", f: fields{}, mtu: intp(1500), upUDP: "d0", legacyOK: legacy, legacy: legacy}
	s1.psk, s1.pskSet = keyBytes(7, 16), true
	s1.udp = []*lst{{network: "udp", port: 1, f: fields{"natTimeout": &dfield{Mode: mode}}}}
	w.servers = []*srv{t0, s1}
	w.clients = []*cli{
		{name: "d0", proto: "direct", udp: true, tcp: true, toServer: -1, mtu: intp(1500), f: fields{}},
		{name: "c1", proto: s1.proto, udp: true, toServer: 1, mtu: intp(1500), psk: s1.psk, f: fields{}},
	}
	w.routes = []*route{{name: "entry", network: "udp", client: "c1", fromServers: []string{"tun"}, f: fields{}, extra: map[string]any{}}}
	w.defTCP, w.defUDP = strp("d0"), strp("d0")
	if vs := w.validate(); len(vs) > 0 {
		return fmt.Sprintf("harness error: %v", vs)
	}

	env, err := newNetEnv()
	if err != nil {
		return "harness error: " + err.Error()
	}
	defer env.close()
	dir, err := os.MkdirTemp(workDir(), "c18-live-")
	if err != nil {
		return "harness error: " + err.Error()
	}
	defer os.RemoveAll(dir)
	var ports []int
	for range w.nports {
		p, err := pickPort()
		if err != nil {
			return "harness error: " + err.Error()
		}
		ports = append(ports, p)
	}
	path := filepath.Join(dir, "config.json")
	os.WriteFile(path, []byte(substitute(w.emit(-1, false), dir, env.echoPort(), env.dnsPort(), ports)), 0o644)
	logger, _ := newLogger("debug", "console")
	_, m, err := loadConfig(path, logger)
	if err != nil {
		return fmt.Sprintf("SIG=C18/valid-config-refused %s: %v", name, err)
	}
	ctx, cancel := context.WithCancel(context.Background())
	done := make(chan bool, 1)
	go func() { done <- m.Run(ctx) }()
	defer func() {
		cancel()
		select {
		case <-done:
		case <-time.After(30 * time.Second):
		}
		m.Close()
	}()

	c, err := net.ListenUDP("udp4", &net.UDPAddr{IP: net.ParseIP("127.0.0.1")})
	if err != nil {
		return "harness error: " + err.Error()
	}
	defer c.Close()
	dst := netip.AddrPortFrom(netip.MustParseAddr("127.0.0.1"), uint16(ports[0]))
	b := make([]byte, 2048)
	got := false
	for i := 0; i < 40 && !got; i++ {
		c.WriteToUDPAddrPort([]byte("first"), dst)
		c.SetReadDeadline(time.Now().Add(250 * time.Millisecond))
		for {
			n, _, err := c.ReadFromUDPAddrPort(b)
			if err != nil {
				break
			}
			if string(b[:n]) == "first" {
				got = true
			}
		}
	}
	if !got {
		return fmt.Sprintf("SIG=C18/smoke-no-echo/udp-tunnel %s: first echo never arrived", name)
	}
	from := env.lastFrom.Load()
	time.Sleep(55 * time.Second)
	// drain anything late from the first exchange, then let the target speak again
	c.SetReadDeadline(time.Now().Add(10 * time.Millisecond))
	for {
		if _, _, err := c.ReadFromUDPAddrPort(b); err != nil {
			break
		}
	}
	for i := 0; i < 3; i++ {
		env.echoUDP.WriteToUDPAddrPort([]byte("late"), *from)
		c.SetReadDeadline(time.Now().Add(time.Second))
		if n, _, err := c.ReadFromUDPAddrPort(b); err == nil && string(b[:n]) == "late" {
			return ""
		}
	}
	return fmt.Sprintf("SIG=C18/default-nat-timeout-below-replay-window %s: a reply sent 55 s after the last packet was not relayed, so the NAT mapping of the "+
		"Shadowsocks 2022 server (natTimeout in its default representation) lived less than the 60 s replay window", name)
}
