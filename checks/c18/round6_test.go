package c18

// Deterministic stages added in round 6. Each builds a few hand-made worlds that contain many
// servers (one child run per world), derives the smoke script from the world like the random
// search does, and checks accept/refuse, the effective values and the traffic.
//
//	TestTLSMatrix      certificate store + HTTP proxy TLS options, server and client side, under traffic
//	TestLegacyForms    every protocol with UDP written with the legacy single-listener fields only vs listener arrays
//	TestUDPBoundaries  relayBatchSize 1/2 under bursts; paddingPolicy representations x payloads at the MTU budget

import (
	"fmt"
	"sort"
	"strings"
	"testing"

	"verif/internal/ev"
)

var logLevels = []string{"debug", "info", "warn"}
var logPresets = []string{"console", "console-nocolor", "console-notime", "console-nocolor-notime"}

// handWorld starts a world with the direct client d0 (MTU 9000) as the default for both networks.
func handWorld(target string) *world {
	w := &world{files: map[string]string{}, target: target}
	w.clients = []*cli{{name: "d0", proto: "direct", tcp: true, udp: true, toServer: -1, mtu: intp(9000), f: fields{}}}
	w.defTCP, w.defUDP = strp("d0"), strp("d0")
	return w
}

// addServer appends a server with one TCP and/or one UDP listener on a fresh port, routed to upstream.
func (w *world) addServer(name, proto string, tcp, udp bool, up string) *srv {
	s := &srv{name: name, proto: proto, f: fields{}}
	port := w.nports
	w.nports++
	if tcp {
		s.tcp = []*lst{{network: "tcp", port: port, f: fields{"initialPayloadWaitTimeout": &dfield{Mode: mValue, Val: "20ms"}}}}
		s.upTCP = up
	}
	if udp && proto != "http" {
		s.udp = []*lst{{network: "udp", port: port, f: fields{}}}
		s.mtu = intp(9000)
		s.upUDP = up
	}
	switch {
	case proto == "direct":
		s.tunnel = w.target
	case s.is2022():
		s.psk, s.pskSet = keyBytes(uint64(len(w.servers))+11, keyLen(proto)), true
	}
	w.servers = append(w.servers, s)
	if up != "d0" {
		network := ""
		if !tcp || s.upUDP == "" {
			network = map[bool]string{true: "tcp", false: "udp"}[tcp]
		}
		w.routes = append(w.routes, &route{name: "route-" + name, network: network, client: up, fromServers: []string{name}, f: fields{}, extra: map[string]any{}})
	}
	return s
}

// addClientFor appends a proxy client that connects to server s.
func (w *world) addClientFor(name string, s *srv) *cli {
	idx := -1
	for i := range w.servers {
		if w.servers[i] == s {
			idx = i
		}
	}
	c := &cli{name: name, proto: s.proto, toServer: idx, tcp: len(s.tcp) > 0, udp: len(s.udp) > 0, f: fields{}}
	if s.proto == "socks5" && (len(s.tcp) == 0 || len(s.udp) == 0) {
		c.udp = false
	}
	if c.udp {
		c.mtu = intp(*s.mtu)
	}
	if s.is2022() {
		c.psk = s.psk
		if s.upskFile != "" {
			c.psk, c.ipsks = s.users["user0"], [][]byte{s.psk}
		}
	}
	c.authUser, c.authPass = s.authUser, s.authPass
	w.clients = append(w.clients, c)
	return c
}

func (s *srv) multiUser(w *world) {
	s.upskFile = "upsk-" + s.name + ".json"
	s.users = map[string][]byte{"user0": keyBytes(77, keyLen(s.proto))}
	w.files[s.upskFile] = usersJSON(s.users)
}

// loadAndRun loads the world (accept expected), checks the documented effective values, runs the
// derived smoke script in the child and returns the labels; t.Fatal on any violation.
func loadAndRun(t *testing.T, rec *ev.Recorder, w *world, name string, seed uint64, variant int, tweak func(p *Plan)) (obs, []string) {
	t.Helper()
	if vs := w.validate(); len(vs) != 0 {
		t.Fatalf("harness error: hand-made world %s is not valid: %v", name, vs)
	}
	level := logLevels[variant%len(logLevels)]
	text := w.emit(-1, false)
	l := loadText(text, w.files, w.nports, false, level)
	defer l.close()
	if l.err != nil {
		t.Fatalf("VERIF-VIOLATION SIG=C18/valid-config-refused %s: %v\n%s", name, l.err, text)
	}
	var diffs []string
	for _, d := range w.documented(l.obs) {
		if !strings.Contains(d, "rejectPolicy") {
			diffs = append(diffs, d)
		}
	}
	if len(diffs) > 0 {
		t.Fatalf("VERIF-VIOLATION SIG=C18/default-mismatch/%s %s: %v\n%s", fieldOf(diffs[0]), name, diffs, text)
	}
	p := w.plan(name, text, seed)
	p.LogLevel, p.LogPreset = level, logPresets[variant%len(logPresets)]
	if tweak != nil {
		tweak(p)
	}
	kr := false
	ex, ls := runAndJudge(tfatal{t}, rec, p, &kr)
	if !ex {
		t.Fatalf("harness error: plan %s was not exercised (services failed to start?) labels=%v", name, ls)
	}
	return l.obs, append(ls, "log="+level)
}

// ---- TLS

var recTLS = ev.New("C18", "tls-matrix",
	"enumeration: HTTP proxy servers {no TLS, TLS, TLS + clientCAs, TLS + clientCAs + requireAndVerifyClientCert, requireAndVerifyClientCert without clientCAs} x basic auth "+
		"{off, on} x certificate list {one certificate, two certificates, reloadable with two, reloadable with one}, each reached directly by the harness (crypto/tls client that trusts the CA, "+
		"with and without a client certificate; unauthenticated and wrongly authenticated CONNECTs first where basic auth is on; without certificate where one is required) and through "+
		"socks5 -> HTTP proxy client (useTLS, serverName omitted / \"\" / IP / DNS name, rootCAs, certList static / reloadable / none) -> the server; certificates from verif/internal/tlsx "+
		"written as files and named in certs.certLists / certs.x509CertPools. Every world must load, show the documented effective server name and carry all its traffic; log level and "+
		"console preset rotate. Non-trivial: world exercised; distinct = world.").
	Require("exercised", "tls-probe:client-cert=true", "tls-probe:client-cert=false", "tls-nocert-refused", "auth-refused-then-accepted",
		"tls-client:serverName=omitted", "tls-client:serverName=\"\"", "tls-client:serverName=\"127.0.0.1\"", "tls-client:serverName=\"proxy.test\"",
		"tls-client:certList", "tls-certlist:srv", "tls-certlist:srv-two", "tls-certlist:srv-reloadable", "tls-certlist:srv-reloadable-one",
		"tls-server:require-client-cert", "tls-server:clientCAs-not-required", "tls-server:basic-auth", "tls-server:require-client-cert-system-roots",
		"chain-through-tls", "log=debug", "log=warn")

// tlsWorld: for every server mode x auth one HTTP proxy server P<k> behind its own socks5 entry K<k>
// and HTTP proxy client H<k>. rot rotates the certificate lists, server names, pools and client lists.
func tlsWorld(rot int) *world {
	w := handWorld("127.0.0.1:@@ECHO@@")
	w.addStandardCerts()
	names := []*string{nil, strp(""), strp("127.0.0.1"), strp("proxy.test")}
	k := 0
	for mode := 0; mode < 5; mode++ {
		for _, auth := range []bool{false, true} {
			p := w.addServer(fmt.Sprintf("P%d", k), "http", true, false, "d0")
			if auth {
				p.authUser, p.authPass = "u"+p.name, "p"+p.name
			}
			cl := srvCertLists[(k+rot)%len(srvCertLists)]
			switch mode {
			case 1:
				p.tls = &srvTLS{enable: true, certList: cl}
			case 2:
				p.tls = &srvTLS{enable: true, certList: cl, clientCAs: caPools[(k+rot)%2]}
			case 3:
				p.tls = &srvTLS{enable: true, certList: cl, clientCAs: caPools[(k+rot+1)%2], require: true}
			case 4:
				p.tls = &srvTLS{enable: true, certList: cl, require: true}
			}
			if mode != 4 {
				h := w.addClientFor(fmt.Sprintf("H%d", k), p)
				h.split = (k+rot)%3 == 1 // tcpAddress instead of endpoint
				if p.tlsOn() {
					h.tls = &cliTLS{use: true, rootCAs: caPools[(k+rot)%2]}
					sn := names[(k/2+rot)%len(names)]
					if cl == "srv-two" || cl == "srv-reloadable" {
						sn = names[3] // without SNI these lists answer with their first certificate (alt.test)
					}
					h.tls.serverName = sn
					if p.tlsRequires() || (k+rot)%3 == 0 {
						h.tls.certList = cliCertLists[(k+rot)%2]
					}
				}
				w.addServer(fmt.Sprintf("K%d", k), "socks5", true, false, h.name)
			}
			k++
		}
	}
	return w
}

// tlsBase is the small TLS world used as a base for the injected violations and the default
// representations: a TLS server that requires client certificates and basic auth behind socks5 ->
// HTTP proxy client, and the same without TLS.
func tlsBase() *world {
	w := handWorld("127.0.0.1:@@ECHO@@")
	w.addStandardCerts()
	p0 := w.addServer("P0", "http", true, false, "d0")
	p0.authUser, p0.authPass = "uP0", "pP0"
	p0.tls = &srvTLS{enable: true, certList: "srv-reloadable", clientCAs: "cas", require: true}
	h0 := w.addClientFor("H0", p0)
	h0.tls = &cliTLS{use: true, rootCAs: "ca", serverName: strp("proxy.test"), certList: "cli"}
	w.addServer("K0", "socks5", true, false, "H0")
	p1 := w.addServer("P1", "http", true, false, "d0")
	p1.hf = fields{}
	h1 := w.addClientFor("H1", p1)
	h1.hf = fields{}
	w.addServer("K1", "socks5", true, false, "H1")
	return w
}

func TestTLSMatrix(t *testing.T) {
	recTLS.Exhaustive(true)
	t.Cleanup(stopPlanServer)
	for rot := range 4 {
		w := tlsWorld(rot)
		name := fmt.Sprintf("tls-matrix/rot=%d", rot)
		_, ls := loadAndRun(t, recTLS, w, name, uint64(100+rot), rot, nil)
		ls = append(ls, w.tlsLabels()...)
		for _, c := range w.clients {
			if c.tls != nil && c.tls.use {
				ls = append(ls, "chain-through-tls")
			}
		}
		recTLS.Case(name, true, append(ls, "exercised")...)
	}
}

// ---- legacy single-listener fields vs listener arrays

var recLegacy = ev.New("C18", "legacy-forms",
	"enumeration: one world with a server of every protocol that has UDP (Shadowsocks 2022 aes-128 single-user and aes-256 multi-user, socks5 with user/password, direct, none), each on "+
		"one port for TCP and UDP and reached through a tunnel entry and the matching proxy client, written (a) only with the legacy fields listen / enableTCP / enableUDP / natTimeoutSec / "+
		"udpBatchMode / udpRelayBatchSize / udpServerRecvBatchSize / udpSendChannelCapacity / listenerTFO / disableInitialPayloadWait and (b) with listener arrays, x three settings of the "+
		"tuning values (all omitted; explicit zeros; explicit boundary values incl. natTimeoutSec 60 for Shadowsocks 2022). Both forms must load, observe the same effective values "+
		"(NAT timeout, batch mode and sizes, channel capacity, initial-payload wait, fast open) equal to the documented ones, and carry the same smoke script: valid Shadowsocks 2022 datagrams "+
		"through the chain, garbage datagrams of 16 bytes and more, SOCKS5 UDP ASSOCIATE, bursts, TCP echoes. Non-trivial: form exercised and equal to its twin; distinct = setting x form.").
	Require("form:legacy", "form:arrays", "forms-equal", "probe:assoc-socks5", "probe:udp-garbage", "probe:burst-socks5", "probe:burst-none", "probe:burst-tunnel", "setting:omitted", "setting:zeros", "setting:values")

func legacyWorld(setting string, legacy bool) *world {
	w := handWorld("127.0.0.1:@@ECHO@@")
	protos := []string{"2022-blake3-aes-128-gcm", "2022-blake3-aes-256-gcm", "socks5", "direct", "none"}
	for i, proto := range protos {
		s := w.addServer(fmt.Sprintf("L%d", i), proto, true, true, "d0")
		s.legacyOK, s.legacy = true, legacy
		s.mtu = intp(1500)
		s.tcp[0].f = fields{} // only what both forms can express
		switch proto {
		case "2022-blake3-aes-256-gcm":
			s.multiUser(w)
		case "socks5":
			s.authUser, s.authPass = "u"+s.name, "p"+s.name
		}
		u, tl := s.udp[0].f, s.tcp[0].f
		nat := "2s"
		if s.is2022() {
			nat = []string{"60s", "61s"}[i%2]
		}
		switch setting {
		case "zeros":
			for _, n := range []string{"batchMode", "relayBatchSize", "serverRecvBatchSize", "sendChannelCapacity", "natTimeout"} {
				u[n] = &dfield{Mode: mEmpty}
			}
			tl["fastOpen"], tl["disableInitialPayloadWait"] = &dfield{Mode: mEmpty}, &dfield{Mode: mEmpty}
		case "values":
			u["batchMode"] = &dfield{Mode: mValue, Val: []string{"no", "sendmmsg"}[i%2]}
			u["relayBatchSize"] = &dfield{Mode: mValue, Val: 1 + i%2}
			u["serverRecvBatchSize"] = &dfield{Mode: mValue, Val: []int{1, 1024, 8}[i%3]}
			u["sendChannelCapacity"] = &dfield{Mode: mValue, Val: []int{64, 65, 4096}[i%3]}
			u["natTimeout"] = &dfield{Mode: mValue, Val: nat}
			tl["fastOpen"] = &dfield{Mode: mValue, Val: true}
			if i%2 == 0 {
				tl["disableInitialPayloadWait"] = &dfield{Mode: mValue, Val: true}
			}
		}
		if proto != "direct" {
			c := w.addClientFor(fmt.Sprintf("C%d", i), s)
			c.mtu = intp(1500)
			e := w.addServer(fmt.Sprintf("E%d", i), "direct", true, true, c.name)
			e.udp[0].f["natTimeout"] = &dfield{Mode: mValue, Val: "5s"}
		}
	}
	return w
}

func TestLegacyForms(t *testing.T) {
	recLegacy.Exhaustive(true)
	t.Cleanup(stopPlanServer)
	for si, setting := range []string{"omitted", "zeros", "values"} {
		var twin obs
		var twinProbes []string
		for fi, legacy := range []bool{true, false} {
			form := map[bool]string{true: "legacy", false: "arrays"}[legacy]
			name := fmt.Sprintf("legacy-forms/%s/%s", setting, form)
			w := legacyWorld(setting, legacy)
			o, ls := loadAndRun(t, recLegacy, w, name, uint64(500+si), si*2+fi, nil)
			var kinds []string
			for _, l := range ls {
				if strings.HasPrefix(l, "probe:") {
					kinds = append(kinds, l)
				}
			}
			sort.Strings(kinds)
			labels := append(ls, "form:"+form, "setting:"+setting)
			if fi == 0 {
				twin, twinProbes = o, kinds
			} else {
				if d := diffObs(twin, o); len(d) > 0 {
					t.Fatalf("VERIF-VIOLATION SIG=C18/representation-mismatch/%s the legacy single-listener form and the listener-array form of the same servers observe different effective values (%s): %v\nlegacy form:\n%s",
						fieldOf(d[0]), setting, d, legacyWorld(setting, true).emit(-1, false))
				}
				if strings.Join(kinds, ",") != strings.Join(twinProbes, ",") {
					t.Fatalf("harness error: the two forms ran different scripts: %v vs %v", twinProbes, kinds)
				}
				labels = append(labels, "forms-equal")
			}
			recLegacy.Case(name, true, labels...)
		}
	}
}

// ---- UDP boundaries: smallest batches under bursts; padding x MTU budget

var padReprs = []*dfield{nil, {Mode: mEmpty}, {Mode: mDefault}, {Mode: mValue, Val: "PadAll"}, {Mode: mValue, Val: "NoPadding"}}

var recUDPB = ev.New("C18", "udp-boundaries",
	"enumeration: (1) relayBatchSize {1, 2} x batchMode {sendmmsg, no} x server protocol {direct, socks5, none} with a direct upstream, and socks5 / none entries -> Shadowsocks 2022 client -> "+
		"Shadowsocks 2022 server with relayBatchSize 1 / 2 on both servers: bursts of 3, 40 and 5-39 datagrams back-to-back from one client socket, every datagram echoed exactly once; "+
		"(2) paddingPolicy {omitted, \"\", PadPlainDNS, PadAll, NoPadding} on the client and (rotated) on the server x single-user (the return path is the tighter one) / identity header (the "+
		"forward path is the tighter one) x MTU {1280, 1500} x target port {53, other}: payloads of budget+1 (must not be relayed), budget-1 and budget bytes (must be echoed), the budget "+
		"computed from the Shadowsocks 2022 UDP packet format and the IPv4/UDP header sizes. Non-trivial: world exercised; distinct = world.").
	Require("burst:relayBatchSize=1", "burst:relayBatchSize=2", "burst:batchMode=no", "burst:batchMode=sendmmsg", "burst-upstream:relayBatchSize=1", "burst-upstream:relayBatchSize=2",
		"burst-size:3", "burst-size:40", "mtu-boundary:client-side", "mtu-boundary:server-side", "mtu-boundary:server-mtu-larger",
		"mtu-pad:port=53/client=omitted", "mtu-pad:port=53/client=empty", "mtu-pad:port=53/client=PadPlainDNS", "mtu-pad:port=53/client=PadAll", "mtu-pad:port=53/client=NoPadding",
		"mtu-pad:port=other/client=omitted", "mtu-pad:port=other/client=empty", "mtu-pad:port=other/client=PadPlainDNS", "mtu-pad:port=other/client=PadAll", "mtu-pad:port=other/client=NoPadding",
		"mtu-pad:port=53/server=omitted", "mtu-pad:port=53/server=empty", "mtu-pad:port=53/server=PadPlainDNS", "mtu-pad:port=53/server=PadAll", "mtu-pad:port=53/server=NoPadding",
		"mtu-pad:port=other/server=omitted", "mtu-pad:port=other/server=empty", "mtu-pad:port=other/server=PadPlainDNS", "mtu-pad:port=other/server=PadAll", "mtu-pad:port=other/server=NoPadding")

func burstWorld() *world {
	w := handWorld("127.0.0.1:@@ECHO@@")
	k := 0
	small := func(s *srv, n int, mode string) {
		s.udp[0].f["relayBatchSize"] = &dfield{Mode: mValue, Val: n}
		s.udp[0].f["batchMode"] = &dfield{Mode: mValue, Val: mode}
		s.udp[0].f["natTimeout"] = &dfield{Mode: mValue, Val: map[bool]string{true: "60s", false: "5s"}[s.is2022()]}
	}
	for _, proto := range []string{"direct", "socks5", "none"} {
		for _, n := range []int{1, 2} {
			for _, mode := range []string{"sendmmsg", "no"} {
				small(w.addServer(fmt.Sprintf("B%d", k), proto, false, true, "d0"), n, mode)
				k++
			}
		}
	}
	for i, n := range []int{1, 2, 1, 2} {
		mode := []string{"sendmmsg", "sendmmsg", "no", "no"}[i]
		s := w.addServer(fmt.Sprintf("S%d", i), []string{"2022-blake3-aes-128-gcm", "2022-blake3-aes-256-gcm"}[i%2], false, true, "d0")
		small(s, n, mode)
		if i >= 2 {
			s.multiUser(w)
		}
		c := w.addClientFor(fmt.Sprintf("C%d", i), s)
		small(w.addServer(fmt.Sprintf("E%d", i), []string{"socks5", "none"}[i%2], false, true, c.name), n, mode)
	}
	return w
}

// padWorld: per client-side representation and user mode one chain socks5|none entry (MTU 9000) ->
// Shadowsocks 2022 client (MTU m) -> Shadowsocks 2022 server (MTU m) -> d0 (MTU 9000).
func padWorld(m, rot int) *world {
	w := handWorld("127.0.0.1:@@ECHO@@")
	k := 0
	for ci, cr := range padReprs {
		for _, multi := range []bool{false, true} {
			s := w.addServer(fmt.Sprintf("S%d", k), []string{"2022-blake3-aes-128-gcm", "2022-blake3-aes-256-gcm"}[k%2], false, true, "d0")
			s.mtu = intp(m)
			s.udp[0].f["natTimeout"] = &dfield{Mode: mValue, Val: "60s"}
			if multi {
				s.multiUser(w)
			}
			if sr := padReprs[(ci+rot+k%2)%len(padReprs)]; sr != nil {
				s.f["paddingPolicy"] = &dfield{Mode: sr.Mode, Val: sr.Val}
			}
			c := w.addClientFor(fmt.Sprintf("C%d", k), s)
			if cr != nil {
				c.f["paddingPolicy"] = &dfield{Mode: cr.Mode, Val: cr.Val}
			}
			e := w.addServer(fmt.Sprintf("E%d", k), []string{"socks5", "none"}[(k/2)%2], false, true, c.name)
			e.udp[0].f["natTimeout"] = &dfield{Mode: mValue, Val: "5s"}
			k++
		}
	}
	// a server on a path with a larger MTU than its client: what the client lets through arrives, so a
	// payload above the client's budget would come back
	for i, sr := range []*dfield{{Mode: mValue, Val: "NoPadding"}, nil} {
		s := w.addServer(fmt.Sprintf("W%d", i), "2022-blake3-aes-256-gcm", false, true, "d0")
		s.udp[0].f["natTimeout"] = &dfield{Mode: mValue, Val: "60s"}
		s.mtu = intp(m)
		s.multiUser(w)
		if sr != nil {
			s.f["paddingPolicy"] = sr
		}
		c := w.addClientFor(fmt.Sprintf("CW%d", i), s)
		s.mtu = intp(m + 100)
		c.f["paddingPolicy"] = &dfield{Mode: mValue, Val: []string{"PadAll", "NoPadding"}[i]}
		w.addServer(fmt.Sprintf("EW%d", i), "socks5", false, true, c.name)
	}
	return w
}

func TestUDPBoundaries(t *testing.T) {
	recUDPB.Exhaustive(true)
	t.Cleanup(stopPlanServer)
	for round := range 2 {
		w := burstWorld()
		name := fmt.Sprintf("bursts/round=%d", round)
		var sizes []string
		_, ls := loadAndRun(t, recUDPB, w, name, uint64(900+round), round, func(p *Plan) {
			n := 0
			for i := range p.Probes {
				if pr := &p.Probes[i]; strings.HasPrefix(pr.Kind, "burst-") {
					if fixed := []int{3, 40, 0}[(n+round)%3]; fixed != 0 {
						pr.Burst = fixed
					}
					sizes = append(sizes, fmt.Sprintf("burst-size:%d", pr.Burst))
					n++
				}
			}
		})
		recUDPB.Case(name, true, append(append(ls, sizes...), "exercised")...)
	}
	for i, m := range []int{1280, 1500} {
		w := padWorld(m, 1+2*i)
		name := fmt.Sprintf("padding-mtu/mtu=%d", m)
		_, ls := loadAndRun(t, recUDPB, w, name, uint64(950+i), i+1, nil)
		recUDPB.Case(name, true, append(ls, "exercised")...)
	}
}
