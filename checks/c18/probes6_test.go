package c18

// Round-6 probes: TLS towards HTTP proxy listeners (with and without a client certificate), the
// authentication invariants (basic auth / required client certificate), a real SOCKS5 UDP
// ASSOCIATE, bursts of back-to-back datagrams from one client, and payloads at the edge of the
// MTU budget.

import (
	"crypto/tls"
	"crypto/x509"
	"encoding/binary"
	"errors"
	"fmt"
	"io"
	"net"
	"net/netip"
	"strings"
	"time"
)

// Names of the certificate files every plan with TLS carries in Plan.Files (written by the
// parent from verif/internal/tlsx material): the harness client trusts ca.crt and presents
// cli.crt/cli.key when a probe asks for a client certificate.
const (
	fileCA      = "ca.crt"
	fileCliCert = "cli.crt"
	fileCliKey  = "cli.key"
	tlsHarnessServerName = "proxy.test" // DNS SAN of the server certificate
)

type tlsClient struct {
	pool *x509.CertPool
	cert tls.Certificate
}

// loadTLSClient builds the harness' TLS client material from the plan's files (nil if the plan has none).
func loadTLSClient(files map[string]string) (*tlsClient, error) {
	ca, ok := files[fileCA]
	if !ok {
		return nil, nil
	}
	tm := &tlsClient{pool: x509.NewCertPool()}
	if !tm.pool.AppendCertsFromPEM([]byte(ca)) {
		return nil, errors.New("plan file ca.crt is not a PEM certificate")
	}
	if c, ok := files[fileCliCert]; ok {
		cert, err := tls.X509KeyPair([]byte(c), []byte(files[fileCliKey]))
		if err != nil {
			return nil, fmt.Errorf("plan files cli.crt/cli.key: %w", err)
		}
		tm.cert = cert
	}
	return tm, nil
}

// stream is what the TCP probes need of a connection; *net.TCPConn and *tls.Conn both provide it.
type stream interface {
	net.Conn
	CloseWrite() error
}

// dialStream connects to addr and, for TLS probes, completes a TLS handshake as a client that
// trusts the plan's CA (server name proxy.test) and optionally presents the plan's client certificate.
func dialStream(p *Probe, addr string, tm *tlsClient) (stream, int, error) {
	c, attempts, err := dialRetry(addr, 8*time.Second)
	if err != nil {
		return nil, attempts, err
	}
	if !p.TLS {
		return c, attempts, nil
	}
	if tm == nil {
		c.Close()
		return nil, attempts, errors.New("harness: TLS probe in a plan without certificate files")
	}
	cfg := &tls.Config{RootCAs: tm.pool, ServerName: tlsHarnessServerName, MinVersion: tls.VersionTLS12}
	if p.TLSCert {
		cfg.Certificates = []tls.Certificate{tm.cert}
	}
	tc := tls.Client(c, cfg)
	tc.SetDeadline(time.Now().Add(8 * time.Second))
	if err := tc.Handshake(); err != nil {
		c.Close()
		return nil, attempts, fmt.Errorf("tls handshake: %w", err)
	}
	return tc, attempts, nil
}

// unauthenticatedConnects checks the authentication invariant of an HTTP proxy server with basic
// auth enabled: a CONNECT without credentials and one with a wrong password must not open a tunnel.
// The documented answer is 407 with the connection kept open; then the connection is returned for
// the authenticated request. Any other refusal (connection closed, another status) is accepted as a
// refusal too and nil is returned so that the caller dials again. outcome "auth-bypass" = a 200 was seen.
func unauthenticatedConnects(p *Probe, addr, target string, tm *tlsClient) (c stream, outcome, detail string) {
	c, _, err := dialStream(p, addr, tm)
	if err != nil {
		return nil, "auth-refused:dial-error", err.Error()
	}
	c.SetDeadline(time.Now().Add(8 * time.Second))
	for _, cred := range []string{"", basicAuth(p.User, p.Pass+"x"), basicAuth(p.User+"x", p.Pass)} {
		req := "CONNECT " + target + " HTTP/1.1\r\nHost: " + target + "\r\n"
		if cred != "" {
			req += "Proxy-Authorization: Basic " + cred + "\r\n"
		}
		if _, err := c.Write([]byte(req + "\r\n")); err != nil {
			c.Close()
			return nil, "auth-refused:closed", err.Error()
		}
		hdr, err := readUntil(c, "\r\n\r\n", 4096)
		switch {
		case len(hdr) >= 12 && string(hdr[9:12]) == "200":
			c.Close()
			return nil, "auth-bypass", fmt.Sprintf("Proxy-Authorization %q answered %q", cred, hdr)
		case err != nil || len(hdr) < 12 || string(hdr[9:12]) != "407":
			c.Close()
			return nil, "auth-refused:other", fmt.Sprintf("%q %v", hdr, err)
		}
	}
	return c, "auth-refused:407", ""
}

// tlsNoCertProbe checks the other authentication invariant: a listener with
// requireAndVerifyClientCert must not give a tunnel to a TLS client that presents no certificate
// (valid basic-auth credentials are sent if the server has users, so only the certificate is missing).
func tlsNoCertProbe(p *Probe, addr, target string, tm *tlsClient) probeResult {
	t0 := time.Now()
	r := probeResult{Kind: p.Kind, Addr: addr, OK: true, Outcome: "refused"}
	q := *p
	q.TLS, q.TLSCert = true, false
	c, attempts, err := dialStream(&q, addr, tm)
	r.Attempts = attempts
	if err != nil {
		// TLS 1.2 style: the handshake itself fails
		r.Err = err.Error()
		r.Millis = time.Since(t0).Milliseconds()
		return r
	}
	defer c.Close()
	c.SetDeadline(time.Now().Add(5 * time.Second))
	req := "CONNECT " + target + " HTTP/1.1\r\nHost: " + target + "\r\n"
	if p.User != "" {
		req += "Proxy-Authorization: Basic " + basicAuth(p.User, p.Pass) + "\r\n"
	}
	if _, err := c.Write([]byte(req + "\r\n")); err == nil {
		hdr, _ := readUntil(c, "\r\n\r\n", 4096)
		if len(hdr) >= 12 && string(hdr[9:12]) == "200" {
			r.OK, r.Outcome = false, "cert-bypass"
			r.Err = fmt.Sprintf("%q", hdr)
		}
	}
	r.Millis = time.Since(t0).Milliseconds()
	return r
}

// socksNegotiate performs the SOCKS5 method negotiation (and username/password sub-negotiation).
func socksNegotiate(c net.Conn, user, pass string) error {
	var m [2]byte
	if user != "" {
		if _, err := c.Write([]byte{5, 1, 2}); err != nil {
			return fmt.Errorf("greeting: %w", err)
		}
		if _, err := io.ReadFull(c, m[:]); err != nil || m != [2]byte{5, 2} {
			return fmt.Errorf("method: %v %v", m, err)
		}
		a := []byte{1, byte(len(user))}
		a = append(a, user...)
		a = append(a, byte(len(pass)))
		a = append(a, pass...)
		if _, err := c.Write(a); err != nil {
			return fmt.Errorf("auth: %w", err)
		}
		if _, err := io.ReadFull(c, m[:]); err != nil || m[1] != 0 {
			return fmt.Errorf("auth reply: %v %v", m, err)
		}
		return nil
	}
	if _, err := c.Write([]byte{5, 1, 0}); err != nil {
		return fmt.Errorf("greeting: %w", err)
	}
	if _, err := io.ReadFull(c, m[:]); err != nil || m != [2]byte{5, 0} {
		return fmt.Errorf("method: %v %v", m, err)
	}
	return nil
}

// socks5Associate does what a SOCKS5 client does for UDP: it asks for UDP ASSOCIATE on the TCP
// listener, sends its datagram to the address the server names in its reply and keeps the TCP
// connection open until the echo is back.
func socks5Associate(p *Probe, addr, target string) probeResult {
	t0 := time.Now()
	r := probeResult{Kind: p.Kind, Addr: addr}
	fail := func(format string, a ...any) probeResult {
		r.Err = fmt.Sprintf(format, a...)
		r.Millis = time.Since(t0).Milliseconds()
		return r
	}
	c, attempts, err := dialRetry(addr, 8*time.Second)
	r.Attempts = attempts
	if err != nil {
		return fail("dial: %v", err)
	}
	defer c.Close()
	c.SetDeadline(time.Now().Add(15 * time.Second))
	if err := socksNegotiate(c, p.User, p.Pass); err != nil {
		return fail("socks5 %v", err)
	}
	if _, err := c.Write([]byte{5, 3, 0, 1, 0, 0, 0, 0, 0, 0}); err != nil {
		return fail("udp associate request: %v", err)
	}
	var h [4]byte
	if _, err := io.ReadFull(c, h[:]); err != nil {
		return fail("udp associate reply: %v", err)
	}
	if h[1] != 0 {
		return fail("udp associate refused with reply code %d although the server has UDP enabled", h[1])
	}
	var bnd netip.AddrPort
	switch h[3] {
	case 1:
		var b [6]byte
		if _, err := io.ReadFull(c, b[:]); err != nil {
			return fail("udp associate reply: %v", err)
		}
		bnd = netip.AddrPortFrom(netip.AddrFrom4([4]byte(b[:4])), binary.BigEndian.Uint16(b[4:]))
	case 4:
		var b [18]byte
		if _, err := io.ReadFull(c, b[:]); err != nil {
			return fail("udp associate reply: %v", err)
		}
		bnd = netip.AddrPortFrom(netip.AddrFrom16([16]byte(b[:16])).Unmap(), binary.BigEndian.Uint16(b[16:]))
	default:
		return fail("udp associate reply: address type %d", h[3])
	}
	if bnd.Addr().IsUnspecified() {
		ap, _ := netip.ParseAddrPort(addr)
		bnd = netip.AddrPortFrom(ap.Addr(), bnd.Port())
	}
	q := *p
	q.Kind = "udp-socks5"
	ur := udpExchange(&q, bnd.String(), target)
	ur.Kind, ur.Addr = p.Kind, addr
	if ur.Err != "" {
		ur.Err = fmt.Sprintf("relay address %s from the UDP ASSOCIATE reply: %s", bnd, ur.Err)
	}
	ur.Millis = time.Since(t0).Milliseconds()
	return ur
}

// udpPrefix returns what precedes the payload in a datagram to a server speaking proto.
func udpPrefix(proto, target string) ([]byte, error) {
	switch proto {
	case "tunnel":
		return nil, nil
	case "none", "socks5":
		sa, err := socksAddr(target)
		if err != nil {
			return nil, err
		}
		if proto == "socks5" {
			return append([]byte{0, 0, 0}, sa...), nil
		}
		return sa, nil
	}
	return nil, fmt.Errorf("unknown datagram protocol %q", proto)
}

// udpBody strips the reply header of proto; nil if malformed.
func udpBody(proto string, b []byte) []byte {
	switch proto {
	case "socks5":
		if len(b) < 3 {
			return nil
		}
		b = b[3:]
		fallthrough
	case "none":
		k := skipSocksAddr(b)
		if k < 0 {
			return nil
		}
		return b[k:]
	}
	return b
}

// udpBurst sends Burst datagrams back-to-back from one socket (one NAT session; they pile up in the
// session's send channel and are drained in batches of relayBatchSize) and waits for the echoes:
// every datagram must come back exactly once. A burst that stays incomplete is repeated once from a
// fresh socket before it counts (the kernel may drop datagrams under memory pressure; a defect in
// the batching repeats).
func udpBurst(p *Probe, addr, target string) probeResult {
	t0 := time.Now()
	proto := strings.TrimPrefix(p.Kind, "burst-")
	r := probeResult{Kind: p.Kind, Addr: addr}
	ap, err := netip.ParseAddrPort(addr)
	if err != nil {
		r.Err = "addr: " + err.Error()
		return r
	}
	if strings.HasPrefix(target, ":") || target == "" && proto != "tunnel" {
		r.Outcome, r.OK = "skipped", true
		return r
	}
	pre, err := udpPrefix(proto, target)
	if err != nil {
		r.Err = err.Error()
		return r
	}
	n := p.Burst
	for attempt := 1; attempt <= 2; attempt++ {
		r.Attempts = attempt
		missing, dup, err := burstOnce(ap, proto, pre, p.Seed+uint64(attempt)*1000003, n, time.Duration(3+3*attempt)*time.Second)
		switch {
		case err != nil:
			r.Err = err.Error()
		case dup != "":
			r.Outcome, r.Err = "burst-duplicate", dup
			r.Millis = time.Since(t0).Milliseconds()
			return r
		case len(missing) == 0:
			r.OK, r.Err = true, ""
			r.Retried = attempt > 1
			r.Millis = time.Since(t0).Milliseconds()
			return r
		default:
			r.Err = fmt.Sprintf("burst of %d back-to-back datagrams from one client: %d not echoed (sequence numbers %v), attempt %d", n, len(missing), missing, attempt)
		}
	}
	r.Millis = time.Since(t0).Milliseconds()
	return r
}

func burstOnce(ap netip.AddrPort, proto string, pre []byte, seed uint64, n int, wait time.Duration) (missing []int, dup string, err error) {
	c, err := net.ListenUDP("udp4", &net.UDPAddr{IP: net.ParseIP("127.0.0.1")})
	if err != nil {
		return nil, "", err
	}
	defer c.Close()
	c.SetReadBuffer(4 << 20)
	msgs := make([][]byte, n)
	for k := range n {
		body := payloadFor(seed+uint64(k), 24+(k*37)%150)
		binary.BigEndian.PutUint16(body, uint16(k))
		msgs[k] = body
	}
	for k := range n {
		if _, err := c.WriteToUDPAddrPort(append(append([]byte(nil), pre...), msgs[k]...), ap); err != nil {
			return nil, "", fmt.Errorf("send %d: %w", k, err)
		}
	}
	echo, nt := make([]int, n), make([]int, n)
	got := 0
	b := make([]byte, 65536)
	deadline := time.Now().Add(wait)
	for got < n {
		c.SetReadDeadline(deadline)
		m, _, err := c.ReadFromUDPAddrPort(b)
		if err != nil {
			break
		}
		body := udpBody(proto, b[:m])
		isNT := strings.HasPrefix(string(body), ntMarker)
		if isNT {
			body = body[len(ntMarker):]
		}
		if len(body) < 2 {
			return nil, "", fmt.Errorf("unexpected %d-byte reply during a burst", m)
		}
		k := int(binary.BigEndian.Uint16(body))
		if k >= n || string(body) != string(msgs[k]) {
			return nil, "", fmt.Errorf("reply during a burst is none of the %d datagrams sent (%d bytes)", n, len(body))
		}
		if isNT {
			nt[k]++
			if nt[k] > 1 {
				return nil, fmt.Sprintf("the reply from the non-target source to datagram %d of %d arrived %d times", k, n, nt[k]), nil
			}
			continue
		}
		echo[k]++
		if echo[k] > 1 {
			return nil, fmt.Sprintf("the echo of datagram %d of %d arrived %d times", k, n, echo[k]), nil
		}
		got++
	}
	// stragglers: a duplicate would follow closely
	c.SetReadDeadline(time.Now().Add(30 * time.Millisecond))
	for {
		m, _, err := c.ReadFromUDPAddrPort(b)
		if err != nil {
			break
		}
		body := udpBody(proto, b[:m])
		if strings.HasPrefix(string(body), ntMarker) || len(body) < 2 {
			continue
		}
		if k := int(binary.BigEndian.Uint16(body)); k < n && string(body) == string(msgs[k]) {
			echo[k]++
			if echo[k] > 1 {
				return nil, fmt.Sprintf("the echo of datagram %d of %d arrived %d times", k, n, echo[k]), nil
			}
		}
	}
	for k := range n {
		if echo[k] == 0 {
			missing = append(missing, k)
		}
	}
	return missing, "", nil
}

// udpMTU sends payloads of the given sizes through a datagram entry server. Sizes with Expect 1 are
// repeated until echoed (as in udpExchange); sizes with Expect -1 exceed the MTU budget of the path
// by the documented arithmetic and must never come back - they are sent before the session exists
// and again afterwards.
func udpMTU(p *Probe, addr, target string) probeResult {
	t0 := time.Now()
	proto := strings.TrimPrefix(p.Kind, "mtu-")
	r := probeResult{Kind: p.Kind, Addr: addr}
	fail := func(format string, a ...any) probeResult {
		r.Err = fmt.Sprintf(format, a...)
		r.Millis = time.Since(t0).Milliseconds()
		return r
	}
	if strings.HasPrefix(target, ":") || target == "" {
		r.Outcome, r.OK = "skipped", true
		return r
	}
	ap, err := netip.ParseAddrPort(addr)
	if err != nil {
		return fail("addr: %v", err)
	}
	pre, err := udpPrefix(proto, target)
	if err != nil {
		return fail("%v", err)
	}
	c, err := net.ListenUDP("udp4", &net.UDPAddr{IP: net.ParseIP("127.0.0.1")})
	if err != nil {
		return fail("listen: %v", err)
	}
	defer c.Close()
	c.SetReadBuffer(4 << 20)
	msgs := make([][]byte, len(p.Sizes))
	for i, sz := range p.Sizes {
		msgs[i] = payloadFor(p.Seed+uint64(i), sz)
	}
	seen := make([]bool, len(msgs))
	b := make([]byte, 1<<17)
	send := func(i int) error {
		_, err := c.WriteToUDPAddrPort(append(append([]byte(nil), pre...), msgs[i]...), ap)
		return err
	}
	drain := func(until time.Time, stopAt int) error {
		for {
			c.SetReadDeadline(until)
			m, _, err := c.ReadFromUDPAddrPort(b)
			if err != nil {
				return nil
			}
			body := udpBody(proto, b[:m])
			if strings.HasPrefix(string(body), ntMarker) {
				body = body[len(ntMarker):]
			}
			found := -1
			for i := range msgs {
				if len(body) == len(msgs[i]) && string(body) == string(msgs[i]) {
					found = i
				}
			}
			if found < 0 {
				return fmt.Errorf("reply of %d bytes is none of the payloads sent", len(body))
			}
			seen[found] = true
			if found == stopAt {
				return nil
			}
		}
	}
	over := func() string {
		for i, e := range p.Expect {
			if e < 0 && seen[i] {
				return fmt.Sprintf("payload of %d bytes (sizes %v, expectations %v) came back", p.Sizes[i], p.Sizes, p.Expect)
			}
		}
		return ""
	}
	for i, e := range p.Expect {
		if e < 0 {
			if err := send(i); err != nil {
				return fail("send %d bytes: %v", p.Sizes[i], err)
			}
		}
	}
	for i, e := range p.Expect {
		if e <= 0 {
			continue
		}
		deadline := time.Now().Add(10 * time.Second)
		for tries := 1; !seen[i]; tries++ {
			if time.Now().After(deadline) {
				return fail("payload of %d bytes, which fits the MTU budget of the path by the documented arithmetic (sizes %v, expectations %v, %s), was not echoed after %d sends", p.Sizes[i], p.Sizes, p.Expect, p.Note, tries-1)
			}
			r.Attempts++
			if err := send(i); err != nil {
				return fail("send %d bytes: %v", p.Sizes[i], err)
			}
			if err := drain(time.Now().Add(time.Duration(200+100*tries)*time.Millisecond), i); err != nil {
				return fail("%v", err)
			}
		}
	}
	// the session exists now: the over-budget payloads once more
	for i, e := range p.Expect {
		if e < 0 {
			send(i)
		}
	}
	if err := drain(time.Now().Add(60*time.Millisecond), -1); err != nil {
		return fail("%v", err)
	}
	if d := over(); d != "" {
		r.Outcome = "over-budget-delivered"
		return fail("%s", d)
	}
	r.OK = true
	r.Millis = time.Since(t0).Milliseconds()
	return r
}
