package c18

// Execution of one plan: load the configuration the way cmd/shadowsocks-go does, start the service
// manager on loopback, drive the smoke script, stop. A plan is executed in a child process (the test
// binary re-executed with VERIF_REPLAY=<plan file>) because a panic in a relay goroutine kills the
// whole process; the plan file doubles as the crash journal / replay file.

import (
	"bufio"
	"bytes"
	"context"
	"encoding/json"
	"errors"
	"fmt"
	"io"
	"net"
	"net/http"
	"os"
	"os/exec"
	"path/filepath"
	"regexp"
	"strconv"
	"strings"
	"sync"
	"sync/atomic"
	"testing"
	"time"

	"github.com/database64128/shadowsocks-go/jsoncfg"
	"github.com/database64128/shadowsocks-go/logging"
	"github.com/database64128/shadowsocks-go/service"
	"go.uber.org/zap"
	"go.uber.org/zap/zapcore"
	"go.uber.org/zap/zaptest/observer"
)

// Probe is one step of the smoke script. Addr/Target may contain placeholders.
type Probe struct {
	Kind       string `json:"kind"` // tcp-tunnel tcp-socks5 tcp-http tcp-none udp-tunnel udp-socks5 udp-none reject udp-garbage api
	Server     string `json:"server"`
	Addr       string `json:"addr"`
	Target     string `json:"target,omitempty"`
	Seed       uint64 `json:"seed"`
	Size       int    `json:"size"`
	User       string `json:"user,omitempty"`
	Pass       string `json:"pass,omitempty"`
	ExpectEcho bool   `json:"expectEcho,omitempty"`
	ExpectRST  bool   `json:"expectRST,omitempty"`
	ExpectFB   bool   `json:"expectFallback,omitempty"` // reject probe: the garbage must come back from the fallback (echo) target
	Silent     bool   `json:"silent,omitempty"`         // connect (and finish the proxy handshake) but send no payload at first
	Greet      bool   `json:"greet,omitempty"`          // the target speaks first; the payload follows its greeting
	SilentMs   int    `json:"silentMs,omitempty"`       // without a greeting: how long to stay silent before the payload
	Path       string `json:"path,omitempty"`           // api
	TLS        bool   `json:"tls,omitempty"`            // speak TLS to the listener (harness trusts ca.crt of the plan, server name proxy.test)
	TLSCert    bool   `json:"tlsCert,omitempty"`        // present the client certificate cli.crt/cli.key of the plan
	Pre407     bool   `json:"pre407,omitempty"`         // tcp-http: first a CONNECT without and one with wrong credentials; both must be refused
	Burst      int    `json:"burst,omitempty"`          // burst-*: number of back-to-back datagrams from one socket
	Sizes      []int  `json:"sizes,omitempty"`          // mtu-*: payload sizes
	Expect     []int  `json:"expect,omitempty"`         // mtu-*: per size 1 = must be echoed, -1 = must not be echoed, 0 = free
	Note       string `json:"note,omitempty"`           // classification carried into the labels
}

// Plan is a configuration plus the smoke script that exercises it.
type Plan struct {
	Name    string            `json:"name"`
	Class   string            `json:"class,omitempty"`
	Config  string            `json:"config"` // JSON text with @@DIR@@ @@ECHO@@ @@DNS@@ @@P<i>@@ placeholders
	Files   map[string]string `json:"files,omitempty"`
	Ports   int               `json:"ports"`
	Listen  []string          `json:"listen"` // "tcp:@@P0@@" / "udp:@@P0@@": sockets that must be bound before the script starts
	Probes  []Probe           `json:"probes"`
	StopMax int               `json:"stopMaxMs"`
	// logging configuration of the run, as cmd/shadowsocks-go builds it: -logLevel and the console
	// preset (-zapConf console | console-nocolor | console-notime | console-nocolor-notime); the
	// sink is io.Discard instead of stderr. "" = debug / console.
	LogLevel  string `json:"logLevel,omitempty"`
	LogPreset string `json:"logPreset,omitempty"`
}

// Result is what the child reports.
type Result struct {
	LoadErr     string        `json:"loadErr,omitempty"`
	StartFailed bool          `json:"startFailed,omitempty"`
	StartErr    string        `json:"startErr,omitempty"`
	Probes      []probeResult `json:"probes,omitempty"`
	StopMs      int64         `json:"stopMs"`
	StopTimeout bool          `json:"stopTimeout,omitempty"`
	TCPAccepted int64         `json:"tcpAccepted"`
	UDPReceived int64         `json:"udpReceived"`
	DNSQueries  int64         `json:"dnsQueries"`
	SysQueries  int64         `json:"sysQueries"`
	Attempts    int           `json:"attempts"`
	Warnings    int           `json:"warnings"`
}

func substitute(s, dir string, echo, dns int, ports []int) string {
	s = strings.ReplaceAll(s, "@@GREET@@", strconv.Itoa(greetPort))
	s = strings.ReplaceAll(s, "@@E53@@", echo53Addr)
	s = strings.ReplaceAll(s, "@@DIR@@", dir)
	s = strings.ReplaceAll(s, "@@ECHO@@", strconv.Itoa(echo))
	s = strings.ReplaceAll(s, "@@DNS@@", strconv.Itoa(dns))
	for i := len(ports) - 1; i >= 0; i-- {
		s = strings.ReplaceAll(s, "@@P"+strconv.Itoa(i)+"@@", strconv.Itoa(ports[i]))
	}
	return s
}

func writeFiles(dir string, files map[string]string) error {
	for name, content := range files {
		if err := os.WriteFile(filepath.Join(dir, name), []byte(content), 0o644); err != nil {
			return err
		}
	}
	return nil
}

// greetPort is the port of the target that speaks first (set by the process that owns a netEnv;
// 19997 where nothing is bound, i.e. for load-only use in the parent).
var greetPort = 19997

// echo53Addr is the ip:53 address of the UDP echo target on the DNS port (set by the process that
// owns a netEnv; a fixed unbound loopback address for load-only use in the parent).
var echo53Addr = "127.18.0.53:53"

// loadConfig mirrors cmd/shadowsocks-go: jsoncfg.Load (unknown fields refused) then Config.Manager.
func loadConfig(path string, logger *zap.Logger) (*service.Config, *service.Manager, error) {
	var sc service.Config
	if err := jsoncfg.Load(path, &sc); err != nil {
		return nil, nil, fmt.Errorf("load: %w", err)
	}
	m, err := sc.Manager(logger)
	if err != nil {
		return &sc, nil, fmt.Errorf("manager: %w", err)
	}
	return &sc, m, nil
}

// newLogger builds the logger the way cmd/shadowsocks-go does for the console presets
// (logging.NewProductionConsoleZapLogger: console encoder with the project's encoder configuration
// at the -logLevel level), except that the sink is io.Discard. At level "debug" every
// logger.Check(zap.DebugLevel, ...) block runs with real field values, at "info" (the default of the
// command) and "warn" they are skipped, as in production. A second core only collects warnings and
// errors for the harness (start-up failures); it never enables anything below warn.
func newLogger(level, preset string) (*zap.Logger, *observer.ObservedLogs) {
	lvl := zapcore.DebugLevel
	if level != "" {
		if err := lvl.UnmarshalText([]byte(level)); err != nil {
			lvl = zapcore.DebugLevel
		}
	}
	noColor := strings.Contains(preset, "nocolor")
	noTime := strings.Contains(preset, "notime") || preset == "systemd"
	enc := zapcore.NewConsoleEncoder(logging.NewProductionConsoleEncoderConfig(noColor, noTime))
	discard := zapcore.NewCore(enc, zapcore.AddSync(io.Discard), lvl)
	obsCore, logs := observer.New(zapcore.WarnLevel)
	return zap.New(zapcore.NewTee(discard, obsCore)), logs
}

// runPlan executes the plan in this process.
func runPlan(p *Plan) (res Result) {
	env, err := newNetEnv()
	if err != nil {
		res.LoadErr = "harness: " + err.Error()
		return
	}
	defer env.close()
	env.installResolver()
	greetPort = env.greetTCP.Addr().(*net.TCPAddr).Port
	echo53Addr = env.echo53Addr()

	for attempt := 1; attempt <= 4; attempt++ {
		res = Result{Attempts: attempt}
		retry := runOnce(p, env, &res)
		res.TCPAccepted, res.UDPReceived = env.tcpAccepted.Load(), env.udpReceived.Load()
		res.DNSQueries, res.SysQueries = env.dnsQueries.Load(), env.sysQueries.Load()
		if !retry {
			break
		}
	}
	return
}

func runOnce(p *Plan, env *netEnv, res *Result) (retry bool) {
	dir, err := os.MkdirTemp(workDir(), "c18-run-") // removed with $VERIF_WORK even if the process dies
	if err != nil {
		res.LoadErr = "harness: " + err.Error()
		return false
	}
	defer os.RemoveAll(dir)
	if err := writeFiles(dir, p.Files); err != nil {
		res.LoadErr = "harness: " + err.Error()
		return false
	}
	ports := make([]int, p.Ports)
	seen := map[int]bool{env.echoPort(): true, env.dnsPort(): true}
	for i := range ports {
		for {
			port, err := pickPort()
			if err != nil {
				res.LoadErr = "harness: " + err.Error()
				return false
			}
			if !seen[port] {
				seen[port] = true
				ports[i] = port
				break
			}
		}
	}
	sub := func(s string) string { return substitute(s, dir, env.echoPort(), env.dnsPort(), ports) }
	cfgPath := filepath.Join(dir, "config.json")
	if err := os.WriteFile(cfgPath, []byte(sub(p.Config)), 0o644); err != nil {
		res.LoadErr = "harness: " + err.Error()
		return false
	}
	logger, logs := newLogger(p.LogLevel, p.LogPreset)
	tm, err := loadTLSClient(p.Files)
	if err != nil {
		res.LoadErr = "harness: " + err.Error()
		return false
	}
	_, m, err := loadConfig(cfgPath, logger)
	if err != nil {
		res.LoadErr = err.Error()
		return false
	}
	ctx, cancel := context.WithCancel(context.Background())
	defer cancel()
	runDone := make(chan bool, 1)
	var finished atomic.Bool
	go func() {
		ok := m.Run(ctx)
		finished.Store(true)
		runDone <- ok
	}()

	startErr := func() string {
		var sb strings.Builder
		for _, e := range logs.FilterLevelExact(zapcore.ErrorLevel).All() {
			sb.WriteString(e.Message)
			for _, f := range e.Context {
				if f.Type == zapcore.ErrorType {
					sb.WriteString(": " + f.Interface.(error).Error())
				}
			}
			sb.WriteString("; ")
		}
		return sb.String()
	}

	// Services start one after another; wait until every listener is bound so that a chained
	// upstream is not dialled before it listens (observed through /proc/net, no traffic involved).
	var want []string
	for _, l := range p.Listen {
		want = append(want, sub(l))
	}
	waitBound(want, 10*time.Second, &finished)

	for i := range p.Probes {
		if finished.Load() {
			break
		}
		pr := &p.Probes[i]
		addr, target := sub(pr.Addr), sub(pr.Target)
		var r probeResult
		switch {
		case strings.HasPrefix(pr.Kind, "tcp-"):
			r = tcpExchange(pr, addr, target, tm)
		case pr.Kind == "tls-nocert":
			r = tlsNoCertProbe(pr, addr, target, tm)
		case strings.HasPrefix(pr.Kind, "burst-"):
			r = udpBurst(pr, addr, target)
		case strings.HasPrefix(pr.Kind, "mtu-"):
			r = udpMTU(pr, addr, target)
		case pr.Kind == "assoc-socks5":
			r = socks5Associate(pr, addr, target)
		case pr.Kind == "udp-garbage":
			r = udpGarbage(pr, addr)
		case strings.HasPrefix(pr.Kind, "udp-"):
			r = udpExchange(pr, addr, target)
		case pr.Kind == "reject":
			r = rejectProbe(pr, addr)
		case pr.Kind == "scan-close" || pr.Kind == "scan-byte":
			r = scanProbe(pr, addr)
		case pr.Kind == "api":
			r = apiProbe(pr, addr)
		default:
			r = probeResult{Kind: pr.Kind, Err: "unknown probe kind"}
		}
		res.Probes = append(res.Probes, r)
	}

	if finished.Load() {
		// Run returned before we cancelled: a service failed to start.
		<-runDone
		res.StartFailed = true
		res.StartErr = startErr()
		m.Close()
		return strings.Contains(res.StartErr, "address already in use")
	}

	// let in-flight replies (e.g. the non-target reply racing the echo) drain before stopping
	time.Sleep(30 * time.Millisecond)
	t0 := time.Now()
	cancel()
	stopMax := time.Duration(p.StopMax) * time.Millisecond
	if stopMax <= 0 {
		stopMax = 20 * time.Second
	}
	select {
	case <-runDone:
	case <-time.After(stopMax):
		res.StopTimeout = true
	}
	res.StopMs = time.Since(t0).Milliseconds()
	if !res.StopTimeout {
		m.Close()
	}
	res.Warnings = logs.Len()
	return false
}

// boundPorts returns the local ports of listening TCP sockets / bound UDP sockets.
func boundPorts(proto string) (map[int]bool, error) {
	b, err := os.ReadFile("/proc/net/" + proto)
	if err != nil {
		return nil, err
	}
	out := map[int]bool{}
	for i, line := range strings.Split(string(b), "\n") {
		f := strings.Fields(line)
		if i == 0 || len(f) < 4 {
			continue
		}
		if proto == "tcp" && f[3] != "0A" {
			continue
		}
		if j := strings.LastIndexByte(f[1], ':'); j >= 0 {
			if port, err := strconv.ParseUint(f[1][j+1:], 16, 16); err == nil {
				out[int(port)] = true
			}
		}
	}
	return out, nil
}

func waitBound(want []string, total time.Duration, finished *atomic.Bool) {
	deadline := time.Now().Add(total)
	for {
		tcp, err1 := boundPorts("tcp")
		udp, err2 := boundPorts("udp")
		if err1 != nil || err2 != nil {
			time.Sleep(500 * time.Millisecond)
			return
		}
		missing := false
		for _, wnt := range want {
			proto, portStr, _ := strings.Cut(wnt, ":")
			port, _ := strconv.Atoi(portStr)
			if (proto == "tcp" && !tcp[port]) || (proto == "udp" && !udp[port]) {
				missing = true
			}
		}
		if !missing || finished.Load() || time.Now().After(deadline) {
			return
		}
		time.Sleep(5 * time.Millisecond)
	}
}

func apiProbe(p *Probe, addr string) probeResult {
	t0 := time.Now()
	r := probeResult{Kind: p.Kind, Addr: addr}
	c, attempts, err := dialRetry(addr, 8*time.Second)
	r.Attempts = attempts
	if err != nil {
		r.Err = "dial: " + err.Error()
		return r
	}
	c.Close()
	hc := &http.Client{Timeout: 5 * time.Second, Transport: &http.Transport{DisableKeepAlives: true}}
	resp, err := hc.Get("http://" + addr + p.Path)
	if err != nil {
		r.Err = err.Error()
		return r
	}
	body, _ := io.ReadAll(io.LimitReader(resp.Body, 1<<16))
	resp.Body.Close()
	r.Outcome = strconv.Itoa(resp.StatusCode)
	if resp.StatusCode == 200 && bytes.Contains(body, []byte(p.Target)) {
		r.OK = true
	} else {
		r.Err = fmt.Sprintf("status %d body %.100q", resp.StatusCode, body)
	}
	r.Millis = time.Since(t0).Milliseconds()
	return r
}

// evaluate turns a result into a violation string ("" = none). It only states what the property
// demands of an accepted configuration: no crash (handled by the caller), Stop returns, and the
// traffic the script expected to flow did flow (otherwise the case would not count as exercised).
func evaluate(p *Plan, r *Result, tolerateRejectEOF bool) (violation string, exercised bool, labels []string) {
	if r.LoadErr != "" {
		return "SIG=C18/child-load-differs child rejected a configuration the parent accepted: " + r.LoadErr, false, nil
	}
	if r.StartFailed {
		return "", false, []string{"start-failed"}
	}
	if r.StopTimeout {
		return fmt.Sprintf("SIG=C18/stop-exceeds-bound Run did not return %d ms after cancellation", r.StopMs), false, nil
	}
	exercised = true
	for i, pr := range r.Probes {
		pp := p.Probes[i]
		labels = append(labels, "probe:"+pp.Kind)
		if pp.Silent && pp.Greet {
			labels = append(labels, "probe-silent:target-speaks-first")
		} else if pp.Silent {
			labels = append(labels, "probe-silent:late-payload")
		}
		if pr.NTSeen {
			labels = append(labels, "udp-nontarget-reply-delivered")
		}
		if pr.Outcome == "skipped" {
			// the environment could not provide what the probe needs (e.g. no UDP port 53 for the harness)
			labels = append(labels, "probe-skipped:"+pp.Kind)
			continue
		}
		for _, n := range strings.Split(pp.Note, ",") {
			if n != "" {
				labels = append(labels, n)
			}
		}
		if pp.TLS {
			labels = append(labels, "tls-probe", fmt.Sprintf("tls-probe:client-cert=%v", pp.TLSCert))
		}
		switch pr.Outcome {
		case "auth-bypass":
			return fmt.Sprintf("SIG=C18/http-auth-bypass server=%s: enableBasicAuth is on, but a CONNECT without valid credentials was answered with 200 (%s)", pp.Server, pr.Err), false, labels
		case "cert-bypass":
			return fmt.Sprintf("SIG=C18/tls-client-cert-bypass server=%s: requireAndVerifyClientCert is on, but a TLS client without a certificate got a tunnel (%s)", pp.Server, pr.Err), false, labels
		case "burst-duplicate":
			return fmt.Sprintf("SIG=C18/smoke-burst-duplicate/%s server=%s: a datagram of a back-to-back burst was delivered more than once: %s", pp.Kind, pp.Server, pr.Err), false, labels
		case "over-budget-delivered":
			return fmt.Sprintf("SIG=C18/mtu-budget-exceeded/%s server=%s: a payload one byte above what fits the configured MTU was relayed: %s", pp.Kind, pp.Server, pr.Err), false, labels
		}
		if pp.Pre407 && pr.OK {
			labels = append(labels, "auth-refused-then-accepted")
		}
		if pp.Kind == "tls-nocert" && pr.OK {
			labels = append(labels, "tls-nocert-refused")
		}
		if pr.Retried {
			labels = append(labels, "probe-retried:"+pp.Kind)
		}
		if pr.Attempts > 1 && (strings.HasPrefix(pp.Kind, "udp-") || pp.Kind == "assoc-socks5") && pp.Kind != "udp-garbage" {
			labels = append(labels, "udp-resent:"+pp.Kind) // the first datagram of the exchange was not echoed in time
		}
		if pp.ExpectEcho && !pr.OK {
			return fmt.Sprintf("SIG=C18/smoke-no-echo/%s server=%s addr=%s: %s", pp.Kind, pp.Server, pr.Addr, pr.Err), false, labels
		}
		if pp.Kind == "api" && !pr.OK {
			return fmt.Sprintf("SIG=C18/smoke-api server list not served: %s", pr.Err), false, labels
		}
		if pp.Kind == "reject" {
			labels = append(labels, "reject-outcome:"+pr.Outcome)
			if pp.ExpectFB && pr.Outcome != "fallback-echo" {
				return fmt.Sprintf("SIG=C18/smoke-fallback server=%s: unauthenticated bytes must reach unsafeFallbackAddress unchanged and its reply must come back, got outcome %q %s", pp.Server, pr.Outcome, pr.Err), false, labels
			}
			if pp.ExpectRST && pr.Outcome == "eof" && tolerateRejectEOF {
				labels = append(labels, "known-reject-eof")
			} else if pp.ExpectRST && pr.Outcome == "eof" {
				return fmt.Sprintf("SIG=C18/reject-policy-default-mismatch server=%s: omitted/empty/\"ForceReset\" rejectPolicy must reset the connection (documented default), but it was closed gracefully (FIN)", pp.Server), false, labels
			}
		}
	}
	if len(r.Probes) < len(p.Probes) {
		return "SIG=C18/run-ended-early services stopped by themselves during the smoke script: " + r.StartErr, false, labels
	}
	return "", exercised, labels
}

var panicLine = regexp.MustCompile(`(?m)^(panic: .*|fatal error: .*)$`)

// crashSignature maps a crash message to a stable signature.
func crashSignature(out string) string {
	m := panicLine.FindString(out)
	switch {
	case strings.Contains(m, "IPPort() called on non-IP address"):
		return "C18/tunnel-domain-targetonly-panic"
	case m == "":
		return "C18/crash/unknown"
	}
	s := strings.ToLower(m)
	s = regexp.MustCompile(`[^a-z]+`).ReplaceAllString(s, "-")
	if len(s) > 60 {
		s = s[:60]
	}
	return "C18/crash/" + strings.Trim(s, "-")
}

type childOutcome struct {
	Result  *Result
	Crashed bool
	Sig     string
	Output  string
	Journal string
}

var journalSeq atomic.Int64

func workDir() string {
	if d := os.Getenv("VERIF_WORK"); d != "" {
		return d
	}
	return os.TempDir()
}

// writeJournal stores the plan where the driver looks for crash journals.
func writeJournal(p *Plan) (string, error) {
	b, err := json.MarshalIndent(p, "", " ")
	if err != nil {
		return "", err
	}
	journal := filepath.Join(workDir(), fmt.Sprintf("journal-c18-%d-%d.json", os.Getpid(), journalSeq.Add(1)))
	return journal, os.WriteFile(journal, b, 0o644)
}

func parseResult(out string) *Result {
	i := strings.LastIndex(out, "C18RESULT ")
	if i < 0 {
		return nil
	}
	line := out[i+len("C18RESULT "):]
	if j := strings.IndexByte(line, '\n'); j >= 0 {
		line = line[:j]
	}
	var r Result
	if json.Unmarshal([]byte(line), &r) != nil {
		return nil
	}
	return &r
}

func isCrash(out string) bool {
	return panicLine.MatchString(out) && !strings.Contains(out, "panic: test timed out")
}

// runOneShot executes the journaled plan in a fresh child process.
func runOneShot(journal string) (*childOutcome, error) {
	ctx, cancel := context.WithTimeout(context.Background(), 150*time.Second)
	defer cancel()
	cmd := exec.CommandContext(ctx, os.Args[0], "-test.run", "^TestReplayPlan$", "-test.count=1", "-test.timeout", "140s")
	cmd.Env = append(os.Environ(), "VERIF_REPLAY="+journal, "C18_CHILD=1", "VERIF_EVDIR=")
	var out bytes.Buffer
	cmd.Stdout, cmd.Stderr = &out, &out
	runErr := cmd.Run()
	o := &childOutcome{Output: out.String(), Journal: journal, Result: parseResult(out.String())}
	if o.Result != nil && runErr == nil {
		return o, nil
	}
	if isCrash(o.Output) {
		o.Crashed = true
		o.Sig = crashSignature(o.Output)
		return o, nil
	}
	if errors.Is(ctx.Err(), context.DeadlineExceeded) || strings.Contains(o.Output, "panic: test timed out") {
		o.Crashed = true
		o.Sig = "C18/child-hang"
		return o, nil
	}
	return o, fmt.Errorf("child failed without a result: %v\n%s", runErr, tailStr(o.Output, 2000))
}

// planServer is a long-lived child that executes plans one after another (process start-up is
// the dominant cost of a one-shot child). If it dies, the plan that was running is re-executed in
// a fresh one-shot child to attribute the crash.
type planServer struct {
	cmd    *exec.Cmd
	stdin  io.WriteCloser
	lines  chan string
	stderr *syncBuffer
	done   chan struct{}
}

type syncBuffer struct {
	mu sync.Mutex
	b  bytes.Buffer
}

func (s *syncBuffer) Write(p []byte) (int, error) {
	s.mu.Lock()
	defer s.mu.Unlock()
	return s.b.Write(p)
}

func (s *syncBuffer) String() string {
	s.mu.Lock()
	defer s.mu.Unlock()
	return s.b.String()
}

var (
	serverMu         sync.Mutex
	server           *planServer
	lastPlan         *Plan
	lastCrashJournal string
	oneShotEnv       = os.Getenv("VERIF_C18_ONESHOT") != ""
)

func startPlanServer() (*planServer, error) {
	cmd := exec.Command(os.Args[0], "-test.run", "^TestPlanServer$", "-test.count=1", "-test.timeout", "0")
	cmd.Env = append(os.Environ(), "C18_SERVER=1", "VERIF_EVDIR=", "VERIF_REPLAY=")
	stdin, err := cmd.StdinPipe()
	if err != nil {
		return nil, err
	}
	stdout, err := cmd.StdoutPipe()
	if err != nil {
		return nil, err
	}
	ps := &planServer{cmd: cmd, stdin: stdin, lines: make(chan string, 16), stderr: &syncBuffer{}, done: make(chan struct{})}
	cmd.Stderr = ps.stderr
	if err := cmd.Start(); err != nil {
		return nil, err
	}
	go func() {
		sc := bufio.NewScanner(stdout)
		sc.Buffer(make([]byte, 1<<20), 1<<24)
		for sc.Scan() {
			if strings.HasPrefix(sc.Text(), "C18RESULT ") {
				ps.lines <- sc.Text()
			} else {
				ps.stderr.Write([]byte(sc.Text() + "\n"))
			}
		}
		cmd.Wait()
		close(ps.done)
	}()
	return ps, nil
}

func (ps *planServer) kill() {
	ps.stdin.Close()
	select {
	case <-ps.done:
	case <-time.After(2 * time.Second):
		ps.cmd.Process.Kill()
		<-ps.done
	}
}

func stopPlanServer() {
	serverMu.Lock()
	defer serverMu.Unlock()
	if server != nil {
		server.kill()
		server = nil
	}
}

// runChild journals the plan and executes it in a child process.
func runChild(p *Plan) (*childOutcome, error) {
	journal, err := writeJournal(p)
	if err != nil {
		return nil, err
	}
	if oneShotEnv {
		o, err := runOneShot(journal)
		if err != nil || !o.Crashed {
			os.Remove(journal)
		}
		return o, err
	}
	serverMu.Lock()
	defer serverMu.Unlock()
	if server == nil {
		if server, err = startPlanServer(); err != nil {
			return nil, err
		}
	}
	prev := lastPlan
	lastPlan = p
	if _, err := io.WriteString(server.stdin, journal+"\n"); err == nil {
		select {
		case line := <-server.lines:
			if r := parseResult(line + "\n"); r != nil {
				os.Remove(journal)
				return &childOutcome{Result: r, Journal: journal}, nil
			}
		case <-server.done:
		case <-time.After(150 * time.Second):
			server.cmd.Process.Kill()
			<-server.done
			out := server.stderr.String()
			server = nil
			return &childOutcome{Crashed: true, Sig: "C18/child-hang", Output: out, Journal: journal}, nil
		}
	}
	// the server died while this plan was running
	<-server.done
	out := server.stderr.String()
	server = nil
	for range 2 {
		o, err := runOneShot(journal)
		if err == nil && o.Crashed {
			// journal stays: it is the replay file. Only the latest one is kept, so that after
			// shrinking the remaining journal is the one of the minimal failing case.
			if lastCrashJournal != "" && lastCrashJournal != journal {
				os.Remove(lastCrashJournal)
			}
			lastCrashJournal = journal
			return o, nil
		}
	}
	if prev != nil {
		// a goroutine left behind by the previous plan may have been the one that died
		if pj, err := writeJournal(prev); err == nil {
			if o, err := runOneShot(pj); err == nil && o.Crashed {
				os.Remove(journal)
				o.Output = "(attributed to the plan executed before the one during which the process died)\n" + o.Output
				return o, nil
			}
			os.Remove(pj)
		}
	}
	if isCrash(out) {
		return &childOutcome{Crashed: true, Sig: crashSignature(out) + "/not-reproduced-in-isolation", Output: out, Journal: journal}, nil
	}
	os.Remove(journal)
	return nil, fmt.Errorf("plan server died without a crash message:\n%s", tailStr(out, 2000))
}

// TestPlanServer is the long-lived child: it reads journal paths from stdin and prints one
// result line per plan.
func TestPlanServer(t *testing.T) {
	if os.Getenv("C18_SERVER") == "" {
		t.Skip("child mode only")
	}
	sc := bufio.NewScanner(os.Stdin)
	for sc.Scan() {
		path := strings.TrimSpace(sc.Text())
		if path == "" {
			continue
		}
		b, err := os.ReadFile(path)
		var p Plan
		if err == nil {
			err = json.Unmarshal(b, &p)
		}
		var r Result
		if err != nil {
			r.LoadErr = "harness: " + err.Error()
		} else {
			r = runPlan(&p)
		}
		out, _ := json.Marshal(r)
		fmt.Printf("C18RESULT %s\n", out)
	}
}

func tailStr(s string, n int) string {
	if len(s) <= n {
		return s
	}
	return s[len(s)-n:]
}

// TestReplayPlan executes the plan in $VERIF_REPLAY (child mode of the property tests and the
// entry point of `bin/check C18 --replay <journal>`).
func TestReplayPlan(t *testing.T) {
	path := os.Getenv("VERIF_REPLAY")
	if path == "" {
		t.Skip("VERIF_REPLAY not set")
	}
	b, err := os.ReadFile(path)
	if err != nil {
		t.Fatal(err)
	}
	var p Plan
	if err := json.Unmarshal(b, &p); err != nil {
		t.Skipf("not a C18 plan: %v", err)
	}
	r := runPlan(&p)
	out, _ := json.Marshal(r)
	fmt.Printf("\nC18RESULT %s\n", out)
	if os.Getenv("C18_CHILD") != "" {
		return // the parent evaluates
	}
	if r.LoadErr != "" && !strings.HasPrefix(r.LoadErr, "harness:") {
		// stand-alone replay: being refused at load is one of the two outcomes the property allows
		t.Logf("the configuration of this plan is refused at load: %s", r.LoadErr)
		return
	}
	_, tolerate := known(sigReject)
	if v, _, _ := evaluate(&p, &r, tolerate); v != "" {
		t.Fatalf("VERIF-VIOLATION %s\nplan=%s", v, path)
	}
}
