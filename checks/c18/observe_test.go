package c18

// Observation of a loaded configuration through exported API only: accept/refuse, the policy
// accessors, the exported configuration after Manager() applied its defaults, and the values the
// exported Configure methods return (read with reflection because the returned type is unexported).

import (
	"encoding/json"
	"errors"
	"fmt"
	"os"
	"path/filepath"
	"reflect"
	"sort"
	"strings"
	"time"

	"github.com/database64128/shadowsocks-go/conn"
	"github.com/database64128/shadowsocks-go/jsoncfg"
	"github.com/database64128/shadowsocks-go/service"
	"github.com/database64128/shadowsocks-go/ss2022"
	"go.uber.org/zap"
)

func rejectFnName(p ss2022.RejectPolicy) string {
	ptr := reflect.ValueOf(p).Pointer()
	switch ptr {
	case reflect.ValueOf(ss2022.JustClose).Pointer():
		return "JustClose"
	case reflect.ValueOf(ss2022.ForceReset).Pointer():
		return "ForceReset"
	case reflect.ValueOf(ss2022.CloseWriteDrain).Pointer():
		return "CloseWriteDrain"
	case reflect.ValueOf(ss2022.ReplyWithGibberish).Pointer():
		return "ReplyWithGibberish"
	}
	return fmt.Sprintf("unknown(%x)", ptr)
}

func paddingFnName(p ss2022.PaddingPolicy) string {
	ptr := reflect.ValueOf(p).Pointer()
	switch ptr {
	case reflect.ValueOf(ss2022.NoPadding).Pointer():
		return "NoPadding"
	case reflect.ValueOf(ss2022.PadAll).Pointer():
		return "PadAll"
	case reflect.ValueOf(ss2022.PadPlainDNS).Pointer():
		return "PadPlainDNS"
	}
	return fmt.Sprintf("unknown(%x)", ptr)
}

type tcplObs struct {
	Network, Address, PMTUD                   string
	FastOpen, FastOpenFallback, ReusePort     bool
	FastOpenBacklog, DeferAccept, UserTimeout int
	TrafficClass                              int
	EffWait                                   string // does the relay wait for the initial payload
	EffWaitTimeout, EffWaitBuf                string
}

type udplObs struct {
	Network, Address, PMTUD                 string
	ReusePort                               bool
	TrafficClass                            int
	RelayBatch, RecvBatch, SendCap          int
	EffNATTimeout                           string
	EffRelayBatch, EffRecvBatch, EffSendCap string
	EffBatchMode                            string
}

type srvObs struct {
	Name, Protocol                       string
	RejectFn, RejectName, PadFn, PadName string
	TCP                                  []tcplObs
	UDP                                  []udplObs
	MTU                                  int
	Tunnel                               string
	TargetOnly                           bool
	Segmented                            bool
	UPSK                                 bool
	Fallback                             string
}

type cliObs struct {
	Name, Protocol, Network, TCPPMTUD, UDPPMTUD string
	PadFn, PadName                              string
	TFO, TFOFallback, Segmented                 bool
	MTU                                         int
	UseTLS                                      bool
	ServerName, RootCAs, CertList               string // HTTP proxy client, after Manager() applied the defaults
}

type probeObs struct {
	Timeout, Interval   string
	Concurrency         int
	Address, Path, Host string
}

type grpObs struct {
	Name     string
	TCPProbe *probeObs
	UDPProbe *probeObs
}

type obs struct {
	Accepted bool
	Err      string
	Servers  []srvObs
	Clients  []cliObs
	Groups   []grpObs
}

func privField(v any, name string) string {
	rv := reflect.ValueOf(v)
	if rv.Kind() != reflect.Struct {
		return "unobservable"
	}
	f := rv.FieldByName(name)
	if !f.IsValid() {
		return "unobservable"
	}
	switch f.Kind() {
	case reflect.Int64, reflect.Int:
		if f.Type() == reflect.TypeOf(time.Duration(0)) {
			return time.Duration(f.Int()).String()
		}
		return fmt.Sprint(f.Int())
	case reflect.Bool:
		return fmt.Sprint(f.Bool())
	case reflect.String:
		return f.String()
	}
	return "unobservable"
}

type loaded struct {
	dir string
	cfg *service.Config
	mgr *service.Manager
	err error
	obs obs
}

func (l *loaded) close() {
	if l.mgr != nil {
		l.mgr.Close()
	}
	os.RemoveAll(l.dir)
}

// parentPorts substitutes placeholders for load-only use in the parent (nothing is bound).
func parentSubst(s, dir string, nports int) string {
	ports := make([]int, nports+8)
	for i := range ports {
		ports[i] = 20000 + i
	}
	return substitute(s, dir, 19999, 19998, ports)
}

// loadText writes the files and the configuration into a fresh directory and loads it the way
// cmd/shadowsocks-go does. migrate additionally runs Config.Migrate and a save/load round trip
// before Manager (the -fmtConf path).
func loadText(cfgText string, files map[string]string, nports int, migrate bool, logLevel ...string) *loaded {
	l := &loaded{}
	dir, err := os.MkdirTemp(workDir(), "c18-load-")
	if err != nil {
		panic(err)
	}
	l.dir = dir
	if err := writeFiles(dir, files); err != nil {
		panic(err)
	}
	path := filepath.Join(dir, "config.json")
	if err := os.WriteFile(path, []byte(parentSubst(cfgText, dir, nports)), 0o644); err != nil {
		panic(err)
	}
	logger := zap.NewNop()
	if len(logLevel) > 0 && logLevel[0] != "" {
		// the load-time log statements (deprecation and taint warnings) run with real field values
		logger, _ = newLogger(logLevel[0], "console-nocolor")
	}
	if migrate {
		var sc service.Config
		if err := jsoncfg.Load(path, &sc); err != nil {
			l.err = fmt.Errorf("load: %w", err)
			l.obs.Err = l.err.Error()
			return l
		}
		sc.Migrate()
		if err := jsoncfg.Save(path, &sc); err != nil {
			panic(err)
		}
	}
	l.cfg, l.mgr, l.err = loadConfig(path, logger)
	if l.err != nil {
		l.obs.Err = l.err.Error()
		return l
	}
	l.obs = observe(l.cfg)
	return l
}

// callConfigure calls the listener configuration's Configure method through reflection, filling
// each parameter by type (logger, server name, listen-config cache, zero for durations/ints, false
// for flags). The method is exported but its parameter list is an internal detail of the service
// package; binding to it statically made the whole check fail to compile against a tree that
// changed it (seeded change C18-b), which turned a detectable violation into "inconclusive".
func callConfigure(recv any, logger *zap.Logger, serverName string, cache conn.ListenConfigCache) (any, error) {
	m := reflect.ValueOf(recv).MethodByName("Configure")
	if !m.IsValid() {
		return nil, errors.New("no Configure method")
	}
	mt := m.Type()
	args := make([]reflect.Value, mt.NumIn())
	for i := range args {
		pt := mt.In(i)
		switch {
		case pt == reflect.TypeOf(logger):
			args[i] = reflect.ValueOf(logger)
		case pt == reflect.TypeOf(cache):
			args[i] = reflect.ValueOf(cache)
		case pt.Kind() == reflect.String:
			args[i] = reflect.ValueOf(serverName).Convert(pt)
		default:
			args[i] = reflect.Zero(pt)
		}
	}
	out := m.Call(args)
	if len(out) == 0 {
		return nil, errors.New("Configure returned nothing")
	}
	if last := out[len(out)-1]; last.Type().Implements(reflect.TypeOf((*error)(nil)).Elem()) && !last.IsNil() {
		return nil, last.Interface().(error)
	}
	return out[0].Interface(), nil
}

func observe(cfg *service.Config) obs {
	o := obs{Accepted: true}
	cache := conn.NewListenConfigCache()
	nop := zap.NewNop()
	for i := range cfg.Servers {
		sc := &cfg.Servers[i]
		so := srvObs{Name: sc.Name, Protocol: sc.Protocol, MTU: sc.MTU, TargetOnly: sc.TunnelUDPTargetOnly, Segmented: sc.AllowSegmentedFixedLengthHeader,
			UPSK: sc.UPSKStorePath != "", Fallback: sc.UnsafeFallbackAddress.String()}
		if sc.TunnelRemoteAddress.IsValid() {
			so.Tunnel = sc.TunnelRemoteAddress.String()
		}
		if strings.HasPrefix(sc.Protocol, "2022-") {
			so.RejectFn, so.RejectName = rejectFnName(sc.RejectPolicy.Policy()), sc.RejectPolicy.Name()
			so.PadFn, so.PadName = paddingFnName(sc.PaddingPolicy.Policy()), sc.PaddingPolicy.Name()
		}
		for j := range sc.TCPListeners {
			l := &sc.TCPListeners[j]
			to := tcplObs{Network: l.Network, Address: l.Address, PMTUD: l.PathMTUDiscovery.String(), FastOpen: l.FastOpen, FastOpenFallback: l.FastOpenFallback,
				ReusePort: l.ReusePort, FastOpenBacklog: l.FastOpenBacklog, DeferAccept: l.DeferAcceptSecs, UserTimeout: l.UserTimeoutMsecs, TrafficClass: l.TrafficClass}
			lc := *l
			if eff, err := callConfigure(&lc, nop, sc.Name, cache); err == nil {
				to.EffWait = privField(eff, "waitForInitialPayload")
				to.EffWaitTimeout = privField(eff, "initialPayloadWaitTimeout")
				to.EffWaitBuf = privField(eff, "initialPayloadWaitBufferSize")
			} else {
				to.EffWait = "error: " + err.Error()
			}
			so.TCP = append(so.TCP, to)
		}
		for j := range sc.UDPListeners {
			l := &sc.UDPListeners[j]
			uo := udplObs{Network: l.Network, Address: l.Address, PMTUD: l.PathMTUDiscovery.String(), ReusePort: l.ReusePort, TrafficClass: l.TrafficClass,
				RelayBatch: l.RelayBatchSize, RecvBatch: l.ServerRecvBatchSize, SendCap: l.SendChannelCapacity}
			lc := *l
			if eff, err := callConfigure(&lc, nop, sc.Name, cache); err == nil {
				uo.EffNATTimeout = privField(eff, "natTimeout")
				uo.EffRelayBatch = privField(eff, "relayBatchSize")
				uo.EffRecvBatch = privField(eff, "serverRecvBatchSize")
				uo.EffSendCap = privField(eff, "sendChannelCapacity")
				if uo.EffBatchMode = privField(eff, "batchMode"); uo.EffBatchMode == "" {
					uo.EffBatchMode = "sendmmsg" // "": platform default; "sendmmsg" is the default on Linux (doc comment of UDPPerfConfig.BatchMode)
				}
			} else {
				uo.EffNATTimeout = "error: " + err.Error()
			}
			so.UDP = append(so.UDP, uo)
		}
		o.Servers = append(o.Servers, so)
	}
	for i := range cfg.Clients {
		cc := &cfg.Clients[i]
		co := cliObs{Name: cc.Name, Protocol: cc.Protocol, Network: cc.Network, TCPPMTUD: cc.TCPPathMTUDiscovery.String(), UDPPMTUD: cc.UDPPathMTUDiscovery.String(),
			TFO: cc.DialerTFO, TFOFallback: cc.TCPFastOpenFallback, Segmented: cc.AllowSegmentedFixedLengthHeader, MTU: cc.MTU}
		if strings.HasPrefix(cc.Protocol, "2022-") {
			co.PadFn, co.PadName = paddingFnName(cc.PaddingPolicy.Policy()), cc.PaddingPolicy.Name()
		}
		if cc.Protocol == "http" {
			co.UseTLS, co.ServerName, co.RootCAs, co.CertList = cc.HTTP.UseTLS, cc.HTTP.ServerName, cc.HTTP.RootCAs, cc.HTTP.CertList
		}
		o.Clients = append(o.Clients, co)
	}
	for i := range cfg.ClientGroups {
		g := &cfg.ClientGroups[i]
		gobs := grpObs{Name: g.Name}
		probing := func(p string) bool { return p == "availability" || p == "latency" || p == "min-max-latency" }
		if len(g.TCP.Clients) > 0 && probing(string(g.TCP.Policy)) {
			p := g.TCP.Probe
			gobs.TCPProbe = &probeObs{Timeout: p.Timeout.Value().String(), Interval: p.Interval.Value().String(), Concurrency: p.Concurrency,
				Address: p.Address.String(), Path: p.EscapedPath, Host: p.Host}
		}
		if len(g.UDP.Clients) > 0 && probing(string(g.UDP.Policy)) {
			p := g.UDP.Probe
			gobs.UDPProbe = &probeObs{Timeout: p.Timeout.Value().String(), Interval: p.Interval.Value().String(), Concurrency: p.Concurrency, Address: p.Address.String()}
		}
		o.Groups = append(o.Groups, gobs)
	}
	return o
}

func flatten(prefix string, v any, out map[string]string) {
	switch x := v.(type) {
	case map[string]any:
		for k, e := range x {
			flatten(prefix+"."+k, e, out)
		}
	case []any:
		for i, e := range x {
			flatten(fmt.Sprintf("%s[%d]", prefix, i), e, out)
		}
	default:
		out[prefix] = fmt.Sprint(x)
	}
}

func flatObs(o obs) map[string]string {
	b, _ := json.Marshal(o)
	var g any
	json.Unmarshal(b, &g)
	out := map[string]string{}
	flatten("", g, out)
	return out
}

// diffObs lists the observation paths on which a and b differ ("path: a != b"), sorted.
func diffObs(a, b obs) []string {
	fa, fb := flatObs(a), flatObs(b)
	var d []string
	for k, va := range fa {
		if k == ".Err" {
			continue
		}
		if vb, ok := fb[k]; !ok || vb != va {
			d = append(d, fmt.Sprintf("%s: %q != %q", k, va, fb[k]))
		}
	}
	for k, vb := range fb {
		if _, ok := fa[k]; !ok && k != ".Err" {
			d = append(d, fmt.Sprintf("%s: <absent> != %q", k, vb))
		}
	}
	sort.Strings(d)
	return d
}

// documented compares the observation with what the documentation says each field's effective
// value is (README policies, doc comments of the configuration structs), as recorded in defs.
func (w *world) documented(o obs) []string {
	var d []string
	chk := func(path string, got, want any) {
		if fmt.Sprint(got) != fmt.Sprint(want) {
			d = append(d, fmt.Sprintf("%s: effective %v, documented %v", path, got, want))
		}
	}
	dur := func(v any) string {
		x, err := time.ParseDuration(v.(string))
		if err != nil {
			panic(err)
		}
		return x.String()
	}
	for i, s := range w.servers {
		if i >= len(o.Servers) {
			break
		}
		so := o.Servers[i]
		p := fmt.Sprintf("servers[%d]", i)
		if s.is2022() {
			chk(p+".rejectPolicy.Policy()", so.RejectFn, s.f.effective("server", "rejectPolicy"))
			chk(p+".rejectPolicy.Name()", so.RejectName, s.f.effective("server", "rejectPolicy"))
			chk(p+".paddingPolicy.Policy()", so.PadFn, s.f.effective("server", "paddingPolicy"))
			chk(p+".paddingPolicy.Name()", so.PadName, s.f.effective("server", "paddingPolicy"))
		}
		if len(so.TCP) == len(s.tcp) {
			for j, l := range s.tcp {
				lp := fmt.Sprintf("%s.tcp[%d]", p, j)
				to := so.TCP[j]
				if _, ok := l.f["initialPayloadWaitTimeout"]; ok && to.EffWaitTimeout != "unobservable" {
					chk(lp+".initialPayloadWaitTimeout", to.EffWaitTimeout, dur(l.f.effective("tcpl", "initialPayloadWaitTimeout")))
					chk(lp+".initialPayloadWaitBufferSize", to.EffWaitBuf, l.f.effective("tcpl", "initialPayloadWaitBufferSize"))
				}
				if _, ok := l.f["pathMTUDiscovery"]; ok {
					chk(lp+".pathMTUDiscovery", to.PMTUD, l.f.effective("tcpl", "pathMTUDiscovery"))
				}
			}
		} else {
			d = append(d, fmt.Sprintf("%s: %d tcp listeners configured, %d effective", p, len(s.tcp), len(so.TCP)))
		}
		if len(so.UDP) == len(s.udp) {
			for j, l := range s.udp {
				lp := fmt.Sprintf("%s.udp[%d]", p, j)
				uo := so.UDP[j]
				chk(lp+".relayBatchSize", uo.RelayBatch, l.f.effective("udpl", "relayBatchSize"))
				chk(lp+".serverRecvBatchSize", uo.RecvBatch, l.f.effective("udpl", "serverRecvBatchSize"))
				chk(lp+".sendChannelCapacity", uo.SendCap, l.f.effective("udpl", "sendChannelCapacity"))
				if uo.EffNATTimeout != "unobservable" {
					want := dur(l.f.effective("udpl", "natTimeout"))
					chk(lp+".natTimeout", uo.EffNATTimeout, want)
					if got, err := time.ParseDuration(uo.EffNATTimeout); err == nil && s.is2022() && got < replayWindow {
						d = append(d, fmt.Sprintf("%s.natTimeout: effective %s is shorter than the replay window", lp, got))
					}
				}
				if _, ok := l.f["pathMTUDiscovery"]; ok {
					chk(lp+".pathMTUDiscovery", uo.PMTUD, l.f.effective("udpl", "pathMTUDiscovery"))
				}
				if _, ok := l.f["batchMode"]; ok && uo.EffBatchMode != "unobservable" {
					chk(lp+".batchMode", uo.EffBatchMode, l.f.effective("udpl", "batchMode"))
				}
			}
		} else {
			d = append(d, fmt.Sprintf("%s: %d udp listeners configured, %d effective", p, len(s.udp), len(so.UDP)))
		}
	}
	if w.clientsMode == 0 {
		for i, c := range w.clients {
			if i >= len(o.Clients) {
				break
			}
			co := o.Clients[i]
			p := fmt.Sprintf("clients[%d]", i)
			chk(p+".network", co.Network, c.f.effective("client", "network"))
			if keyLen(c.proto) > 0 {
				chk(p+".paddingPolicy.Policy()", co.PadFn, c.f.effective("client", "paddingPolicy"))
				chk(p+".paddingPolicy.Name()", co.PadName, c.f.effective("client", "paddingPolicy"))
			}
			if c.proto == "http" && c.tls != nil && c.tls.use {
				// "ServerName is the server name used for TLS. If empty, it is inferred from the address."
				want := "127.0.0.1"
				if c.tls.serverName != nil && *c.tls.serverName != "" {
					want = *c.tls.serverName
				}
				chk(p+".http.serverName", co.ServerName, want)
			}
		}
	} else if len(o.Clients) != 1 || o.Clients[0].Name != "direct" || o.Clients[0].Protocol != "direct" {
		d = append(d, fmt.Sprintf("clients omitted/empty: documented default is one direct client named \"direct\", got %+v", o.Clients))
	}
	for i, g := range w.groups {
		if i >= len(o.Groups) {
			break
		}
		p := fmt.Sprintf("clientGroups[%d]", i)
		sub := func(s any) string { return parentSubstAddr(fmt.Sprint(s)) }
		if g.tcp != nil && len(g.tcp.probe) > 0 && o.Groups[i].TCPProbe != nil {
			po := o.Groups[i].TCPProbe
			chk(p+".tcp.probe.timeout", po.Timeout, dur(g.tcp.probe.effective("tcpprobe", "timeout")))
			chk(p+".tcp.probe.interval", po.Interval, dur(g.tcp.probe.effective("tcpprobe", "interval")))
			chk(p+".tcp.probe.concurrency", po.Concurrency, g.tcp.probe.effective("tcpprobe", "concurrency"))
			chk(p+".tcp.probe.address", po.Address, sub(g.tcp.probe.effective("tcpprobe", "address")))
			chk(p+".tcp.probe.escapedPath", po.Path, g.tcp.probe.effective("tcpprobe", "escapedPath"))
			chk(p+".tcp.probe.host", po.Host, g.tcp.probe.effective("tcpprobe", "host"))
		}
		if g.udp != nil && len(g.udp.probe) > 0 && o.Groups[i].UDPProbe != nil {
			po := o.Groups[i].UDPProbe
			chk(p+".udp.probe.timeout", po.Timeout, dur(g.udp.probe.effective("udpprobe", "timeout")))
			chk(p+".udp.probe.interval", po.Interval, dur(g.udp.probe.effective("udpprobe", "interval")))
			chk(p+".udp.probe.concurrency", po.Concurrency, g.udp.probe.effective("udpprobe", "concurrency"))
			chk(p+".udp.probe.address", po.Address, sub(g.udp.probe.effective("udpprobe", "address")))
		}
	}
	return d
}

func parentSubstAddr(s string) string { return parentSubst(s, "", 0) }
