package c18

// Structured model of a configuration ("world"), its JSON emission in every representation
// (omitted / null / explicit empty / documented default / other value; legacy single-listener
// fields vs listener arrays), and the harness validator that restates the invariants of the
// property statement independently of the code under test.

import (
	"encoding/json"
	"fmt"
	"sort"
	"strings"
	"time"
)

type vmode int

const (
	mOmit    vmode = iota // key absent
	mNull                 // "key": null
	mEmpty                // explicit empty value of the field's JSON type
	mDefault              // the documented default written out
	mValue                // some other valid value
)

func (m vmode) String() string { return [...]string{"omit", "null", "empty", "default", "value"}[m] }

// dfield is the chosen representation of one field that has a documented default.
type dfield struct {
	Mode vmode
	Val  any
}

type fieldDef struct {
	empty, def any
	alts       []any // other valid values (harmless on loopback, unprivileged)
}

var pmtudAlts = []any{"system", "dont", "do", "probe", "want", "interface", "omit"}

// Documented defaults. Sources: README.md (policies, clients), docs/config.json (shape, "" forms),
// doc comments of the exported configuration structs (numeric defaults).
var defs = map[string]map[string]fieldDef{
	"server": {
		"rejectPolicy":                    {"", "ForceReset", []any{"JustClose", "CloseWriteDrain", "ReplyWithGibberish"}}, // README: ForceReset (default)
		"paddingPolicy":                   {"", "PadPlainDNS", []any{"PadAll", "NoPadding"}},                               // README: PadPlainDNS (default)
		"slidingWindowFilterSize":         {0, 256, []any{1, 64, 1000}},
		"allowSegmentedFixedLengthHeader": {false, false, []any{true}},
		"uPSKStorePath":                   {"", "", nil}, // README: can be omitted or left empty (single-user)
		"unsafeFallbackAddress":           {"", "", []any{"127.0.0.1:@@ECHO@@"}},
	},
	"tcpl": {
		"pathMTUDiscovery":             {"", "default", pmtudAlts},
		"fastOpen":                     {false, false, []any{true}},
		"fastOpenFallback":             {false, false, []any{true}},
		"fastOpenBacklog":              {0, 0, []any{-1, 16}},
		"deferAcceptSecs":              {0, 0, []any{1}},
		"userTimeoutMsecs":             {0, 0, []any{5000}},
		"reusePort":                    {false, false, []any{true}},
		"trafficClass":                 {0, 0, nil},
		"disableInitialPayloadWait":    {false, false, []any{true}},
		"initialPayloadWaitTimeout":    {"0s", "250ms", []any{"1ms", "20ms", "1s"}},
		"initialPayloadWaitBufferSize": {0, 1440, []any{1, 64, 65536, 1 << 20}},
	},
	"udpl": {
		"pathMTUDiscovery":    {"", "default", pmtudAlts},
		"reusePort":           {false, false, []any{true}},
		"trafficClass":        {0, 0, nil},
		"batchMode":           {"", "sendmmsg", []any{"no"}}, // "sendmmsg" is the documented default on Linux
		"relayBatchSize":      {0, 256, []any{1, 2, 1024}},
		"serverRecvBatchSize": {0, 64, []any{1, 8, 1024}},
		"sendChannelCapacity": {0, 1024, []any{64, 65, 4096}},
		"natTimeout":          {"0s", "5m0s", nil}, // alternatives depend on the protocol
	},
	"client": {
		"network":                         {"", "ip", []any{"ip4"}},
		"tcpPathMTUDiscovery":             {"", "default", pmtudAlts},
		"udpPathMTUDiscovery":             {"", "default", pmtudAlts},
		"dialerTFO":                       {false, false, []any{true}},
		"tcpFastOpenFallback":             {false, false, []any{true}},
		"allowSegmentedFixedLengthHeader": {false, false, []any{true}},
		"paddingPolicy":                   {"", "PadPlainDNS", []any{"PadAll", "NoPadding"}},
		"slidingWindowFilterSize":         {0, 256, []any{1, 64, 1000}},
		"overrideResolverDialAddress":     {"", "", nil},
	},
	"dns": {
		"type":      {"", "plain", nil},
		"cacheSize": {0, 1024, []any{1, -1, 32}},
	},
	"tcpprobe": {
		"timeout":     {"0s", "5s", []any{"1s"}},
		"interval":    {"0s", "30s", []any{"1s", "10s"}},
		"concurrency": {0, 32, []any{1, 2}},
		"address":     {"", "clients3.google.com:80", []any{"127.0.0.1:@@ECHO@@"}},
		"escapedPath": {"", "/generate_204", []any{"/x"}},
		"host":        {"", "clients3.google.com", []any{"echo.test"}},
	},
	"udpprobe": {
		"timeout":     {"0s", "5s", []any{"1s"}},
		"interval":    {"0s", "30s", []any{"1s", "10s"}},
		"concurrency": {0, 32, []any{1, 2}},
		"address":     {"", "[2606:4700:4700::1111]:53", []any{"127.0.0.1:@@DNS@@"}},
	},
	"domainset": {
		"type": {"", "text", nil},
	},
	"route": {
		"resolver":                        {"", "", nil},
		"disableNameResolutionForIPRules": {false, false, nil},
	},
	// TLS options of HTTP proxy servers / clients in their "not configured" representations
	"httpsrv": {
		"certList":                   {"", "", nil},
		"clientCAs":                  {"", "", nil},
		"enableTLS":                  {false, false, nil},
		"requireAndVerifyClientCert": {false, false, nil},
	},
	"httpcli": {
		"certList":   {"", "", nil},
		"rootCAs":    {"", "", nil},
		"serverName": {"", "", nil}, // "If empty, it is inferred from the address."
		"useTLS":     {false, false, nil},
	},
	"root": {
		"certs": {map[string]any{}, map[string]any{"certLists": []any{}, "x509CertPools": []any{}}, nil},
	},
	"api": {
		"debugPprof":      {false, false, []any{true}},
		"staticPath":      {"", "", nil},
		"realIPHeaderKey": {"", "", []any{"X-Forwarded-For"}},
	},
}

// fields is a set of defaulted fields of one JSON object.
type fields map[string]*dfield

// emitInto writes the fields into obj. override >= 0 rewrites every field that is in a
// default-equivalent representation (omit/null/empty/default) into that representation.
func (f fields) emitInto(kind string, obj map[string]any, override int) {
	for name, d := range f {
		fd, ok := defs[kind][name]
		if !ok {
			panic("no default table entry for " + kind + "." + name)
		}
		mode := d.Mode
		if override >= 0 && mode != mValue {
			mode = vmode(override)
		}
		switch mode {
		case mOmit:
		case mNull:
			obj[name] = nil
		case mEmpty:
			obj[name] = fd.empty
		case mDefault:
			obj[name] = fd.def
		case mValue:
			obj[name] = d.Val
		}
	}
}

// effective returns the value the documentation says the field has.
func (f fields) effective(kind, name string) any {
	d, ok := f[name]
	if !ok || d.Mode != mValue {
		return defs[kind][name].def
	}
	return d.Val
}

type lst struct {
	network string
	port    int // index of the @@P<i>@@ placeholder
	f       fields
}

func (l *lst) addr() string { return fmt.Sprintf("127.0.0.1:@@P%d@@", l.port) }

type srv struct {
	name, proto string
	tcp, udp    []*lst
	legacyOK    bool // expressible with the legacy single-listener fields
	legacy      bool // emitted in the legacy form
	mtu         *int
	psk         []byte
	pskSet      bool
	upskFile    string            // "" = single-user
	users       map[string][]byte // content of the uPSK store
	tunnel      string            // tunnelRemoteAddress (placeholders)
	targetOnly  *dfield
	authUser    string
	authPass    string
	reqPrefix   []byte
	respPrefix  []byte
	f           fields
	upTCP       string // upstream client name per network ("" = none routed)
	upUDP       string
	tls         *srvTLS // http: explicitly set TLS options
	hf          fields  // http: TLS options in a default-equivalent representation
	httpEmpty   bool    // http: write an empty "http" object
}

func (s *srv) is2022() bool { return strings.HasPrefix(s.proto, "2022-") }

func keyLen(proto string) int {
	switch proto {
	case "2022-blake3-aes-128-gcm":
		return 16
	case "2022-blake3-aes-256-gcm":
		return 32
	}
	return 0
}

type cli struct {
	name, proto string
	tcp, udp    bool
	mtu         *int
	toServer    int // index of the server it connects to; -1 for direct
	split       bool
	psk         []byte
	ipsks       [][]byte
	authUser    string
	authPass    string
	reqPrefix   []byte
	respPrefix  []byte
	f           fields
	tls         *cliTLS // http: explicitly set TLS options
	hf          fields  // http: TLS options in a default-equivalent representation
}

type sel struct {
	policy  string
	clients []string
	probe   fields
}

type grp struct {
	name     string
	tcp, udp *sel
}

type res struct {
	name     string
	system   bool
	tcpC     string
	udpC     string
	f        fields
	addrPort string
}

type setCfg struct {
	name, file string
	f          fields // domain sets only
}

type route struct {
	name, network, client string
	fromServers           []string
	extra                 map[string]any // matching criteria (sets, prefixes, ports, domains)
	f                     fields
}

type apiCfg struct {
	port   int
	secret string
	f      fields
}

type world struct {
	target      string // what non-tunnel entry probes ask for
	servers     []*srv
	clientsMode int // 0 explicit list; 1 omitted; 2 empty array (default direct client is added)
	clients     []*cli
	groups      []*grp
	dns         []*res
	defTCP      *string // nil omitted
	defUDP      *string
	domainSets  []*setCfg
	prefixSets  []*setCfg
	routes      []*route
	api         *apiCfg
	files       map[string]string
	nports      int
	lenient     []string // reasons why both acceptance and refusal are within the statement
	certs       *certsCfg
	legacyOnly  bool // every server is written with the deprecated single-listener fields only
	rootF       fields // "certs" in a default-equivalent representation (worlds without certificates)
}

// ---- emission

func (l *lst) emit(kind string, override int) map[string]any {
	o := map[string]any{"network": l.network, "address": l.addr()}
	l.f.emitInto(kind, o, override)
	return o
}

func fieldPresent(f fields, kind, name string, override int) (any, bool) {
	tmp := map[string]any{}
	fields{name: f[name]}.emitInto(kind, tmp, override)
	v, ok := tmp[name]
	return v, ok
}

func durSeconds(v any) (int, bool) {
	s, ok := v.(string)
	if !ok {
		return 0, false
	}
	d, err := time.ParseDuration(s)
	if err != nil || d%time.Second != 0 {
		return 0, false
	}
	return int(d / time.Second), true
}

func (s *srv) emit(override int, legacy bool) map[string]any {
	o := map[string]any{"name": s.name, "protocol": s.proto}
	if legacy {
		// legacy single-listener form: listen + enableTCP/enableUDP + server-level tuning fields
		var any1 *lst
		if len(s.tcp) > 0 {
			any1 = s.tcp[0]
			o["enableTCP"] = true
			for name, to := range map[string]string{"fastOpen": "listenerTFO", "disableInitialPayloadWait": "disableInitialPayloadWait"} {
				if _, ok := s.tcp[0].f[name]; ok {
					if v, ok := fieldPresent(s.tcp[0].f, "tcpl", name, override); ok {
						o[to] = v
					}
				}
			}
		}
		if len(s.udp) > 0 {
			any1 = s.udp[0]
			o["enableUDP"] = true
			for name, to := range map[string]string{"batchMode": "udpBatchMode", "relayBatchSize": "udpRelayBatchSize",
				"serverRecvBatchSize": "udpServerRecvBatchSize", "sendChannelCapacity": "udpSendChannelCapacity"} {
				if _, ok := s.udp[0].f[name]; ok {
					if v, ok := fieldPresent(s.udp[0].f, "udpl", name, override); ok {
						o[to] = v
					}
				}
			}
			if _, ok := s.udp[0].f["natTimeout"]; ok {
				if v, ok := fieldPresent(s.udp[0].f, "udpl", "natTimeout", override); ok {
					if v == nil {
						o["natTimeoutSec"] = nil
					} else if secs, ok := durSeconds(v); ok {
						o["natTimeoutSec"] = secs
					} else {
						panic("legacy form cannot express natTimeout " + fmt.Sprint(v))
					}
				}
			}
		}
		if any1 != nil {
			o["listen"] = any1.addr()
		}
	} else {
		if len(s.tcp) > 0 {
			var a []any
			for _, l := range s.tcp {
				a = append(a, l.emit("tcpl", override))
			}
			o["tcpListeners"] = a
		}
		if len(s.udp) > 0 {
			var a []any
			for _, l := range s.udp {
				a = append(a, l.emit("udpl", override))
			}
			o["udpListeners"] = a
		}
	}
	if s.mtu != nil {
		o["mtu"] = *s.mtu
	}
	if s.pskSet {
		o["psk"] = s.psk
	}
	if s.upskFile != "" {
		o["uPSKStorePath"] = "@@DIR@@/" + s.upskFile
	}
	if s.tunnel != "" {
		o["tunnelRemoteAddress"] = s.tunnel
	}
	if s.targetOnly != nil {
		switch s.targetOnly.Mode {
		case mNull:
			o["tunnelUDPTargetOnly"] = nil
		case mEmpty, mDefault:
			o["tunnelUDPTargetOnly"] = false
		case mValue:
			o["tunnelUDPTargetOnly"] = s.targetOnly.Val
		}
	}
	if s.authUser != "" && s.proto == "socks5" {
		users := []any{map[string]any{"username": s.authUser, "password": s.authPass}}
		o["socks5"] = map[string]any{"users": users, "enableUserPassAuth": true}
	}
	if s.proto == "http" {
		s.emitHTTP(o, override)
	}
	if len(s.reqPrefix) > 0 {
		o["unsafeRequestStreamPrefix"] = s.reqPrefix
	}
	if len(s.respPrefix) > 0 {
		o["unsafeResponseStreamPrefix"] = s.respPrefix
	}
	f := s.f
	if s.upskFile != "" {
		f = fields{}
		for k, v := range s.f {
			if k != "uPSKStorePath" {
				f[k] = v
			}
		}
	}
	f.emitInto("server", o, override)
	return o
}

func (c *cli) emit(w *world, override int) map[string]any {
	o := map[string]any{"name": c.name, "protocol": c.proto}
	if c.tcp {
		o["enableTCP"] = true
	}
	if c.udp {
		o["enableUDP"] = true
	}
	if c.mtu != nil {
		o["mtu"] = *c.mtu
	}
	if c.toServer >= 0 {
		s := w.servers[c.toServer]
		var ta, ua string
		if len(s.tcp) > 0 {
			ta = s.tcp[0].addr()
		}
		if len(s.udp) > 0 {
			ua = s.udp[0].addr()
		}
		if c.proto == "socks5" && c.udp {
			ua = ta // UDP ASSOCIATE goes over the TCP listener
		}
		switch {
		case !c.split && ta != "" && (ua == "" || ua == ta):
			o["endpoint"] = ta
		case !c.split && ta == "":
			o["endpoint"] = ua
		default:
			if ta != "" {
				o["tcpAddress"] = ta
			}
			if ua != "" && c.udp {
				o["udpAddress"] = ua
			}
		}
	}
	if c.psk != nil {
		o["psk"] = c.psk
	}
	if len(c.ipsks) > 0 {
		a := make([]any, len(c.ipsks))
		for i := range c.ipsks {
			a[i] = c.ipsks[i]
		}
		o["iPSKs"] = a
	}
	if c.authUser != "" && c.proto == "socks5" {
		o["socks5"] = map[string]any{"username": c.authUser, "password": c.authPass, "enableUserPassAuth": true}
	}
	if c.proto == "http" {
		c.emitHTTP(o, override)
	}
	if len(c.reqPrefix) > 0 {
		o["unsafeRequestStreamPrefix"] = c.reqPrefix
	}
	if len(c.respPrefix) > 0 {
		o["unsafeResponseStreamPrefix"] = c.respPrefix
	}
	c.f.emitInto("client", o, override)
	return o
}

func (s *sel) emit(kind string, override int) map[string]any {
	o := map[string]any{"policy": s.policy, "clients": s.clients}
	if len(s.probe) > 0 {
		p := map[string]any{}
		s.probe.emitInto(kind, p, override)
		if len(p) > 0 {
			o["probe"] = p
		}
	}
	return o
}

// emit renders the world. override: -1 as drawn, else a vmode forced on every default-equivalent
// field. flipLegacy renders every legacy-expressible server in the other form.
func (w *world) emit(override int, flipLegacy bool) string {
	root := map[string]any{}
	var ss []any
	for _, s := range w.servers {
		legacy := s.legacy
		if flipLegacy && s.legacyOK {
			legacy = !legacy
		}
		ss = append(ss, s.emit(override, legacy))
	}
	root["servers"] = ss
	switch w.clientsMode {
	case 0:
		var cs []any
		for _, c := range w.clients {
			cs = append(cs, c.emit(w, override))
		}
		root["clients"] = cs
	case 2:
		root["clients"] = []any{}
	}
	if len(w.groups) > 0 {
		var gs []any
		for _, g := range w.groups {
			o := map[string]any{"name": g.name}
			if g.tcp != nil {
				o["tcp"] = g.tcp.emit("tcpprobe", override)
			}
			if g.udp != nil {
				o["udp"] = g.udp.emit("udpprobe", override)
			}
			gs = append(gs, o)
		}
		root["clientGroups"] = gs
	}
	if len(w.dns) > 0 {
		var ds []any
		for _, r := range w.dns {
			o := map[string]any{"name": r.name}
			if r.system {
				o["type"] = "system"
			} else {
				o["addrPort"] = r.addrPort
				if r.tcpC != "" {
					o["tcpClientName"] = r.tcpC
				}
				if r.udpC != "" {
					o["udpClientName"] = r.udpC
				}
				r.f.emitInto("dns", o, override)
			}
			ds = append(ds, o)
		}
		root["dns"] = ds
	}
	rt := map[string]any{}
	if w.defTCP != nil {
		rt["defaultTCPClientName"] = *w.defTCP
	}
	if w.defUDP != nil {
		rt["defaultUDPClientName"] = *w.defUDP
	}
	if len(w.domainSets) > 0 {
		var a []any
		for _, d := range w.domainSets {
			o := map[string]any{"name": d.name, "path": "@@DIR@@/" + d.file}
			d.f.emitInto("domainset", o, override)
			a = append(a, o)
		}
		rt["domainSets"] = a
	}
	if len(w.prefixSets) > 0 {
		var a []any
		for _, d := range w.prefixSets {
			a = append(a, map[string]any{"name": d.name, "path": "@@DIR@@/" + d.file})
		}
		rt["prefixSets"] = a
	}
	if len(w.routes) > 0 {
		var a []any
		for _, r := range w.routes {
			o := map[string]any{"name": r.name, "client": r.client}
			if r.network != "" {
				o["network"] = r.network
			}
			if len(r.fromServers) > 0 {
				o["fromServers"] = r.fromServers
			}
			for k, v := range r.extra {
				o[k] = v
			}
			r.f.emitInto("route", o, override)
			a = append(a, o)
		}
		rt["routes"] = a
	}
	if len(rt) > 0 {
		root["router"] = rt
	}
	if w.api != nil {
		o := map[string]any{"enabled": true, "listeners": []any{map[string]any{"network": "tcp", "address": fmt.Sprintf("127.0.0.1:@@P%d@@", w.api.port)}}}
		if w.api.secret != "" {
			o["secretPath"] = w.api.secret
		}
		w.api.f.emitInto("api", o, override)
		root["api"] = o
	}
	if w.certs != nil {
		root["certs"] = w.certs.emit()
	} else {
		w.rootF.emitInto("root", root, override)
	}
	b, err := json.MarshalIndent(root, "", " ")
	if err != nil {
		panic(err)
	}
	return string(b)
}

// ---- validator: the invariants named by the property statement, restated over the model

type violation struct{ kind, detail string }

const replayWindow = 60 * time.Second // Shadowsocks 2022: timestamps are valid +-30 s, salts are remembered for 60 s
const minMTU = 1280

func (w *world) clientMaps() (tcp, udp map[string]bool, dupClient, dupGroup []string) {
	tcp, udp = map[string]bool{}, map[string]bool{}
	names := map[string]bool{}
	if w.clientsMode != 0 || len(w.clients) == 0 {
		tcp["direct"], udp["direct"] = true, true
		names["direct"] = true
	} else {
		for _, c := range w.clients {
			if names[c.name] {
				dupClient = append(dupClient, c.name)
			}
			names[c.name] = true
			if c.tcp {
				tcp[c.name] = true
			}
			if c.udp {
				udp[c.name] = true
			}
		}
	}
	return
}

func (w *world) validate() (vs []violation) {
	add := func(kind, format string, a ...any) { vs = append(vs, violation{kind, fmt.Sprintf(format, a...)}) }

	// key lengths match the method
	for _, s := range w.servers {
		if !s.is2022() {
			continue
		}
		if len(s.psk) != keyLen(s.proto) {
			add("key-length", "server %s psk %d bytes for %s", s.name, len(s.psk), s.proto)
		}
		if s.upskFile != "" {
			names := make([]string, 0, len(s.users))
			for u := range s.users {
				names = append(names, u)
			}
			sort.Strings(names)
			for _, u := range names {
				if len(s.users[u]) != keyLen(s.proto) {
					add("key-length", "server %s uPSK of %s %d bytes", s.name, u, len(s.users[u]))
				}
			}
		}
	}
	if w.clientsMode == 0 {
		for _, c := range w.clients {
			if keyLen(c.proto) == 0 {
				continue
			}
			if len(c.psk) != keyLen(c.proto) {
				add("key-length", "client %s psk %d bytes for %s", c.name, len(c.psk), c.proto)
			}
			for i, k := range c.ipsks {
				if len(k) != keyLen(c.proto) {
					add("key-length", "client %s iPSK[%d] %d bytes", c.name, i, len(k))
				}
			}
		}
	}

	// Shadowsocks 2022 NAT timeout no shorter than the replay window; MTU at least 1280;
	// documented ranges of the UDP tuning fields
	for _, s := range w.servers {
		// negative sizes and durations have no meaning: refused ("negative initial payload wait ...")
		for i, l := range s.tcp {
			if d, ok := l.f["initialPayloadWaitTimeout"]; ok && d.Mode == mValue {
				if dur, err := time.ParseDuration(d.Val.(string)); err != nil {
					panic(err)
				} else if dur < 0 {
					add("range", "server %s tcp listener %d initialPayloadWaitTimeout %s", s.name, i, dur)
				}
			}
			if d, ok := l.f["initialPayloadWaitBufferSize"]; ok && d.Mode == mValue && d.Val.(int) < 0 {
				add("range", "server %s tcp listener %d initialPayloadWaitBufferSize %d", s.name, i, d.Val)
			}
		}
		if d, ok := s.f["slidingWindowFilterSize"]; ok && d.Mode == mValue && d.Val.(int) < 0 {
			add("range", "server %s slidingWindowFilterSize %d (unsigned field)", s.name, d.Val)
		}
		for i, l := range s.udp {
			if d, ok := l.f["natTimeout"]; ok && d.Mode == mValue && !s.is2022() {
				if dur, err := time.ParseDuration(d.Val.(string)); err == nil && dur < 0 {
					add("range", "server %s udp listener %d natTimeout %s", s.name, i, dur)
				}
			}
			if d, ok := l.f["natTimeout"]; ok && d.Mode == mValue {
				dur, err := time.ParseDuration(d.Val.(string))
				if err != nil {
					panic(err)
				}
				if s.is2022() && dur != 0 && dur < replayWindow {
					add("nat-timeout", "server %s udp listener %d natTimeout %s", s.name, i, dur)
				}
			}
			for _, name := range []string{"relayBatchSize", "serverRecvBatchSize"} {
				if d, ok := l.f[name]; ok && d.Mode == mValue {
					if n := d.Val.(int); n < 0 || n > 1024 {
						add("range", "server %s %s %d", s.name, name, n)
					}
				}
			}
			if d, ok := l.f["sendChannelCapacity"]; ok && d.Mode == mValue {
				if n := d.Val.(int); n != 0 && n < 64 {
					add("range", "server %s sendChannelCapacity %d", s.name, n)
				}
			}
		}
		if len(s.udp) > 0 && (s.mtu == nil || *s.mtu < minMTU) {
			add("mtu", "server %s mtu %v with UDP enabled", s.name, deref(s.mtu))
		}
	}
	if w.clientsMode == 0 {
		for _, c := range w.clients {
			if c.udp && (c.mtu == nil || *c.mtu < minMTU) {
				add("mtu", "client %s mtu %v with UDP enabled", c.name, deref(c.mtu))
			}
			if d, ok := c.f["slidingWindowFilterSize"]; ok && d.Mode == mValue && d.Val.(int) < 0 {
				add("range", "client %s slidingWindowFilterSize %d (unsigned field)", c.name, d.Val)
			}
		}
	}

	// certificate store: names unique, references exist, files are what they are referenced as
	w.validateTLS(add)

	// names unique; references exist
	tcp, udp, dupClient, _ := w.clientMaps()
	for _, n := range dupClient {
		add("duplicate", "client name %q", n)
	}
	clientNames := map[string]bool{}
	if w.clientsMode == 0 {
		for _, c := range w.clients {
			clientNames[c.name] = true
		}
	}
	if len(clientNames) == 0 {
		clientNames["direct"] = true
	}
	groupNames := map[string]bool{}
	for _, g := range w.groups {
		if clientNames[g.name] {
			add("duplicate", "client group %q has the name of a client", g.name)
		}
		if groupNames[g.name] {
			add("duplicate", "client group name %q", g.name)
		}
		groupNames[g.name] = true
		if g.tcp != nil {
			for _, m := range g.tcp.clients {
				if !tcp[m] {
					add("dangling", "client group %s tcp member %q", g.name, m)
				}
			}
			if len(g.tcp.clients) > 0 {
				tcp[g.name] = true
			}
		}
		if g.udp != nil {
			for _, m := range g.udp.clients {
				if !udp[m] {
					add("dangling", "client group %s udp member %q", g.name, m)
				}
			}
			if len(g.udp.clients) > 0 {
				udp[g.name] = true
			}
		}
	}
	resolvers := map[string]bool{}
	for _, r := range w.dns {
		if resolvers[r.name] {
			add("duplicate", "resolver name %q", r.name)
		}
		resolvers[r.name] = true
		if !r.system {
			if r.tcpC != "" && !tcp[r.tcpC] {
				add("dangling", "resolver %s tcp client %q", r.name, r.tcpC)
			}
			if r.udpC != "" && !udp[r.udpC] {
				add("dangling", "resolver %s udp client %q", r.name, r.udpC)
			}
		}
	}
	servers := map[string]bool{}
	for _, s := range w.servers {
		if servers[s.name] {
			add("duplicate", "server name %q", s.name)
		}
		servers[s.name] = true
	}
	if w.defTCP != nil && *w.defTCP != "" && *w.defTCP != "reject" && !tcp[*w.defTCP] {
		add("dangling", "default TCP client %q", *w.defTCP)
	}
	if w.defUDP != nil && *w.defUDP != "" && *w.defUDP != "reject" && !udp[*w.defUDP] {
		add("dangling", "default UDP client %q", *w.defUDP)
	}
	dsets, psets := map[string]bool{}, map[string]bool{}
	for _, d := range w.domainSets {
		if dsets[d.name] {
			add("duplicate-set", "domain set name %q", d.name)
		}
		dsets[d.name] = true
	}
	for _, d := range w.prefixSets {
		if psets[d.name] {
			add("duplicate-set", "prefix set name %q", d.name)
		}
		psets[d.name] = true
	}
	// Routes whose criteria need name resolution require at least one configured resolver
	// (router/route.go): resolved-IP expectations on matched domains always do; destination prefix
	// criteria do unless disableNameResolutionForIPRules is true (README: "By default, the router
	// uses the configured DNS server to resolve domain names and match IP rules").
	for _, r := range w.routes {
		if len(w.dns) > 0 {
			break
		}
		has := func(k string) bool { _, ok := r.extra[k]; return ok }
		disabled := false
		if d, ok := r.f["disableNameResolutionForIPRules"]; ok && d.Mode == mValue {
			disabled, _ = d.Val.(bool)
		}
		switch {
		case has("toMatchedDomainExpectedPrefixes") || has("toMatchedDomainExpectedPrefixSets"):
			add("missing-resolver", "route %s expects resolved addresses of matched domains but no resolver is configured", r.name)
		case !disabled && (has("toPrefixes") || has("toPrefixSets")):
			add("missing-resolver", "route %s matches destination prefixes (domains are resolved for IP rules) but no resolver is configured", r.name)
		}
	}
	for _, r := range w.routes {
		if r.client != "reject" {
			if (r.network == "" || r.network == "tcp") && !tcp[r.client] {
				add("dangling", "route %s tcp client %q", r.name, r.client)
			}
			if (r.network == "" || r.network == "udp") && !udp[r.client] {
				add("dangling", "route %s udp client %q", r.name, r.client)
			}
		}
		for _, s := range r.fromServers {
			if !servers[s] {
				add("dangling", "route %s server %q", r.name, s)
			}
		}
		if d, ok := r.f["resolver"]; ok && d.Mode == mValue && !resolvers[d.Val.(string)] {
			add("dangling", "route %s resolver %q", r.name, d.Val)
		}
		for _, k := range []string{"fromPrefixSets", "toPrefixSets", "toMatchedDomainExpectedPrefixSets"} {
			if v, ok := r.extra[k]; ok {
				for _, n := range v.([]string) {
					if !psets[n] {
						add("dangling", "route %s %s %q", r.name, k, n)
					}
				}
			}
		}
		if v, ok := r.extra["toDomainSets"]; ok {
			for _, n := range v.([]string) {
				if !dsets[n] {
					add("dangling", "route %s domain set %q", r.name, n)
				}
			}
		}
	}
	return
}

func deref(p *int) any {
	if p == nil {
		return "omitted"
	}
	return *p
}

func kindsOf(vs []violation) []string {
	m := map[string]bool{}
	for _, v := range vs {
		m[v.kind] = true
	}
	out := make([]string, 0, len(m))
	for k := range m {
		out = append(out, k)
	}
	sort.Strings(out)
	return out
}
