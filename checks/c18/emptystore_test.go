package c18

import (
	"fmt"
	"os"
	"path/filepath"
	"testing"

	"github.com/database64128/shadowsocks-go/cred"
	"github.com/database64128/shadowsocks-go/ss2022"
	"go.uber.org/zap"

	"verif/internal/ev"
)

var recEmptyStore = ev.New("C18", "empty-store-file",
	"fixed regression cases: a uPSK store file that is empty / whitespace / '{}' / 'null' is either refused when the server is registered "+
		"or yields a server on which the first AddCredential works (no crash); non-trivial: degenerate (non-'{}') content; distinct = content class x key size")

// TestEmptyStoreFile pins C18/empty-store-file-nil-map-panic: a zero-length store was accepted as
// "unchanged", left the credential maps nil, and the first user added through the API panicked.
func TestEmptyStoreFile(t *testing.T) {
	contents := map[string]string{"empty": "", "newline": "\n", "spaces": "  \n", "object": "{}\n", "null": "null\n"}
	for name, content := range contents {
		for _, keyLen := range []int{16, 32} {
			path := filepath.Join(t.TempDir(), "upsks.json")
			if err := os.WriteFile(path, []byte(content), 0o644); err != nil {
				t.Fatal(err)
			}
			verdict := func() (v string) {
				defer func() {
					if r := recover(); r != nil {
						v = fmt.Sprintf("panic: %v", r)
					}
				}()
				var tcpStore ss2022.CredStore
				m := cred.NewManager(zap.NewNop())
				s, err := m.RegisterServer("s", path, keyLen, &tcpStore, nil)
				if err != nil {
					return "refused"
				}
				if err := s.AddCredential("alice", make([]byte, keyLen)); err != nil {
					return "add-error: " + err.Error()
				}
				if _, ok := tcpStore.LookupUser(ss2022.PSKHash(make([]byte, keyLen))); !ok {
					return "added user is not accepted by the live store"
				}
				return "accepted"
			}()
			if verdict != "refused" && verdict != "accepted" {
				t.Fatalf("SIG=C18/empty-store-file-nil-map-panic store content %q (key length %d): %s", content, keyLen, verdict)
			}
			recEmptyStore.Case(fmt.Sprintf("%s/%d", name, keyLen), name != "object", "content:"+name, "outcome:"+verdict)
			recEmptyStore.Sample(map[string]any{"content": content, "keyLen": keyLen, "outcome": verdict})
		}
	}
}
