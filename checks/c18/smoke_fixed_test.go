package c18

import (
	"testing"

	"verif/internal/ev"
)

var recFixed = ev.New("C18", "smoke-fixed",
	"one hand-written configuration with every server protocol (direct tunnel with a domain target, socks5, http, none, ss2022), an ss2022 chain, a plain "+
		"resolver, a route with a destination prefix criterion and the API, driven by every probe kind of the smoke script; this is also the self-test of the "+
		"harness' protocol speakers. Non-trivial: all twenty-one probes succeed.").Require("all-probes-ok")

const fixedConfig = `{
 "servers":[
  {"name":"T","protocol":"direct","tcpListeners":[{"network":"tcp","address":"127.0.0.1:@@P0@@"}],"udpListeners":[{"network":"udp","address":"127.0.0.1:@@P0@@","natTimeout":"5s"}],"mtu":1500,"tunnelRemoteAddress":"echo.test:@@ECHO@@"},
  {"name":"S","protocol":"2022-blake3-aes-128-gcm","tcpListeners":[{"network":"tcp","address":"127.0.0.1:@@P1@@"}],"udpListeners":[{"network":"udp","address":"127.0.0.1:@@P1@@"}],"mtu":1500,"psk":"qQln3GlVCZi5iJUObJVNCw=="},
  {"name":"K","protocol":"socks5","tcpListeners":[{"network":"tcp","address":"127.0.0.1:@@P2@@"}],"udpListeners":[{"network":"udp","address":"127.0.0.1:@@P2@@","natTimeout":"5s"}],"mtu":1500},
  {"name":"H","protocol":"http","tcpListeners":[{"network":"tcp","address":"127.0.0.1:@@P3@@"}]},
  {"name":"F","protocol":"2022-blake3-aes-256-gcm","tcpListeners":[{"network":"tcp","address":"127.0.0.1:@@P6@@"}],"psk":"qQln3GlVCZi5iJUObJVNC6kJZ9xpVQmYuYiVDmyVTQs=","unsafeFallbackAddress":"127.0.0.1:@@ECHO@@"},
  {"name":"N","protocol":"none","tcpListeners":[{"network":"tcp","address":"127.0.0.1:@@P4@@"}],"udpListeners":[{"network":"udp","address":"127.0.0.1:@@P4@@","natTimeout":"5s"}],"mtu":1500}
 ],
 "clients":[
  {"name":"D","protocol":"direct","enableTCP":true,"enableUDP":true,"mtu":1500},
  {"name":"C","protocol":"2022-blake3-aes-128-gcm","endpoint":"127.0.0.1:@@P1@@","enableTCP":true,"enableUDP":true,"mtu":1500,"psk":"qQln3GlVCZi5iJUObJVNCw=="}
 ],
 "dns":[{"name":"R","addrPort":"127.0.0.1:@@DNS@@","tcpClientName":"D","udpClientName":"D"}],
 "router":{"defaultTCPClientName":"D","defaultUDPClientName":"D","routes":[{"name":"r","client":"C","fromServers":["T","K","H","N"],"toPrefixes":["127.0.0.0/8"]}]},
 "api":{"enabled":true,"listeners":[{"network":"tcp","address":"127.0.0.1:@@P5@@"}]}
}`

func TestSmokeFixed(t *testing.T) {
	t.Cleanup(stopPlanServer)
	p := &Plan{Name: "fixed", Config: fixedConfig, Ports: 7,
		Listen: []string{"tcp:@@P0@@", "udp:@@P0@@", "tcp:@@P1@@", "udp:@@P1@@", "tcp:@@P2@@", "udp:@@P2@@", "tcp:@@P3@@", "tcp:@@P4@@", "udp:@@P4@@", "tcp:@@P5@@", "tcp:@@P6@@"},
		Probes: []Probe{
			// port-scanner behaviour first (also against the ss2022 listener with a fallback address)
			{Kind: "scan-close", Server: "F", Addr: "127.0.0.1:@@P6@@"},
			{Kind: "scan-byte", Server: "F", Addr: "127.0.0.1:@@P6@@", Seed: 20},
			{Kind: "scan-close", Server: "S", Addr: "127.0.0.1:@@P1@@"},
			{Kind: "scan-byte", Server: "S", Addr: "127.0.0.1:@@P1@@", Seed: 21},
			{Kind: "scan-close", Server: "K", Addr: "127.0.0.1:@@P2@@"},
			{Kind: "scan-byte", Server: "H", Addr: "127.0.0.1:@@P3@@", Seed: 22},
			// 32+11+16 bytes that cannot authenticate: relayed to the fallback (echo) target and back
			{Kind: "reject", Server: "F", Addr: "127.0.0.1:@@P6@@", Seed: 23, Size: 59, ExpectFB: true},
			{Kind: "tcp-tunnel", Server: "T", Addr: "127.0.0.1:@@P0@@", Seed: 1, Size: 100, ExpectEcho: true},
			{Kind: "udp-tunnel", Server: "T", Addr: "127.0.0.1:@@P0@@", Seed: 2, Size: 100, ExpectEcho: true},
			{Kind: "tcp-socks5", Server: "K", Addr: "127.0.0.1:@@P2@@", Target: "echo.test:@@ECHO@@", Seed: 3, Size: 1000, ExpectEcho: true},
			{Kind: "udp-socks5", Server: "K", Addr: "127.0.0.1:@@P2@@", Target: "127.0.0.1:@@ECHO@@", Seed: 4, Size: 900, ExpectEcho: true},
			{Kind: "tcp-http", Server: "H", Addr: "127.0.0.1:@@P3@@", Target: "echo.test:@@ECHO@@", Seed: 5, Size: 100, ExpectEcho: true},
			{Kind: "tcp-none", Server: "N", Addr: "127.0.0.1:@@P4@@", Target: "127.0.0.1:@@ECHO@@", Seed: 6, Size: 100, ExpectEcho: true},
			{Kind: "udp-none", Server: "N", Addr: "127.0.0.1:@@P4@@", Target: "echo.test:@@ECHO@@", Seed: 7, Size: 100, ExpectEcho: true},
			// payload-less connects: the relays wait 250 ms for an initial payload (ss2022 client is the
			// upstream), then the target speaks first / the client speaks late
			{Kind: "tcp-socks5", Server: "K", Addr: "127.0.0.1:@@P2@@", Target: "echo.test:@@GREET@@", Seed: 10, Size: 64, ExpectEcho: true, Silent: true, Greet: true},
			{Kind: "tcp-http", Server: "H", Addr: "127.0.0.1:@@P3@@", Target: "127.0.0.1:@@GREET@@", Seed: 11, Size: 64, ExpectEcho: true, Silent: true, Greet: true},
			{Kind: "tcp-none", Server: "N", Addr: "127.0.0.1:@@P4@@", Target: "echo.test:@@GREET@@", Seed: 12, Size: 64, ExpectEcho: true, Silent: true, Greet: true},
			{Kind: "tcp-tunnel", Server: "T", Addr: "127.0.0.1:@@P0@@", Seed: 13, Size: 64, ExpectEcho: true, Silent: true, SilentMs: 400},
			// exactly the 16+11+16 bytes an aes-128 single-user server reads before it can authenticate
			{Kind: "reject", Server: "S", Addr: "127.0.0.1:@@P1@@", Seed: 8, Size: 43, ExpectRST: true},
			{Kind: "udp-garbage", Server: "S", Addr: "127.0.0.1:@@P1@@", Seed: 9, Size: 300},
			{Kind: "api", Addr: "127.0.0.1:@@P5@@", Path: "/api/ssm/v1/servers", Target: "\"T\""},
		}}
	kr := false
	ex, labels := runAndJudge(tfatal{t}, recFixed, p, &kr)
	if ex {
		labels = append(labels, "all-probes-ok")
	}
	recFixed.Case("fixed", ex, labels...)
}
