package c18

import (
	"fmt"
	"os"
	"sort"
	"strconv"
	"strings"
	"testing"

	"pgregory.net/rapid"

	"verif/internal/ev"
)

const (
	sigReject     = "reject-policy-default-mismatch"
	sigTargetOnly = "tunnel-domain-targetonly-panic"
	sigDupSet     = "duplicate-set-name-accepted"
)

// known reports whether sig is listed as an open finding (with or without the property prefix).
func known(sig string) (string, bool) {
	sig = strings.TrimPrefix(sig, "C18/")
	if ev.IsKnown("C18", sig) {
		return sig, true
	}
	if ev.IsKnown("C18", "C18/"+sig) {
		return "C18/" + sig, true
	}
	return "", false
}

func envInt(name string, def int) int {
	if v, err := strconv.Atoi(os.Getenv(name)); err == nil {
		return v
	}
	return def
}

var recSpace = ev.New("C18", "config-space",
	"rapid: a world of 1-4 servers (direct/socks5/http/none/plain/2022-aes-128/2022-aes-256; legacy single-listener form or listener arrays; "+
		"every defaulted field drawn as omitted/null/explicit-empty/documented-default/other value; boundary natTimeout and MTU values), direct and chained proxy "+
		"clients, client groups (5 policies), DNS resolvers (plain/system), domain and prefix sets, routes with matching criteria, API; domain or IP echo target x "+
		"tunnelUDPTargetOnly; then 0, 1 or 2 injected violations (key length +-1/other method/missing, ss2022 natTimeout below 60s, MTU below 1280, dangling "+
		"client/resolver/set/server reference, duplicate name, tuning value outside its range). Oracle: harness validator restating the statement decides accept/refuse; "+
		"accepted => effective values equal the documented ones and all representations (omit/null/empty/default, legacy vs listeners, Migrate round trip) observe "+
		"the same; a sample of accepted configs is started on loopback in a child process and driven by TCP/UDP/API smoke traffic. Non-trivial: accepted and "+
		"exercised by traffic, or refused with exactly one injected violation. Distinct key: configuration class (+ injected violation).").
	Require("accepted-exercised", "refused-one-violation", "viol:key-length", "viol:nat-timeout", "viol:mtu", "viol:dangling", "viol:duplicate", "viol:range", "viol:missing-resolver",
		"legacy-form", "sibling:legacy-flip", "sibling:migrate", "sibling:omit", "sibling:empty", "sibling:default",
		"probe:tcp-tunnel", "probe:udp-tunnel", "probe:reject", "udp-nontarget-reply-delivered", "chain", "domain-target",
		"probe-silent:target-speaks-first", "probe-silent:late-payload", "probe:scan-close", "probe:scan-byte", "reject-outcome:fallback-echo", "half-enabled-client", "half-enabled-client-routed",
		// round 6: TLS listeners and clients under traffic, the authentication invariants, certificate-store violations
		"exercised:tls-server", "exercised:tls-client", "tls-probe:client-cert=true", "tls-probe:client-cert=false", "tls-nocert-refused", "auth-refused-then-accepted", "viol:cert-file",
		// legacy-only worlds under the full script, SOCKS5 UDP ASSOCIATE, bursts against the smallest batch sizes
		"exercised:legacy-only-world", "probe:assoc-socks5", "burst:relayBatchSize=1", "burst:relayBatchSize=2", "burst:relayBatchSize=other",
		// the logger built like the command builds it, at the levels that switch the debug blocks on and off
		"exercised:log=debug", "exercised:log=info", "exercised:log=warn")

func TestConfigSpace(t *testing.T) {
	startPct := envInt("VERIF_C18_START_PCT", 40)
	forceRare := envInt("VERIF_C18_FORCE_RARE", 1) != 0
	t.Cleanup(stopPlanServer)
	rapid.Check(t, func(rt *rapid.T) {
		w := genWorld(rt)
		nMutDraw := rapid.IntRange(0, 19).Draw(rt, "nMut")
		nMut := 0
		switch {
		case nMutDraw >= 18:
			nMut = 2
		case nMutDraw >= 10:
			nMut = 1
		}
		var applied []string
		for range nMut {
			ms := w.mutations(rt)
			if len(ms) == 0 {
				break
			}
			// kind first, then the concrete mutation, both spread evenly
			byKind := map[string][]mutation{}
			var kindsAvail []string
			for _, m := range ms {
				group := m.kind
				if m.kind == "dangling" && strings.HasSuffix(m.label, "only") {
					group = "dangling-half" // a client that exists, but not for the network the reference covers
				}
				if m.kind == "duplicate" && (strings.HasPrefix(m.label, "twin-") || strings.HasSuffix(m.label, "-named-direct")) {
					group = "duplicate-single-network" // two holders of one name on disjoint or equal single networks
				}
				if _, ok := byKind[group]; !ok {
					kindsAvail = append(kindsAvail, group)
				}
				byKind[group] = append(byKind[group], m)
			}
			sort.Strings(kindsAvail)
			group := byKind[kindsAvail[uniform(rt, "mutationKind", len(kindsAvail))]]
			m := group[uniform(rt, "mutation", len(group))]
			m.apply()
			applied = append(applied, m.kind+"/"+m.label)
		}
		logLevel := []string{"debug", "info", "warn"}[uniform(rt, "logLevel", 3)]
		logPreset := []string{"console", "console-nocolor", "console-notime", "console-nocolor-notime"}[rapid.IntRange(0, 3).Draw(rt, "logPreset")]
		wantStart := rapid.IntRange(0, 99).Draw(rt, "start") < startPct
		needTLS := false
		for _, s := range w.servers {
			needTLS = needTLS || s.tlsOn()
		}
		if forceRare {
			wantStart = wantStart || w.legacyOnly || needTLS // quick tier: the rare classes always get traffic
		}
		sibStart := rapid.IntRange(0, 3).Draw(rt, "siblingStart") == 0
		seed := rapid.Uint64().Draw(rt, "payloadSeed")

		vs := w.validate()
		kinds := kindsOf(vs)
		// harness self-check: an injected violation must be seen by the validator (two injected
		// ones may cancel each other, e.g. key length +1 then -1, so only single injections are checked)
		for _, a := range applied {
			if len(applied) != 1 {
				break
			}
			k := a[:strings.IndexByte(a, '/')]
			found := false
			for _, kk := range kinds {
				found = found || kk == k
			}
			if !found {
				rt.Fatalf("harness error: injected %s but validator reports %v", a, kinds)
			}
		}

		cfgText := w.emit(-1, false)
		labels := []string{}
		for _, s := range w.servers {
			labels = append(labels, "proto:"+s.proto)
			if s.legacy {
				labels = append(labels, "legacy-form")
			}
			if strings.HasPrefix(s.tunnel, "echo.test") {
				labels = append(labels, "domain-target")
			}
		}
		for _, c := range w.clients {
			if c.toServer >= 0 {
				labels = append(labels, "chain")
				break
			}
		}
		if w.clientsMode != 0 {
			labels = append(labels, "clients-omitted-or-empty")
		}
		worldLabels := append(w.tlsLabels(), "log="+logLevel)
		if w.legacyOnly {
			worldLabels = append(worldLabels, "legacy-only-world")
		}
		if w.certs != nil {
			worldLabels = append(worldLabels, "cert-store")
		}
		labels = append(labels, worldLabels...)
		for _, c := range w.clients {
			if c.tcp != c.udp && len(applied) == 0 {
				labels = append(labels, "half-enabled-client")
				for _, s := range w.servers {
					if s.upTCP == c.name || s.upUDP == c.name {
						labels = append(labels, "half-enabled-client-routed")
					}
				}
				break
			}
		}
		if len(w.groups) > 0 {
			labels = append(labels, "groups")
		}
		if len(w.dns) > 0 {
			labels = append(labels, "dns")
		}
		if len(w.domainSets)+len(w.prefixSets) > 0 {
			labels = append(labels, "sets")
		}
		if w.api != nil {
			labels = append(labels, "api")
		}
		for _, l := range w.lenient {
			labels = append(labels, "lenient:"+l)
		}
		for _, a := range applied {
			labels = append(labels, "mut:"+a)
		}
		for _, k := range kinds {
			labels = append(labels, "viol:"+k)
		}
		key := w.classKey() + "|" + strings.Join(applied, ",")

		primary := loadText(cfgText, w.files, w.nports, false, logLevel)
		defer primary.close()

		fail := func(sig, format string, a ...any) {
			rt.Fatalf("SIG=C18/%s %s\napplied=%v violations=%v\nconfig:\n%s", sig, fmt.Sprintf(format, a...), applied, vs, cfgText)
		}

		if primary.err != nil {
			labels = append(labels, "refused")
			switch {
			case len(vs) == 0 && len(w.lenient) == 0:
				fail("valid-config-refused", "a configuration built only from documented options and values was refused: %v", primary.err)
			case len(vs) == 0:
				labels = append(labels, "lenient-refused")
			}
			nt := len(vs) == 1 && len(applied) == 1
			if nt {
				labels = append(labels, "refused-one-violation")
			}
			recSpace.Case(key, nt, labels...)
			if nt {
				recSpace.Sample(map[string]any{"outcome": "refused", "injected": applied, "error": primary.err.Error(), "class": w.classKey()})
			}
			return
		}

		labels = append(labels, "accepted")
		if len(vs) > 0 {
			onlyDupSet := len(kinds) == 1 && kinds[0] == "duplicate-set"
			if onlyDupSet {
				if ks, ok := known(sigDupSet); ok {
					recSpace.KnownHit(ks)
					recSpace.Case(key, false, append(labels, "known:"+sigDupSet)...)
					return
				}
				fail(sigDupSet, "two sets with the same name were accepted (names must be unique; the first definition is silently shadowed): %v", vs)
			}
			fail("accepted-with-violation/"+kinds[0], "Manager() accepted a configuration that violates a listed invariant: %v", vs)
		}

		// accepted and valid: effective values against the documentation
		knownReject := false
		if d := w.documented(primary.obs); len(d) > 0 {
			var other []string
			for _, x := range d {
				if strings.Contains(x, "rejectPolicy") {
					knownReject = true
				} else {
					other = append(other, x)
				}
			}
			if len(other) > 0 {
				fail("default-mismatch/"+fieldOf(other[0]), "effective values differ from the documented defaults: %v", other)
			}
			if knownReject {
				if ks, ok := known(sigReject); ok {
					recSpace.KnownHit(ks)
					labels = append(labels, "known:"+sigReject)
				} else {
					fail(sigReject, "rejectPolicy omitted/null/empty must behave as the documented default ForceReset: %v", d)
				}
			}
		}

		// all representations observe the same
		type sib struct {
			name    string
			text    string
			migrate bool
		}
		sibs := []sib{
			{"omit", w.emit(int(mOmit), false), false},
			{"null", w.emit(int(mNull), false), false},
			{"empty", w.emit(int(mEmpty), false), false},
			{"default", w.emit(int(mDefault), false), false},
			{"migrate", cfgText, true},
		}
		anyLegacyOK := false
		for _, s := range w.servers {
			anyLegacyOK = anyLegacyOK || s.legacyOK
		}
		if anyLegacyOK {
			sibs = append(sibs, sib{"legacy-flip", w.emit(-1, true), false})
		}
		for _, sb := range sibs {
			if sb.text == cfgText && !sb.migrate {
				continue
			}
			l := loadText(sb.text, w.files, w.nports, sb.migrate, logLevel)
			labels = append(labels, "sibling:"+sb.name)
			if l.err != nil {
				l.close()
				if len(w.lenient) > 0 {
					continue
				}
				fail("representation-mismatch/"+sb.name, "accepted as drawn but refused in the %s representation: %v\nsibling config:\n%s", sb.name, l.err, sb.text)
			}
			d := diffObs(primary.obs, l.obs)
			l.close()
			var other []string
			rejectDiff := false
			for _, x := range d {
				if strings.Contains(x, "Reject") {
					rejectDiff = true
				} else {
					other = append(other, x)
				}
			}
			if len(other) > 0 {
				fail("representation-mismatch/"+fieldOf(other[0]), "the %s representation observes different effective values: %v\nsibling config:\n%s", sb.name, other, sb.text)
			}
			if rejectDiff {
				if ks, ok := known(sigReject); ok {
					if !knownReject {
						recSpace.KnownHit(ks)
						knownReject = true
						labels = append(labels, "known:"+sigReject)
					}
				} else {
					fail(sigReject, "the %s representation of rejectPolicy observes a different policy: %v", sb.name, d)
				}
			}
		}

		// traffic
		exercised := false
		if wantStart {
			skip := false
			for _, l := range w.lenient {
				if l == "domain-targetonly" {
					if _, ok := known(sigTargetOnly); ok {
						recSpace.Excluded(1)
						labels = append(labels, "excluded:"+sigTargetOnly)
						skip = true
					}
				}
			}
			if !skip {
				plans := []*Plan{w.plan("drawn", cfgText, seed)}
				if sibStart && anyLegacyOK {
					plans = append(plans, w.plan("legacy-flip", w.emit(-1, true), seed))
				} else if sibStart {
					plans = append(plans, w.plan("all-omitted", w.emit(int(mOmit), false), seed))
				}
				for _, p := range plans {
					p.LogLevel, p.LogPreset = logLevel, logPreset
					ex, ls := runAndJudge(rt, recSpace, p, &knownReject)
					labels = append(labels, ls...)
					exercised = exercised || ex
					if p.Name != "drawn" {
						labels = append(labels, "started-sibling:"+p.Name)
					}
				}
			}
		}
		if exercised {
			labels = append(labels, "accepted-exercised")
			seen := map[string]bool{}
			for _, l := range worldLabels {
				if !seen[l] {
					labels = append(labels, "exercised:"+l)
					seen[l] = true
				}
			}
		}
		recSpace.Case(key, exercised, labels...)
		if exercised {
			recSpace.Sample(map[string]any{"outcome": "accepted+traffic", "class": w.classKey(), "probes": len(w.probes(seed))})
		}
	})
}

// fieldOf extracts a short field name from a difference line for the signature.
func fieldOf(line string) string {
	s := line
	if i := strings.IndexByte(s, ':'); i >= 0 {
		s = s[:i]
	}
	if i := strings.LastIndexByte(s, '.'); i >= 0 {
		s = s[i+1:]
	}
	s = strings.TrimSuffix(s, "()")
	if i := strings.IndexByte(s, '['); i >= 0 {
		s = s[:i]
	}
	return s
}

type fataler interface {
	Fatalf(format string, args ...any)
}

// runAndJudge executes a plan in a child process and fails the case on a violation.
func runAndJudge(rt fataler, rec *ev.Recorder, p *Plan, knownReject *bool) (exercised bool, labels []string) {
	o, err := runChild(p)
	if err != nil {
		rt.Fatalf("harness error running plan %s: %v", p.Name, err)
	}
	if o.Crashed {
		if ks, ok := known(o.Sig); ok {
			rec.KnownHit(ks)
			os.Remove(o.Journal)
			return false, []string{"known:" + o.Sig}
		}
		// unindented copy for the driver: a line starting with "panic:" marks the failure as a
		// crash, and the journal of the plan becomes the replay file
		fmt.Printf("\n%s\nSIG=%s journal=%s\n", crashExcerpt(o.Output), o.Sig, o.Journal)
		rt.Fatalf("SIG=%s the process died while traffic flowed through an accepted configuration (plan %s, journal %s)\n%s\nconfig:\n%s",
			o.Sig, p.Name, o.Journal, crashExcerpt(o.Output), p.Config)
	}
	for _, pr := range o.Result.Probes {
		rec.Label("ms:"+pr.Kind, pr.Millis) // where the time of the smoke script goes
	}
	rec.Label("ms:stop", o.Result.StopMs)
	ks, tolerate := known(sigReject)
	v, ex, ls := evaluate(p, o.Result, tolerate)
	if v != "" {
		rt.Fatalf("%s\nplan=%s\nresult=%+v\nconfig:\n%s", v, p.Name, *o.Result, p.Config)
	}
	for _, l := range ls {
		if l == "known-reject-eof" && !*knownReject {
			rec.KnownHit(ks)
			*knownReject = true
		}
	}
	return ex, ls
}

// crashExcerpt keeps the panic message and the first frames; lines start with "panic:" so that
// the driver labels the failure as a crash.
func crashExcerpt(out string) string {
	i := strings.Index(out, "panic: ")
	if j := strings.Index(out, "fatal error: "); j >= 0 && (i < 0 || j < i) {
		i = j
	}
	if i < 0 {
		return tailStr(out, 1500)
	}
	s := out[i:]
	lines := strings.Split(s, "\n")
	if len(lines) > 24 {
		lines = lines[:24]
	}
	return strings.Join(lines, "\n")
}
