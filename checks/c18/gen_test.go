package c18

// Generator of worlds (valid by construction), injected violations, and the smoke script.

import (
	"encoding/json"
	"fmt"
	"sort"
	"strings"
	"time"

	"pgregory.net/rapid"
)

var protocols = []string{"direct", "socks5", "http", "none", "plain", "2022-blake3-aes-128-gcm", "2022-blake3-aes-256-gcm"}

// uniform draws an index in [0,n) without rapid's bias towards small values (categorical choices
// such as the protocol or the injected violation should be spread evenly). 0 still shrinks to 0.
func uniform(rt *rapid.T, label string, n int) int {
	x := rapid.Uint64().Draw(rt, label)
	if x == 0 {
		return 0
	}
	x ^= x >> 30
	x *= 0xbf58476d1ce4e5b9
	x ^= x >> 27
	x *= 0x94d049bb133111eb
	x ^= x >> 31
	return int(x % uint64(n))
}

func intp(v int) *int       { return &v }
func strp(v string) *string { return &v }

func drawMode(rt *rapid.T, label string, hasAlts bool) vmode {
	// 0 shrinks to "omit"
	n := rapid.IntRange(0, 19).Draw(rt, label)
	switch {
	case n < 7:
		return mOmit
	case n < 8:
		return mNull
	case n < 12:
		return mEmpty
	case n < 16 || !hasAlts:
		return mDefault
	default:
		return mValue
	}
}

// drawFields draws a representation for each named defaulted field of kind.
func drawFields(rt *rapid.T, kind, prefix string, names ...string) fields {
	f := fields{}
	for _, name := range names {
		fd, ok := defs[kind][name]
		if !ok {
			panic("unknown field " + kind + "." + name)
		}
		d := &dfield{Mode: drawMode(rt, prefix+"."+name, len(fd.alts) > 0)}
		if d.Mode == mValue {
			d.Val = fd.alts[rapid.IntRange(0, len(fd.alts)-1).Draw(rt, prefix+"."+name+".alt")]
		}
		f[name] = d
	}
	return f
}

func keyBytes(seed uint64, n int) []byte { return payloadFor(seed^0xA5A5, n) }

var natAlts2022 = []any{"60s", "1m0s", "61s", "1m1s", "3m0s", "1m0.000000001s", "24h0m0s"}
var natAltsOther = []any{"1s", "2s", "17s", "59s", "5m0s", "24h0m0s"}

func genWorld(rt *rapid.T) *world {
	w := &world{files: map[string]string{}}
	port := func() int { w.nports++; return w.nports - 1 }

	targetDomain := rapid.Bool().Draw(rt, "targetDomain")
	w.target = "127.0.0.1:@@ECHO@@"
	if targetDomain {
		w.target = "echo.test:@@ECHO@@"
	}

	// a world written entirely with the deprecated single-listener fields (no listener arrays at all)
	legacyOnly := rapid.IntRange(0, 5).Draw(rt, "legacyOnlyWorld") == 5
	w.legacyOnly = legacyOnly

	nServers := rapid.IntRange(1, 4).Draw(rt, "nServers")
	for i := range nServers {
		s := &srv{name: fmt.Sprintf("s%d", i), f: fields{}}
		s.proto = protocols[uniform(rt, fmt.Sprintf("s%d.proto", i), len(protocols))]
		nets := rapid.IntRange(0, 2).Draw(rt, fmt.Sprintf("s%d.nets", i)) // 0 both, 1 tcp, 2 udp
		if s.proto == "http" {
			nets = 1
		}
		wantTCP, wantUDP := nets != 2, nets != 1
		s.legacyOK = rapid.IntRange(0, 9).Draw(rt, fmt.Sprintf("s%d.legacyOK", i)) < 4 || legacyOnly
		p0 := port()
		nat := func(prefix string, f fields) {
			// natTimeout alternatives depend on the protocol (boundary values of the statement)
			if d := f["natTimeout"]; d.Mode == mDefault && rapid.Bool().Draw(rt, prefix+".natAlt") {
				d.Mode = mValue
				alts := natAltsOther
				if s.is2022() {
					alts = natAlts2022
				}
				d.Val = alts[rapid.IntRange(0, len(alts)-1).Draw(rt, prefix+".natVal")]
				if s.legacyOK {
					if _, ok := durSeconds(d.Val); !ok {
						d.Val = alts[0]
					}
				}
			}
		}
		if s.legacyOK {
			s.legacy = rapid.Bool().Draw(rt, fmt.Sprintf("s%d.legacy", i)) || legacyOnly
			if wantTCP {
				s.tcp = []*lst{{network: "tcp", port: p0, f: drawFields(rt, "tcpl", fmt.Sprintf("s%d.t0", i), "fastOpen", "disableInitialPayloadWait")}}
			}
			if wantUDP {
				l := &lst{network: "udp", port: p0, f: drawFields(rt, "udpl", fmt.Sprintf("s%d.u0", i), "batchMode", "relayBatchSize", "serverRecvBatchSize", "sendChannelCapacity", "natTimeout")}
				nat(fmt.Sprintf("s%d.u0", i), l.f)
				if legacyOnly {
					// the legacy tuning fields written out with real values
					for _, name := range []string{"batchMode", "relayBatchSize", "serverRecvBatchSize", "sendChannelCapacity"} {
						if alts := defs["udpl"][name].alts; l.f[name].Mode != mValue && rapid.Bool().Draw(rt, fmt.Sprintf("s%d.u0.%s.explicit", i, name)) {
							l.f[name] = &dfield{Mode: mValue, Val: alts[rapid.IntRange(0, len(alts)-1).Draw(rt, fmt.Sprintf("s%d.u0.%s.val", i, name))]}
						}
					}
				}
				s.udp = []*lst{l}
			}
		} else {
			if wantTCP {
				n := rapid.IntRange(1, 2).Draw(rt, fmt.Sprintf("s%d.ntcp", i))
				for j := range n {
					pp := p0
					if j > 0 {
						pp = port()
					}
					l := &lst{network: rapid.SampledFrom([]string{"tcp", "tcp4"}).Draw(rt, fmt.Sprintf("s%d.t%d.net", i, j)), port: pp}
					l.f = drawFields(rt, "tcpl", fmt.Sprintf("s%d.t%d", i, j), "pathMTUDiscovery", "fastOpen", "fastOpenFallback", "fastOpenBacklog",
						"deferAcceptSecs", "userTimeoutMsecs", "reusePort", "trafficClass", "disableInitialPayloadWait", "initialPayloadWaitTimeout", "initialPayloadWaitBufferSize")
					s.tcp = append(s.tcp, l)
				}
			}
			if wantUDP {
				n := rapid.IntRange(1, 2).Draw(rt, fmt.Sprintf("s%d.nudp", i))
				for j := range n {
					pp := p0
					if j > 0 {
						pp = port()
					}
					l := &lst{network: rapid.SampledFrom([]string{"udp", "udp4"}).Draw(rt, fmt.Sprintf("s%d.u%d.net", i, j)), port: pp}
					l.f = drawFields(rt, "udpl", fmt.Sprintf("s%d.u%d", i, j), "pathMTUDiscovery", "reusePort", "trafficClass", "batchMode", "relayBatchSize",
						"serverRecvBatchSize", "sendChannelCapacity", "natTimeout")
					nat(fmt.Sprintf("s%d.u%d", i, j), l.f)
					s.udp = append(s.udp, l)
				}
			}
		}
		for j, l := range s.udp {
			// the smallest batches (every burst needs several sendmmsg/recvmmsg rounds)
			if rapid.IntRange(0, 3).Draw(rt, fmt.Sprintf("s%d.u%d.smallBatch", i, j)) == 3 {
				l.f["relayBatchSize"] = &dfield{Mode: mValue, Val: rapid.IntRange(1, 2).Draw(rt, fmt.Sprintf("s%d.u%d.smallBatchVal", i, j))}
			}
		}
		if len(s.udp) > 0 {
			s.mtu = intp(rapid.SampledFrom([]int{1500, 1280, 1281, 1492, 9000, 65535}).Draw(rt, fmt.Sprintf("s%d.mtu", i)))
		} else if rapid.IntRange(0, 3).Draw(rt, fmt.Sprintf("s%d.mtuTCPOnly", i)) == 3 {
			// MTU is documented as a UDP buffer-size input: irrelevant without UDP
			s.mtu = intp(rapid.SampledFrom([]int{1500, 1279, 0}).Draw(rt, fmt.Sprintf("s%d.mtuv", i)))
		}
		switch {
		case s.proto == "direct":
			s.tunnel = w.target
			if rapid.Bool().Draw(rt, fmt.Sprintf("s%d.tunnelOwnForm", i)) {
				if rapid.Bool().Draw(rt, fmt.Sprintf("s%d.tunnelDomain", i)) {
					s.tunnel = "echo.test:@@ECHO@@"
				} else {
					s.tunnel = "127.0.0.1:@@ECHO@@"
				}
			}
			s.targetOnly = &dfield{Mode: drawMode(rt, fmt.Sprintf("s%d.targetOnly", i), true)}
			if s.targetOnly.Mode == mValue {
				s.targetOnly.Val = true
			}
		case s.is2022():
			seed := rapid.Uint64().Draw(rt, fmt.Sprintf("s%d.pskSeed", i))
			s.psk, s.pskSet = keyBytes(seed, keyLen(s.proto)), true
			s.f = drawFields(rt, "server", fmt.Sprintf("s%d", i), "rejectPolicy", "paddingPolicy", "slidingWindowFilterSize", "allowSegmentedFixedLengthHeader", "uPSKStorePath", "unsafeFallbackAddress")
			if rapid.IntRange(0, 2).Draw(rt, fmt.Sprintf("s%d.multiUser", i)) == 2 {
				s.upskFile = fmt.Sprintf("upsk-%d.json", i)
				s.users = map[string][]byte{}
				for u := range rapid.IntRange(1, 3).Draw(rt, fmt.Sprintf("s%d.nUsers", i)) {
					s.users[fmt.Sprintf("user%d", u)] = keyBytes(seed+uint64(u)+1, keyLen(s.proto))
				}
			}
			if rapid.IntRange(0, 4).Draw(rt, fmt.Sprintf("s%d.prefix", i)) == 4 {
				s.reqPrefix = keyBytes(seed+77, rapid.IntRange(1, 16).Draw(rt, fmt.Sprintf("s%d.reqPrefixLen", i)))
				s.respPrefix = keyBytes(seed+78, rapid.IntRange(1, 16).Draw(rt, fmt.Sprintf("s%d.respPrefixLen", i)))
			}
		case s.proto == "socks5" || s.proto == "http":
			if rapid.IntRange(0, 3).Draw(rt, fmt.Sprintf("s%d.auth", i)) == 3 {
				s.authUser, s.authPass = "u"+s.name, "p"+s.name
			}
			if s.proto == "http" {
				genServerTLS(rt, s, fmt.Sprintf("s%d", i))
			}
		}
		w.servers = append(w.servers, s)
	}

	// clients: direct ones, plus proxy clients that chain into a later server; or no clients
	// section at all ("The clients field can be omitted or left empty. A default "direct" client
	// will be automatically added", README), in which case everything refers to "direct".
	implicit := rapid.IntRange(0, 5).Draw(rt, "implicitClients") == 5
	nDirect := 0
	if implicit {
		w.clientsMode = rapid.IntRange(1, 2).Draw(rt, "clientsMode")
	} else {
		nDirect = rapid.IntRange(1, 2).Draw(rt, "nDirect")
	}
	directNames := []string{"direct"}
	if !implicit {
		directNames = nil
	}
	for i := range nDirect {
		c := &cli{name: fmt.Sprintf("d%d", i), proto: "direct", tcp: true, udp: true, toServer: -1, mtu: intp(1500)}
		c.f = drawFields(rt, "client", c.name, "network", "tcpPathMTUDiscovery", "udpPathMTUDiscovery", "dialerTFO", "tcpFastOpenFallback", "overrideResolverDialAddress")
		c.mtu = intp(rapid.SampledFrom([]int{1500, 1280, 9000}).Draw(rt, c.name+".mtu"))
		w.clients = append(w.clients, c)
		directNames = append(directNames, c.name)
	}
	// half-enabled direct clients: they exist for one network only and may be named only by
	// references that cover just that network
	if !implicit {
		half := rapid.IntRange(0, 3).Draw(rt, "halfClients")
		if half&1 != 0 {
			c := &cli{name: "dt", proto: "direct", tcp: true, toServer: -1}
			c.f = drawFields(rt, "client", c.name, "network", "tcpPathMTUDiscovery", "dialerTFO", "tcpFastOpenFallback")
			w.clients = append(w.clients, c)
		}
		if half&2 != 0 {
			c := &cli{name: "du", proto: "direct", udp: true, toServer: -1, mtu: intp(1500)}
			c.f = drawFields(rt, "client", c.name, "network", "udpPathMTUDiscovery")
			w.clients = append(w.clients, c)
		}
	}
	isDirect := func(n string) bool {
		for _, d := range directNames {
			if d == n {
				return true
			}
		}
		return false
	}
	for j := 1; j < len(w.servers); j++ {
		s := w.servers[j]
		if skip := rapid.IntRange(0, 2).Draw(rt, fmt.Sprintf("c%d.make", j)) == 0; implicit || s.proto == "direct" || (skip && !s.tlsOn()) {
			continue
		}
		if s.tlsRequires() && !s.tlsVerifiable() {
			continue // a client certificate of our CA does not verify against the system roots: no chain through it
		}
		c := &cli{name: fmt.Sprintf("c%d", j), proto: s.proto, toServer: j}
		c.tcp = len(s.tcp) > 0
		c.udp = len(s.udp) > 0 && s.proto != "http"
		if s.proto == "socks5" && c.udp {
			// UDP ASSOCIATE needs the TCP listener and a UDP listener on the same port
			if len(s.tcp) == 0 || s.udp[0].port != s.tcp[0].port {
				c.udp = false
			}
		}
		if c.tcp && c.udp && rapid.IntRange(0, 3).Draw(rt, c.name+".onlyOne") == 3 {
			if rapid.Bool().Draw(rt, c.name+".onlyTCP") {
				c.udp = false
			} else if s.proto != "socks5" {
				c.tcp = false
			}
		}
		if !c.tcp && !c.udp {
			continue
		}
		if c.udp {
			c.mtu = intp(rapid.SampledFrom([]int{1500, 1280, 1492}).Draw(rt, c.name+".mtu"))
			if s.is2022() && s.mtu != nil && *s.mtu <= 9000 && rapid.Bool().Draw(rt, c.name+".mtuOfServer") {
				c.mtu = intp(*s.mtu) // both ends on the same path MTU (the usual set-up)
			}
		}
		c.split = rapid.IntRange(0, 2).Draw(rt, c.name+".split") == 2
		names := []string{"network", "tcpPathMTUDiscovery", "udpPathMTUDiscovery", "dialerTFO", "tcpFastOpenFallback"}
		if s.is2022() {
			names = append(names, "allowSegmentedFixedLengthHeader", "paddingPolicy", "slidingWindowFilterSize")
			if s.upskFile != "" {
				c.psk = s.users["user0"]
				c.ipsks = [][]byte{s.psk}
			} else {
				c.psk = s.psk
			}
			c.reqPrefix, c.respPrefix = s.reqPrefix, s.respPrefix
		}
		c.authUser, c.authPass = s.authUser, s.authPass
		c.f = drawFields(rt, "client", c.name, names...)
		if c.proto == "http" {
			genClientTLS(rt, c, s)
		}
		w.clients = append(w.clients, c)
	}

	// upstream choice per server and network: a direct client, or a proxy client of a later server
	var candidates = func(i int, udp bool) []string {
		var out []string
		if implicit {
			return []string{"direct"}
		}
		for _, c := range w.clients {
			if (udp && !c.udp) || (!udp && !c.tcp) {
				continue
			}
			if c.toServer == -1 || c.toServer > i {
				out = append(out, c.name)
			}
		}
		return out
	}
	for i, s := range w.servers {
		if len(s.tcp) > 0 {
			cs := candidates(i, false)
			// prefer the longest chain sometimes: index drawn over the list, 0 = first direct client
			s.upTCP = cs[rapid.IntRange(0, len(cs)-1).Draw(rt, fmt.Sprintf("s%d.upTCP", i))]
		}
		if len(s.udp) > 0 {
			cs := candidates(i, true)
			s.upUDP = cs[rapid.IntRange(0, len(cs)-1).Draw(rt, fmt.Sprintf("s%d.upUDP", i))]
		}
	}

	// client groups wrapping upstreams
	if rapid.IntRange(0, 2).Draw(rt, "groups") == 2 {
		policies := []string{"round-robin", "random", "availability", "latency", "min-max-latency"}
		for gi := range rapid.IntRange(1, 2).Draw(rt, "nGroups") {
			si := rapid.IntRange(0, len(w.servers)-1).Draw(rt, fmt.Sprintf("g%d.server", gi))
			s := w.servers[si]
			g := &grp{name: fmt.Sprintf("g%d", gi)}
			member := func(up string) []string {
				m := []string{up}
				if isDirect(up) && rapid.Bool().Draw(rt, g.name+".two") {
					for _, o := range directNames {
						if o != up {
							m = append(m, o)
						}
					}
				}
				return m
			}
			if s.upTCP != "" && (w.client(s.upTCP) != nil || isDirect(s.upTCP)) {
				g.tcp = &sel{policy: policies[rapid.IntRange(0, len(policies)-1).Draw(rt, g.name+".tcpPolicy")], clients: member(s.upTCP)}
				if g.tcp.policy != "round-robin" && g.tcp.policy != "random" {
					g.tcp.probe = drawFields(rt, "tcpprobe", g.name+".tp", "timeout", "interval", "concurrency", "address", "escapedPath", "host")
				}
			}
			if s.upUDP != "" && (w.client(s.upUDP) != nil || isDirect(s.upUDP)) && rapid.Bool().Draw(rt, g.name+".udp") {
				g.udp = &sel{policy: policies[rapid.IntRange(0, len(policies)-1).Draw(rt, g.name+".udpPolicy")], clients: member(s.upUDP)}
				if g.udp.policy != "round-robin" && g.udp.policy != "random" {
					g.udp.probe = drawFields(rt, "udpprobe", g.name+".up", "timeout", "interval", "concurrency", "address")
				}
			}
			if g.tcp == nil && g.udp == nil {
				continue
			}
			if g.tcp != nil {
				s.upTCP = g.name
			}
			if g.udp != nil {
				s.upUDP = g.name
			}
			w.groups = append(w.groups, g)
		}
	}

	// DNS resolvers
	if rapid.IntRange(0, 2).Draw(rt, "dns") > 0 {
		for ri := range rapid.IntRange(1, 2).Draw(rt, "nResolvers") {
			r := &res{name: fmt.Sprintf("r%d", ri)}
			if rapid.IntRange(0, 3).Draw(rt, r.name+".system") == 3 {
				r.system = true
			} else {
				r.addrPort = "127.0.0.1:@@DNS@@"
				viaNames := directNames
				via := viaNames[rapid.IntRange(0, len(viaNames)-1).Draw(rt, r.name+".via")]
				switch rapid.IntRange(0, 2).Draw(rt, r.name+".nets") {
				case 0:
					r.tcpC, r.udpC = via, via
				case 1:
					r.tcpC = via
				default:
					r.udpC = via
				}
				r.f = drawFields(rt, "dns", r.name, "type", "cacheSize")
			}
			w.dns = append(w.dns, r)
		}
	}

	// sets
	if rapid.IntRange(0, 2).Draw(rt, "sets") == 2 {
		for k := range rapid.IntRange(1, 2).Draw(rt, "nPrefixSets") {
			name := fmt.Sprintf("ps%d", k)
			w.prefixSets = append(w.prefixSets, &setCfg{name: name, file: name + ".txt"})
			w.files[name+".txt"] = "# loopback\n127.0.0.0/8\n::1/128\n"
		}
		for k := range rapid.IntRange(0, 2).Draw(rt, "nDomainSets") {
			name := fmt.Sprintf("ds%d", k)
			w.domainSets = append(w.domainSets, &setCfg{name: name, file: name + ".txt", f: drawFields(rt, "domainset", name, "type")})
			w.files[name+".txt"] = "domain:echo.test\nsuffix:example.org\nkeyword:zzzz\n"
		}
	}

	// routes. The last server may be left to the default route.
	useDefault := rapid.Bool().Draw(rt, "useDefaultRoute")
	for i, s := range w.servers {
		if useDefault && i == len(w.servers)-1 {
			if s.upTCP != "" {
				w.defTCP = strp(s.upTCP)
			}
			if s.upUDP != "" {
				w.defUDP = strp(s.upUDP)
			}
			continue
		}
		mk := func(suffix, network, client string) {
			r := &route{name: fmt.Sprintf("route-%s%s", s.name, suffix), network: network, client: client, fromServers: []string{s.name}, extra: map[string]any{}, f: fields{}}
			w.decorate(rt, r, w.targetForm(i, targetDomain))
			w.routes = append(w.routes, r)
		}
		switch {
		case s.upTCP != "" && s.upTCP == s.upUDP && rapid.Bool().Draw(rt, fmt.Sprintf("s%d.oneRoute", i)):
			mk("", "", s.upTCP)
		default:
			if s.upTCP != "" {
				network := "tcp"
				if s.upUDP == "" && w.hasUDP(s.upTCP) && rapid.Bool().Draw(rt, fmt.Sprintf("s%d.anyNet", i)) {
					network = ""
				}
				mk("-tcp", network, s.upTCP)
			}
			if s.upUDP != "" {
				mk("-udp", "udp", s.upUDP)
			}
		}
	}
	if w.defTCP == nil && w.defUDP == nil {
		// default route: explicit reject, an existing client, or omitted
		switch rapid.IntRange(0, 2).Draw(rt, "defaultNames") {
		case 1:
			w.defTCP, w.defUDP = strp("reject"), strp("reject")
		case 2:
			w.defTCP, w.defUDP = strp(directNames[0]), strp(directNames[0])
		}
	}

	if rapid.IntRange(0, 3).Draw(rt, "api") == 3 {
		w.api = &apiCfg{port: port(), f: drawFields(rt, "api", "api", "debugPprof", "staticPath", "realIPHeaderKey")}
		if rapid.Bool().Draw(rt, "api.secret") {
			w.api.secret = rapid.SampledFrom([]string{"s3cr3t", "/a/b", "x/"}).Draw(rt, "api.secretPath")
		}
	}

	needCerts := false
	for _, s := range w.servers {
		needCerts = needCerts || s.tlsOn()
	}
	switch {
	case needCerts || rapid.IntRange(0, 7).Draw(rt, "unusedCertStore") == 7:
		w.addStandardCerts()
	default:
		w.rootF = drawFields(rt, "root", "root", "certs")
	}
	for _, s := range w.servers {
		if s.upskFile != "" {
			b, _ := json.Marshal(s.users)
			w.files[s.upskFile] = string(b)
		}
		if s.proto == "direct" && strings.HasPrefix(s.tunnel, "echo.test") && s.targetOnly != nil && s.targetOnly.Mode == mValue {
			// "drop packets not sent from tunnelRemoteAddress" has no defined meaning for a name:
			// refusing at load and running without a crash are both within the statement
			if len(s.udp) > 0 {
				w.lenient = append(w.lenient, "domain-targetonly")
			} else {
				w.lenient = append(w.lenient, "domain-targetonly-no-udp")
			}
		}
	}
	return w
}

func (w *world) client(name string) *cli {
	for _, c := range w.clients {
		if c.name == name {
			return c
		}
	}
	return nil
}

func (w *world) hasUDP(name string) bool {
	if c := w.client(name); c != nil {
		return c.udp
	}
	for _, g := range w.groups {
		if g.name == name {
			return g.udp != nil
		}
	}
	return name == "direct"
}

const (
	formIP = iota
	formDomain
	formMixed
)

// targetForm tells in which form requests arriving at server i name the echo target: servers
// that other clients chain into see whatever their entry servers were asked for.
func (w *world) targetForm(i int, targetDomain bool) int {
	for _, c := range w.clients {
		if c.toServer == i {
			return formMixed
		}
	}
	s := w.servers[i]
	if fb := s.f["unsafeFallbackAddress"]; s.is2022() && fb != nil && fb.Mode == mValue {
		// nobody chains into this server, so the only requests it routes are fallbacks of
		// unauthenticated connections, and the fallback address is an IP address
		return formIP
	}
	if s.proto == "direct" {
		if strings.HasPrefix(s.tunnel, "echo.test") {
			return formDomain
		}
		return formIP
	}
	if targetDomain {
		return formDomain
	}
	return formIP
}

// decorate adds criteria that match the smoke traffic (so that the route stays on the path) and
// reference resolvers and sets.
func (w *world) decorate(rt *rapid.T, r *route, form int) {
	targetDomain := form != formIP
	if rapid.IntRange(0, 2).Draw(rt, r.name+".plain") == 0 {
		return
	}
	if len(w.prefixSets) > 0 && rapid.Bool().Draw(rt, r.name+".fromPS") {
		r.extra["fromPrefixSets"] = []string{w.prefixSets[rapid.IntRange(0, len(w.prefixSets)-1).Draw(rt, r.name+".fromPSi")].name}
	}
	if rapid.Bool().Draw(rt, r.name+".fromPrefixes") {
		r.extra["fromPrefixes"] = []string{"127.0.0.0/8"}
	}
	if rapid.Bool().Draw(rt, r.name+".toPorts") {
		r.extra["toPortRanges"] = "1024-65535"
		r.extra["toPorts"] = []int{53, 443}
	}
	// destination IP criteria need a resolver for domain targets
	canResolve := len(w.dns) > 0
	if (canResolve || !targetDomain) && rapid.Bool().Draw(rt, r.name+".toIP") {
		if len(w.prefixSets) > 0 && rapid.Bool().Draw(rt, r.name+".toPS") {
			r.extra["toPrefixSets"] = []string{w.prefixSets[0].name}
		} else {
			r.extra["toPrefixes"] = []string{"127.0.0.0/8"}
		}
		if !canResolve {
			r.f["disableNameResolutionForIPRules"] = &dfield{Mode: mValue, Val: true}
		} else {
			r.f["disableNameResolutionForIPRules"] = &dfield{Mode: drawMode(rt, r.name+".disableNR", false)}
			if rapid.Bool().Draw(rt, r.name+".namedResolver") {
				r.f["resolver"] = &dfield{Mode: mValue, Val: w.dns[rapid.IntRange(0, len(w.dns)-1).Draw(rt, r.name+".resolver")].name}
			} else {
				r.f["resolver"] = &dfield{Mode: drawMode(rt, r.name+".resolverMode", false)}
			}
		}
		// domain criteria are OR-ed with the IP criteria, so they cannot unmatch the traffic
		if len(w.domainSets) > 0 && rapid.Bool().Draw(rt, r.name+".toDS") {
			r.extra["toDomainSets"] = []string{w.domainSets[rapid.IntRange(0, len(w.domainSets)-1).Draw(rt, r.name+".toDSi")].name}
		}
		if rapid.Bool().Draw(rt, r.name+".toDomains") {
			r.extra["toDomains"] = []string{"example.com"}
		}
	} else if form == formDomain && rapid.Bool().Draw(rt, r.name+".toDomainOnly") {
		if len(w.domainSets) > 0 {
			r.extra["toDomainSets"] = []string{w.domainSets[0].name}
		} else {
			r.extra["toDomains"] = []string{"echo.test"}
		}
		// the matched domain must resolve into loopback: needs a resolver, whatever
		// disableNameResolutionForIPRules says
		if canResolve && rapid.Bool().Draw(rt, r.name+".expectedIP") {
			if len(w.prefixSets) > 0 && rapid.Bool().Draw(rt, r.name+".expectedPS") {
				r.extra["toMatchedDomainExpectedPrefixSets"] = []string{w.prefixSets[0].name}
			} else {
				r.extra["toMatchedDomainExpectedPrefixes"] = []string{"127.0.0.0/8"}
			}
			if rapid.Bool().Draw(rt, r.name+".expectedDisableNR") {
				r.f["disableNameResolutionForIPRules"] = &dfield{Mode: mValue, Val: true}
			}
		}
	}
}

// ---- injected violations

type mutation struct {
	kind  string // validator kind this must produce
	label string
	apply func()
}

// mutations lists every single-invariant violation applicable to w.
func (w *world) mutations(rt *rapid.T) []mutation {
	var ms []mutation
	add := func(kind, label string, f func()) { ms = append(ms, mutation{kind, label, f}) }
	resize := func(k []byte, delta int) []byte {
		if delta < 0 {
			if len(k)+delta < 0 {
				return k
			}
			return append([]byte(nil), k[:len(k)+delta]...)
		}
		return append(append([]byte(nil), k...), make([]byte, delta)...)
	}
	deltas := []int{-1, +1}
	for _, s := range w.servers {
		if s.is2022() {
			other := 16
			if keyLen(s.proto) == 16 {
				other = 32
			}
			for _, d := range deltas {
				add("key-length", fmt.Sprintf("server-psk%+d", d), func() { s.psk = resize(s.psk, d) })
			}
			add("key-length", "server-psk-other-method", func() { s.psk = keyBytes(9, other) })
			add("key-length", "server-psk-missing", func() { s.psk, s.pskSet = nil, false })
			if s.upskFile != "" {
				for _, d := range deltas {
					add("key-length", fmt.Sprintf("upsk%+d", d), func() {
						s.users["user0"] = resize(s.users["user0"], d)
						b, _ := json.Marshal(s.users)
						w.files[s.upskFile] = string(b)
					})
				}
			}
			for li, l := range s.udp {
				for _, v := range []string{"59s", "59.999999999s", "1s", "1ns"} {
					if s.legacyOK {
						if _, ok := durSeconds(v); !ok {
							continue
						}
					}
					add("nat-timeout", "nat-"+v, func() { l.f["natTimeout"] = &dfield{Mode: mValue, Val: v} })
				}
				_ = li
			}
		}
		if len(s.udp) > 0 {
			for _, v := range []int{1279, 0, 1} {
				add("mtu", fmt.Sprintf("server-mtu-%d", v), func() { s.mtu = intp(v) })
			}
			add("mtu", "server-mtu-omitted", func() { s.mtu = nil })
			l := s.udp[0]
			add("range", "relayBatch-1025", func() { l.f["relayBatchSize"] = &dfield{Mode: mValue, Val: 1025} })
			add("range", "relayBatch--1", func() { l.f["relayBatchSize"] = &dfield{Mode: mValue, Val: -1} })
			add("range", "recvBatch-1025", func() { l.f["serverRecvBatchSize"] = &dfield{Mode: mValue, Val: 1025} })
			add("range", "sendCap-63", func() { l.f["sendChannelCapacity"] = &dfield{Mode: mValue, Val: 63} })
			add("range", "sendCap-1", func() { l.f["sendChannelCapacity"] = &dfield{Mode: mValue, Val: 1} })
		}
		for _, l := range s.tcp {
			if _, ok := l.f["initialPayloadWaitBufferSize"]; ok || !s.legacyOK {
				for _, v := range []int{-1, -1440} {
					add("range", fmt.Sprintf("ipw-buf-%d", v), func() { l.f["initialPayloadWaitBufferSize"] = &dfield{Mode: mValue, Val: v} })
				}
				for _, v := range []string{"-1ns", "-250ms"} {
					add("range", "ipw-timeout-"+v, func() { l.f["initialPayloadWaitTimeout"] = &dfield{Mode: mValue, Val: v} })
				}
			}
		}
		if !s.is2022() {
			for _, l := range s.udp {
				add("range", "nat-negative", func() { l.f["natTimeout"] = &dfield{Mode: mValue, Val: "-1s"} })
			}
		} else {
			add("range", "server-sliding-window--1", func() { s.f["slidingWindowFilterSize"] = &dfield{Mode: mValue, Val: -1} })
			for _, l := range s.udp {
				add("nat-timeout", "nat--1s", func() { l.f["natTimeout"] = &dfield{Mode: mValue, Val: "-1s"} })
			}
		}
		if len(s.udp) > 0 {
			add("mtu", "server-mtu--1", func() { s.mtu = intp(-1) })
		}
		add("duplicate", "dup-server", func() {
			c := *s
			c.tcp, c.udp = nil, nil
			for _, l := range s.tcp {
				c.tcp = append(c.tcp, &lst{network: l.network, port: w.nports, f: l.f})
			}
			for _, l := range s.udp {
				c.udp = append(c.udp, &lst{network: l.network, port: w.nports, f: l.f})
			}
			w.nports++
			w.servers = append(w.servers, &c)
		})
	}
	if w.clientsMode == 0 {
		for _, c := range w.clients {
			if keyLen(c.proto) > 0 {
				for _, d := range deltas {
					add("key-length", fmt.Sprintf("client-psk%+d", d), func() { c.psk = resize(c.psk, d) })
				}
				if len(c.ipsks) > 0 {
					for _, d := range deltas {
						add("key-length", fmt.Sprintf("client-ipsk%+d", d), func() { c.ipsks[0] = resize(c.ipsks[0], d) })
					}
				}
			}
			if c.udp {
				add("mtu", "client-mtu-1279", func() { c.mtu = intp(1279) })
				add("mtu", "client-mtu-omitted", func() { c.mtu = nil })
			}
			add("duplicate", "dup-client", func() { d := *c; w.clients = append(w.clients, &d) })
		}
	}
	// a reference that covers a network for which the named client does not exist
	if w.clientsMode == 0 {
		half := func(udpOnly bool) string {
			name := "ht"
			if udpOnly {
				name = "hu"
			}
			if w.client(name) == nil {
				c := &cli{name: name, proto: "direct", tcp: !udpOnly, udp: udpOnly, toServer: -1, f: fields{}}
				if udpOnly {
					c.mtu = intp(1500)
				}
				// groups and everything else are defined after the clients section, order is irrelevant
				w.clients = append(w.clients, c)
			}
			return name
		}
		for _, r := range w.routes {
			switch r.network {
			case "":
				add("dangling", "route-anynet-client-tcponly", func() { r.client = half(false) })
				add("dangling", "route-anynet-client-udponly", func() { r.client = half(true) })
			case "udp":
				add("dangling", "route-udp-client-tcponly", func() { r.client = half(false) })
			case "tcp":
				add("dangling", "route-tcp-client-udponly", func() { r.client = half(true) })
			}
		}
		if w.defUDP != nil {
			add("dangling", "default-udp-client-tcponly", func() { w.defUDP = strp(half(false)) })
		}
		if w.defTCP != nil {
			add("dangling", "default-tcp-client-udponly", func() { w.defTCP = strp(half(true)) })
		}
		for _, r := range w.dns {
			if r.udpC != "" {
				add("dangling", "resolver-udp-client-tcponly", func() { r.udpC = half(false) })
			}
			if r.tcpC != "" {
				add("dangling", "resolver-tcp-client-udponly", func() { r.tcpC = half(true) })
			}
		}
		for _, g := range w.groups {
			if g.udp != nil {
				add("dangling", "group-udp-member-tcponly", func() { g.udp.clients = append([]string{half(false)}, g.udp.clients...) })
			}
			if g.tcp != nil {
				add("dangling", "group-tcp-member-udponly", func() { g.tcp.clients = append([]string{half(true)}, g.tcp.clients...) })
			}
		}
		for _, c := range w.clients {
			if keyLen(c.proto) > 0 && c.udp {
				add("range", "client-sliding-window--1", func() { c.f["slidingWindowFilterSize"] = &dfield{Mode: mValue, Val: -1} })
			}
			if c.udp {
				add("mtu", "client-mtu--1", func() { c.mtu = intp(-1) })
			}
		}
	}
	// Two holders of one name that cover disjoint (or the same) networks. service.go: a client name
	// must differ from every other client name, a group name from every client name and every other
	// group name - whatever networks the holders are enabled for.
	for _, a := range holderKinds {
		for _, b := range holderKinds {
			if w.canHold(a) && w.canHold(b) {
				add("duplicate", "twin-"+a+"-"+b, func() { w.addHolder(a, "twin"); w.addHolder(b, "twin") })
			}
		}
	}
	if w.clientsMode != 0 {
		// the automatically added client is called "direct"
		add("duplicate", "tcponly-group-named-direct", func() { w.addHolder("gt", "direct") })
		add("duplicate", "udponly-group-named-direct", func() { w.addHolder("gu", "direct") })
	}
	for _, g := range w.groups {
		add("duplicate", "dup-group", func() { d := *g; w.groups = append(w.groups, &d) })
		if len(w.clients) > 0 {
			add("duplicate", "group-named-as-client", func() {
				old := g.name
				g.name = w.clients[0].name
				w.rename(old, g.name)
			})
		}
		if g.tcp != nil {
			add("dangling", "group-tcp-member", func() { g.tcp.clients = append(append([]string(nil), g.tcp.clients...), "ghost") })
		}
		if g.udp != nil {
			add("dangling", "group-udp-member", func() { g.udp.clients = append([]string{"ghost"}, g.udp.clients...) })
		}
	}
	for _, r := range w.dns {
		add("duplicate", "dup-resolver", func() { d := *r; w.dns = append(w.dns, &d) })
		if r.tcpC != "" {
			add("dangling", "resolver-tcp-client", func() { r.tcpC = "ghost" })
		}
		if r.udpC != "" {
			add("dangling", "resolver-udp-client", func() { r.udpC = "ghost" })
		}
	}
	if w.defTCP != nil {
		add("dangling", "default-tcp-client", func() { w.defTCP = strp("ghost") })
	}
	if w.defUDP != nil {
		add("dangling", "default-udp-client", func() { w.defUDP = strp("ghost") })
	}
	for _, r := range w.routes {
		add("dangling", "route-client", func() { r.client = "ghost" })
		add("dangling", "route-server", func() { r.fromServers = append([]string{"ghost"}, r.fromServers...) })
		add("dangling", "route-resolver", func() { r.f["resolver"] = &dfield{Mode: mValue, Val: "ghost"} })
		for _, k := range []string{"fromPrefixSets", "toPrefixSets", "toDomainSets"} {
			if _, ok := r.extra[k]; ok {
				add("dangling", "route-"+k, func() { r.extra[k] = []string{"ghost"} })
			}
		}
		add("dangling", "route-fromPrefixSets-new", func() { r.extra["fromPrefixSets"] = []string{"ghost"} })
	}
	// criteria that need name resolution in a world without resolvers
	if len(w.dns) == 0 {
		needSet := func() string {
			if len(w.prefixSets) == 0 {
				w.prefixSets = append(w.prefixSets, &setCfg{name: "psx", file: "psx.txt"})
				w.files["psx.txt"] = "127.0.0.0/8\n"
			}
			return w.prefixSets[0].name
		}
		clear := func(r *route) {
			for _, k := range []string{"toPrefixes", "toPrefixSets", "toDomains", "toDomainSets", "toMatchedDomainExpectedPrefixes", "toMatchedDomainExpectedPrefixSets"} {
				delete(r.extra, k)
			}
			delete(r.f, "disableNameResolutionForIPRules")
		}
		for _, r := range w.routes {
			add("missing-resolver", "toPrefixes-alone", func() { clear(r); r.extra["toPrefixes"] = []string{"127.0.0.0/8"} })
			add("missing-resolver", "toPrefixSets-alone", func() { clear(r); r.extra["toPrefixSets"] = []string{needSet()} })
			add("missing-resolver", "toPrefixSets-disable-false", func() {
				clear(r)
				r.extra["toPrefixSets"] = []string{needSet()}
				r.f["disableNameResolutionForIPRules"] = &dfield{Mode: mEmpty}
			})
			for _, dis := range []bool{false, true} {
				add("missing-resolver", fmt.Sprintf("expectedPrefixes-disable=%v", dis), func() {
					clear(r)
					r.extra["toDomains"] = []string{"echo.test"}
					r.extra["toMatchedDomainExpectedPrefixes"] = []string{"127.0.0.0/8"}
					if dis {
						r.f["disableNameResolutionForIPRules"] = &dfield{Mode: mValue, Val: true}
					}
				})
				add("missing-resolver", fmt.Sprintf("expectedPrefixSets-disable=%v", dis), func() {
					clear(r)
					r.extra["toDomains"] = []string{"echo.test"}
					r.extra["toMatchedDomainExpectedPrefixSets"] = []string{needSet()}
					if dis {
						r.f["disableNameResolutionForIPRules"] = &dfield{Mode: mValue, Val: true}
					}
				})
			}
		}
	}
	w.tlsMutations(add)
	for _, d := range w.domainSets {
		add("duplicate-set", "dup-domain-set", func() { c := *d; w.domainSets = append(w.domainSets, &c) })
	}
	for _, d := range w.prefixSets {
		add("duplicate-set", "dup-prefix-set", func() { c := *d; w.prefixSets = append(w.prefixSets, &c) })
	}
	return ms
}

// holderKinds: the four kinds of name holders that cover a single network.
var holderKinds = []string{"ct", "cu", "gt", "gu"} // TCP-only client, UDP-only client, TCP-only group, UDP-only group

// member returns an existing client usable as the member of a single-network group.
func (w *world) member(udp bool) string {
	tcpM, udpM, _, _ := w.clientMaps()
	m := tcpM
	if udp {
		m = udpM
	}
	names := make([]string, 0, len(m))
	for n := range m {
		names = append(names, n)
	}
	sort.Strings(names)
	if len(names) == 0 {
		return ""
	}
	return names[0]
}

func (w *world) canHold(kind string) bool {
	switch kind {
	case "ct", "cu":
		return w.clientsMode == 0 && len(w.clients) > 0
	case "gt":
		return w.member(false) != ""
	default:
		return w.member(true) != ""
	}
}

// addHolder adds a single-network client or client group called name.
func (w *world) addHolder(kind, name string) {
	switch kind {
	case "ct":
		w.clients = append(w.clients, &cli{name: name, proto: "direct", tcp: true, toServer: -1, f: fields{}})
	case "cu":
		w.clients = append(w.clients, &cli{name: name, proto: "direct", udp: true, toServer: -1, mtu: intp(1500), f: fields{}})
	case "gt":
		m := w.member(false)
		w.groups = append(w.groups, &grp{name: name, tcp: &sel{policy: "round-robin", clients: []string{m}}})
	case "gu":
		m := w.member(true)
		w.groups = append(w.groups, &grp{name: name, udp: &sel{policy: "random", clients: []string{m}}})
	}
}

// rename updates references after a client group was renamed.
func (w *world) rename(old, new string) {
	for _, s := range w.servers {
		if s.upTCP == old {
			s.upTCP = new
		}
		if s.upUDP == old {
			s.upUDP = new
		}
	}
	for _, r := range w.routes {
		if r.client == old {
			r.client = new
		}
	}
	if w.defTCP != nil && *w.defTCP == old {
		w.defTCP = strp(new)
	}
	if w.defUDP != nil && *w.defUDP == old {
		w.defUDP = strp(new)
	}
}

// ---- smoke script

// fixedHeaderLen is the number of bytes a Shadowsocks 2022 TCP server reads before it can
// authenticate a request (spec: salt + optional identity header + 11-byte fixed header + 16-byte tag).
func fixedHeaderLen(s *srv) int {
	n := len(s.reqPrefix) + keyLen(s.proto) + 11 + 16
	if s.upskFile != "" {
		n += 16
	}
	return n
}

func (w *world) pathOK(up string, udp bool, depth int) bool {
	if up == "" || up == "reject" || depth > 8 {
		return false
	}
	if up == "direct" && w.clientsMode != 0 {
		return true
	}
	for _, g := range w.groups {
		if g.name == up {
			s := g.tcp
			if udp {
				s = g.udp
			}
			if s == nil {
				return false
			}
			for _, m := range s.clients {
				if !w.pathOK(m, udp, depth+1) {
					return false
				}
			}
			return true
		}
	}
	c := w.client(up)
	if c == nil || (udp && !c.udp) || (!udp && !c.tcp) {
		return false
	}
	if c.toServer == -1 {
		return true
	}
	s := w.servers[c.toServer]
	if udp {
		return len(s.udp) > 0 && w.pathOK(s.upUDP, true, depth+1)
	}
	return len(s.tcp) > 0 && w.pathOK(s.upTCP, false, depth+1)
}

func (w *world) probes(seed uint64) []Probe {
	var ps []Probe
	n := uint64(0)
	next := func() uint64 { n++; return seed + n }
	// port-scanner behaviour against every TCP listener first; the echoes that follow are the canary
	for _, s := range w.servers {
		for _, l := range s.tcp {
			ps = append(ps, Probe{Kind: "scan-close", Server: s.name, Addr: l.addr()}, Probe{Kind: "scan-byte", Server: s.name, Addr: l.addr(), Seed: next()})
		}
	}
	if w.api != nil {
		a := fmt.Sprintf("127.0.0.1:@@P%d@@", w.api.port)
		ps = append(ps, Probe{Kind: "scan-close", Addr: a}, Probe{Kind: "scan-byte", Addr: a, Seed: next()})
	}
	for _, s := range w.servers {
		for li, l := range s.tcp {
			p := Probe{Server: s.name, Addr: l.addr(), Target: w.target, Seed: next(), Size: 1 + int(next()%1200), User: s.authUser, Pass: s.authPass,
				ExpectEcho: w.pathOK(s.upTCP, false, 0)}
			switch {
			case s.proto == "direct":
				p.Kind, p.Target = "tcp-tunnel", ""
			case s.proto == "socks5":
				p.Kind = "tcp-socks5"
			case s.proto == "http":
				p.Kind = "tcp-http"
				if s.tlsOn() {
					// through the TLS listener; a certificate is presented when the server asks for one
					// and, where it does not, by every other probe (it must not matter)
					p.TLS, p.TLSCert = true, s.tlsRequires() || next()%2 == 0
					if s.tlsRequires() && !s.tlsVerifiable() {
						p.ExpectEcho = false // verified against the system roots: no expectation, only no crash
					}
				}
			case s.proto == "none" || s.proto == "plain":
				p.Kind = "tcp-none"
			default:
				p.Kind, p.ExpectEcho, p.Target = "reject", false, ""
				p.Size = fixedHeaderLen(s)
				rp := s.f["rejectPolicy"]
				fb := s.f["unsafeFallbackAddress"]
				hasFB := fb != nil && fb.Mode == mValue
				p.ExpectRST = (rp == nil || rp.Mode != mValue) && !hasFB
				// with a fallback address the bytes that failed to authenticate are relayed to it
				// (the echo target) through the server's own route
				p.ExpectFB = hasFB && w.pathOK(s.upTCP, false, 0)
			}
			ps = append(ps, p)
			if p.Kind == "tcp-http" && li == 0 {
				if s.authUser != "" {
					// authentication invariant: no tunnel without valid credentials (plain and over TLS)
					q := p
					q.Seed, q.Pre407 = next(), true
					ps = append(ps, q)
				}
				if s.tlsVerifiable() {
					// ... and none for a TLS client without a certificate where one is required
					ps = append(ps, Probe{Kind: "tls-nocert", Server: s.name, Addr: l.addr(), Target: w.target, Seed: next(), User: s.authUser, Pass: s.authPass})
				}
				if s.tlsOn() && !s.tlsRequires() {
					// the same listener once more with the opposite choice about the client certificate
					q := p
					q.Seed, q.TLSCert = next(), !p.TLSCert
					ps = append(ps, q)
				}
			}
			if li == 0 && p.Kind != "reject" {
				// the same listener again, payload-less: the relay's wait for an initial payload runs
				// into its timeout; where the protocol names the target, the target speaks first
				q := p
				q.Seed, q.Silent = next(), true
				if p.Kind == "tcp-tunnel" {
					q.SilentMs = 100 + min(silentWaitMs(l), 300)
				} else {
					q.Greet = true
					q.Target = strings.Replace(w.target, "@@ECHO@@", "@@GREET@@", 1)
				}
				ps = append(ps, q)
			}
		}
		for li, l := range s.udp {
			p := Probe{Server: s.name, Addr: l.addr(), Target: w.target, Seed: next(), Size: 1 + int(next()%900),
				ExpectEcho: w.pathOK(s.upUDP, true, 0)}
			proto := ""
			switch {
			case s.proto == "direct":
				p.Kind, p.Target, proto = "udp-tunnel", "", "tunnel"
			case s.proto == "socks5":
				p.Kind, proto = "udp-socks5", "socks5"
			case s.proto == "none" || s.proto == "plain":
				p.Kind, proto = "udp-none", "none"
			default:
				p.Kind, p.ExpectEcho, p.Target = "udp-garbage", false, ""
			}
			ps = append(ps, p)
			if proto == "" {
				continue
			}
			// 3-40 datagrams back-to-back from one client: they queue up in the session's send channel
			// and leave in batches of relayBatchSize; every one must be echoed exactly once
			b := p
			b.Kind, b.Seed, b.Size, b.Burst = "burst-"+proto, next(), 0, 3+int(next()%38)
			// Padding is random and only bounded by the MTU of the end that adds it: where the two ends of
			// a Shadowsocks 2022 hop disagree about the MTU, a padded packet may exceed the other end's
			// receive buffer. That is a property of the configuration, not a lost datagram.
			b.ExpectEcho = b.ExpectEcho && w.paddingFits(s.upUDP, 0)
			b.Note = "burst:relayBatchSize=" + batchClass(l) + ",burst:batchMode=" + fmt.Sprint(l.f.effective("udpl", "batchMode"))
			if up := w.chainServer(s.upUDP, true); up != nil && len(up.udp) > 0 {
				b.Note += ",burst-upstream:relayBatchSize=" + batchClass(up.udp[0])
			}
			ps = append(ps, b)
			if li == 0 && proto == "socks5" && len(s.tcp) > 0 && s.tcp[0].port == l.port {
				// what a SOCKS5 client really does for UDP: UDP ASSOCIATE on the TCP listener, then
				// datagrams to the relay address the server names
				a := p
				a.Kind, a.Seed, a.Addr, a.User, a.Pass = "assoc-socks5", next(), s.tcp[0].addr(), s.authUser, s.authPass
				ps = append(ps, a)
			}
			if li == 0 && proto != "tunnel" {
				ps = append(ps, w.mtuProbes(s, l, proto, next)...)
			}
		}
	}
	if w.api != nil {
		path := "/api/ssm/v1/servers"
		if w.api.secret != "" {
			path = "/" + strings.Trim(w.api.secret, "/") + path
		}
		ps = append(ps, Probe{Kind: "api", Addr: fmt.Sprintf("127.0.0.1:@@P%d@@", w.api.port), Path: path, Target: `"` + w.servers[0].name + `"`})
	}
	return ps
}

// paddingFits: on every Shadowsocks 2022 hop of the UDP path an end that pads everything (PadAll; the
// smoke targets are not on port 53) does not have the larger MTU of the two.
func (w *world) paddingFits(up string, depth int) bool {
	if depth > 8 {
		return false
	}
	for _, g := range w.groups {
		if g.name == up {
			if g.udp == nil {
				return false
			}
			for _, m := range g.udp.clients {
				if !w.paddingFits(m, depth+1) {
					return false
				}
			}
			return true
		}
	}
	c := w.client(up)
	if c == nil || c.toServer < 0 {
		return true
	}
	s := w.servers[c.toServer]
	if keyLen(c.proto) > 0 && c.mtu != nil && s.mtu != nil {
		if padRepr(c.f) == "PadAll" && *c.mtu > *s.mtu {
			return false
		}
		if padRepr(s.f) == "PadAll" && *s.mtu > *c.mtu {
			return false
		}
	}
	return w.paddingFits(s.upUDP, depth+1)
}

func batchClass(l *lst) string {
	switch v := l.f.effective("udpl", "relayBatchSize").(int); v {
	case 1, 2:
		return fmt.Sprint(v)
	}
	return "other"
}

// single resolves an upstream name to the client that will be used: the client itself, or the only
// member of a client group.
func (w *world) single(up string, udp bool) *cli {
	if up == "direct" && w.clientsMode != 0 {
		return &cli{name: "direct", proto: "direct", tcp: true, udp: true, toServer: -1, mtu: intp(1500)}
	}
	for _, g := range w.groups {
		if g.name == up {
			sl := g.tcp
			if udp {
				sl = g.udp
			}
			if sl == nil || len(sl.clients) != 1 {
				return nil
			}
			return w.single(sl.clients[0], udp)
		}
	}
	return w.client(up)
}

// chainServer returns the server a proxy upstream leads to (nil for direct upstreams).
func (w *world) chainServer(up string, udp bool) *srv {
	if c := w.single(up, udp); c != nil && c.toServer >= 0 {
		return w.servers[c.toServer]
	}
	return nil
}

// routeAllowsIP: a request of server i for an IP address (any port) takes the same route as its
// regular smoke traffic.
func (w *world) routeAllowsIP(i int) bool {
	if w.targetForm(i, strings.HasPrefix(w.target, "echo.test")) == formIP {
		return true
	}
	s := w.servers[i]
	for _, r := range w.routes {
		if len(r.fromServers) == 1 && r.fromServers[0] == s.name && r.network != "tcp" && len(r.extra) > 0 {
			return false
		}
	}
	return true
}

// mtuBudget is the documented arithmetic of a Shadowsocks 2022 UDP packet on an IPv4 path of the
// given MTU (SIP022 + IPv4/UDP headers): client -> server
//
//	MTU - 20 (IPv4) - 8 (UDP) - 16 (separate header) - 16 per identity header - 16 (AEAD tag)
//	    - 1 (type) - 8 (timestamp) - 2 (padding length) - SOCKS address of the target
//
// and server -> client the same with 8 more bytes for the client session id and the SOCKS address
// of the packet source. Padding only uses what is left.
func mtuBudget(mtu, identityHeaders, targetAddrLen int) (forward, back int) {
	forward = mtu - 20 - 8 - 16 - 16*identityHeaders - 16 - (1 + 8 + 2) - targetAddrLen
	back = mtu - 20 - 8 - 16 - 16 - (1 + 8 + 8 + 2) - (1 + 4 + 2)
	return
}

func socksAddrLen(target string) int {
	if strings.HasPrefix(target, "echo.test") {
		return 1 + 1 + len("echo.test") + 2
	}
	return 1 + 4 + 2
}

func padRepr(f fields) string {
	d, ok := f["paddingPolicy"]
	switch {
	case !ok || d.Mode == mOmit:
		return "omitted"
	case d.Mode == mValue:
		return fmt.Sprint(d.Val)
	case d.Mode == mDefault:
		return "PadPlainDNS"
	case d.Mode == mNull:
		return "null"
	}
	return "empty"
}

// mtuProbes: where entry server s (socks5 / none) hands its datagrams to a Shadowsocks 2022 client
// whose server relays them directly, and both ends are configured with the same MTU, payloads of
// exactly budget-1, budget and budget+1 bytes are sent towards the regular echo port and, where the
// route allows, towards port 53 (PadPlainDNS pads only there; with PadAll the padding has to shrink
// to what is left, with nothing left it has to vanish).
func (w *world) mtuProbes(s *srv, l *lst, proto string, next func() uint64) []Probe {
	c := w.single(s.upUDP, true)
	if c == nil || c.toServer < 0 || keyLen(c.proto) == 0 || !c.udp || c.mtu == nil {
		return nil
	}
	up := w.servers[c.toServer]
	d := w.single(up.upUDP, true)
	if len(up.udp) == 0 || up.mtu == nil || d == nil || d.toServer >= 0 || d.mtu == nil || !w.pathOK(s.upUDP, true, 0) {
		return nil
	}
	m, ms := *c.mtu, *up.mtu
	// The server's receive buffer must hold what the client may send (ms >= m). With a larger MTU on
	// the server its padding could outgrow the client's receive buffer, so then only targets the
	// server does not pad for are used.
	if ms < m || ms > 9000 || s.mtu == nil || *s.mtu < ms || *d.mtu < ms {
		return nil
	}
	idx := 0
	for i := range w.servers {
		if w.servers[i] == s {
			idx = i
		}
	}
	targets := []string{w.target}
	if w.routeAllowsIP(idx) && w.routeAllowsIP(c.toServer) {
		targets = append(targets, "@@E53@@")
	}
	var ps []Probe
	for _, t := range targets {
		port := "other"
		if t == "@@E53@@" {
			port = "53"
		}
		if sp := padRepr(up.f); ms > m && (sp == "PadAll" || (sp != "NoPadding" && port == "53")) {
			continue
		}
		fwd, _ := mtuBudget(m, len(c.ipsks), socksAddrLen(t))
		_, back := mtuBudget(ms, 0, 0)
		_, backIntoClient := mtuBudget(m, 0, 0)
		max := min(fwd, back)
		if max > backIntoClient {
			continue // the reply to such a payload does not fit the client's receive buffer
		}
		side := "both"
		switch {
		case fwd < back:
			side = "client"
		case back < fwd:
			side = "server"
		}
		note := fmt.Sprintf("mtu-boundary,mtu-boundary:%s-side,mtu-boundary:port=%s,mtu-pad:client=%s,mtu-pad:server=%s,mtu-pad:port=%s/client=%s,mtu-pad:port=%s/server=%s",
			side, port, padRepr(c.f), padRepr(up.f), port, padRepr(c.f), port, padRepr(up.f))
		if ms > m {
			note += ",mtu-boundary:server-mtu-larger"
		}
		ps = append(ps, Probe{Kind: "mtu-" + proto, Server: s.name, Addr: l.addr(), Target: t, Seed: next(), ExpectEcho: true,
			Sizes: []int{max + 1, max - 1, max}, Expect: []int{-1, 1, 1}, Note: note})
	}
	return ps
}

// listenList names every socket the services must have bound before traffic starts.
func (w *world) listenList() []string {
	var out []string
	for _, s := range w.servers {
		for _, l := range s.tcp {
			out = append(out, fmt.Sprintf("tcp:@@P%d@@", l.port))
		}
		for _, l := range s.udp {
			out = append(out, fmt.Sprintf("udp:@@P%d@@", l.port))
		}
	}
	if w.api != nil {
		out = append(out, fmt.Sprintf("tcp:@@P%d@@", w.api.port))
	}
	return out
}

// plan builds the plan for one representation of the world.
func (w *world) plan(name, cfgText string, seed uint64) *Plan {
	return &Plan{Name: name, Config: cfgText, Files: w.files, Ports: w.nports, Listen: w.listenList(), Probes: w.probes(seed)}
}

// silentWaitMs is the documented time the listener waits for an initial payload.
func silentWaitMs(l *lst) int {
	if d, ok := l.f["disableInitialPayloadWait"]; ok && d.Mode == mValue {
		return 0
	}
	v := "250ms"
	if _, ok := l.f["initialPayloadWaitTimeout"]; ok {
		v = l.f.effective("tcpl", "initialPayloadWaitTimeout").(string)
	}
	d, err := time.ParseDuration(v)
	if err != nil || d < 0 {
		return 0
	}
	return int(d / time.Millisecond)
}

// classKey describes the configuration class of a world for the distinct count.
func (w *world) classKey() string {
	var parts []string
	for _, s := range w.servers {
		form := "L"
		if s.legacy {
			form = "legacy"
		}
		parts = append(parts, fmt.Sprintf("%s/%d/%d/%s/%s>%s", s.proto, len(s.tcp), len(s.udp), form, s.upTCP, s.upUDP))
	}
	for _, s := range w.servers {
		if s.tlsOn() {
			parts = append(parts, fmt.Sprintf("tls/%s/%v/%v/auth%v", s.tls.certList, s.tls.clientCAs != "", s.tls.require, s.authUser != ""))
		}
	}
	parts = append(parts, fmt.Sprintf("c%d/g%d/r%d/ds%d/ps%d/rt%d/cm%d/api%v/certs%v/legacyOnly%v", len(w.clients), len(w.groups), len(w.dns), len(w.domainSets), len(w.prefixSets), len(w.routes), w.clientsMode, w.api != nil, w.certs != nil, w.legacyOnly))
	sort.Strings(parts[:len(parts)-1])
	return strings.Join(parts, "|")
}
