package c18

// TLS part of the world model: the certificate store of service.Config ("certs": certLists /
// x509CertPools), the TLS options of HTTP proxy servers (enableTLS, certList, clientCAs,
// requireAndVerifyClientCert) and HTTP proxy clients (useTLS, serverName, rootCAs, certList).
// Certificates come from verif/internal/tlsx and are written as files next to the configuration.

import (
	"fmt"
	"sync"

	"pgregory.net/rapid"

	"verif/internal/tlsx"
)

type certRef struct{ cert, key string } // file names (relative to the configuration directory)

type certListCfg struct {
	name       string
	certs      []certRef
	reloadable bool
}

type certPoolCfg struct {
	name  string
	paths []string
}

type certsCfg struct {
	lists []*certListCfg
	pools []*certPoolCfg
}

// srvTLS are the explicitly set TLS options of an HTTP proxy server ("" / false = not written).
type srvTLS struct {
	enable    bool
	certList  string
	clientCAs string
	require   bool
}

// cliTLS are the explicitly set TLS options of an HTTP proxy client.
type cliTLS struct {
	use        bool
	serverName *string // nil = omitted; "" = explicit empty: both mean "inferred from the address"
	rootCAs    string
	certList   string
}

// Certificate material, made once per process: CA "ca" signs the server leaf (SANs proxy.test and
// 127.0.0.1), a second server leaf (SAN alt.test) and the client leaf (CN client-cn); "ca2" is an
// unrelated CA. fileKinds tells the validator what each file is.
type tlsMat struct {
	files map[string]string
	kinds map[string]string
}

var (
	tlsOnce sync.Once
	tlsM    *tlsMat
)

func tlsMaterial() *tlsMat {
	tlsOnce.Do(func() {
		must := func(err error) {
			if err != nil {
				panic("tlsx: " + err.Error())
			}
		}
		ca, err := tlsx.NewCA("c18-ca")
		must(err)
		ca2, err := tlsx.NewCA("c18-unrelated-ca")
		must(err)
		srv, err := ca.Issue("proxy.test", "proxy.test", "127.0.0.1")
		must(err)
		srv2, err := ca.Issue("alt.test", "alt.test")
		must(err)
		cli, err := ca.Issue("client-cn")
		must(err)
		m := &tlsMat{files: map[string]string{}, kinds: map[string]string{}}
		put := func(name, kind string, pem []byte) { m.files[name], m.kinds[name] = string(pem), kind }
		put(fileCA, "ca", ca.CertPEM)
		put("ca2.crt", "ca", ca2.CertPEM)
		put("srv.crt", "cert:srv", srv.CertPEM)
		put("srv.key", "key:srv", srv.KeyPEM)
		put("srv2.crt", "cert:srv2", srv2.CertPEM)
		put("srv2.key", "key:srv2", srv2.KeyPEM)
		put(fileCliCert, "cert:cli", cli.CertPEM)
		put(fileCliKey, "key:cli", cli.KeyPEM)
		put("garbage.pem", "garbage", []byte("-----BEGIN NOTHING-----\nAAAA\n-----END NOTHING-----\n"))
		tlsM = m
	})
	return tlsM
}

// standardCerts is the certificate store the generator uses: three server lists (one certificate;
// two certificates, the matching one second; the same reloadable), the client list and two pools
// that contain the CA.
func (w *world) addStandardCerts() {
	if w.certs != nil {
		return
	}
	m := tlsMaterial()
	for name, content := range m.files {
		w.files[name] = content
	}
	w.certs = &certsCfg{
		lists: []*certListCfg{
			{name: "srv", certs: []certRef{{"srv.crt", "srv.key"}}},
			{name: "srv-two", certs: []certRef{{"srv2.crt", "srv2.key"}, {"srv.crt", "srv.key"}}},
			{name: "srv-reloadable", certs: []certRef{{"srv2.crt", "srv2.key"}, {"srv.crt", "srv.key"}}, reloadable: true},
			{name: "srv-reloadable-one", certs: []certRef{{"srv.crt", "srv.key"}}, reloadable: true},
			{name: "cli", certs: []certRef{{fileCliCert, fileCliKey}}},
			{name: "cli-reloadable", certs: []certRef{{fileCliCert, fileCliKey}}, reloadable: true},
		},
		pools: []*certPoolCfg{
			{name: "ca", paths: []string{fileCA}},
			{name: "cas", paths: []string{"ca2.crt", fileCA}},
		},
	}
}

var (
	srvCertLists = []string{"srv", "srv-two", "srv-reloadable", "srv-reloadable-one"}
	cliCertLists = []string{"cli", "cli-reloadable"}
	caPools      = []string{"ca", "cas"}
)

func (c *certsCfg) emit() map[string]any {
	o := map[string]any{}
	if len(c.lists) > 0 {
		var a []any
		for _, l := range c.lists {
			certs := []any{}
			for _, r := range l.certs {
				certs = append(certs, map[string]any{"certPath": "@@DIR@@/" + r.cert, "keyPath": "@@DIR@@/" + r.key})
			}
			lo := map[string]any{"name": l.name, "certs": certs}
			if l.reloadable {
				lo["reloadable"] = true
			}
			a = append(a, lo)
		}
		o["certLists"] = a
	}
	if len(c.pools) > 0 {
		var a []any
		for _, p := range c.pools {
			paths := []any{}
			for _, f := range p.paths {
				paths = append(paths, "@@DIR@@/"+f)
			}
			a = append(a, map[string]any{"name": p.name, "certPaths": paths})
		}
		o["x509CertPools"] = a
	}
	return o
}

// emitHTTPServer fills the "http" object of an HTTP proxy server.
func (s *srv) emitHTTP(o map[string]any, override int) {
	h := map[string]any{}
	if s.authUser != "" {
		h["users"] = []any{map[string]any{"username": s.authUser, "password": s.authPass}}
		h["enableBasicAuth"] = true
	}
	if t := s.tls; t != nil {
		if t.enable {
			h["enableTLS"] = true
		}
		if t.certList != "" {
			h["certList"] = t.certList
		}
		if t.clientCAs != "" {
			h["clientCAs"] = t.clientCAs
		}
		if t.require {
			h["requireAndVerifyClientCert"] = true
		}
	}
	s.hf.emitInto("httpsrv", h, override)
	if len(h) > 0 || s.httpEmpty {
		o["http"] = h
	}
}

func (c *cli) emitHTTP(o map[string]any, override int) {
	h := map[string]any{}
	if c.authUser != "" {
		h["username"], h["password"], h["useBasicAuth"] = c.authUser, c.authPass, true
	}
	if t := c.tls; t != nil {
		if t.use {
			h["useTLS"] = true
		}
		if t.serverName != nil {
			h["serverName"] = *t.serverName
		}
		if t.rootCAs != "" {
			h["rootCAs"] = t.rootCAs
		}
		if t.certList != "" {
			h["certList"] = t.certList
		}
	}
	c.hf.emitInto("httpcli", h, override)
	if len(h) > 0 {
		o["http"] = h
	}
}

// validateTLS restates: every referenced certificate list and pool exists, their names are unique,
// their files exist and are what they are referenced as, and a TLS listener names its certificate.
func (w *world) validateTLS(add func(kind, format string, a ...any)) {
	lists, pools := map[string]bool{}, map[string]bool{}
	kinds := tlsMaterial().kinds
	if w.certs != nil {
		for _, l := range w.certs.lists {
			if lists[l.name] {
				add("duplicate", "certificate list name %q", l.name)
			}
			lists[l.name] = true
			for i, r := range l.certs {
				_, okc := w.files[r.cert]
				_, okk := w.files[r.key]
				switch {
				case !okc || !okk:
					add("cert-file", "certificate list %s entry %d: file missing (%s / %s)", l.name, i, r.cert, r.key)
				case len(kinds[r.cert]) < 6 || kinds[r.cert][:5] != "cert:" || kinds[r.key] != "key:"+kinds[r.cert][5:]:
					add("cert-file", "certificate list %s entry %d: %s (%s) and %s (%s) are not a certificate and its key", l.name, i, r.cert, kinds[r.cert], r.key, kinds[r.key])
				}
			}
		}
		for _, p := range w.certs.pools {
			if pools[p.name] {
				add("duplicate", "certificate pool name %q", p.name)
			}
			pools[p.name] = true
			for _, f := range p.paths {
				if _, ok := w.files[f]; !ok {
					add("cert-file", "certificate pool %s: file %s missing", p.name, f)
				} else if k := kinds[f]; k != "ca" && (len(k) < 5 || k[:5] != "cert:") {
					add("cert-file", "certificate pool %s: file %s is not a PEM certificate", p.name, f)
				}
			}
		}
	}
	for _, s := range w.servers {
		if s.proto != "http" || s.tls == nil {
			continue
		}
		t := s.tls
		if t.enable && t.certList == "" {
			add("tls-incomplete", "server %s: enableTLS without certList", s.name)
		}
		if t.certList != "" && !lists[t.certList] {
			add("dangling", "server %s certList %q", s.name, t.certList)
		}
		if t.clientCAs != "" && !pools[t.clientCAs] {
			add("dangling", "server %s clientCAs %q", s.name, t.clientCAs)
		}
	}
	if w.clientsMode == 0 {
		for _, c := range w.clients {
			if c.proto != "http" || c.tls == nil || !c.tcp {
				continue
			}
			if c.tls.certList != "" && !lists[c.tls.certList] {
				add("dangling", "client %s certList %q", c.name, c.tls.certList)
			}
			if c.tls.rootCAs != "" && !pools[c.tls.rootCAs] {
				add("dangling", "client %s rootCAs %q", c.name, c.tls.rootCAs)
			}
		}
	}
}

// tlsTrusted: the server verifies client certificates against a pool that contains the CA.
func (s *srv) tlsOn() bool { return s.proto == "http" && s.tls != nil && s.tls.enable }

func (s *srv) tlsRequires() bool { return s.tlsOn() && s.tls.require }

// tlsVerifiable: client certificates signed by the CA pass verification (the pool is one of ours).
func (s *srv) tlsVerifiable() bool { return s.tlsRequires() && s.tls.clientCAs != "" }

func (w *world) tlsLabels() []string {
	var out []string
	for _, s := range w.servers {
		if !s.tlsOn() {
			continue
		}
		out = append(out, "tls-server", "tls-certlist:"+s.tls.certList)
		switch {
		case s.tlsVerifiable():
			out = append(out, "tls-server:require-client-cert")
		case s.tlsRequires():
			out = append(out, "tls-server:require-client-cert-system-roots")
		case s.tls.clientCAs != "":
			out = append(out, "tls-server:clientCAs-not-required")
		}
		if s.authUser != "" {
			out = append(out, "tls-server:basic-auth")
		}
	}
	for _, c := range w.clients {
		if c.proto == "http" && c.tls != nil && c.tls.use {
			sn := "omitted"
			if c.tls.serverName != nil {
				sn = fmt.Sprintf("%q", *c.tls.serverName)
			}
			out = append(out, "tls-client", "tls-client:serverName="+sn)
			if c.tls.certList != "" {
				out = append(out, "tls-client:certList")
			}
		}
	}
	return out
}

// ---- generator

// genServerTLS draws the TLS set-up of an HTTP proxy server: none (every option in a
// default-equivalent representation), TLS only, TLS + clientCAs (certificates not required), TLS +
// clientCAs + requireAndVerifyClientCert, or requireAndVerifyClientCert without clientCAs (client
// certificates are then verified against the system roots; accepted, but no client of ours passes).
func genServerTLS(rt *rapid.T, s *srv, prefix string) {
	all := []string{"certList", "clientCAs", "enableTLS", "requireAndVerifyClientCert"}
	mode := uniform(rt, prefix+".tls", 9)
	if mode <= 3 {
		s.hf = drawFields(rt, "httpsrv", prefix+".http", all...)
		s.httpEmpty = rapid.Bool().Draw(rt, prefix+".httpEmpty")
		return
	}
	s.tls = &srvTLS{enable: true, certList: srvCertLists[uniform(rt, prefix+".certList", len(srvCertLists))]}
	unset := []string{}
	switch mode {
	case 4:
		unset = append(unset, "clientCAs", "requireAndVerifyClientCert")
	case 5:
		s.tls.clientCAs = caPools[uniform(rt, prefix+".clientCAs", len(caPools))]
		unset = append(unset, "requireAndVerifyClientCert")
	case 6, 7:
		s.tls.clientCAs = caPools[uniform(rt, prefix+".clientCAs", len(caPools))]
		s.tls.require = true
	default:
		s.tls.require = true
		unset = append(unset, "clientCAs")
	}
	s.hf = drawFields(rt, "httpsrv", prefix+".http", unset...)
}

// genClientTLS makes the HTTP proxy client c match its server s.
func genClientTLS(rt *rapid.T, c *cli, s *srv) {
	if !s.tlsOn() {
		c.hf = drawFields(rt, "httpcli", c.name+".http", "certList", "rootCAs", "serverName", "useTLS")
		return
	}
	c.tls = &cliTLS{use: true, rootCAs: caPools[uniform(rt, c.name+".rootCAs", len(caPools))]}
	unset := []string{}
	// The server name is what the certificate is verified against and what is sent as SNI. Omitted or
	// empty: inferred from the address (127.0.0.1, an IP SAN of the server certificate; no SNI).
	// Without SNI a list of two certificates answers with its first one (alt.test), so such lists
	// are only named as proxy.test.
	names := []*string{nil, strp(""), strp("127.0.0.1"), strp("proxy.test")}
	if s.tls.certList == "srv-two" || s.tls.certList == "srv-reloadable" {
		names = names[3:]
	}
	c.tls.serverName = names[uniform(rt, c.name+".serverName", len(names))]
	if c.tls.serverName == nil && rapid.Bool().Draw(rt, c.name+".serverNameRepr") {
		unset = append(unset, "serverName")
	}
	if s.tlsRequires() || rapid.Bool().Draw(rt, c.name+".clientCert") {
		c.tls.certList = cliCertLists[uniform(rt, c.name+".certList", len(cliCertLists))]
	} else {
		unset = append(unset, "certList")
	}
	c.hf = drawFields(rt, "httpcli", c.name+".http", unset...)
}

func (s *srv) ensureTLS(w *world) *srvTLS {
	w.addStandardCerts()
	if s.tls == nil {
		s.tls = &srvTLS{}
	}
	if !s.tls.enable {
		s.tls.enable, s.tls.certList = true, "srv"
	}
	for _, n := range []string{"certList", "clientCAs", "enableTLS", "requireAndVerifyClientCert"} {
		delete(s.hf, n)
	}
	return s.tls
}

func (c *cli) ensureTLS(w *world) *cliTLS {
	w.addStandardCerts()
	if c.tls == nil {
		c.tls = &cliTLS{}
	}
	if !c.tls.use {
		c.tls.use, c.tls.rootCAs = true, "ca"
	}
	for _, n := range []string{"certList", "rootCAs", "serverName", "useTLS"} {
		delete(c.hf, n)
	}
	return c.tls
}

// tlsMutations lists the single violations around the certificate store.
func (w *world) tlsMutations(add func(kind, label string, f func())) {
	for _, s := range w.servers {
		if s.proto != "http" {
			continue
		}
		add("dangling", "http-server-certList", func() { s.ensureTLS(w).certList = "ghost" })
		add("dangling", "http-server-clientCAs", func() { s.ensureTLS(w).clientCAs = "ghost" })
		add("dangling", "http-server-clientCAs-is-a-certList-name", func() { s.ensureTLS(w).clientCAs = "cli" })
		add("dangling", "http-server-certList-is-a-pool-name", func() { s.ensureTLS(w).certList = "ca" })
		add("tls-incomplete", "enableTLS-without-certList", func() { s.ensureTLS(w).certList = "" })
		add("tls-incomplete", "enableTLS-certList-empty", func() {
			s.ensureTLS(w).certList = ""
			s.hf = fields{"certList": &dfield{Mode: mEmpty}}
		})
	}
	if w.clientsMode == 0 {
		for _, c := range w.clients {
			if c.proto != "http" {
				continue
			}
			add("dangling", "http-client-rootCAs", func() { c.ensureTLS(w).rootCAs = "ghost" })
			add("dangling", "http-client-certList", func() { c.ensureTLS(w).certList = "ghost" })
			add("dangling", "http-client-rootCAs-is-a-certList-name", func() { c.ensureTLS(w).rootCAs = "srv" })
		}
	}
	// the store itself (created if the world has none: an unused store must be sound too)
	add("duplicate", "dup-cert-list", func() {
		w.addStandardCerts()
		d := *w.certs.lists[0]
		w.certs.lists = append(w.certs.lists, &d)
	})
	add("duplicate", "dup-cert-list-other-content", func() {
		w.addStandardCerts()
		w.certs.lists = append(w.certs.lists, &certListCfg{name: "srv", certs: []certRef{{fileCliCert, fileCliKey}}})
	})
	add("duplicate", "dup-cert-pool", func() {
		w.addStandardCerts()
		d := *w.certs.pools[0]
		w.certs.pools = append(w.certs.pools, &d)
	})
	add("cert-file", "cert-file-missing", func() {
		w.addStandardCerts()
		w.certs.lists = append(w.certs.lists, &certListCfg{name: "broken", certs: []certRef{{"nowhere.crt", "srv.key"}}})
	})
	add("cert-file", "key-file-missing", func() {
		w.addStandardCerts()
		w.certs.lists = append(w.certs.lists, &certListCfg{name: "broken", certs: []certRef{{"srv.crt", "nowhere.key"}}, reloadable: true})
	})
	add("cert-file", "key-of-another-certificate", func() {
		w.addStandardCerts()
		w.certs.lists = append(w.certs.lists, &certListCfg{name: "broken", certs: []certRef{{"srv.crt", "srv.key"}, {"srv.crt", fileCliKey}}})
	})
	add("cert-file", "certificate-is-not-pem", func() {
		w.addStandardCerts()
		w.certs.lists = append(w.certs.lists, &certListCfg{name: "broken", certs: []certRef{{"garbage.pem", "srv.key"}}})
	})
	add("cert-file", "pool-file-missing", func() {
		w.addStandardCerts()
		w.certs.pools = append(w.certs.pools, &certPoolCfg{name: "broken", paths: []string{fileCA, "nowhere.crt"}})
	})
	add("cert-file", "pool-file-is-not-pem", func() {
		w.addStandardCerts()
		w.certs.pools = append(w.certs.pools, &certPoolCfg{name: "broken", paths: []string{"garbage.pem"}})
	})
	add("cert-file", "used-list-loses-its-file", func() {
		w.addStandardCerts()
		delete(w.files, "srv.key")
	})
}
