package c18

// Deterministic enumerations next to the random search: every defaulted field in every
// representation, the boundary values named by the property, every injected violation on fixed
// base worlds, and the tunnel address x target-only table under traffic.

import (
	"fmt"
	"os"
	"sort"
	"strings"
	"testing"
	"time"

	"pgregory.net/rapid"

	"verif/internal/ev"
)

// baseWorld: one server (TCP+UDP on one port, listener form unless legacy), a chained pair when the
// protocol has a client side, direct client d0 as default.
func baseWorld(proto string, legacy bool) *world {
	w := &world{files: map[string]string{}, target: "127.0.0.1:@@ECHO@@"}
	s := &srv{name: "s0", proto: proto, f: fields{}, legacyOK: legacy, legacy: legacy, upTCP: "d0", upUDP: "d0"}
	s.tcp = []*lst{{network: "tcp", port: 0, f: fields{}}}
	if proto != "http" {
		s.udp = []*lst{{network: "udp", port: 0, f: fields{}}}
		s.mtu = intp(1500)
	} else {
		s.upUDP = ""
	}
	w.nports = 1
	switch {
	case proto == "direct":
		s.tunnel = w.target
	case s.is2022():
		s.psk, s.pskSet = keyBytes(1, keyLen(proto)), true
	}
	w.servers = []*srv{s}
	w.clients = []*cli{{name: "d0", proto: "direct", tcp: true, udp: true, toServer: -1, mtu: intp(1500), f: fields{}}}
	w.defTCP, w.defUDP = strp("d0"), strp("d0")
	return w
}

// fullWorld has one object of every kind that carries defaulted fields: a tunnel entry chained
// through an ss2022 client into an ss2022 server, probing client groups, a resolver, sets, API.
func fullWorld() *world {
	w := &world{files: map[string]string{}, target: "echo.test:@@ECHO@@", nports: 3}
	t0 := &srv{name: "tun", proto: "direct", f: fields{}, tunnel: w.target, mtu: intp(1500), upTCP: "gt", upUDP: "gt"}
	t0.tcp = []*lst{{network: "tcp", port: 0, f: fields{}}}
	t0.udp = []*lst{{network: "udp", port: 0, f: fields{}}}
	s1 := &srv{name: "ss", proto: "2022-blake3-aes-128-gcm", f: fields{}, mtu: intp(1500), upTCP: "d0", upUDP: "d0"}
	s1.psk, s1.pskSet = keyBytes(7, 16), true
	s1.tcp = []*lst{{network: "tcp", port: 1, f: fields{}}}
	s1.udp = []*lst{{network: "udp", port: 1, f: fields{}}}
	w.servers = []*srv{t0, s1}
	w.clients = []*cli{
		{name: "d0", proto: "direct", tcp: true, udp: true, toServer: -1, mtu: intp(1500), f: fields{}},
		{name: "c1", proto: s1.proto, tcp: true, udp: true, toServer: 1, mtu: intp(1500), psk: s1.psk, f: fields{}},
	}
	w.groups = []*grp{{name: "gt", tcp: &sel{policy: "availability", clients: []string{"c1"}, probe: fields{}},
		udp: &sel{policy: "latency", clients: []string{"c1"}, probe: fields{}}}}
	w.dns = []*res{{name: "r0", addrPort: "127.0.0.1:@@DNS@@", tcpC: "d0", udpC: "d0", f: fields{}}}
	w.domainSets = []*setCfg{{name: "ds0", file: "ds0.txt", f: fields{}}}
	w.files["ds0.txt"] = "domain:echo.test\n"
	w.prefixSets = []*setCfg{{name: "ps0", file: "ps0.txt"}}
	w.files["ps0.txt"] = "127.0.0.0/8\n"
	w.routes = []*route{
		{name: "entry", client: "gt", fromServers: []string{"tun"}, f: fields{},
			extra: map[string]any{"toPrefixSets": []string{"ps0"}, "toDomainSets": []string{"ds0"}, "fromPrefixSets": []string{"ps0"}}},
	}
	w.defTCP, w.defUDP = strp("d0"), strp("d0")
	w.api = &apiCfg{port: 2, f: fields{}}
	return w
}

// fieldSites lists every (object, kind) of w that carries defaulted fields, with the field names
// applicable to it.
type fieldSite struct {
	where string
	kind  string
	f     fields
	names []string
}

func allNames(kind string, except ...string) []string {
	var out []string
	for n := range defs[kind] {
		skip := false
		for _, e := range except {
			skip = skip || e == n
		}
		if !skip {
			out = append(out, n)
		}
	}
	sort.Strings(out)
	return out
}

func (w *world) fieldSites() []fieldSite {
	var out []fieldSite
	for _, s := range w.servers {
		if s.is2022() {
			out = append(out, fieldSite{"server " + s.name, "server", s.f, allNames("server")})
		}
		for j, l := range s.tcp {
			names := allNames("tcpl")
			if s.legacy {
				names = []string{"fastOpen", "disableInitialPayloadWait"}
			}
			out = append(out, fieldSite{fmt.Sprintf("server %s tcp[%d]", s.name, j), "tcpl", l.f, names})
		}
		for j, l := range s.udp {
			names := allNames("udpl")
			if s.legacy {
				names = []string{"batchMode", "relayBatchSize", "serverRecvBatchSize", "sendChannelCapacity", "natTimeout"}
			}
			out = append(out, fieldSite{fmt.Sprintf("server %s udp[%d]", s.name, j), "udpl", l.f, names})
		}
	}
	for _, s := range w.servers {
		if s.proto == "http" && s.tls == nil {
			if s.hf == nil {
				s.hf = fields{}
			}
			out = append(out, fieldSite{"server " + s.name + " http", "httpsrv", s.hf, allNames("httpsrv")})
		}
	}
	for _, c := range w.clients {
		if c.proto == "http" && c.tls == nil {
			if c.hf == nil {
				c.hf = fields{}
			}
			out = append(out, fieldSite{"client " + c.name + " http", "httpcli", c.hf, allNames("httpcli")})
		}
	}
	if w.certs == nil {
		if w.rootF == nil {
			w.rootF = fields{}
		}
		out = append(out, fieldSite{"root", "root", w.rootF, allNames("root")})
	}
	for _, c := range w.clients {
		names := allNames("client", "allowSegmentedFixedLengthHeader", "paddingPolicy", "slidingWindowFilterSize")
		if keyLen(c.proto) > 0 {
			names = allNames("client")
		}
		out = append(out, fieldSite{"client " + c.name, "client", c.f, names})
	}
	for _, g := range w.groups {
		if g.tcp != nil && g.tcp.probe != nil {
			out = append(out, fieldSite{"group " + g.name + " tcp probe", "tcpprobe", g.tcp.probe, allNames("tcpprobe")})
		}
		if g.udp != nil && g.udp.probe != nil {
			out = append(out, fieldSite{"group " + g.name + " udp probe", "udpprobe", g.udp.probe, allNames("udpprobe")})
		}
	}
	for _, r := range w.dns {
		if !r.system {
			out = append(out, fieldSite{"resolver " + r.name, "dns", r.f, allNames("dns")})
		}
	}
	for _, d := range w.domainSets {
		out = append(out, fieldSite{"domain set " + d.name, "domainset", d.f, allNames("domainset")})
	}
	for _, r := range w.routes {
		out = append(out, fieldSite{"route " + r.name, "route", r.f, allNames("route")})
	}
	if w.api != nil {
		out = append(out, fieldSite{"api", "api", w.api.f, allNames("api")})
	}
	return out
}

var recDefaults = ev.New("C18", "defaults-exhaustive",
	"enumeration: on a world with one object of every kind (tunnel -> probing client groups -> ss2022 client -> ss2022 server, resolver, sets, API) and on "+
		"legacy-form servers, every defaulted field x {omitted, null, explicit empty, documented default} with everything else omitted; each variant must load, show "+
		"the documented effective value (policy function identity and Name(), post-Manager exported fields, values returned by Configure) and observe the same as the "+
		"all-omitted baseline. Non-trivial: variant accepted and compared; distinct key = site.field=mode").
	Require("mode:omit", "mode:null", "mode:empty", "mode:default", "field:rejectPolicy", "field:paddingPolicy", "field:natTimeout", "legacy-site")

func TestDefaultsExhaustive(t *testing.T) {
	recDefaults.Exhaustive(true)
	worlds := map[string]func() *world{
		"full":        fullWorld,
		"legacy-2022": func() *world { return baseWorld("2022-blake3-aes-256-gcm", true) },
		"legacy-s5":   func() *world { return baseWorld("socks5", true) },
		"http-chain": func() *world {
			w := tlsBase() // its second chain is an HTTP proxy server and client without TLS
			w.certs = nil
			w.servers[0].tls, w.clients[1].tls = nil, nil
			for _, s := range w.servers {
				s.tcp[0].f = fields{} // the baseline of the enumeration is "everything omitted"
			}
			return w
		},
	}
	var failures []string
	names := []string{"full", "legacy-2022", "legacy-s5", "http-chain"}
	for _, wn := range names {
		mk := worlds[wn]
		base := mk()
		bl := loadText(base.emit(-1, false), base.files, base.nports, false)
		if bl.err != nil {
			t.Fatalf("harness error: base world %s refused: %v\n%s", wn, bl.err, base.emit(-1, false))
		}
		baseObs := bl.obs
		bl.close()
		nSites := len(base.fieldSites())
		for si := range nSites {
			for _, name := range base.fieldSites()[si].names {
				for _, mode := range []vmode{mOmit, mNull, mEmpty, mDefault} {
					w := mk()
					site := w.fieldSites()[si]
					site.f[name] = &dfield{Mode: mode}
					text := w.emit(-1, false)
					key := fmt.Sprintf("%s/%s.%s=%s", wn, site.where, name, mode)
					labels := []string{"mode:" + mode.String(), "field:" + name, "kind:" + site.kind}
					if strings.HasPrefix(wn, "legacy") {
						labels = append(labels, "legacy-site")
					}
					l := loadText(text, w.files, w.nports, false)
					if l.err != nil {
						failures = append(failures, fmt.Sprintf("SIG=C18/representation-mismatch/%s %s refused: %v", name, key, l.err))
						recDefaults.Case(key, false, labels...)
						l.close()
						continue
					}
					var diffs []string
					diffs = append(diffs, w.documented(l.obs)...)
					diffs = append(diffs, diffObs(baseObs, l.obs)...)
					l.close()
					var other []string
					reject := false
					for _, d := range diffs {
						if strings.Contains(d, "rejectPolicy") || strings.Contains(d, "Reject") {
							reject = true
						} else {
							other = append(other, d)
						}
					}
					if reject {
						if ks, ok := known(sigReject); ok {
							recDefaults.KnownHit(ks)
							labels = append(labels, "known:"+sigReject)
						} else {
							failures = append(failures, fmt.Sprintf("SIG=C18/%s %s: %v", sigReject, key, diffs))
						}
					}
					if len(other) > 0 {
						failures = append(failures, fmt.Sprintf("SIG=C18/default-mismatch/%s %s: %v", fieldOf(other[0]), key, other))
					}
					recDefaults.Case(key, true, labels...)
				}
			}
		}
	}
	if len(failures) > 0 {
		// the same difference shows up in every variant that shares the object: report each once
		seen := map[string]int{}
		var uniq []string
		for _, f := range failures {
			i := strings.Index(f, ": [")
			body := f
			if i >= 0 {
				body = f[:strings.IndexByte(f, ' ')] + f[i:]
			}
			if seen[body] == 0 {
				uniq = append(uniq, f)
			}
			seen[body]++
		}
		if len(uniq) > 16 {
			uniq = append(uniq[:16], fmt.Sprintf("... and %d more distinct differences", len(uniq)-16))
		}
		t.Fatalf("VERIF-VIOLATION omitted / null / explicit empty / documented default are not equivalent (%d variant checks failed, distinct differences follow, each with the first variant showing it):\n%s",
			len(failures), strings.Join(uniq, "\n"))
	}
}

// ---- boundary table

type boundaryCase struct {
	name   string
	proto  string
	legacy bool
	mut    func(w *world)
	accept bool
}

func setUDP(name string, v any) func(w *world) {
	return func(w *world) {
		if v == defs["udpl"][name].empty {
			w.servers[0].udp[0].f[name] = &dfield{Mode: mEmpty} // the zero value selects the default
			return
		}
		w.servers[0].udp[0].f[name] = &dfield{Mode: mValue, Val: v}
	}
}

func boundaryCases() []boundaryCase {
	var cs []boundaryCase
	ss := []string{"2022-blake3-aes-128-gcm", "2022-blake3-aes-256-gcm"}
	udpProtos := []string{"direct", "socks5", "none", "2022-blake3-aes-128-gcm", "2022-blake3-aes-256-gcm"}
	for _, legacy := range []bool{false, true} {
		form := "listeners"
		if legacy {
			form = "legacy"
		}
		// MTU 1279 / 1280 on every protocol with UDP
		for _, p := range udpProtos {
			for _, m := range []int{1279, 1280, 1281} {
				cs = append(cs, boundaryCase{fmt.Sprintf("%s/%s/server-mtu=%d", form, p, m), p, legacy, func(w *world) { w.servers[0].mtu = intp(m) }, m >= 1280})
			}
			cs = append(cs, boundaryCase{fmt.Sprintf("%s/%s/server-mtu-omitted", form, p), p, legacy, func(w *world) { w.servers[0].mtu = nil }, false})
		}
		// natTimeout around the replay window for Shadowsocks 2022; free for the other protocols
		nats := []string{"59s", "60s", "61s", "1s"}
		if !legacy {
			nats = append(nats, "59.999999999s", "1m0.000000001s", "1ns")
		}
		for _, p := range udpProtos {
			for _, v := range nats {
				d, _ := time.ParseDuration(v)
				accept := !strings.HasPrefix(p, "2022-") || d >= replayWindow
				cs = append(cs, boundaryCase{fmt.Sprintf("%s/%s/natTimeout=%s", form, p, v), p, legacy, setUDP("natTimeout", v), accept})
			}
		}
		// batch sizes 0/1/1024/1025, channel capacity 0/63/64
		for _, f := range []string{"relayBatchSize", "serverRecvBatchSize"} {
			for _, n := range []int{-1, 0, 1, 1024, 1025} {
				cs = append(cs, boundaryCase{fmt.Sprintf("%s/socks5/%s=%d", form, f, n), "socks5", legacy, setUDP(f, n), n >= 0 && n <= 1024})
			}
		}
		for _, n := range []int{0, 1, 63, 64, 65} {
			cs = append(cs, boundaryCase{fmt.Sprintf("%s/socks5/sendChannelCapacity=%d", form, n), "socks5", legacy, setUDP("sendChannelCapacity", n), n == 0 || n >= 64})
		}
		// negative / zero / large values of the remaining validated numeric fields
		for _, p := range []string{"direct", "socks5", "none"} {
			cs = append(cs, boundaryCase{fmt.Sprintf("%s/%s/natTimeout=-1s", form, p), p, legacy, setUDP("natTimeout", "-1s"), false})
			cs = append(cs, boundaryCase{fmt.Sprintf("%s/%s/natTimeout=24h", form, p), p, legacy, setUDP("natTimeout", "24h0m0s"), true})
			cs = append(cs, boundaryCase{fmt.Sprintf("%s/%s/server-mtu=-1", form, p), p, legacy, func(w *world) { w.servers[0].mtu = intp(-1) }, false})
			cs = append(cs, boundaryCase{fmt.Sprintf("%s/%s/server-mtu=65535", form, p), p, legacy, func(w *world) { w.servers[0].mtu = intp(65535) }, true})
		}
		for _, p := range ss {
			cs = append(cs, boundaryCase{fmt.Sprintf("%s/%s/natTimeout=-1s", form, p), p, legacy, setUDP("natTimeout", "-1s"), false})
			for _, n := range []int{-1, 0, 1, 65536} {
				cs = append(cs, boundaryCase{fmt.Sprintf("%s/%s/slidingWindowFilterSize=%d", form, p, n), p, legacy, func(w *world) {
					if n == 0 {
						w.servers[0].f["slidingWindowFilterSize"] = &dfield{Mode: mEmpty}
					} else {
						w.servers[0].f["slidingWindowFilterSize"] = &dfield{Mode: mValue, Val: n}
					}
				}, n >= 0})
			}
		}
		if !legacy {
			// only the listener array can express the initial-payload parameters
			for _, p := range []string{"direct", "socks5", "http", "none", "2022-blake3-aes-128-gcm"} {
				for _, n := range []int{-1440, -1, 0, 1, 1440, 1 << 20} {
					cs = append(cs, boundaryCase{fmt.Sprintf("%s/initialPayloadWaitBufferSize=%d", p, n), p, false, func(w *world) {
						if n == 0 {
							w.servers[0].tcp[0].f["initialPayloadWaitBufferSize"] = &dfield{Mode: mEmpty}
						} else {
							w.servers[0].tcp[0].f["initialPayloadWaitBufferSize"] = &dfield{Mode: mValue, Val: n}
						}
					}, n >= 0})
				}
				for _, v := range []string{"-250ms", "-1ns", "0s", "1ns", "250ms", "1h0m0s"} {
					d, _ := time.ParseDuration(v)
					cs = append(cs, boundaryCase{fmt.Sprintf("%s/initialPayloadWaitTimeout=%s", p, v), p, false, func(w *world) {
						if d == 0 {
							w.servers[0].tcp[0].f["initialPayloadWaitTimeout"] = &dfield{Mode: mEmpty}
						} else {
							w.servers[0].tcp[0].f["initialPayloadWaitTimeout"] = &dfield{Mode: mValue, Val: v}
						}
					}, d >= 0})
				}
			}
		}
		// key lengths
		for _, p := range ss {
			for _, d := range []int{-1, 0, +1} {
				cs = append(cs, boundaryCase{fmt.Sprintf("%s/%s/server-psk%+d", form, p, d), p, legacy, func(w *world) { w.servers[0].psk = keyBytes(3, keyLen(p)+d) }, d == 0})
			}
		}
	}
	// client side: MTU and keys
	for _, m := range []int{1279, 1280} {
		cs = append(cs, boundaryCase{fmt.Sprintf("client-direct-mtu=%d", m), "socks5", false, func(w *world) { w.clients[0].mtu = intp(m) }, m >= 1280})
	}
	cs = append(cs, boundaryCase{"client-direct-mtu-omitted", "socks5", false, func(w *world) { w.clients[0].mtu = nil }, false})
	cs = append(cs, boundaryCase{"client-direct-mtu=-1", "socks5", false, func(w *world) { w.clients[0].mtu = intp(-1) }, false})
	cs = append(cs, resolverRouteCases()...)
	// two holders of one name, each covering a single network: all ordered pairs of {TCP-only client,
	// UDP-only client, TCP-only group, UDP-only group}; refused whatever the networks (service.go:
	// client names unique among clients; group names unique among clients and groups). Control rows:
	// the same holders with different names are accepted.
	for _, a := range holderKinds {
		for _, b := range holderKinds {
			cs = append(cs, boundaryCase{fmt.Sprintf("same-name/%s+%s", a, b), "socks5", false, func(w *world) { w.addHolder(a, "twin"); w.addHolder(b, "twin") }, false})
			cs = append(cs, boundaryCase{fmt.Sprintf("different-names/%s+%s", a, b), "socks5", false, func(w *world) { w.addHolder(a, "one"); w.addHolder(b, "two") }, true})
		}
		// against a holder that covers both networks, and against the automatically added client
		cs = append(cs, boundaryCase{fmt.Sprintf("same-name/d0+%s", a), "socks5", false, func(w *world) { w.addHolder(a, "d0") }, false})
		cs = append(cs, boundaryCase{fmt.Sprintf("same-name/both-networks-group+%s", a), "socks5", false, func(w *world) {
			w.groups = append(w.groups, &grp{name: "twin", tcp: &sel{policy: "round-robin", clients: []string{"d0"}}, udp: &sel{policy: "random", clients: []string{"d0"}}})
			w.addHolder(a, "twin")
		}, false})
		if a == "gt" || a == "gu" {
			for _, mode := range []int{1, 2} {
				cs = append(cs, boundaryCase{fmt.Sprintf("same-name/implicit-direct(clientsMode=%d)+%s", mode, a), "socks5", false, func(w *world) {
					w.clients, w.clientsMode = nil, mode
					w.defTCP, w.defUDP = nil, nil
					w.servers[0].upTCP, w.servers[0].upUDP = "direct", "direct"
					w.addHolder(a, "direct")
				}, false})
				cs = append(cs, boundaryCase{fmt.Sprintf("different-names/implicit-direct(clientsMode=%d)+%s", mode, a), "socks5", false, func(w *world) {
					w.clients, w.clientsMode = nil, mode
					w.defTCP, w.defUDP = nil, nil
					w.servers[0].upTCP, w.servers[0].upUDP = "direct", "direct"
					w.addHolder(a, "other")
				}, true})
			}
		}
	}
	// a client that exists for one network only, named by references of every coverage
	type halfRef struct {
		name   string
		tcp    bool // the half client has TCP (else UDP)
		mut    func(w *world, name string)
		accept bool
	}
	addRoute := func(network string) func(w *world, name string) {
		return func(w *world, name string) {
			w.routes = append(w.routes, &route{name: "half", network: network, client: name, fromServers: []string{"s0"}, f: fields{}, extra: map[string]any{}})
		}
	}
	for _, tcpHalf := range []bool{true, false} {
		kind := map[bool]string{true: "tcp-only", false: "udp-only"}[tcpHalf]
		refs := []halfRef{
			{"route-any-network", tcpHalf, addRoute(""), false},
			{"route-tcp", tcpHalf, addRoute("tcp"), tcpHalf},
			{"route-udp", tcpHalf, addRoute("udp"), !tcpHalf},
			{"default-tcp", tcpHalf, func(w *world, name string) { w.defTCP = strp(name) }, tcpHalf},
			{"default-udp", tcpHalf, func(w *world, name string) { w.defUDP = strp(name) }, !tcpHalf},
			{"resolver-tcp", tcpHalf, func(w *world, name string) {
				w.dns = append(w.dns, &res{name: "r0", addrPort: "127.0.0.1:@@DNS@@", tcpC: name, f: fields{}})
			}, tcpHalf},
			{"resolver-udp", tcpHalf, func(w *world, name string) {
				w.dns = append(w.dns, &res{name: "r0", addrPort: "127.0.0.1:@@DNS@@", udpC: name, f: fields{}})
			}, !tcpHalf},
			{"group-tcp-member", tcpHalf, func(w *world, name string) {
				w.groups = append(w.groups, &grp{name: "g0", tcp: &sel{policy: "round-robin", clients: []string{"d0", name}}})
			}, tcpHalf},
			{"group-udp-member", tcpHalf, func(w *world, name string) {
				w.groups = append(w.groups, &grp{name: "g0", udp: &sel{policy: "random", clients: []string{name, "d0"}}})
			}, !tcpHalf},
		}
		for _, r := range refs {
			cs = append(cs, boundaryCase{fmt.Sprintf("half-client/%s/%s", kind, r.name), "socks5", false, func(w *world) {
				c := &cli{name: "half", proto: "direct", tcp: tcpHalf, udp: !tcpHalf, toServer: -1, f: fields{}}
				if !tcpHalf {
					c.mtu = intp(1500)
				}
				w.clients = append(w.clients, c)
				r.mut(w, "half")
			}, r.accept})
		}
	}
	for _, p := range ss {
		addClient := func(w *world, pskDelta, ipskDelta int, multi bool) {
			s := w.servers[0]
			c := &cli{name: "c0", proto: p, tcp: true, udp: true, toServer: 0, mtu: intp(1500), f: fields{}}
			if multi {
				s.upskFile = "upsk.json"
				s.users = map[string][]byte{"user0": keyBytes(5, keyLen(p))}
				c.psk = keyBytes(5, keyLen(p)+pskDelta)
				c.ipsks = [][]byte{append([]byte(nil), keyBytes(1, keyLen(p)+ipskDelta)...)}
			} else {
				c.psk = keyBytes(1, keyLen(p)+pskDelta)
			}
			w.clients = append(w.clients, c)
		}
		for _, d := range []int{-1, 0, +1} {
			cs = append(cs, boundaryCase{fmt.Sprintf("%s/client-psk%+d", p, d), p, false, func(w *world) { addClient(w, d, 0, false) }, d == 0})
			cs = append(cs, boundaryCase{fmt.Sprintf("%s/client-ipsk%+d", p, d), p, false, func(w *world) {
				addClient(w, 0, d, true)
				w.files["upsk.json"] = usersJSON(w.servers[0].users)
			}, d == 0})
			cs = append(cs, boundaryCase{fmt.Sprintf("%s/upsk%+d", p, d), p, false, func(w *world) {
				s := w.servers[0]
				s.upskFile = "upsk.json"
				s.users = map[string][]byte{"user0": keyBytes(5, keyLen(p)+d)}
				w.files["upsk.json"] = usersJSON(s.users)
			}, d == 0})
		}
		cs = append(cs, boundaryCase{p + "/client-mtu=1279", p, false, func(w *world) { addClient(w, 0, 0, false); w.clients[1].mtu = intp(1279) }, false})
		cs = append(cs, boundaryCase{p + "/client-mtu=1280", p, false, func(w *world) { addClient(w, 0, 0, false); w.clients[1].mtu = intp(1280) }, true})
	}
	return cs
}

func usersJSON(users map[string][]byte) string {
	names := make([]string, 0, len(users))
	for n := range users {
		names = append(names, n)
	}
	sort.Strings(names)
	var sb strings.Builder
	sb.WriteString("{")
	for i, n := range names {
		if i > 0 {
			sb.WriteString(",")
		}
		fmt.Fprintf(&sb, "%q:%q", n, b64(users[n]))
	}
	sb.WriteString("}")
	return sb.String()
}

func b64(b []byte) string {
	const tbl = "ABCDEFGHIJKLMNOPQRSTUVWXYZabcdefghijklmnopqrstuvwxyz0123456789+/"
	var out []byte
	for i := 0; i < len(b); i += 3 {
		var x [3]byte
		n := copy(x[:], b[i:])
		out = append(out, tbl[x[0]>>2], tbl[(x[0]&3)<<4|x[1]>>4])
		if n > 1 {
			out = append(out, tbl[(x[1]&15)<<2|x[2]>>6])
		} else {
			out = append(out, '=')
		}
		if n > 2 {
			out = append(out, tbl[x[2]&63])
		} else {
			out = append(out, '=')
		}
	}
	return string(out)
}

var recBoundary = ev.New("C18", "boundaries-exhaustive",
	"enumeration: mtu 1279/1280/1281/omitted x every protocol with UDP x server/client; natTimeout 59s/60s/61s/1s(+59.999999999s, 60.000000001s, 1ns) x protocol "+
		"x listener array/legacy natTimeoutSec; relay/recv batch size -1/0/1/1024/1025; send channel capacity 0/1/63/64/65; PSK, iPSK and uPSK length -1/0/+1 per method; "+
		"then every injected violation (all key-length, natTimeout, MTU, dangling-reference, duplicate-name, range mutations) applied one at a time to 7 hand-built "+
		"base worlds and to generated base worlds (25 in quick, 150 in thorough). Expected accept/refuse comes from the table and, independently, from the validator; both must agree with Manager(). Non-trivial: every case.").
	Require("table:accept", "table:refuse", "inject:key-length", "inject:nat-timeout", "inject:mtu", "inject:dangling", "inject:duplicate", "inject:duplicate-set",
		"inject:range", "hand-built-base", "inject:tls-incomplete", "inject:cert-file",
		"inject:dangling/http-server-certList", "inject:dangling/http-server-clientCAs", "inject:dangling/http-client-rootCAs", "inject:dangling/http-client-certList",
		"inject:duplicate/dup-cert-list", "inject:duplicate/dup-cert-pool")

func TestBoundariesExhaustive(t *testing.T) {
	recBoundary.Exhaustive(true)
	var failures []string
	for _, bc := range boundaryCases() {
		w := baseWorld(bc.proto, bc.legacy)
		bc.mut(w)
		vs := w.validate()
		if (len(vs) == 0) != bc.accept {
			t.Fatalf("harness error: table says accept=%v for %s, validator says %v", bc.accept, bc.name, vs)
		}
		text := w.emit(-1, false)
		l := loadText(text, w.files, w.nports, false)
		label := "table:refuse"
		if bc.accept {
			label = "table:accept"
		}
		switch {
		case bc.accept && l.err != nil:
			failures = append(failures, fmt.Sprintf("SIG=C18/valid-config-refused %s: %v", bc.name, l.err))
		case !bc.accept && l.err == nil:
			failures = append(failures, fmt.Sprintf("SIG=C18/accepted-with-violation/%s %s: %v", vs[0].kind, bc.name, vs))
		case bc.accept:
			var other []string
			for _, d := range w.documented(l.obs) {
				if !strings.Contains(d, "rejectPolicy") {
					other = append(other, d)
				}
			}
			if len(other) > 0 {
				failures = append(failures, fmt.Sprintf("SIG=C18/default-mismatch/%s %s: %v", fieldOf(other[0]), bc.name, other))
			}
		}
		l.close()
		recBoundary.Case("table/"+bc.name, true, label)
	}

	// every injectable violation, one at a time: first on hand-built worlds (no rapid involved:
	// plain regression for duplicate set names, dangling references, ...), then on generated ones
	gen := rapid.Custom(func(rt *rapid.T) *world { return genWorld(rt) })
	nWorlds := envInt("VERIF_C18_BASE_WORLDS", 25)
	type baseMaker struct {
		name string
		mk   func() *world
	}
	bases := []baseMaker{{"full", fullWorld}, {"tls", tlsBase}}
	for _, p := range []string{"2022-blake3-aes-128-gcm", "2022-blake3-aes-256-gcm", "socks5"} {
		for _, legacy := range []bool{false, true} {
			bases = append(bases, baseMaker{fmt.Sprintf("base-%s-legacy=%v", p, legacy), func() *world { return baseWorld(p, legacy) }})
		}
	}
	for wi := range nWorlds {
		bases = append(bases, baseMaker{fmt.Sprintf("gen%d", wi), func() *world { return gen.Example(wi + 1) }})
	}
	for _, bm := range bases {
		base := bm.mk()
		if vs := base.validate(); len(vs) != 0 {
			t.Fatalf("harness error: base world %s is not valid: %v", bm.name, vs)
		}
		n := len(base.mutations(nil))
		for mi := range n {
			w := bm.mk()
			m := w.mutations(nil)[mi]
			m.apply()
			vs := w.validate()
			if len(vs) == 0 {
				t.Fatalf("harness error: mutation %s/%s not seen by the validator", m.kind, m.label)
			}
			key := fmt.Sprintf("inject/%s/%s/%s", bm.name, m.kind, m.label)
			text := w.emit(-1, false)
			l := loadText(text, w.files, w.nports, false)
			if l.err == nil {
				if kindsOf(vs)[0] == "duplicate-set" && len(kindsOf(vs)) == 1 {
					if ks, ok := known(sigDupSet); ok {
						recBoundary.KnownHit(ks)
					} else {
						failures = append(failures, fmt.Sprintf("SIG=C18/%s world %s %s: %v", sigDupSet, bm.name, m.label, vs))
					}
				} else {
					failures = append(failures, fmt.Sprintf("SIG=C18/accepted-with-violation/%s world %s mutation %s: %v\n%s", vs[0].kind, bm.name, m.label, vs, text))
				}
			}
			l.close()
			labels := []string{"inject:" + m.kind, "inject:" + m.kind + "/" + m.label}
			if !strings.HasPrefix(bm.name, "gen") {
				labels = append(labels, "hand-built-base")
			}
			recBoundary.Case(key, true, labels...)
		}
	}
	if len(failures) > 0 {
		if len(failures) > 10 {
			failures = append(failures[:10], fmt.Sprintf("... and %d more", len(failures)-10))
		}
		t.Fatalf("VERIF-VIOLATION\n%s", strings.Join(failures, "\n"))
	}
}

// resolverRouteCases: every criteria kind that needs name resolution, alone on a route, x {no dns
// section, plain resolver, system resolver} x disableNameResolutionForIPRules {unset, false, true}.
// Rule (router/route.go): with no resolver configured, resolved-IP expectations on matched domains
// are always refused, destination prefix criteria are refused unless the flag is true.
func resolverRouteCases() []boundaryCase {
	var cs []boundaryCase
	for _, kind := range []string{"toPrefixes", "toPrefixSets", "toMatchedDomainExpectedPrefixes", "toMatchedDomainExpectedPrefixSets"} {
		for _, dns := range []string{"none", "plain", "system"} {
			for _, dis := range []string{"unset", "false", "true"} {
				expected := strings.HasPrefix(kind, "toMatched")
				accept := dns != "none" || (!expected && dis == "true")
				cs = append(cs, boundaryCase{fmt.Sprintf("resolver-needed/%s/dns=%s/disableNameResolutionForIPRules=%s", kind, dns, dis), "socks5", false, func(w *world) {
					w.target = "echo.test:@@ECHO@@"
					r := &route{name: "needs-names", client: "d0", fromServers: []string{"s0"}, f: fields{}, extra: map[string]any{}}
					switch kind {
					case "toPrefixes", "toMatchedDomainExpectedPrefixes":
						r.extra[kind] = []string{"127.0.0.0/8"}
					default:
						w.prefixSets = []*setCfg{{name: "ps0", file: "ps0.txt"}}
						w.files["ps0.txt"] = "127.0.0.0/8\n"
						r.extra[kind] = []string{"ps0"}
					}
					if expected {
						r.extra["toDomains"] = []string{"echo.test"}
					}
					switch dis {
					case "false":
						r.f["disableNameResolutionForIPRules"] = &dfield{Mode: mEmpty}
					case "true":
						r.f["disableNameResolutionForIPRules"] = &dfield{Mode: mValue, Val: true}
					}
					switch dns {
					case "plain":
						w.dns = []*res{{name: "r0", addrPort: "127.0.0.1:@@DNS@@", tcpC: "d0", udpC: "d0", f: fields{}}}
					case "system":
						w.dns = []*res{{name: "r0", system: true}}
					}
					w.routes = append(w.routes, r)
				}, accept})
			}
		}
	}
	return cs
}

var recResolverRoutes = ev.New("C18", "resolver-routes",
	"enumeration: one route carrying exactly one criteria kind that needs name resolution (toPrefixes, toPrefixSets, toMatchedDomainExpectedPrefixes, "+
		"toMatchedDomainExpectedPrefixSets) x dns section {absent, plain resolver, system resolver} x disableNameResolutionForIPRules {unset, false, true}; "+
		"refused exactly when no resolver is configured and the kind needs one; every accepted combination is started and driven with TCP and UDP requests for "+
		"a domain target (and the payload-less / scanner probes). Non-trivial: refused as the rule says, or accepted and exercised.").
	Require("refused-at-load", "exercised", "dns=none+accepted")

func TestResolverRoutes(t *testing.T) {
	recResolverRoutes.Exhaustive(true)
	t.Cleanup(stopPlanServer)
	for _, bc := range resolverRouteCases() {
		w := baseWorld(bc.proto, bc.legacy)
		w.servers[0].udp[0].f["natTimeout"] = &dfield{Mode: mValue, Val: "5s"}
		bc.mut(w)
		if vs := w.validate(); (len(vs) == 0) != bc.accept {
			t.Fatalf("harness error: table says accept=%v for %s, validator says %v", bc.accept, bc.name, vs)
		}
		text := w.emit(-1, false)
		l := loadText(text, w.files, w.nports, false)
		refused := l.err
		l.close()
		switch {
		case bc.accept && refused != nil:
			t.Fatalf("VERIF-VIOLATION SIG=C18/valid-config-refused %s: %v\n%s", bc.name, refused, text)
		case !bc.accept && refused == nil:
			t.Fatalf("VERIF-VIOLATION SIG=C18/accepted-with-violation/missing-resolver %s: the route needs name resolution and no resolver is configured\n%s", bc.name, text)
		case !bc.accept:
			recResolverRoutes.Case(bc.name, true, "refused-at-load")
			continue
		}
		kr := false
		ex, ls := runAndJudge(tfatal{t}, recResolverRoutes, w.plan(bc.name, text, 7), &kr)
		if ex {
			ls = append(ls, "exercised")
			if strings.Contains(bc.name, "dns=none") {
				ls = append(ls, "dns=none+accepted")
			}
		}
		recResolverRoutes.Case(bc.name, ex, ls...)
	}
}

// ---- tunnel address x target-only under traffic

var recTunnel = ev.New("C18", "tunnel-targetonly",
	"enumeration: direct server x tunnelRemoteAddress {IP, domain} x tunnelUDPTargetOnly {omitted, false, true} x batchMode {no, sendmmsg} x {listener array, legacy}; "+
		"each accepted combination is started in a child process and driven with TCP and UDP echoes, the UDP target also replies from a non-target source. "+
		"Non-trivial: accepted and exercised, or refused at load (only allowed for domain+true)").
	Require("domain+true", "ip+true", "exercised")

func TestTunnelTargetOnly(t *testing.T) {
	recTunnel.Exhaustive(true)
	t.Cleanup(stopPlanServer)
	for _, legacy := range []bool{false, true} {
		for _, domain := range []bool{false, true} {
			for _, to := range []string{"omitted", "false", "true"} {
				for _, bm := range []string{"no", "sendmmsg"} {
					w := baseWorld("direct", legacy)
					s := w.servers[0]
					if domain {
						s.tunnel = "echo.test:@@ECHO@@"
					}
					switch to {
					case "false":
						s.targetOnly = &dfield{Mode: mEmpty}
					case "true":
						s.targetOnly = &dfield{Mode: mValue, Val: true}
					}
					s.udp[0].f["batchMode"] = &dfield{Mode: mValue, Val: bm}
					s.udp[0].f["natTimeout"] = &dfield{Mode: mValue, Val: "5s"}
					name := fmt.Sprintf("legacy=%v/domain=%v/targetOnly=%s/batch=%s", legacy, domain, to, bm)
					labels := []string{}
					if domain && to == "true" {
						labels = append(labels, "domain+true")
					}
					if !domain && to == "true" {
						labels = append(labels, "ip+true")
					}
					text := w.emit(-1, false)
					l := loadText(text, w.files, w.nports, false)
					refused := l.err
					l.close()
					if refused != nil {
						if !(domain && to == "true") {
							t.Fatalf("VERIF-VIOLATION SIG=C18/valid-config-refused %s: %v\n%s", name, refused, text)
						}
						recTunnel.Case(name, true, append(labels, "refused-at-load")...)
						continue
					}
					if domain && to == "true" {
						if _, ok := known(sigTargetOnly); ok {
							recTunnel.Excluded(1)
							recTunnel.Case(name, false, append(labels, "excluded:"+sigTargetOnly)...)
							continue
						}
					}
					kr := false
					ex, ls := runAndJudge(tfatal{t}, recTunnel, w.plan(name, text, 42), &kr)
					if ex {
						ls = append(ls, "exercised")
					}
					recTunnel.Case(name, ex, append(labels, ls...)...)
				}
			}
		}
	}
}

type tfatal struct{ t *testing.T }

func (f tfatal) Fatalf(format string, args ...any) {
	f.t.Helper()
	f.t.Fatalf("VERIF-VIOLATION "+format, args...)
}

// ---- default NAT timeout, observed by behaviour (thorough tier: takes about a minute)

var recNATLive = ev.New("C18", "default-nat-timeout-live",
	"real time: Shadowsocks 2022 server with natTimeout omitted / \"0s\" / legacy natTimeoutSec omitted, reached through tunnel -> ss2022 client; one UDP echo, "+
		"then 55 s of silence, then the target sends again on the same mapping: it must still be relayed (a NAT timeout no shorter than the 60 s replay window).").
	Require("late-reply-delivered")

func TestDefaultNATTimeoutLive(t *testing.T) {
	if os.Getenv("VERIF_TIER") != "thorough" && os.Getenv("VERIF_C18_LIVE") == "" {
		t.Skip("thorough tier only")
	}
	type variant struct {
		name   string
		legacy bool
		mode   vmode
	}
	variants := []variant{{"omitted", false, mOmit}, {"empty", false, mEmpty}, {"legacy-omitted", true, mOmit}, {"legacy-zero", true, mEmpty}}
	errs := make(chan string, len(variants))
	for _, v := range variants {
		go func() {
			errs <- natLive(v.name, v.legacy, v.mode)
		}()
	}
	for range variants {
		if e := <-errs; e != "" {
			t.Errorf("VERIF-VIOLATION %s", e)
		} else {
			recNATLive.Case("ok", true, "late-reply-delivered")
		}
	}
}
