package c18

// Loopback world owned by the harness: echo targets (TCP, UDP, plus a second UDP socket that sends
// replies from a non-target source), a DNS server (UDP+TCP) for configured "dns" resolvers, and an
// owned net.DefaultResolver so that every system lookup is answered in memory.

import (
	"context"
	"encoding/binary"
	"errors"
	"fmt"
	"io"
	"net"
	"net/netip"
	"os"
	"sync"
	"sync/atomic"
	"time"

	"golang.org/x/net/dns/dnsmessage"
)

const ntMarker = "NT:" // prefix of replies sent from the non-target source

type netEnv struct {
	echoTCP  *net.TCPListener
	echoUDP  *net.UDPConn
	echoUDP2 *net.UDPConn
	greetTCP *net.TCPListener // target that speaks first: sends greeting, then echoes
	dnsUDP   *net.UDPConn
	dnsTCP   *net.TCPListener
	echo53   *net.UDPConn // UDP echo on port 53 of a loopback address of its own (nil if it cannot be bound)
	wg       sync.WaitGroup
	closed   atomic.Bool

	lastFrom atomic.Pointer[netip.AddrPort] // source of the last datagram the UDP echo received

	tcpAccepted atomic.Int64
	udpReceived atomic.Int64
	dnsQueries  atomic.Int64
	sysQueries  atomic.Int64
}

// bindBoth binds TCP and UDP on the same loopback port and returns both sockets.
func bindBoth(ip string) (*net.TCPListener, *net.UDPConn, int, error) {
	var lastErr error
	for range 50 {
		l, err := net.ListenTCP("tcp4", &net.TCPAddr{IP: net.ParseIP(ip), Port: 0})
		if err != nil {
			return nil, nil, 0, err
		}
		port := l.Addr().(*net.TCPAddr).Port
		u, err := net.ListenUDP("udp4", &net.UDPAddr{IP: net.ParseIP(ip), Port: port})
		if err != nil {
			l.Close()
			lastErr = err
			continue
		}
		return l, u, port, nil
	}
	return nil, nil, 0, fmt.Errorf("no port free for tcp+udp: %w", lastErr)
}

// pickPort returns a port that was free for TCP and UDP on 127.0.0.1 a moment ago (bind-and-close).
func pickPort() (int, error) {
	l, u, port, err := bindBoth("127.0.0.1")
	if err != nil {
		return 0, err
	}
	l.Close()
	u.Close()
	return port, nil
}

func newNetEnv() (*netEnv, error) {
	e := &netEnv{}
	var err error
	e.echoTCP, e.echoUDP, _, err = bindBoth("127.0.0.1")
	if err != nil {
		return nil, err
	}
	e.echoUDP2, err = net.ListenUDP("udp4", &net.UDPAddr{IP: net.ParseIP("127.0.0.1"), Port: 0})
	if err != nil {
		return nil, err
	}
	e.greetTCP, err = net.ListenTCP("tcp4", &net.TCPAddr{IP: net.ParseIP("127.0.0.1")})
	if err != nil {
		return nil, err
	}
	e.dnsTCP, e.dnsUDP, _, err = bindBoth("127.0.0.1")
	if err != nil {
		return nil, err
	}
	e.echo53 = bindEcho53()
	if e.echo53 != nil {
		e.wg.Go(e.serveEcho53)
	}
	e.wg.Go(e.serveEchoTCP)
	e.wg.Go(e.serveGreetTCP)
	e.wg.Go(e.serveEchoUDP)
	e.wg.Go(e.serveDNSUDP)
	e.wg.Go(e.serveDNSTCP)
	return e, nil
}

func (e *netEnv) echoPort() int { return e.echoTCP.Addr().(*net.TCPAddr).Port }
func (e *netEnv) dnsPort() int  { return e.dnsTCP.Addr().(*net.TCPAddr).Port }

// bindEcho53 binds UDP port 53 on a loopback address derived from the process id (all of 127/8 is
// local on Linux), so that concurrent children do not collide; needs the privilege to bind ports
// below 1024. Returns nil if that is not possible.
func bindEcho53() *net.UDPConn {
	pid := os.Getpid()
	for i := range 64 {
		x := pid*64 + i
		ip := net.IPv4(127, byte(64+(x>>16)%64), byte(x>>8), byte(1+x%254))
		if c, err := net.ListenUDP("udp4", &net.UDPAddr{IP: ip, Port: 53}); err == nil {
			return c
		}
	}
	return nil
}

// echo53Addr returns "ip:53" of the port-53 echo target, or "" if there is none.
func (e *netEnv) echo53Addr() string {
	if e.echo53 == nil {
		return ""
	}
	return e.echo53.LocalAddr().String()
}

func (e *netEnv) serveEcho53() {
	b := make([]byte, 65536)
	for {
		n, from, err := e.echo53.ReadFromUDPAddrPort(b)
		if err != nil {
			return
		}
		e.udpReceived.Add(1)
		e.echo53.WriteToUDPAddrPort(b[:n], from)
	}
}

func (e *netEnv) close() {
	e.closed.Store(true)
	if e.echo53 != nil {
		e.echo53.Close()
	}
	e.echoTCP.Close()
	e.echoUDP.Close()
	e.echoUDP2.Close()
	e.greetTCP.Close()
	e.dnsUDP.Close()
	e.dnsTCP.Close()
	e.wg.Wait()
}

func (e *netEnv) serveEchoTCP() {
	for {
		c, err := e.echoTCP.AcceptTCP()
		if err != nil {
			return
		}
		e.tcpAccepted.Add(1)
		go func() {
			defer c.Close()
			c.SetDeadline(time.Now().Add(30 * time.Second))
			io.Copy(c, c)
		}()
	}
}

const greeting = "HELLO-FROM-TARGET\n"

func (e *netEnv) serveGreetTCP() {
	for {
		c, err := e.greetTCP.AcceptTCP()
		if err != nil {
			return
		}
		e.tcpAccepted.Add(1)
		go func() {
			defer c.Close()
			c.SetDeadline(time.Now().Add(30 * time.Second))
			if _, err := c.Write([]byte(greeting)); err != nil {
				return
			}
			io.Copy(c, c)
		}()
	}
}

func (e *netEnv) serveEchoUDP() {
	b := make([]byte, 65536)
	for {
		n, from, err := e.echoUDP.ReadFromUDPAddrPort(b)
		if err != nil {
			return
		}
		e.udpReceived.Add(1)
		e.lastFrom.Store(&from)
		// first a reply from a source that is not the target address, then the real echo
		nt := append([]byte(ntMarker), b[:n]...)
		e.echoUDP2.WriteToUDPAddrPort(nt, from)
		e.echoUDP.WriteToUDPAddrPort(b[:n], from)
	}
}

// ---- DNS

func dnsAnswer(q []byte) []byte {
	var p dnsmessage.Parser
	h, err := p.Start(q)
	if err != nil {
		return nil
	}
	qs, err := p.AllQuestions()
	if err != nil || len(qs) == 0 {
		return nil
	}
	rb := dnsmessage.NewBuilder(nil, dnsmessage.Header{ID: h.ID, Response: true, RecursionDesired: h.RecursionDesired,
		RecursionAvailable: true, RCode: dnsmessage.RCodeSuccess})
	rb.EnableCompression()
	if rb.StartQuestions() != nil {
		return nil
	}
	for _, qq := range qs {
		if rb.Question(qq) != nil {
			return nil
		}
	}
	if rb.StartAnswers() != nil {
		return nil
	}
	for _, qq := range qs {
		if qq.Type == dnsmessage.TypeA && qq.Class == dnsmessage.ClassINET {
			rb.AResource(dnsmessage.ResourceHeader{Name: qq.Name, Type: dnsmessage.TypeA, Class: dnsmessage.ClassINET, TTL: 60},
				dnsmessage.AResource{A: [4]byte{127, 0, 0, 1}})
		}
	}
	out, err := rb.Finish()
	if err != nil {
		return nil
	}
	return out
}

func (e *netEnv) serveDNSUDP() {
	b := make([]byte, 4096)
	for {
		n, from, err := e.dnsUDP.ReadFromUDPAddrPort(b)
		if err != nil {
			return
		}
		e.dnsQueries.Add(1)
		if a := dnsAnswer(b[:n]); a != nil {
			e.dnsUDP.WriteToUDPAddrPort(a, from)
		}
	}
}

func serveDNSStream(c net.Conn, counter *atomic.Int64) {
	defer c.Close()
	var lb [2]byte
	for {
		c.SetDeadline(time.Now().Add(30 * time.Second))
		if _, err := io.ReadFull(c, lb[:]); err != nil {
			return
		}
		q := make([]byte, binary.BigEndian.Uint16(lb[:]))
		if _, err := io.ReadFull(c, q); err != nil {
			return
		}
		counter.Add(1)
		a := dnsAnswer(q)
		if a == nil {
			return
		}
		out := make([]byte, 2+len(a))
		binary.BigEndian.PutUint16(out, uint16(len(a)))
		copy(out[2:], a)
		if _, err := c.Write(out); err != nil {
			return
		}
	}
}

func (e *netEnv) serveDNSTCP() {
	for {
		c, err := e.dnsTCP.Accept()
		if err != nil {
			return
		}
		go serveDNSStream(c, &e.dnsQueries)
	}
}

// installResolver replaces net.DefaultResolver by an in-memory responder (every name -> 127.0.0.1).
func (e *netEnv) installResolver() {
	net.DefaultResolver = &net.Resolver{
		PreferGo: true,
		Dial: func(ctx context.Context, network, address string) (net.Conn, error) {
			c1, c2 := net.Pipe()
			go serveDNSStream(c2, &e.sysQueries)
			return c1, nil
		},
	}
}

// ---- protocol speakers (harness side of the entry protocols)

func payloadFor(seed uint64, size int) []byte {
	b := make([]byte, size)
	x := seed*0x9E3779B97F4A7C15 + 0x1234567
	for i := range b {
		x ^= x << 13
		x ^= x >> 7
		x ^= x << 17
		b[i] = byte(x)
	}
	return b
}

func socksAddr(target string) ([]byte, error) {
	host, portStr, err := net.SplitHostPort(target)
	if err != nil {
		return nil, err
	}
	var port uint16
	if _, err := fmt.Sscanf(portStr, "%d", &port); err != nil {
		return nil, err
	}
	var b []byte
	if ip, err := netip.ParseAddr(host); err == nil {
		if ip.Is4() {
			b = append(b, 1)
			b = append(b, ip.AsSlice()...)
		} else {
			b = append(b, 4)
			b = append(b, ip.AsSlice()...)
		}
	} else {
		b = append(b, 3, byte(len(host)))
		b = append(b, host...)
	}
	return binary.BigEndian.AppendUint16(b, port), nil
}

// skipSocksAddr returns the length of the SOCKS address at the start of b, or -1.
func skipSocksAddr(b []byte) int {
	if len(b) < 1 {
		return -1
	}
	var n int
	switch b[0] {
	case 1:
		n = 1 + 4 + 2
	case 4:
		n = 1 + 16 + 2
	case 3:
		if len(b) < 2 {
			return -1
		}
		n = 2 + int(b[1]) + 2
	default:
		return -1
	}
	if len(b) < n {
		return -1
	}
	return n
}

type probeResult struct {
	Kind     string `json:"kind"`
	Addr     string `json:"addr"`
	OK       bool   `json:"ok"`
	Err      string `json:"err,omitempty"`
	NTSeen   bool   `json:"ntSeen,omitempty"`   // a reply from the non-target source was delivered
	Attempts int    `json:"attempts,omitempty"` // UDP sends / TCP dials
	Outcome  string `json:"outcome,omitempty"`  // reject probe: rst|eof|timeout|data; see evaluate() for the others
	Retried  bool   `json:"retried,omitempty"`  // a burst was incomplete once and complete on the second attempt
	Millis   int64  `json:"ms"`
}

func dialRetry(addr string, total time.Duration) (*net.TCPConn, int, error) {
	deadline := time.Now().Add(total)
	var lastErr error
	for i := 1; ; i++ {
		c, err := net.DialTimeout("tcp4", addr, 2*time.Second)
		if err == nil {
			return c.(*net.TCPConn), i, nil
		}
		lastErr = err
		if time.Now().After(deadline) {
			return nil, i, lastErr
		}
		time.Sleep(20 * time.Millisecond)
	}
}

func readUntil(c net.Conn, delim string, max int) ([]byte, error) {
	var buf []byte
	one := make([]byte, 1)
	for len(buf) < max {
		if _, err := c.Read(one); err != nil {
			return buf, err
		}
		buf = append(buf, one[0])
		if len(buf) >= len(delim) && string(buf[len(buf)-len(delim):]) == delim {
			return buf, nil
		}
	}
	return buf, errors.New("delimiter not found")
}

// tcpExchange runs one TCP echo through a server speaking kind.
func tcpExchange(p *Probe, addr, target string, tm *tlsClient) probeResult {
	t0 := time.Now()
	r := probeResult{Kind: p.Kind, Addr: addr}
	fail := func(format string, a ...any) probeResult {
		r.Err = fmt.Sprintf(format, a...)
		r.Millis = time.Since(t0).Milliseconds()
		return r
	}
	var c stream
	if p.Pre407 {
		var detail string
		c, r.Outcome, detail = unauthenticatedConnects(p, addr, target, tm)
		if r.Outcome == "auth-bypass" {
			return fail("%s", detail)
		}
	}
	if c == nil {
		var attempts int
		var err error
		c, attempts, err = dialStream(p, addr, tm)
		r.Attempts = attempts
		if err != nil {
			return fail("dial: %v", err)
		}
	}
	defer c.Close()
	c.SetDeadline(time.Now().Add(10 * time.Second))
	payload := payloadFor(p.Seed, p.Size)
	var pre []byte
	switch p.Kind {
	case "tcp-tunnel":
	case "tcp-none":
		sa, err := socksAddr(target)
		if err != nil {
			return fail("target: %v", err)
		}
		pre = sa
	case "tcp-http":
		req := "CONNECT " + target + " HTTP/1.1\r\nHost: " + target + "\r\n"
		if p.User != "" {
			req += "Proxy-Authorization: Basic " + basicAuth(p.User, p.Pass) + "\r\n"
		}
		req += "\r\n"
		if _, err := c.Write([]byte(req)); err != nil {
			return fail("write CONNECT: %v", err)
		}
		hdr, err := readUntil(c, "\r\n\r\n", 4096)
		if err != nil {
			return fail("read CONNECT response: %v (%q)", err, hdr)
		}
		if len(hdr) < 12 || string(hdr[9:12]) != "200" {
			return fail("CONNECT status: %q", hdr)
		}
	case "tcp-socks5":
		if p.User != "" {
			if _, err := c.Write([]byte{5, 1, 2}); err != nil {
				return fail("socks5 greeting: %v", err)
			}
			var m [2]byte
			if _, err := io.ReadFull(c, m[:]); err != nil || m != [2]byte{5, 2} {
				return fail("socks5 method: %v %v", m, err)
			}
			a := []byte{1, byte(len(p.User))}
			a = append(a, p.User...)
			a = append(a, byte(len(p.Pass)))
			a = append(a, p.Pass...)
			if _, err := c.Write(a); err != nil {
				return fail("socks5 auth: %v", err)
			}
			if _, err := io.ReadFull(c, m[:]); err != nil || m[1] != 0 {
				return fail("socks5 auth reply: %v %v", m, err)
			}
		} else {
			if _, err := c.Write([]byte{5, 1, 0}); err != nil {
				return fail("socks5 greeting: %v", err)
			}
			var m [2]byte
			if _, err := io.ReadFull(c, m[:]); err != nil || m != [2]byte{5, 0} {
				return fail("socks5 method: %v %v", m, err)
			}
		}
		sa, err := socksAddr(target)
		if err != nil {
			return fail("target: %v", err)
		}
		if _, err := c.Write(append([]byte{5, 1, 0}, sa...)); err != nil {
			return fail("socks5 request: %v", err)
		}
		var h [4]byte
		if _, err := io.ReadFull(c, h[:]); err != nil {
			return fail("socks5 reply: %v", err)
		}
		if h[1] != 0 {
			return fail("socks5 reply code %d", h[1])
		}
		var rest int
		switch h[3] {
		case 1:
			rest = 4 + 2
		case 4:
			rest = 16 + 2
		case 3:
			var l [1]byte
			if _, err := io.ReadFull(c, l[:]); err != nil {
				return fail("socks5 reply: %v", err)
			}
			rest = int(l[0]) + 2
		default:
			return fail("socks5 reply atyp %d", h[3])
		}
		if _, err := io.ReadFull(c, make([]byte, rest)); err != nil {
			return fail("socks5 reply: %v", err)
		}
	default:
		return fail("unknown tcp probe kind")
	}
	if p.Silent {
		// payload-less connect: only what the proxy protocol itself needs is sent, so a relay that
		// waits for an initial payload really waits (and times out) before it connects upstream
		if len(pre) > 0 {
			if _, err := c.Write(pre); err != nil {
				return fail("write request: %v", err)
			}
			pre = nil
		}
		if p.Greet {
			g := make([]byte, len(greeting))
			if _, err := io.ReadFull(c, g); err != nil {
				return fail("read greeting of the target: %v", err)
			}
			if string(g) != greeting {
				return fail("greeting mismatch: %q", g)
			}
		} else {
			time.Sleep(time.Duration(p.SilentMs) * time.Millisecond)
		}
	}
	if _, err := c.Write(append(pre, payload...)); err != nil {
		return fail("write payload: %v", err)
	}
	got := make([]byte, len(payload))
	if _, err := io.ReadFull(c, got); err != nil {
		return fail("read echo: %v", err)
	}
	if string(got) != string(payload) {
		return fail("echo mismatch")
	}
	// half-close and expect EOF back through the chain
	c.CloseWrite()
	c.SetReadDeadline(time.Now().Add(5 * time.Second))
	if n, err := c.Read(got[:1]); n != 0 || err == nil {
		return fail("unexpected data after echo")
	}
	r.OK = true
	r.Millis = time.Since(t0).Milliseconds()
	return r
}

func basicAuth(u, p string) string {
	const tbl = "ABCDEFGHIJKLMNOPQRSTUVWXYZabcdefghijklmnopqrstuvwxyz0123456789+/"
	src := []byte(u + ":" + p)
	var out []byte
	for i := 0; i < len(src); i += 3 {
		var b [3]byte
		n := copy(b[:], src[i:])
		out = append(out, tbl[b[0]>>2], tbl[(b[0]&3)<<4|b[1]>>4])
		if n > 1 {
			out = append(out, tbl[(b[1]&15)<<2|b[2]>>6])
		} else {
			out = append(out, '=')
		}
		if n > 2 {
			out = append(out, tbl[b[2]&63])
		} else {
			out = append(out, '=')
		}
	}
	return string(out)
}

// udpExchange sends one request through a UDP server speaking kind and waits for the echo.
func udpExchange(p *Probe, addr, target string) probeResult {
	t0 := time.Now()
	r := probeResult{Kind: p.Kind, Addr: addr}
	fail := func(format string, a ...any) probeResult {
		r.Err = fmt.Sprintf(format, a...)
		r.Millis = time.Since(t0).Milliseconds()
		return r
	}
	ap, err := netip.ParseAddrPort(addr)
	if err != nil {
		return fail("addr: %v", err)
	}
	c, err := net.ListenUDP("udp4", &net.UDPAddr{IP: net.ParseIP("127.0.0.1")})
	if err != nil {
		return fail("listen: %v", err)
	}
	defer c.Close()
	payload := payloadFor(p.Seed, p.Size)
	var pre []byte
	switch p.Kind {
	case "udp-tunnel":
	case "udp-none", "udp-socks5":
		sa, err := socksAddr(target)
		if err != nil {
			return fail("target: %v", err)
		}
		if p.Kind == "udp-socks5" {
			pre = append([]byte{0, 0, 0}, sa...)
		} else {
			pre = sa
		}
	default:
		return fail("unknown udp probe kind")
	}
	msg := append(pre, payload...)
	b := make([]byte, 65536)
	deadline := time.Now().Add(10 * time.Second)
	for time.Now().Before(deadline) {
		r.Attempts++
		if _, err := c.WriteToUDPAddrPort(msg, ap); err != nil {
			return fail("send: %v", err)
		}
		wait := time.Now().Add(time.Duration(200+100*r.Attempts) * time.Millisecond)
		for {
			c.SetReadDeadline(wait)
			n, _, err := c.ReadFromUDPAddrPort(b)
			if err != nil {
				break
			}
			body := b[:n]
			switch p.Kind {
			case "udp-socks5":
				if n < 3 {
					return fail("short socks5 udp reply")
				}
				body = body[3:]
				fallthrough
			case "udp-none":
				k := skipSocksAddr(body)
				if k < 0 {
					return fail("bad address in reply")
				}
				body = body[k:]
			}
			switch {
			case string(body) == string(payload):
				r.OK = true
				// give a late non-target reply a moment so that it is processed before Stop
				r.Millis = time.Since(t0).Milliseconds()
				return r
			case string(body) == ntMarker+string(payload):
				r.NTSeen = true
			default:
				return fail("reply is neither the echo nor the non-target reply (%d bytes)", len(body))
			}
		}
	}
	return fail("no echo after %d sends", r.Attempts)
}

// rejectProbe sends bytes that cannot authenticate and reports how the server ends the connection.
func rejectProbe(p *Probe, addr string) probeResult {
	t0 := time.Now()
	r := probeResult{Kind: p.Kind, Addr: addr}
	c, attempts, err := dialRetry(addr, 8*time.Second)
	r.Attempts = attempts
	if err != nil {
		r.Err = "dial: " + err.Error()
		return r
	}
	defer c.Close()
	wait := 700 * time.Millisecond // policies that keep the connection open are not waited for
	if p.ExpectRST || p.ExpectFB {
		wait = 5 * time.Second
	}
	c.SetDeadline(time.Now().Add(wait))
	if _, err := c.Write(payloadFor(p.Seed, p.Size)); err != nil {
		r.Outcome = "write-error"
	} else {
		b := make([]byte, 4096)
		n, err := c.Read(b)
		if p.ExpectFB && n > 0 {
			// the fallback target is the echo server: every byte we sent must come back unchanged
			sent := payloadFor(p.Seed, p.Size)
			got := append([]byte(nil), b[:n]...)
			for len(got) < len(sent) {
				m, err := c.Read(b)
				got = append(got, b[:m]...)
				if err != nil {
					break
				}
			}
			if string(got) == string(sent) {
				r.Outcome = "fallback-echo"
			} else {
				r.Outcome = "data-mismatch"
				r.Err = fmt.Sprintf("sent %d bytes, got %d back, equal prefix %v", len(sent), len(got), len(got) <= len(sent) && string(got) == string(sent[:len(got)]))
			}
			r.OK = true
			r.Millis = time.Since(t0).Milliseconds()
			return r
		}
		switch {
		case n > 0:
			r.Outcome = "data"
		case errors.Is(err, io.EOF):
			r.Outcome = "eof"
		case isTimeout(err):
			r.Outcome = "timeout"
		default:
			r.Outcome = "rst"
		}
	}
	r.OK = true
	r.Millis = time.Since(t0).Milliseconds()
	return r
}

// scanProbe behaves like a port scanner: connect and close at once (scan-close), or connect, send
// one byte and close (scan-byte). Nothing is expected back; the process must survive.
func scanProbe(p *Probe, addr string) probeResult {
	t0 := time.Now()
	r := probeResult{Kind: p.Kind, Addr: addr}
	c, attempts, err := dialRetry(addr, 8*time.Second)
	r.Attempts = attempts
	if err != nil {
		r.Err = "dial: " + err.Error()
		return r
	}
	if p.Kind == "scan-byte" {
		c.SetWriteDeadline(time.Now().Add(2 * time.Second))
		c.Write([]byte{byte(p.Seed)})
	}
	c.Close()
	r.OK = true
	r.Millis = time.Since(t0).Milliseconds()
	return r
}

func isTimeout(err error) bool {
	var ne net.Error
	return errors.As(err, &ne) && ne.Timeout()
}

// udpGarbage sends datagrams that cannot be valid to a UDP listener; nothing is expected back.
func udpGarbage(p *Probe, addr string) probeResult {
	r := probeResult{Kind: p.Kind, Addr: addr}
	ap, err := netip.ParseAddrPort(addr)
	if err != nil {
		r.Err = err.Error()
		return r
	}
	c, err := net.ListenUDP("udp4", &net.UDPAddr{IP: net.ParseIP("127.0.0.1")})
	if err != nil {
		r.Err = err.Error()
		return r
	}
	defer c.Close()
	for _, n := range []int{0, 1, 15, 16, 31, 32, 64, p.Size} {
		c.WriteToUDPAddrPort(payloadFor(p.Seed+uint64(n), n), ap)
	}
	r.OK = true
	return r
}
