package c12

import (
	"fmt"
	"os"
	"slices"
	"strings"
	"testing"

	"verif/internal/ev"
)

// Round 6: fixed plans that pin the classes the random plans only sample.
//
//  1. listener address family: IPv4-bound / IPv6-bound with native clients, dual-stack ("[::]:port" and
//     ":port", network "udp") with IPv4 clients (IPv4-mapped at the relay) and one native IPv6 client;
//  2. configuration form: udpListeners / deprecated single-listener fields;
//  3. a refused send inside a batch followed by ordinary datagrams of the same session.
//
// In every (listener class, batch mode) the whole lifecycle runs: sessions established, new clients whose
// first datagrams cannot start a session and whose later datagram (same address:port) must, idle
// eviction (socket count back to the idle level), a later datagram from every old client answered
// through a new session, Stop with nothing left; and, with natTimeout 5 s, Stop under traffic within
// the bound.
var recFam = ev.New("C12", "listener-family-and-config-form",
	"plain, fixed plans spread over the shards: {127.0.0.1, [::1], [::], \":port\"} x {no, sendmmsg} x rotating {socks5, none, direct} NAT servers, "+
		"each with an eviction plan (natTimeout 400 ms: burst with a refused datagram inside, establish, failed-then-working initialisation, eviction, restart, again) and a Stop plan "+
		"(natTimeout 5 s: establish, failed-then-working initialisation, uplink stream + reply flood, Stop); dead-upstream forms of the failed initialisation (connection refused, "+
		"association refused, name not resolving); the same server written with the deprecated single-listener fields (natTimeoutSec 1: a reply 0.5 s after the session's last datagram is still relayed, "+
		"silence evicts it within natTimeout + slack); sendmmsg bursts with one or two port-0 datagrams at the first / a middle position. A plan that did not produce its class label is run once more. "+
		"Non-trivial: every plan").
	Require(famRequired()...)

func famRequired() []string {
	var r []string
	for _, l := range listenClasses {
		for _, b := range []string{"no", "sendmmsg"} {
			r = append(r, "lifecycle:"+listenName(l)+":"+b, "stop:"+listenName(l)+":"+b)
		}
	}
	r = append(r, "legacy-evicted:no", "legacy-evicted:sendmmsg", "legacy-idle-half-held", "legacy-stop:no", "legacy-stop:sendmmsg",
		"refused-mix:sendmmsg", "refused-mix-first-in-batch:sendmmsg", "refused-mix:no", "refused-mix-then-stop:sendmmsg",
		"reinit-ok:"+reinitReject, "reinit-ok:"+reinitName, "reinit-ok:"+reinitRefused, "reinit-ok:"+reinitAssocRep, "reinit-ok-v6-client")
	return r
}

type famPlan struct {
	name string
	p    *plan
	// need: labels of the plan's outcome that must all be present for the class label(s) to be granted
	need  []string
	grant []string
	// opt: further class labels, each granted when its own label is among the plan's (judged only when the
	// harness could bound its own timing; the plan is run once more if one is lacking, but the base class stands)
	opt map[string]string
}

func famPlans() []famPlan {
	var out []famPlan
	seed := uint64(600)
	add := func(name string, p *plan, need []string, grant ...string) {
		seed++
		p.Seed = seed
		out = append(out, famPlan{name: name, p: p, need: need, grant: grant})
	}
	k := 0
	for _, l := range listenClasses {
		for _, b := range []string{"no", "sendmmsg"} {
			server := natProtos[k%3]
			k++
			client, byName, variant := "direct", false, reinitReject
			if server == "direct" {
				// a tunnel has one fixed target: the only way a session cannot start is a dead upstream
				client, byName, variant = "none", true, reinitName
			}
			ln := listenName(l)
			add("lifecycle/"+ln+"/"+b, &plan{ServerProto: server, BatchMode: b, ClientProto: client, EndpointByName: byName, NATTimeoutMs: 400, NSessions: 3, Listen: l,
				// (establish directly before the pause: with natTimeout 400 ms on a loaded machine the sessions must not be half expired already)
				Phases: []phase{{Kind: phRefusedMix, N: 6, Pct: 1, Variant: "single"}, {Kind: phReinit, N: 3, Variant: variant}, {Kind: phEstablish},
					{Kind: phPauseEvict}, {Kind: phResend}, {Kind: phReinit, N: 1, Variant: variant}, {Kind: phResend}, {Kind: phPauseEvict}, {Kind: phResend}}},
				[]string{"eviction-observed", "restart-answered", "reinit-ok:" + variant, "stop-prompt"}, "lifecycle:"+ln+":"+b)
			add("stop/"+ln+"/"+b, &plan{ServerProto: server, BatchMode: b, ClientProto: client, EndpointByName: byName, NATTimeoutMs: 5000, NSessions: 3, Listen: l,
				Phases: []phase{{Kind: phEstablish}, {Kind: phReinit, N: 3, Variant: variant}, {Kind: phStream}, {Kind: phFlood}}, StopDelayMs: 5},
				[]string{"stop-bound-judged", "stop-prompt", "stop-under-bidirectional-traffic", "reinit-ok:" + variant}, "stop:"+ln+":"+b)
		}
	}
	// dead upstream: connection refused / association refused / name not resolving, then alive again
	add("dead-upstream/dual/sendmmsg", &plan{ServerProto: "socks5", BatchMode: "sendmmsg", ClientProto: "socks5", EndpointByName: true, NATTimeoutMs: 400, NSessions: 3, Listen: lisDual,
		Phases: []phase{{Kind: phEstablish}, {Kind: phReinit, N: 3, Variant: reinitRefused}, {Kind: phReinit, N: 1, Variant: reinitAssocRep}, {Kind: phReinit, N: 1, Variant: reinitName},
			{Kind: phResend}, {Kind: phPauseEvict}, {Kind: phResend}}},
		[]string{"eviction-observed", "restart-answered", "reinit-ok:" + reinitRefused, "reinit-ok:" + reinitAssocRep, "reinit-ok:" + reinitName, "reinit-ok-v6-client"})
	add("dead-upstream/v6/no", &plan{ServerProto: "none", BatchMode: "no", ClientProto: "socks5", ClientAuth: true, EndpointByName: true, NATTimeoutMs: 400, NSessions: 2, Listen: lisV6,
		Phases: []phase{{Kind: phReinit, N: 1, Variant: reinitAssocRep}, {Kind: phReinit, N: 2, Variant: reinitRefused}, {Kind: phEstablish}, {Kind: phPauseEvict}, {Kind: phResend}}},
		[]string{"eviction-observed", "restart-answered", "reinit-ok:" + reinitRefused, "reinit-ok:" + reinitAssocRep})
	add("dead-upstream/dualany/sendmmsg", &plan{ServerProto: "none", BatchMode: "sendmmsg", ClientProto: "2022-blake3-aes-128-gcm", EndpointByName: true, NATTimeoutMs: 5000, NSessions: 3, Listen: lisDualAny,
		Phases: []phase{{Kind: phEstablish}, {Kind: phReinit, N: 3, Variant: reinitName}, {Kind: phStream}}},
		[]string{"stop-prompt", "reinit-ok:" + reinitName})

	// deprecated single-listener fields: natTimeoutSec must be the timeout that evicts
	// (idleHalf: half a second after a session's last datagram a reply from the destination must still be relayed -
	// with a timeout far below the configured second it would not be)
	add("legacy/v4/sendmmsg", &plan{ServerProto: "socks5", BatchMode: "sendmmsg", ClientProto: "direct", NATTimeoutMs: 1000, NSessions: 2, ConfigForm: formLegacy,
		Phases: []phase{{Kind: phEstablish}, {Kind: phIdleHalf}, {Kind: phPauseEvict}, {Kind: phResend}, {Kind: phRefusedMix, N: 6, Pct: 2, Variant: "single"}}},
		[]string{"legacy-evicted-at-configured-timeout", "restart-answered", "stop-prompt"}, "legacy-evicted:sendmmsg")
	out[len(out)-1].opt = map[string]string{"idle-half-held": "legacy-idle-half-held"}
	add("legacy/dualany/no", &plan{ServerProto: "none", BatchMode: "no", ClientProto: "direct", NATTimeoutMs: 1000, NSessions: 3, ConfigForm: formLegacy, Listen: lisDualAny,
		Phases: []phase{{Kind: phEstablish}, {Kind: phIdleHalf}, {Kind: phPauseEvict}, {Kind: phResend}}},
		[]string{"legacy-evicted-at-configured-timeout", "restart-answered", "stop-prompt"}, "legacy-evicted:no")
	out[len(out)-1].opt = map[string]string{"idle-half-held": "legacy-idle-half-held"}
	add("legacy/dual/sendmmsg/perf-fields", &plan{ServerProto: "none", BatchMode: "sendmmsg", RelayBatch: 4, SendChanCap: 64, ClientProto: "direct", NATTimeoutMs: 1000, NSessions: 3, ConfigForm: formLegacy, Listen: lisDual,
		Phases: []phase{{Kind: phEstablish}, {Kind: phReinit, N: 2, Variant: reinitReject}, {Kind: phIdleHalf}, {Kind: phPauseEvict}, {Kind: phResend}}},
		[]string{"legacy-evicted-at-configured-timeout", "restart-answered", "reinit-ok:" + reinitReject, "stop-prompt"}, "legacy-evicted:sendmmsg")
	out[len(out)-1].opt = map[string]string{"idle-half-held": "legacy-idle-half-held"}
	add("legacy/v6/no", &plan{ServerProto: "socks5", BatchMode: "no", ClientProto: "none", NATTimeoutMs: 1000, NSessions: 2, ConfigForm: formLegacy, Listen: lisV6,
		Phases: []phase{{Kind: phEstablish}, {Kind: phIdleHalf}, {Kind: phPauseEvict}, {Kind: phResend}}},
		[]string{"legacy-evicted-at-configured-timeout", "restart-answered", "stop-prompt"}, "legacy-evicted:no")
	out[len(out)-1].opt = map[string]string{"idle-half-held": "legacy-idle-half-held"}
	for _, b := range []string{"no", "sendmmsg"} {
		add("legacy-stop/"+b, &plan{ServerProto: "socks5", BatchMode: b, ClientProto: "direct", NATTimeoutMs: 5000, NSessions: 3, ConfigForm: formLegacy, Listen: lisDual,
			Phases: []phase{{Kind: phEstablish}, {Kind: phStream}, {Kind: phFlood}}, StopDelayMs: 5},
			[]string{"stop-bound-judged", "stop-prompt", "stop-under-bidirectional-traffic"}, "legacy-stop:"+b)
	}

	// a refused send inside a batch, ordinary datagrams of the same session behind it
	add("refused-mix/sendmmsg/fresh", &plan{ServerProto: "socks5", BatchMode: "sendmmsg", ClientProto: "direct", NATTimeoutMs: 400, NSessions: 2,
		Phases: []phase{{Kind: phRefusedMix, N: 6, Pct: 0, Variant: "single"}, {Kind: phRefusedMix, N: 12, Pct: 5, Variant: "double"}, {Kind: phRefusedMix, N: 3, Pct: 1, Variant: "single"},
			{Kind: phPauseEvict}, {Kind: phRefusedMix, N: 12, Pct: 0, Variant: "double"}, {Kind: phResend}}},
		[]string{"refused-mix:sendmmsg", "refused-mix-first-in-batch:sendmmsg", "eviction-observed", "restart-answered", "stop-prompt"})
	add("refused-mix/sendmmsg/relay-batch-4", &plan{ServerProto: "none", BatchMode: "sendmmsg", RelayBatch: 4, ClientProto: "direct", NATTimeoutMs: 400, NSessions: 4, Listen: lisDual,
		Phases: []phase{{Kind: phRefusedMix, N: 12, Pct: 2, Variant: "double"}, {Kind: phEstablish}, {Kind: phRefusedMix, N: 6, Pct: 4, Variant: "single"}, {Kind: phRefusedMix, N: 6, Pct: 0, Variant: "single"}}},
		[]string{"refused-mix:sendmmsg", "refused-mix-first-in-batch:sendmmsg", "stop-prompt"})
	add("refused-mix/no", &plan{ServerProto: "socks5", BatchMode: "no", ClientProto: "direct", NATTimeoutMs: 400, NSessions: 2,
		Phases: []phase{{Kind: phRefusedMix, N: 6, Pct: 0, Variant: "single"}, {Kind: phEstablish}, {Kind: phRefusedMix, N: 12, Pct: 3, Variant: "double"}}},
		[]string{"refused-mix:no", "stop-prompt"})
	add("refused-mix/sendmmsg/then-stop", &plan{ServerProto: "none", BatchMode: "sendmmsg", ClientProto: "direct", NATTimeoutMs: 5000, NSessions: 3,
		Phases: []phase{{Kind: phEstablish}, {Kind: phRefusedMix, N: 12, Pct: 3, Variant: "double"}}},
		[]string{"refused-mix:sendmmsg", "stop-bound-judged", "stop-prompt"}, "refused-mix-then-stop:sendmmsg")
	add("refused-mix/sendmmsg/under-stream-then-stop", &plan{ServerProto: "socks5", BatchMode: "sendmmsg", ClientProto: "direct", NATTimeoutMs: 5000, NSessions: 2, Listen: lisV6,
		Phases: []phase{{Kind: phStream}, {Kind: phFlood}, {Kind: phRefusedMix, N: 6, Pct: 1, Variant: "single"}}},
		[]string{"refused-mix-unjudged", "stop-bound-judged", "stop-prompt"})
	return out
}

// TestFamilyLifecycle runs the fixed round-6 plans; with VERIF_SHARDS=k shard i takes every k-th plan.
func TestFamilyLifecycle(t *testing.T) {
	shards, shard := 1, 0
	fmt.Sscan(os.Getenv("VERIF_SHARDS"), &shards)
	fmt.Sscan(os.Getenv("VERIF_SHARD"), &shard)
	if shards < 1 {
		shards = 1
	}
	dir := workDir(t)
	only := os.Getenv("VERIF_C12_FAM_ONLY") // development: substring of the plan name
	plans := famPlans()
	mine := famAssign(plans, shards)
	for i, fp := range plans {
		if mine[i] != shard%shards || (only != "" && !strings.Contains(fp.name, only)) {
			continue
		}
		granted := map[string]bool{}
		baseOK := false
		var last []string
		for attempt := 0; attempt < 2; attempt++ {
			labels := checkPlan(t, fp.p, dir)
			if t.Failed() {
				return
			}
			last = labels
			var lacking []string
			for _, n := range fp.need {
				if raceBuild && n == "stop-bound-judged" {
					continue // under the race detector Stop timing is not judged (see stopBound)
				}
				if !slices.Contains(labels, n) {
					lacking = append(lacking, n)
				}
			}
			if len(lacking) == 0 {
				baseOK = true
				for _, g := range fp.grant {
					granted[g] = true
				}
				for _, l := range labels {
					if strings.HasPrefix(l, "reinit-ok") || strings.HasPrefix(l, "refused-mix") {
						granted[l] = true
					}
				}
			}
			for l, g := range fp.opt {
				if slices.Contains(labels, l) {
					granted[g] = true
				} else if !granted[g] {
					lacking = append(lacking, l)
				}
			}
			if len(lacking) == 0 {
				break
			}
			fmt.Fprintf(os.Stderr, "C12 fixed plan %s (attempt %d) did not reach its class: lacking %v; labels %v\n", fp.name, attempt+1, lacking, labels)
			recFam.Label("rerun-because-incomplete", 1)
		}
		_ = last
		if !baseOK {
			recFam.Label("incomplete:"+fp.name, 1)
			continue
		}
		got := []string{"batch:" + fp.p.BatchMode, "listen:" + listenName(fp.p.Listen), "form:" + formName(fp.p.ConfigForm)}
		for g := range granted {
			got = append(got, g)
		}
		slices.Sort(got)
		recFam.Case(fp.p.class(), true, got...)
	}
}

// famAssign spreads the plans over the shards by estimated duration (longest first, each to the least
// loaded shard; deterministic).
func famAssign(plans []famPlan, shards int) []int {
	cost := make([]float64, len(plans))
	order := make([]int, len(plans))
	for i, fp := range plans {
		order[i] = i
		T := float64(fp.p.NATTimeoutMs) / 1000
		c := 0.3
		for _, ph := range fp.p.Phases {
			switch ph.Kind {
			case phPauseEvict:
				c += T + 0.2
			case phSteady:
				c += 2.5 * T
			default:
				c += 0.1
			}
		}
		cost[i] = c
	}
	slices.SortStableFunc(order, func(a, b int) int {
		switch {
		case cost[a] > cost[b]:
			return -1
		case cost[a] < cost[b]:
			return 1
		}
		return a - b
	})
	load := make([]float64, shards)
	out := make([]int, len(plans))
	for _, i := range order {
		best := 0
		for s := range load {
			if load[s] < load[best] {
				best = s
			}
		}
		out[i] = best
		load[best] += cost[i]
	}
	return out
}
