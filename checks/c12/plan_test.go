package c12

import (
	"fmt"
	"os"

	"pgregory.net/rapid"

	"verif/internal/ev"
	"verif/internal/udpsvc"
)

const sigStopBlocks = "stop-blocks-for-nat-timeout"

// phase kinds
const (
	phEstablish  = "establish"    // every session: one paced datagram (echo expected)
	phBurst      = "burst"        // every session: N datagrams back to back (queued uplink)
	phStream     = "stream"       // async: every session keeps sending until the scenario ends
	phFlood      = "flood"        // async: the destinations keep sending replies to every session
	phPauseShort = "pauseShort"   // no client traffic for a fraction of the NAT timeout
	phPauseEvict = "pauseEvict"   // no client traffic for >= NAT timeout + slack: sessions must be gone
	phResend     = "resend"       // every session: one paced datagram again
	phBlockInit  = "blockInit"    // new sessions whose initialisation / first pack blocks in the resolver
	phReject     = "reject"       // new sessions whose first datagram the router rejects
	phFailInit   = "failInit"     // new sessions whose initialisation fails (endpoint or target name does not resolve)
	phKeepAlive  = "keepAlive"    // every session keeps sending with gaps of natTimeout/5 for 1.5 x natTimeout: it must keep its relay socket
	phPackFail   = "packFail"     // after everything is idle: new sessions whose datagrams ALL fail to pack (target name does not resolve / payload exceeds the outbound client's MTU), then silence: they must be evicted too
	phSteady     = "steady"       // every session sends one datagram every natTimeout/30 for 2.5 x natTimeout: the destination must see one source address only
	phGapKeep    = "gapKeepAlive" // session i sends single datagrams with gaps of gapFractions[i%5] x natTimeout (4 gaps), then a reply arrives 0.5 x natTimeout after its last datagram
	phLateFail   = "lateFail"     // socks5 client: new sessions whose initialisation fails after the control connection is up (scripted at the fake upstream)
	phRefused    = "refused"      // every session: a burst of N datagrams the kernel refuses to send (target port 0) back to back, then a paced valid one
	phExpiry     = "expiryProbe"  // one datagram per session timed around the instant the idle timeout fires (packet arrives while the session is torn down)
	phReinit     = "reinit"       // round 6: N new clients whose first datagrams make session initialisation FAIL (Variant), then - from the same client address:port - a valid datagram that must start a working session
	phIdleHalf   = "idleHalf"     // round 6: every session sends one datagram; half a NAT timeout after it the destination sends one more reply, which must still be relayed (the session lives for the CONFIGURED timeout, not a shorter one)
	phRefusedMix = "refusedMix"   // round 6: every session writes N datagrams back to back of which number Pct (Variant "double": also Pct+2) is addressed to port 0 (refused by the kernel); every other one must reach the destination
)

// variants of the reinit phase: how the first attempts fail
const (
	reinitReject   = "reject"           // the router rejects the first datagrams' destination
	reinitName     = "endpoint-name"    // the upstream's name does not resolve (SERVFAIL), later it does
	reinitRefused  = "upstream-refuses" // socks5 client: the upstream's name points at an address where nothing listens (TCP connect refused), later at the live upstream
	reinitAssocRep = "assoc-failure"    // socks5 client: the upstream answers UDP ASSOCIATE with a failure code, later normally
)

var reinitVariants = []string{reinitReject, reinitReject, reinitName, reinitRefused, reinitAssocRep}

type phase struct {
	Kind    string `json:"kind"`
	N       int    `json:"n,omitempty"`
	Pct     int    `json:"pct,omitempty"`     // pauseShort: percent of the NAT timeout
	Variant string `json:"variant,omitempty"` // packFail: "unresolvable" | "toobig"; lateFail, reinit, refusedMix: see there
}

type plan struct {
	Seed           uint64 `json:"seed"`
	ServerProto    string `json:"serverProto"`
	ServerEIH      bool   `json:"serverEIH"`
	BatchMode      string `json:"batchMode"`
	RelayBatch     int    `json:"relayBatch"`
	SendChanCap    int    `json:"sendChanCap"`
	ClientProto    string `json:"clientProto"`
	ClientEIH      bool   `json:"clientEIH"`
	EndpointByName bool   `json:"endpointByName"`
	ClientAuth     bool   `json:"clientAuth,omitempty"` // socks5 client with username/password
	NATTimeoutMs   int    `json:"natTimeoutMs"`
	NSessions      int    `json:"nSessions"`
	// Listen: listener address class (round 6): "" 127.0.0.1 | "v6" [::1] | "dual" [::] | "dualany" ":port" (both dual-stack, network "udp")
	Listen string `json:"listen,omitempty"`
	// ConfigForm: "" udpListeners | "legacy" deprecated single-listener fields (natTimeoutSec: whole seconds)
	ConfigForm string  `json:"configForm,omitempty"`
	Phases     []phase `json:"phases"`
	// Stop is issued after the last phase, while the async phases are still running.
	StopDelayMs int `json:"stopDelayMs"` // delay between the last phase and Stop
	// HandshakeMs: when the last phase left SOCKS5 handshakes of new sessions held by the upstream, they
	// are released this long after Stop was issued (scripted in-flight work: Stop may take that much longer).
	HandshakeMs int `json:"handshakeMs"`
}

var lateFailVariants = []string{"bound-domain-unresolvable", "bound-domain-wrong-family", "reply-failure", "close-after-reply"}

// gapFractions (percent of the NAT timeout) of the gapKeepAlive phase, by session index.
var gapFractions = []int{20, 45, 55, 70, 90}

var natProtos = []string{"socks5", "none", "direct"}
var ssProtos = []string{"2022-blake3-aes-128-gcm", "2022-blake3-aes-256-gcm"}
var clientProtos = []string{"direct", "direct", "socks5", "none", "2022-blake3-aes-128-gcm", "2022-blake3-aes-256-gcm"}

// allowSS2022: Shadowsocks 2022 servers need natTimeout >= 60 s. A Stop that hits the known
// finding then costs 60 s, so those plans are generated only when asked for (thorough stages).
func allowSS2022() bool { return os.Getenv("VERIF_C12_SS2022") != "" }

func drawPlan(rt *rapid.T) *plan {
	p := &plan{Seed: rapid.Uint64().Draw(rt, "seed")}
	ss := allowSS2022() && rapid.IntRange(0, 9).Draw(rt, "ssServer") < 5
	if ss {
		p.ServerProto = rapid.SampledFrom(ssProtos).Draw(rt, "serverProto")
		p.ServerEIH = rapid.Bool().Draw(rt, "serverEIH")
		p.NATTimeoutMs = 60000
	} else {
		p.ServerProto = rapid.SampledFrom(natProtos).Draw(rt, "serverProto")
	}
	p.BatchMode = rapid.SampledFrom([]string{"no", "sendmmsg"}).Draw(rt, "batchMode")
	if p.BatchMode == "sendmmsg" {
		p.RelayBatch = rapid.SampledFrom([]int{0, 1, 4}).Draw(rt, "relayBatch")
	}
	p.SendChanCap = rapid.SampledFrom([]int{0, 64}).Draw(rt, "sendChanCap")
	p.ClientProto = rapid.SampledFrom(clientProtos).Draw(rt, "clientProto")
	if udpsvc.IsSS2022(p.ClientProto) {
		p.ClientEIH = rapid.Bool().Draw(rt, "clientEIH")
	}
	if p.ClientProto != "direct" {
		p.EndpointByName = rapid.Bool().Draw(rt, "endpointByName")
	}
	if p.ClientProto == "socks5" {
		p.ClientAuth = rapid.Bool().Draw(rt, "clientAuth")
	}
	p.NSessions = rapid.SampledFrom([]int{1, 1, 2, 3, 4, 8, 16}).Draw(rt, "nSessions")
	if !ss {
		// round 6: address family of the listener and the form of its configuration (NAT relays)
		p.Listen = rapid.SampledFrom([]string{lisV4, lisV4, lisV6, lisDual, lisDual, lisDualAny}).Draw(rt, "listen")
		p.ConfigForm = rapid.SampledFrom([]string{formListeners, formListeners, formLegacy}).Draw(rt, "configForm")
	}

	evict := !ss && rapid.IntRange(0, 9).Draw(rt, "shape") < 4
	if !ss {
		if evict && p.ConfigForm == formLegacy {
			p.NATTimeoutMs = rapid.SampledFrom([]int{1000, 1000, 2000}).Draw(rt, "natTimeoutEvictSec") // natTimeoutSec counts whole seconds
		} else if evict {
			p.NATTimeoutMs = rapid.SampledFrom([]int{300, 400, 500, 700, 1000, 2000}).Draw(rt, "natTimeoutEvict")
		} else {
			p.NATTimeoutMs = rapid.SampledFrom([]int{5000, 6000}).Draw(rt, "natTimeoutStop")
		}
	}
	drawPhase := func(alphabet []string) phase {
		k := rapid.SampledFrom(alphabet).Draw(rt, "phase")
		ph := phase{Kind: k}
		switch k {
		case phBurst:
			ph.N = rapid.SampledFrom([]int{1, 8, 64, 200}).Draw(rt, "burstN")
		case phRefused:
			ph.N = rapid.SampledFrom([]int{2, 8, 40}).Draw(rt, "refusedN")
		case phRefusedMix:
			ph.N = rapid.SampledFrom([]int{3, 6, 12}).Draw(rt, "mixN")
			ph.Pct = rapid.IntRange(0, ph.N-2).Draw(rt, "mixRefusedAt")
			ph.Variant = rapid.SampledFrom([]string{"single", "single", "double"}).Draw(rt, "mixVariant")
		case phReinit:
			ph.N = rapid.IntRange(1, 3).Draw(rt, "reinitSessions")
			ph.Variant = rapid.SampledFrom(reinitVariants).Draw(rt, "reinitVariant")
		case phPauseShort:
			ph.Pct = rapid.SampledFrom([]int{5, 20, 50}).Draw(rt, "pausePct")
		case phBlockInit, phReject, phFailInit:
			ph.N = rapid.IntRange(1, 4).Draw(rt, "newSessions")
		case phLateFail:
			ph.N = rapid.IntRange(1, 3).Draw(rt, "lateFailSessions")
			ph.Variant = rapid.SampledFrom(lateFailVariants).Draw(rt, "lateFailVariant")
		case phPackFail:
			ph.N = rapid.IntRange(1, 3).Draw(rt, "packFailSessions")
			ph.Variant = rapid.SampledFrom([]string{"unresolvable", "toobig"}).Draw(rt, "packFailVariant")
		}
		return ph
	}
	if evict {
		alphabet := []string{phEstablish, phBurst, phFlood, phPauseShort, phPauseEvict, phPauseEvict, phResend, phReject, phFailInit, phExpiry, phExpiry, phRefused,
			phRefusedMix, phRefusedMix, phReinit, phReinit, phIdleHalf}
		if p.NATTimeoutMs >= 400 && p.NATTimeoutMs <= 700 {
			alphabet = append(alphabet, phKeepAlive, phKeepAlive)
		}
		if p.NATTimeoutMs >= 400 && p.NATTimeoutMs <= 1000 {
			alphabet = append(alphabet, phSteady, phSteady, phPackFail, phPackFail)
		}
		if p.NATTimeoutMs == 1000 {
			alphabet = append(alphabet, phGapKeep)
		}
		if p.ClientProto == "socks5" {
			alphabet = append(alphabet, phLateFail, phLateFail, phLateFail)
		}
		n := rapid.IntRange(0, 5).Draw(rt, "nPhases")
		for i := 0; i < n; i++ {
			p.Phases = append(p.Phases, drawPhase(alphabet))
		}
		// make sure an eviction is actually observed: establish ... pauseEvict ... resend
		has := false
		for _, ph := range p.Phases {
			if ph.Kind == phPauseEvict {
				has = true
			}
		}
		if !has {
			p.Phases = append(p.Phases, phase{Kind: phPauseEvict})
		}
		if p.Phases[0].Kind != phEstablish {
			p.Phases = append([]phase{{Kind: phEstablish}}, p.Phases...)
		}
		if rapid.Bool().Draw(rt, "resendAfter") {
			p.Phases = append(p.Phases, phase{Kind: phResend})
		}
	} else {
		// Stop shape: a prefix of arbitrary phases, then the traffic that is flowing when Stop comes,
		// then optionally sessions that are being initialised at that moment
		prefix := []string{phEstablish, phEstablish, phBurst, phPauseShort, phResend, phBlockInit, phReject, phFailInit, phStream, phFlood, phRefused, phRefusedMix, phReinit}
		n := rapid.IntRange(0, 3).Draw(rt, "nPrefix")
		for i := 0; i < n; i++ {
			p.Phases = append(p.Phases, drawPhase(prefix))
		}
		switch t := rapid.IntRange(0, 9).Draw(rt, "trafficAtStop"); {
		case t < 1: // idle
		case t < 3: // client datagrams only
			p.Phases = append(p.Phases, phase{Kind: phStream})
		case t < 5: // replies only
			p.Phases = append(p.Phases, phase{Kind: phEstablish}, phase{Kind: phFlood})
		default: // both directions
			if rapid.Bool().Draw(rt, "floodFirst") {
				p.Phases = append(p.Phases, phase{Kind: phEstablish}, phase{Kind: phFlood}, phase{Kind: phStream})
			} else {
				p.Phases = append(p.Phases, phase{Kind: phStream}, phase{Kind: phFlood})
			}
		}
		if rapid.IntRange(0, 9).Draw(rt, "tail") < 4 {
			p.Phases = append(p.Phases, drawPhase([]string{phBurst, phBlockInit, phBlockInit, phReject, phFailInit, phRefusedMix, phReinit}))
		}
	}
	p.StopDelayMs = rapid.SampledFrom([]int{0, 0, 1, 5, 30}).Draw(rt, "stopDelay")
	p.HandshakeMs = rapid.SampledFrom([]int{100, 300, 600}).Draw(rt, "handshakeMs")
	return p
}

// stopUnderTraffic: the plan's Stop comes while client datagrams are queued/flowing and replies
// are in flight (the non-trivial class of the property).
func (p *plan) stopUnderTraffic() (uplink, downlink bool) {
	for _, ph := range p.Phases {
		switch ph.Kind {
		case phStream:
			uplink = true
		case phFlood:
			downlink = true
		case phPauseEvict:
			uplink = false // the pause ends client traffic (a later stream phase restarts it)
		}
	}
	if n := len(p.Phases); n > 0 && p.Phases[n-1].Kind == phBurst && p.StopDelayMs <= 1 {
		uplink = true
	}
	return
}

func (p *plan) class() string {
	s := ""
	for _, ph := range p.Phases {
		switch ph.Kind {
		case phReinit:
			s += "rei:" + ph.Variant + ","
		case phRefusedMix:
			s += "rmx,"
		case phIdleHalf:
			s += "idh,"
		default:
			s += ph.Kind[:2] + ph.Kind[len(ph.Kind)-1:] + ","
		}
	}
	nb := "1"
	switch {
	case p.NSessions >= 8:
		nb = "8+"
	case p.NSessions >= 2:
		nb = "2-4"
	}
	return fmt.Sprintf("%s|eih=%v|%s|%s|ceih=%v|byname=%v|T=%d|n=%s|%s", p.ServerProto, p.ServerEIH, p.BatchMode, p.ClientProto, p.ClientEIH, p.EndpointByName, p.NATTimeoutMs, nb, s) + fmt.Sprintf("|auth=%v", p.ClientAuth) +
		fmt.Sprintf("|listen=%s|form=%s", listenName(p.Listen), formName(p.ConfigForm))
}

var _ = ev.IsKnown
