package c12

import (
	"encoding/json"
	"fmt"
	"os"
	"path/filepath"
	"slices"
	"strings"
	"testing"

	"pgregory.net/rapid"

	"verif/internal/ev"
)

var recLife = ev.New("C12", "lifecycle-plans",
	"rapid: one plan = real service on loopback from generated JSON (server socks5/none/direct with natTimeout 300 ms..2 s for eviction plans, 5..6 s for Stop plans; ss2022 with 60 s only when enabled; "+
		"client direct or socks5/none/ss2022 towards a harness upstream proxy, endpoint by IP or by name; both batch modes) with 1..16 sessions and a drawn phase list over "+
		"{establish, burst, continuous uplink stream, reply flood from the destination, short pause, pause >= natTimeout (eviction check), resend, sessions whose "+
		"initialisation blocks in the resolver / fails / is rejected by the router}; Stop (context cancel) comes after the last phase while the asynchronous phases still run, "+
		"so it lands in every phase. Oracle: sockets and relay goroutines counted from /proc/self/fd and the runtime stack dump; Run must return within 2.5 s when natTimeout >= 5 s; "+
		"afterwards no relay goroutine and no descriptor remain. Round 6: the listener is bound to 127.0.0.1, [::1], [::] or \":port\" (dual-stack: IPv4 clients are IPv4-mapped at the relay, every third client is native IPv6) "+
		"and written either as udpListeners or with the deprecated single-listener fields (natTimeoutSec); phases 'reinit' (new clients whose first datagrams cannot start a session - router reject, "+
		"upstream name not resolving, upstream refusing the connection or the association - and whose later datagram from the same address:port must) and 'refusedMix' (bursts with a port-0 datagram inside; "+
		"every other datagram must reach the destination). Non-trivial: Stop under uplink and reply traffic, or an observed eviction; distinct key = configuration and phase classes").
	Require("eviction-observed", "stop-under-bidirectional-traffic", "stop-bound-judged", "batch:no", "batch:sendmmsg",
		"listen:v4", "listen:v6", "listen:dual", "listen:dualany", "form:listeners", "form:legacy", "legacy-evicted-at-configured-timeout", "restart-answered")

func workDir(t interface{ TempDir() string }) string {
	if d := os.Getenv("VERIF_WORK"); d != "" {
		return d
	}
	return t.TempDir()
}

func writeJournal(name string, v any) func() {
	d := os.Getenv("VERIF_WORK")
	if d == "" {
		return func() {}
	}
	p := filepath.Join(d, fmt.Sprintf("journal-%s-%d.json", name, os.Getpid()))
	b, _ := json.Marshal(v)
	os.WriteFile(p, b, 0o644)
	return func() { os.Remove(p) }
}

type failer interface {
	Fatalf(string, ...any)
	Logf(string, ...any)
}

// ssStopHit is set once a ss2022 plan (natTimeout 60 s) reproduced the listed Stop finding: the
// class is then excluded for the rest of the process, each further hit would cost a minute.
var ssStopHit bool

func checkPlan(t failer, p *plan, dir string) (labels []string) {
	if ssStopHit && p.NATTimeoutMs >= 60000 {
		if up, _ := p.stopUnderTraffic(); up {
			recLife.Excluded(1)
			return
		}
	}
	done := writeJournal("c12", p)
	out := runPlan(p, dir)
	if out.setupErr == nil && out.violation == "" && len(out.liveMiss) > 0 && !out.fatal {
		recLife.Label("liveness-retried", 1)
		if os.Getenv("VERIF_DEBUG") != "" {
			pj, _ := json.Marshal(p)
			fmt.Fprintf(os.Stderr, "C12 liveness miss (will retry): %v\nplan=%s\n", out.liveMiss, pj)
		}
		first := out.liveMiss
		out = runPlan(p, dir)
		if out.setupErr == nil && out.violation == "" && len(out.liveMiss) > 0 {
			sig := strings.SplitN(out.liveMiss[0], ":", 2)[0]
			out.violation = fmt.Sprintf("SIG=C12/%s missed in two runs of the plan; first run: %v; second run: %v", sig, first, out.liveMiss)
		}
	}
	done()
	pj, _ := json.Marshal(p)
	if out.setupErr != nil {
		recLife.Label("setup-failed", 1)
		if out.fatal {
			t.Fatalf("harness cannot continue: %v\nplan=%s", out.setupErr, pj)
		}
		fmt.Fprintf(os.Stderr, "C12 scenario setup failed (no verdict): %v\n", out.setupErr)
		t.Logf("scenario setup failed: %v", out.setupErr)
		return
	}
	if out.violation != "" {
		sig := strings.TrimPrefix(strings.Fields(out.violation)[0], "SIG=C12/")
		if ev.IsKnown("C12", sig) && !out.fatal {
			recLife.KnownHit(sig)
			if p.NATTimeoutMs >= 60000 {
				ssStopHit = true
			}
			return
		}
		t.Fatalf("%s\nplan=%s", out.violation, pj)
	}
	labels = out.labels
	recLife.Case(p.class(), out.nontrivial, out.labels...)
	if out.nontrivial {
		recLife.Sample(out.sample)
	}
	if ms := out.stopDur.Milliseconds(); ms > maxStopMs {
		maxStopMs = ms
		recLife.Extra("max-stop-ms", maxStopMs)
		recLife.Extra("max-stop-class", p.class())
	}
	if os.Getenv("VERIF_DEBUG") != "" && out.stopDur.Milliseconds() > 100 {
		pj, _ := json.Marshal(p)
		fmt.Fprintf(os.Stderr, "C12 slow stop %v plan=%s\n", out.stopDur, pj)
	}
	return labels
}

var maxStopMs int64 = -1

func TestLifecyclePlans(t *testing.T) {
	dir := workDir(t)
	rapid.Check(t, func(rt *rapid.T) {
		p := drawPlan(rt)
		checkPlan(rt, p, dir)
	})
}

// TestReplayC12 re-runs a journaled plan.
func TestReplayC12(t *testing.T) {
	f := os.Getenv("VERIF_REPLAY")
	if f == "" {
		t.Skip("VERIF_REPLAY not set")
	}
	b, err := os.ReadFile(f)
	if err != nil {
		t.Fatal(err)
	}
	var p plan
	if err := json.Unmarshal(b, &p); err != nil || p.ServerProto == "" {
		t.Skipf("not a C12 plan: %v", err)
	}
	checkPlan(t, &p, t.TempDir())
}

var recRegr = ev.New("C12", "stop-under-traffic-regression",
	"plain: the fixed history of the listed finding (sessions streaming client datagrams while the destination floods replies, natTimeout 5 s, then cancel) "+
		"repeated up to VERIF_C12_REGR_TRIALS times per relay implementation, stopping at the first hit. Non-trivial: every trial (Stop under bidirectional traffic)")

// TestStopUnderTraffic is the frozen form of the shrunk failing plan: it does not depend on the
// generator and gives the schedule several chances, but stops at the first hit (each hit costs the
// NAT timeout).
func TestStopUnderTraffic(t *testing.T) {
	trials := 6
	if v := os.Getenv("VERIF_C12_REGR_TRIALS"); v != "" {
		fmt.Sscan(v, &trials)
	}
	dir := workDir(t)
	for _, cfg := range []struct{ server, batch string }{{"socks5", "no"}, {"none", "sendmmsg"}} {
		for i := 0; i < trials; i++ {
			p := &plan{Seed: uint64(i), ServerProto: cfg.server, BatchMode: cfg.batch, ClientProto: "direct", NATTimeoutMs: 5000, NSessions: 4,
				Phases: []phase{{Kind: phStream}, {Kind: phFlood}}, StopDelayMs: 20}
			out := runPlan(p, dir)
			if out.setupErr != nil {
				if out.fatal {
					t.Fatalf("harness cannot continue: %v", out.setupErr)
				}
				continue
			}
			if out.violation != "" {
				sig := strings.TrimPrefix(strings.Fields(out.violation)[0], "SIG=C12/")
				if ev.IsKnown("C12", sig) && !out.fatal {
					recRegr.KnownHit(sig)
					recRegr.Label(fmt.Sprintf("hit-at-trial:%s/%s", cfg.server, cfg.batch), int64(i+1))
					break // stop at the first failure
				}
				t.Fatalf("%s\n(trial %d, server %s, batch %s)", out.violation, i+1, cfg.server, cfg.batch)
			}
			recRegr.Case(fmt.Sprintf("%s|%s", cfg.server, cfg.batch), out.nontrivial, "batch:"+cfg.batch, "prompt")
		}
	}
}

var recSS = ev.New("C12", "ss2022-idle-eviction",
	"plain (thorough only, one scenario per shard): Shadowsocks 2022 server (natTimeout 60 s, the minimum it accepts), sessions established, "+
		"optional reply flood, no client traffic for 60 s + slack: sockets and goroutines must be back at the idle level, the next datagram of the same client "+
		"session is answered through a new relay socket, Stop prompt, nothing left. Non-trivial: eviction observed")

func TestSS2022IdleEviction(t *testing.T) {
	shard := 0
	fmt.Sscan(os.Getenv("VERIF_SHARD"), &shard)
	p := &plan{Seed: uint64(100 + shard), ServerProto: ssProtos[shard%2], ServerEIH: shard%3 == 1, BatchMode: []string{"no", "sendmmsg"}[shard%2],
		ClientProto: []string{"direct", "none", "socks5"}[shard%3], NATTimeoutMs: 60000, NSessions: 1 + 2*shard%5,
		Phases: []phase{{Kind: phEstablish}, {Kind: phBurst, N: 8}}}
	if shard%2 == 1 {
		p.Phases = append(p.Phases, phase{Kind: phFlood})
	}
	p.Phases = append(p.Phases, phase{Kind: phPauseEvict}, phase{Kind: phResend})
	done := writeJournal("c12ss", p)
	out := runPlan(p, workDir(t))
	done()
	pj, _ := json.Marshal(p)
	if out.setupErr != nil {
		t.Skipf("setup failed: %v", out.setupErr)
	}
	if out.setupErr == nil && out.violation == "" && len(out.liveMiss) > 0 && !out.fatal {
		// a bounded-time miss must reproduce, exactly as for the random plans
		first := out.liveMiss
		fmt.Fprintf(os.Stderr, "C12 liveness miss (will retry): %v\nplan=%s\n", first, pj)
		recSS.Label("liveness-retry", 1)
		out = runPlan(p, workDir(t))
		if out.setupErr != nil {
			t.Skipf("setup failed on retry: %v", out.setupErr)
		}
		if out.violation == "" && len(out.liveMiss) > 0 {
			out.violation = fmt.Sprintf("SIG=C12/%s missed in two runs of the plan; first run: %v; second run: %v", strings.SplitN(out.liveMiss[0], ":", 2)[0], first, out.liveMiss)
		}
	}
	if out.violation != "" {
		sig := strings.TrimPrefix(strings.Fields(out.violation)[0], "SIG=C12/")
		if ev.IsKnown("C12", sig) && !out.fatal {
			recSS.KnownHit(sig)
			return
		}
		t.Fatalf("%s\nplan=%s", out.violation, pj)
	}
	recSS.Case(p.class(), out.nontrivial, out.labels...)
	recSS.Sample(out.sample)
}

var recFixed = ev.New("C12", "keepalive-and-expiry",
	"plain: fixed plans for two interleavings the random plans reach rarely within the quick budget: (a) sessions that keep sending with gaps of natTimeout/5 for 1.5 x natTimeout "+
		"must keep their relay socket (the uplink extends the idle deadline), then are evicted and restarted; (b) 16 sessions each send one datagram spread over +-4 ms around the instant "+
		"their idle timeout fires (packet arrives while the session is being torn down), three rounds; (c) sessions rejected by the router, sessions whose initialisation fails, "+
		"and sessions whose initialisation (endpoint name) or first pack (target name) is still blocked in the owned resolver when Stop is issued. NAT relay, both batch modes. Non-trivial: every plan")

func TestKeepAliveAndExpiry(t *testing.T) {
	dir := workDir(t)
	plans := []*plan{
		{Seed: 1, ServerProto: "socks5", BatchMode: "no", ClientProto: "direct", NATTimeoutMs: 400, NSessions: 4,
			Phases: []phase{{Kind: phEstablish}, {Kind: phKeepAlive}, {Kind: phPauseEvict}, {Kind: phResend}}},
		{Seed: 2, ServerProto: "none", BatchMode: "sendmmsg", ClientProto: "none", NATTimeoutMs: 400, NSessions: 4,
			Phases: []phase{{Kind: phEstablish}, {Kind: phKeepAlive}, {Kind: phPauseEvict}, {Kind: phResend}}},
		{Seed: 3, ServerProto: "socks5", BatchMode: "no", ClientProto: "direct", NATTimeoutMs: 300, NSessions: 16,
			Phases: []phase{{Kind: phExpiry}, {Kind: phExpiry}, {Kind: phExpiry}, {Kind: phResend}}},
		{Seed: 4, ServerProto: "none", BatchMode: "sendmmsg", ClientProto: "direct", NATTimeoutMs: 300, NSessions: 16,
			Phases: []phase{{Kind: phExpiry}, {Kind: phExpiry}, {Kind: phExpiry}, {Kind: phResend}}},
		// (c) sessions whose initialisation is rejected / fails / is still blocked in the resolver when Stop comes
		{Seed: 5, ServerProto: "socks5", BatchMode: "no", ClientProto: "none", EndpointByName: true, NATTimeoutMs: 5000, NSessions: 2,
			Phases: []phase{{Kind: phEstablish}, {Kind: phReject, N: 2}, {Kind: phFailInit, N: 2}, {Kind: phBlockInit, N: 3}}},
		{Seed: 6, ServerProto: "none", BatchMode: "sendmmsg", ClientProto: "direct", NATTimeoutMs: 5000, NSessions: 2,
			Phases: []phase{{Kind: phEstablish}, {Kind: phReject, N: 2}, {Kind: phFailInit, N: 2}, {Kind: phBlockInit, N: 3}}},
		{Seed: 7, ServerProto: "socks5", BatchMode: "sendmmsg", ClientProto: "socks5", EndpointByName: true, NATTimeoutMs: 5000, NSessions: 3,
			Phases: []phase{{Kind: phEstablish}, {Kind: phBlockInit, N: 2}, {Kind: phReject, N: 1}, {Kind: phStream}, {Kind: phFlood}, {Kind: phBlockInit, N: 2}}, HandshakeMs: 300},
		{Seed: 8, ServerProto: "none", BatchMode: "no", ClientProto: "socks5", NATTimeoutMs: 5000, NSessions: 2,
			Phases: []phase{{Kind: phEstablish}, {Kind: phBlockInit, N: 4}}, HandshakeMs: 400},
		{Seed: 9, ServerProto: "socks5", BatchMode: "sendmmsg", ClientProto: "socks5", EndpointByName: true, NATTimeoutMs: 5000, NSessions: 2,
			Phases: []phase{{Kind: phEstablish}, {Kind: phBlockInit, N: 3}}},
		// (d) sessions whose datagrams all fail to pack must be evicted like any other idle session
		{Seed: 10, ServerProto: "socks5", BatchMode: "no", ClientProto: "direct", NATTimeoutMs: 400, NSessions: 2,
			Phases: []phase{{Kind: phEstablish}, {Kind: phPackFail, N: 2, Variant: "unresolvable"}, {Kind: phResend}}},
		{Seed: 11, ServerProto: "none", BatchMode: "sendmmsg", ClientProto: "direct", NATTimeoutMs: 400, NSessions: 1,
			Phases: []phase{{Kind: phPackFail, N: 2, Variant: "toobig"}, {Kind: phPackFail, N: 1, Variant: "unresolvable"}}},
		{Seed: 12, ServerProto: "direct", BatchMode: "sendmmsg", ClientProto: "none", NATTimeoutMs: 400, NSessions: 1,
			Phases: []phase{{Kind: phEstablish}, {Kind: phPackFail, N: 2, Variant: "toobig"}}},
		{Seed: 13, ServerProto: "socks5", BatchMode: "no", ClientProto: "2022-blake3-aes-128-gcm", NATTimeoutMs: 400, NSessions: 1,
			Phases: []phase{{Kind: phPackFail, N: 2, Variant: "toobig"}}},
		// (f) several datagrams the kernel refuses to send in one batch, then valid traffic, eviction, restart, Stop
		{Seed: 16, ServerProto: "socks5", BatchMode: "sendmmsg", ClientProto: "direct", NATTimeoutMs: 400, NSessions: 2,
			Phases: []phase{{Kind: phRefused, N: 40}, {Kind: phRefused, N: 2}, {Kind: phPauseEvict}, {Kind: phResend}}},
		{Seed: 17, ServerProto: "none", BatchMode: "sendmmsg", ClientProto: "direct", NATTimeoutMs: 5000, NSessions: 3,
			Phases: []phase{{Kind: phEstablish}, {Kind: phRefused, N: 40}}},
		{Seed: 18, ServerProto: "socks5", BatchMode: "no", ClientProto: "direct", NATTimeoutMs: 400, NSessions: 2,
			Phases: []phase{{Kind: phRefused, N: 8}, {Kind: phPauseEvict}}},
		// (g) socks5 client (with and without username/password): initialisation fails after the control connection is up
		{Seed: 19, ServerProto: "socks5", BatchMode: "no", ClientProto: "socks5", ClientAuth: true, NATTimeoutMs: 400, NSessions: 1,
			Phases: []phase{{Kind: phLateFail, N: 2, Variant: "bound-domain-unresolvable"}, {Kind: phLateFail, N: 1, Variant: "bound-domain-wrong-family"},
				{Kind: phLateFail, N: 2, Variant: "reply-failure"}, {Kind: phLateFail, N: 1, Variant: "close-after-reply"}, {Kind: phEstablish}, {Kind: phPauseEvict}}},
		{Seed: 20, ServerProto: "none", BatchMode: "sendmmsg", ClientProto: "socks5", EndpointByName: true, NATTimeoutMs: 400, NSessions: 1,
			Phases: []phase{{Kind: phEstablish}, {Kind: phLateFail, N: 2, Variant: "bound-domain-unresolvable"}, {Kind: phLateFail, N: 1, Variant: "bound-domain-wrong-family"},
				{Kind: phLateFail, N: 2, Variant: "reply-failure"}, {Kind: phLateFail, N: 1, Variant: "close-after-reply"}, {Kind: phResend}}},
		// (e) steady traffic (gaps natTimeout/30, 2.5 x natTimeout) keeps the session; silence ends it
		{Seed: 14, ServerProto: "socks5", BatchMode: "no", ClientProto: "direct", NATTimeoutMs: 500, NSessions: 3,
			Phases: []phase{{Kind: phSteady}, {Kind: phPauseEvict}, {Kind: phResend}}},
		{Seed: 15, ServerProto: "none", BatchMode: "sendmmsg", ClientProto: "direct", NATTimeoutMs: 400, NSessions: 2,
			Phases: []phase{{Kind: phEstablish}, {Kind: phSteady}, {Kind: phPauseEvict}}},
	}
	for _, p := range plans {
		before := recLife // checkPlan records into recLife; keep this test's own counters as well
		_ = before
		checkPlan(t, p, dir)
		recFixed.Case(p.class(), true, "batch:"+p.BatchMode)
	}
}

var recGaps = ev.New("C12", "keepalive-gaps",
	"plain, one plan per shard (shard 0: sendmmsg, shard 1: generic): natTimeout 1.2 s, five sessions sending single datagrams with gaps of 0.2/0.45/0.55/0.7/0.9 x natTimeout "+
		"(four gaps each, every uplink batch is one packet), then a reply from the destination 0.5 x natTimeout after the last datagram, then silence >= natTimeout (eviction) and a restart. "+
		"A gap class is judged only when the harness can bound the relay-side gap (echo(k+1) - send(k)) below natTimeout; if one of the classes 0.55/0.7/0.9 stayed unjudged the plan is run once more. "+
		"Non-trivial: every plan").Require("judged-0.55T", "judged-0.7T", "judged-0.9T")

// TestKeepAliveGaps: keep-alive traffic whose gaps lie between half the NAT timeout and the NAT timeout.
func TestKeepAliveGaps(t *testing.T) {
	modes := []string{"sendmmsg", "no"}
	if v := os.Getenv("VERIF_SHARDS"); v == "2" {
		shard := 0
		fmt.Sscan(os.Getenv("VERIF_SHARD"), &shard)
		modes = modes[shard%2 : shard%2+1]
	}
	dir := workDir(t)
	for i, mode := range modes {
		p := &plan{Seed: uint64(30 + i), ServerProto: []string{"socks5", "none"}[i%2], BatchMode: mode, ClientProto: "direct", NATTimeoutMs: 1200, NSessions: 5,
			Phases: []phase{{Kind: phGapKeep}, {Kind: phPauseEvict}, {Kind: phResend}}}
		for attempt := 0; attempt < 2; attempt++ {
			labels := checkPlan(t, p, dir)
			if t.Failed() {
				return
			}
			judged := 0
			for _, f := range []string{"0.55T", "0.7T", "0.9T"} {
				if slices.Contains(labels, "keepalive-gap:"+f+":"+mode) {
					judged++
				}
			}
			if judged == 3 {
				recGaps.Case(p.class(), true, "judged-0.55T", "judged-0.7T", "judged-0.9T", "batch:"+mode)
				break
			}
			recGaps.Label("rerun-because-unjudged", 1)
		}
	}
}
