//go:build !race

package c12

const raceBuild = false
