package c12

import (
	"bytes"
	"context"
	"encoding/json"
	"errors"
	"fmt"
	"net/netip"
	"os"
	"sync"
	"time"

	"github.com/database64128/shadowsocks-go/service"
	"go.uber.org/zap"

	"verif/internal/udpsvc"
)

// Listener address classes of a plan (plan.Listen).
const (
	lisV4      = ""        // "127.0.0.1:port": IPv4 socket, IPv4 clients
	lisV6      = "v6"      // "[::1]:port": IPv6 socket, IPv6 clients
	lisDual    = "dual"    // "[::]:port", network "udp": dual-stack socket; IPv4 clients are seen as ::ffff:127.0.0.1
	lisDualAny = "dualany" // ":port", network "udp": the same socket, written without a host
)

var listenClasses = []string{lisV4, lisV6, lisDual, lisDualAny}

func listenName(c string) string {
	if c == lisV4 {
		return "v4"
	}
	return c
}

// Configuration forms of a plan (plan.ConfigForm).
const (
	formListeners = ""       // "udpListeners": [{network, address, natTimeout, batchMode, ...}]
	formLegacy    = "legacy" // deprecated server-level fields: listen, enableUDP, natTimeoutSec, udpBatchMode, udpRelayBatchSize, udpSendChannelCapacity
)

func formName(f string) string {
	if f == formListeners {
		return "listeners"
	}
	return f
}

// listenAddress returns the text of the listen address for a class, the address the port is probed
// on, and the addresses IPv4 / IPv6 clients send to (invalid when the class does not serve that family).
func listenAddress(class string, port uint16) (text string, probe netip.Addr, v4, v6 netip.AddrPort) {
	lo4, lo6 := netip.MustParseAddr("127.0.0.1"), netip.IPv6Loopback()
	switch class {
	case lisV6:
		return fmt.Sprintf("[::1]:%d", port), lo6, netip.AddrPort{}, netip.AddrPortFrom(lo6, port)
	case lisDual:
		return fmt.Sprintf("[::]:%d", port), netip.IPv6Unspecified(), netip.AddrPortFrom(lo4, port), netip.AddrPortFrom(lo6, port)
	case lisDualAny:
		return fmt.Sprintf(":%d", port), netip.IPv6Unspecified(), netip.AddrPortFrom(lo4, port), netip.AddrPortFrom(lo6, port)
	}
	return fmt.Sprintf("127.0.0.1:%d", port), lo4, netip.AddrPortFrom(lo4, port), netip.AddrPort{}
}

// svcRun is one running instance of the real service (the C12-local counterpart of udpsvc.Service:
// the document is the one udpsvc.Spec renders, with the server's listener rewritten for the plan's
// listener address class and configuration form).
type svcRun struct {
	JSON   []byte
	V4, V6 netip.AddrPort // where IPv4 / IPv6 clients reach the relay
	cancel context.CancelFunc
	done   chan struct{}
	ok     bool
	once   sync.Once
	stopAt time.Time
	doneAt time.Time
}

var svcLogger = func() *zap.Logger {
	if os.Getenv("VERIF_UDPSVC_LOG") != "" {
		if l, err := zap.NewDevelopment(); err == nil {
			return l
		}
	}
	return zap.NewNop()
}()

var errNotBound = errors.New("listener did not come up")

// renderConfig turns the Spec's document into the one this plan asks for.
func renderConfig(sp *udpsvc.Spec, p *plan, listen string, dir string) ([]byte, error) {
	doc, err := sp.ToJSON(dir)
	if err != nil {
		return nil, err
	}
	if p.Listen == lisV4 && p.ConfigForm == formListeners {
		return doc, nil
	}
	var m map[string]any
	dec := json.NewDecoder(bytes.NewReader(doc))
	dec.UseNumber()
	if err := dec.Decode(&m); err != nil {
		return nil, err
	}
	srv := m["servers"].([]any)[0].(map[string]any)
	lis := srv["udpListeners"].([]any)[0].(map[string]any)
	lis["address"] = listen
	if p.ConfigForm == formLegacy {
		if p.NATTimeoutMs%1000 != 0 {
			return nil, fmt.Errorf("natTimeoutSec cannot express %d ms", p.NATTimeoutMs)
		}
		delete(srv, "udpListeners")
		srv["listen"] = listen
		srv["enableUDP"] = true
		srv["natTimeoutSec"] = p.NATTimeoutMs / 1000
		for from, to := range map[string]string{"batchMode": "udpBatchMode", "relayBatchSize": "udpRelayBatchSize",
			"serverRecvBatchSize": "udpServerRecvBatchSize", "sendChannelCapacity": "udpSendChannelCapacity"} {
			if v, ok := lis[from]; ok {
				srv[to] = v
			}
		}
	}
	return json.MarshalIndent(m, "", " ")
}

// startService allocates the port, renders the configuration, decodes it like the program does
// (unknown fields are errors), builds the manager and runs it. It returns once the UDP listener is bound.
func startService(sp *udpsvc.Spec, p *plan, dir string) (*svcRun, error) {
	udpsvc.InstallResolver()
	for attempt := 0; ; attempt++ {
		s, err := startServiceOnce(sp, p, dir)
		if err == nil {
			return s, nil
		}
		if attempt >= 3 || !errors.Is(err, errNotBound) {
			return nil, err
		}
	}
}

func startServiceOnce(sp *udpsvc.Spec, p *plan, dir string) (*svcRun, error) {
	_, probe, _, _ := listenAddress(p.Listen, 0)
	port, err := udpsvc.FreePort(probe, false)
	if err != nil {
		return nil, err
	}
	listen, _, v4, v6 := listenAddress(p.Listen, port)
	sp.ServerAddr = v4
	if !v4.IsValid() {
		sp.ServerAddr = v6
	}
	sp.RelayAddrs = []netip.AddrPort{sp.ServerAddr}
	doc, err := renderConfig(sp, p, listen, dir)
	if err != nil {
		return nil, err
	}
	var cfg service.Config
	dec := json.NewDecoder(bytes.NewReader(doc))
	dec.DisallowUnknownFields()
	if err := dec.Decode(&cfg); err != nil {
		return nil, fmt.Errorf("config rejected by decoder: %w\n%s", err, doc)
	}
	mgr, err := cfg.Manager(svcLogger)
	if err != nil {
		return nil, fmt.Errorf("config rejected by Manager: %w\n%s", err, doc)
	}
	ctx, cancel := context.WithCancel(context.Background())
	s := &svcRun{JSON: doc, V4: v4, V6: v6, cancel: cancel, done: make(chan struct{})}
	go func() {
		s.ok = mgr.Run(ctx)
		s.doneAt = time.Now()
		mgr.Close()
		close(s.done)
	}()
	deadline := time.Now().Add(10 * time.Second)
	for {
		if udpsvc.UDPPortBound(port) {
			return s, nil
		}
		select {
		case <-s.done:
			return nil, fmt.Errorf("%w: Run returned early (ok=%v)", errNotBound, s.ok)
		default:
		}
		if time.Now().After(deadline) {
			s.cancel()
			<-s.done
			return nil, errNotBound
		}
		time.Sleep(2 * time.Millisecond)
	}
}

// StopAsync cancels the run context (what the program does on SIGTERM) and returns a channel that
// is closed when Manager.Run has returned.
func (s *svcRun) StopAsync() <-chan struct{} {
	s.once.Do(func() {
		s.stopAt = time.Now()
		s.cancel()
	})
	return s.done
}

// Stop waits up to max for Run to return and reports how long it took.
func (s *svcRun) Stop(max time.Duration) (time.Duration, bool) {
	ch := s.StopAsync()
	select {
	case <-ch:
		return time.Since(s.stopAt), true
	case <-time.After(max):
		return time.Since(s.stopAt), false
	}
}

// StopDuration returns how long Manager.Run took to return after the cancel (valid once done).
func (s *svcRun) StopDuration() time.Duration { return s.doneAt.Sub(s.stopAt) }

// StoppedFor returns the time since StopAsync was first called.
func (s *svcRun) StoppedFor() time.Duration { return time.Since(s.stopAt) }

// RunOK reports Manager.Run's result (valid after done).
func (s *svcRun) RunOK() bool { return s.ok }

// clientTarget is the relay address the i-th client session of a plan uses: on a dual-stack listener
// every third session is a native IPv6 client, all others are IPv4 clients (IPv4-mapped at the relay).
func (s *svcRun) clientTarget(i int) netip.AddrPort {
	switch {
	case !s.V4.IsValid():
		return s.V6
	case s.V6.IsValid() && i%3 == 2:
		return s.V6
	}
	return s.V4
}
