package c12

import (
	"fmt"
	"math/rand/v2"
	"net"
	"net/netip"
	"os"
	"runtime/debug"
	"sort"
	"strings"
	"sync"
	"sync/atomic"
	"time"

	"verif/internal/udpsvc"
)

var scenarioCounter atomic.Uint32

var pollerOnce sync.Once

var targetBase = netip.MustParseAddr("127.0.12.2")

const (
	pacedWait  = time.Second
	pacedTries = 3
	evictSlack = 3 * time.Second // a session must be gone natTimeout + slackFor(natTimeout) after its last client datagram
)

// stopBound: Run must return within this after cancel; judged only when natTimeout >= 2*stopBound.
// Under the race detector everything is several times slower, so the bound is widened and, with
// natTimeout <= 5 s, Stop timing is then not judged at all (the race stage looks for races,
// crashes and leaks).
var stopBound = func() time.Duration {
	if raceBuild {
		return 8 * time.Second
	}
	return 2500 * time.Millisecond
}()

func keyBytes(seed uint64, salt uint64, n int) []byte {
	r := rand.New(rand.NewPCG(seed, salt))
	b := make([]byte, n)
	for i := range b {
		b[i] = byte(r.Uint32())
	}
	return b
}

func keysFor(method string, eih bool, seed, salt uint64) udpsvc.SS2022Keys {
	n := 16
	if strings.Contains(method, "256") {
		n = 32
	}
	k := udpsvc.SS2022Keys{Method: method, PSK: keyBytes(seed, salt, n)}
	if eih {
		k.UPSK = keyBytes(seed, salt+1000, n)
		k.User = "user1"
	}
	return k
}

type exec struct {
	p    *plan
	w    *udpsvc.World
	up   *udpsvc.Upstream
	spec *udpsvc.Spec
	svc  *svcRun

	main      []*hclient
	extra     []*hclient
	extraNext int
	mainDest  []int

	dIP        [2]int
	dSlow      int
	dRej       int
	dNx        int
	dP0        int
	nameUp     string
	nameSlow   string
	gate       chan struct{}
	gateOpen   bool
	hsGate     chan struct{} // SOCKS5 upstream holds UDP ASSOCIATE replies until closed
	hsHeld     bool
	stopStream chan struct{}
	stopFlood  chan struct{}
	streamOn   bool
	floodOn    bool
	genWG      sync.WaitGroup

	established bool
	settled     bool // every main session answered a paced datagram and nothing unpaced has been sent since: no session creation is pending
	evictions   int
	sIdle       int
	gIdle       int
	lastFrom    map[uint16]netip.AddrPort

	mu       sync.Mutex
	liveMiss []string
	labels   map[string]int
}

func (x *exec) label(l string) { x.mu.Lock(); x.labels[l]++; x.mu.Unlock() }
func (x *exec) miss(sig, s string) {
	x.mu.Lock()
	x.liveMiss = append(x.liveMiss, sig+": "+s)
	x.mu.Unlock()
}

type outcome struct {
	violation  string
	liveMiss   []string
	setupErr   error
	fatal      bool // the process state is not clean any more: the test must stop
	labels     []string
	nontrivial bool
	sample     map[string]any
	stopDur    time.Duration
}

func (x *exec) openGate() {
	if !x.gateOpen {
		x.gateOpen = true
		close(x.gate)
	}
}

func (x *exec) releaseHandshakes() {
	if x.hsHeld {
		x.hsHeld = false
		close(x.hsGate)
		x.up.HoldHandshakes(nil)
	}
}

func (x *exec) stopStreams() {
	if x.streamOn {
		close(x.stopStream)
		x.streamOn = false
		x.stopStream = make(chan struct{})
	}
}
func (x *exec) stopFloods() {
	if x.floodOn {
		close(x.stopFlood)
		x.floodOn = false
		x.stopFlood = make(chan struct{})
	}
}

func (x *exec) nextExtra() *hclient {
	c := x.extra[x.extraNext]
	x.extraNext++
	return c
}

func (x *exec) sockets() int { _, s := udpsvc.FDs(); return s }

// pacedAll sends one datagram per session and waits for the echoes. Liveness is claimed only for
// paced traffic: while the same sessions are also streaming unpaced datagrams or being flooded with
// replies, a dropped datagram is ordinary UDP behaviour, so nothing is judged then.
func (x *exec) pacedAll(sig, what string) {
	judged := !x.streamOn && !x.floodOn
	if !judged {
		x.label("paced-under-load-unjudged")
	}
	missesBefore := len(x.liveMiss)
	defer func() { x.settled = judged && len(x.liveMiss) == missesBefore }()
	var wg sync.WaitGroup
	for i, c := range x.main {
		d := x.mainDest[i]
		wg.Go(func() {
			if !judged {
				c.Paced(d, 16, pacedWait/10, 1)
				return
			}
			if seq, ok, n := c.Paced(d, 16, pacedWait, pacedTries); !ok {
				x.miss(sig, fmt.Sprintf("%s: session %d seq %d got no echo after %d datagrams", what, c.ID, seq, n))
			} else if n > 1 {
				x.label("paced-retried")
			}
		})
	}
	wg.Wait()
}

func (x *exec) snapshotFrom() map[uint16]netip.AddrPort {
	m := map[uint16]netip.AddrPort{}
	for _, c := range x.main {
		if a, ok := x.w.Last(c.ID); ok {
			m[c.ID] = a.From
		}
	}
	return m
}

func runPlan(p *plan, workDir string) (out outcome) {
	x := &exec{p: p, labels: map[string]int{}, gate: make(chan struct{}), stopStream: make(chan struct{}), stopFlood: make(chan struct{})}
	scn := scenarioCounter.Add(1) + uint32(os.Getpid())<<12
	T := time.Duration(p.NATTimeoutMs) * time.Millisecond
	fail := func(sig, format string, args ...any) {
		if out.violation == "" {
			out.violation = "SIG=C12/" + sig + " " + fmt.Sprintf(format, args...)
		}
	}
	finish := func() {
		out.liveMiss = x.liveMiss
		for l, n := range x.labels {
			_ = n
			out.labels = append(out.labels, l)
		}
		sort.Strings(out.labels)
	}
	defer finish()

	// The descriptor baseline below must include what the Go runtime itself keeps open once any socket has
	// been used (epoll + eventfd). The driver's journal write used to initialise the poller by accident; a
	// run without VERIF_WORK reported those two descriptors as "sockets-after-stop" in its first plan.
	pollerOnce.Do(func() {
		if c, err := net.ListenUDP("udp4", net.UDPAddrFromAddrPort(netip.MustParseAddrPort("127.0.0.1:0"))); err == nil {
			c.Close()
		}
	})
	if !udpsvc.WaitFor(5*time.Second, func() bool { return len(udpsvc.RepoGoroutines()) == 0 }) {
		out.setupErr = fmt.Errorf("repo goroutines alive before the scenario:\n%s", udpsvc.Summaries(udpsvc.RepoGoroutines()))
		out.fatal = true
		return
	}
	fdBase, _ := udpsvc.FDs()

	w, err := udpsvc.NewWorld(scn, targetBase, 2, false)
	if err != nil {
		out.setupErr = err
		return
	}
	x.w = w
	defer w.Close()
	udpsvc.InstallResolver()
	x.nameUp = fmt.Sprintf("up-%x.c12.test", scn)
	x.nameSlow = fmt.Sprintf("slow-%x.c12.test", scn)
	nameRej := fmt.Sprintf("rej-%x.c12.test", scn)
	nameNx := fmt.Sprintf("nx-%x.c12.test", scn)
	lo := netip.MustParseAddr("127.0.0.1")
	udpsvc.SetName(x.nameUp, udpsvc.NameRule{IP: lo})
	udpsvc.SetName(x.nameSlow, udpsvc.NameRule{IP: w.IPs[1], Gate: x.gate})
	udpsvc.SetName(nameRej, udpsvc.NameRule{IP: w.IPs[0]})
	udpsvc.SetName(nameNx, udpsvc.NameRule{Fail: true})
	defer func() {
		x.openGate()
		for _, n := range []string{x.nameUp, x.nameSlow, nameRej, nameNx} {
			udpsvc.DelName(n)
		}
	}()
	x.dIP[0] = w.AddDest(0, "")
	x.dIP[1] = w.AddDest(1, "")
	x.dSlow = w.AddDest(1, x.nameSlow)
	x.dRej = w.AddDest(0, nameRej)
	x.dNx = w.AddDest(0, nameNx)
	x.dP0 = w.AddDestPort0(0)

	spec := &udpsvc.Spec{ServerProto: p.ServerProto, BatchMode: p.BatchMode, NATTimeout: fmt.Sprintf("%dms", p.NATTimeoutMs),
		RelayBatchSize: p.RelayBatch, SendChannelCapacity: p.SendChanCap, ClientProto: p.ClientProto, RejectDomains: []string{nameRej},
		ClientMTU: 1280} // smaller than the server's 1500: a 1324-byte payload passes the server and cannot be packed for the outbound path
	x.spec = spec
	if udpsvc.IsSS2022(p.ServerProto) {
		spec.ServerKeys = keysFor(p.ServerProto, p.ServerEIH, p.Seed, 1)
	}
	if p.ServerProto == "direct" {
		spec.TunnelTarget = w.DestAddr(x.dIP[0]).String()
	}
	if p.ClientProto != "direct" {
		if udpsvc.IsSS2022(p.ClientProto) {
			spec.ClientKeys = keysFor(p.ClientProto, p.ClientEIH, p.Seed, 2)
		}
		x.up, err = w.StartUpstream(p.ClientProto, spec.ClientKeys)
		if err != nil {
			out.setupErr = err
			return
		}
		if p.ClientProto == "socks5" {
			spec.ClientNetwork = "ip4" // bound addresses given by name must resolve to IPv4
			if p.ClientAuth {
				spec.ClientUser, spec.ClientPass = "harness-user", "harness-pass"
				x.up.RequireAuth(spec.ClientUser, spec.ClientPass)
			}
		}
		spec.ClientEndpoint = x.up.Addr.String()
		if p.EndpointByName {
			spec.ClientEndpoint = fmt.Sprintf("%s:%d", x.nameUp, x.up.Addr.Port())
		}
	}
	svc, err := startService(spec, p, workDir)
	if err != nil {
		out.setupErr = err
		return
	}
	x.svc = svc
	stopped := false
	defer func() {
		if !stopped {
			x.stopStreams()
			x.stopFloods()
			x.openGate()
			x.releaseHandshakes()
			if _, ok := svc.Stop(T + 30*time.Second); !ok {
				out.fatal = true
			}
		}
	}()

	// the i-th client of a plan: IPv4 or IPv6 according to the listener class (see svcRun.clientTarget)
	newClient := func(id uint16, i int) (*hclient, error) {
		codec, err := udpsvc.NewClientCodec(p.ServerProto, spec.ServerKeys, spec.ServerAddr, false)
		if err != nil {
			return nil, err
		}
		return newHClient(w, id, codec, svc.clientTarget(i))
	}
	for i := 0; i < p.NSessions; i++ {
		c, err := newClient(uint16(i), i)
		if err != nil {
			out.setupErr = err
			return
		}
		x.main = append(x.main, c)
		defer c.Close()
		d := x.dIP[i%2]
		if p.ServerProto == "direct" {
			d = x.dIP[0]
		}
		x.mainDest = append(x.mainDest, d)
	}
	nExtra := 0
	for _, ph := range p.Phases {
		switch ph.Kind {
		case phLateFail:
			nExtra += ph.N
		case phBlockInit, phReject, phFailInit, phPackFail, phReinit:
			nExtra += ph.N
		}
	}
	for i := 0; i < nExtra; i++ {
		c, err := newClient(uint16(1000+i), i)
		if err != nil {
			out.setupErr = err
			return
		}
		x.extra = append(x.extra, c)
		defer c.Close()
	}
	time.Sleep(5 * time.Millisecond)
	x.sIdle = x.sockets()
	x.gIdle = len(udpsvc.RepoGoroutines())

	proxy := p.ClientProto != "direct"
	tunnel := p.ServerProto == "direct"

	for pi, ph := range p.Phases {
		last := pi == len(p.Phases)-1
		switch ph.Kind {
		case phEstablish:
			x.pacedAll("paced-no-reply", "establish")
			x.established = true
		case phResend:
			before := x.lastFrom
			sig := "paced-no-reply"
			if x.evictions > 0 {
				sig = "no-service-after-eviction"
				x.stopFloods() // judge the restart on paced traffic only
			}
			x.pacedAll(sig, "resend")
			x.established = true
			if x.evictions > 0 && x.settled {
				x.label("restart-answered") // every evicted session's client got an echo again, from the same client socket
			}
			if before != nil {
				now := x.snapshotFrom()
				for id, a := range now {
					if b, ok := before[id]; ok {
						if a != b {
							x.label("restart-new-relay-socket")
						} else {
							x.label("restart-same-port")
						}
					}
				}
				x.lastFrom = nil
			}
		case phBurst:
			x.settled = false
			for i, c := range x.main {
				for k := 0; k < ph.N; k++ {
					c.Send(c.NextSeq(), x.mainDest[i], 16)
				}
			}
			x.established = true
			if !last && ph.N*len(x.main) >= 256 {
				// let the relay and the destinations work the backlog off before anything is judged on
				// paced traffic again (a Stop right after the burst, i.e. as the last phase, is not delayed)
				n, stable := len(x.w.Arrivals()), time.Now()
				udpsvc.WaitFor(4*time.Second, func() bool {
					if m := len(x.w.Arrivals()); m != n {
						n, stable = m, time.Now()
					}
					return time.Since(stable) > 80*time.Millisecond
				})
			}
		case phStream:
			x.settled = false
			if !x.streamOn {
				x.streamOn = true
				stop := x.stopStream
				for i, c := range x.main {
					d := x.mainDest[i]
					x.genWG.Go(func() {
						n := 0
						for {
							select {
							case <-stop:
								return
							default:
							}
							c.Send(c.NextSeq(), d, 16)
							if n++; n%16 == 0 {
								time.Sleep(100 * time.Microsecond)
							}
						}
					})
				}
				time.Sleep(20 * time.Millisecond)
			}
			x.established = true
		case phFlood:
			if !x.floodOn {
				x.floodOn = true
				stop := x.stopFlood
				for _, c := range x.main {
					x.genWG.Go(func() {
						for {
							select {
							case <-stop:
								return
							default:
							}
							if x.w.Flood(c.ID, 32, 0, stop) == 0 {
								time.Sleep(time.Millisecond)
							} else {
								time.Sleep(200 * time.Microsecond)
							}
						}
					})
				}
				time.Sleep(20 * time.Millisecond)
			}
		case phPauseShort:
			time.Sleep(min(T, 2*time.Second) * time.Duration(ph.Pct) / 100)
		case phKeepAlive:
			// Every session keeps sending; the relay must not tear an active session down. The relay-side
			// send of round k happens somewhere between the harness's send (sent[k]) and the arrival of its
			// echo (done[k]), so the gap between two relay-side sends is at most done[k+1]-sent[k]; the
			// verdict is only given when that bound stayed well below the NAT timeout (a backlog in the
			// relay or at the destination after a burst can stretch it, which is not the relay's fault).
			x.stopStreams()
			sent := time.Now()
			x.pacedAll("paced-no-reply", "keepalive start")
			x.established = true
			before := x.snapshotFrom()
			end := time.Now().Add(T * 3 / 2)
			maxGap := time.Duration(0)
			for time.Now().Before(end) {
				time.Sleep(T / 5)
				next := time.Now()
				x.pacedAll("paced-no-reply", "keepalive")
				if g := time.Since(sent); g > maxGap {
					maxGap = g
				}
				sent = next
			}
			after := x.snapshotFrom()
			if os.Getenv("VERIF_DEBUG") != "" {
				fmt.Fprintf(os.Stderr, "keepalive: T=%v maxGap=%v before=%v after=%v\n", T, maxGap, before, after)
			}
			if maxGap < T*6/10 {
				for id, a := range after {
					if b, ok := before[id]; ok && a != b {
						x.miss("active-session-evicted", fmt.Sprintf("session %d: consecutive datagrams left the relay at most %v apart (natTimeout %v) for %v, yet its relay socket changed from %s to %s",
							id, maxGap.Round(time.Millisecond), T, (T*3/2).Round(time.Millisecond), b, a))
					}
				}
				x.label("keepalive-held")
			} else {
				x.label("keepalive-gaps-too-long")
			}
		case phGapKeep:
			// Single datagrams with a fixed gap per session (20..90 % of the NAT timeout), four gaps, so every
			// uplink batch is one packet and every extension of the idle deadline matters; then the
			// destination sends one more reply half a NAT timeout after the session's last datagram.
			// Relay-side gap bound as in keepAlive: echo(k+1) - send(k); a session is judged only while
			// that bound stayed below the NAT timeout.
			x.stopStreams()
			x.stopFloods()
			x.settled = false
			type gres struct {
				judged    bool
				ports     map[uint16]bool
				lateOK    bool
				lateTried bool
				maxGap    time.Duration
			}
			res := make([]gres, len(x.main))
			var gwg sync.WaitGroup
			for i, c := range x.main {
				d := x.mainDest[i]
				frac := gapFractions[i%len(gapFractions)]
				gap := T * time.Duration(frac) / 100
				gwg.Go(func() {
					r := &res[i]
					r.ports = map[uint16]bool{}
					sent := time.Now()
					seq, ok, _ := c.Paced(d, 16, T/4, 1)
					if !ok {
						return
					}
					if a, ok := x.w.Last(c.ID); ok {
						r.ports[a.From.Port()] = true
					}
					r.judged = true
					for k := 0; k < 4; k++ {
						time.Sleep(time.Until(sent.Add(gap)))
						next := time.Now()
						seq, ok, _ = c.Paced(d, 16, T/10, 1)
						if g := time.Since(sent); g > r.maxGap {
							r.maxGap = g
						}
						if !ok || r.maxGap >= T-3*time.Millisecond {
							r.judged = false // the harness cannot show that the relay-side gap was below the timeout
							return
						}
						sent = next
						if a, ok := x.w.Last(c.ID); ok {
							r.ports[a.From.Port()] = true
						}
					}
					// a reply that arrives 0.5 T after the last client datagram: the session is still there
					time.Sleep(time.Until(sent.Add(T / 2)))
					before := c.ReplyCount(seq)
					r.lateTried = true
					x.w.Flood(c.ID, 1, 0, nil)
					r.lateOK = udpsvc.WaitFor(T/4, func() bool { return c.ReplyCount(seq) > before })
				})
			}
			gwg.Wait()
			x.established = true
			for i, r := range res {
				frac := gapFractions[i%len(gapFractions)]
				if !r.judged {
					x.label("keepalive-gap-unjudged:" + fracName(frac))
					continue
				}
				if len(r.ports) > 1 {
					x.miss("active-session-evicted", fmt.Sprintf("session %d sent single datagrams %d %% of natTimeout %v apart (relay-side gap at most %v), yet the destination saw %d relay sockets",
						i, frac, T, r.maxGap.Round(time.Millisecond), len(r.ports)))
					continue
				}
				if r.lateTried && !r.lateOK {
					x.miss("reply-within-timeout-not-relayed", fmt.Sprintf("session %d (gaps %d %% of natTimeout %v): a reply sent by the destination %v after the session's last datagram did not reach the client", i, frac, T, T/2))
					continue
				}
				x.label("keepalive-gap:" + fracName(frac) + ":" + p.BatchMode)
			}
		case phLateFail:
			if p.ClientProto != "socks5" {
				x.label("phase-skipped:lateFail")
				break
			}
			// everything idle first, so that the socket level is exact
			x.stopStreams()
			x.stopFloods()
			if !udpsvc.WaitFor(T+slackFor(T), func() bool { return x.sockets() <= x.sIdle }) {
				x.miss("idle-session-not-evicted", fmt.Sprintf("before the late-failure phase: %d sockets, idle level %d (natTimeout %v)", x.sockets(), x.sIdle, T))
				break
			}
			x.established = false
			x.settled = false
			udpsvc.WaitFor(2*time.Second, func() bool { _, o := x.up.ControlConns(); return o == 0 })
			acc0, open0 := x.up.ControlConns()
			nameBound := fmt.Sprintf("bound-%x-%d.c12.test", x.w.Scenario, pi)
			sc := &udpsvc.AssocScript{Mode: ph.Variant}
			switch ph.Variant {
			case "bound-domain-unresolvable":
				sc = &udpsvc.AssocScript{Mode: "bound-domain", BoundName: nameBound} // unknown name: NXDOMAIN
			case "bound-domain-wrong-family":
				udpsvc.SetName(nameBound, udpsvc.NameRule{IP: netip.IPv6Loopback()}) // AAAA only; the client resolves "ip4"
				defer udpsvc.DelName(nameBound)
				sc = &udpsvc.AssocScript{Mode: "bound-domain", BoundName: nameBound}
			}
			x.up.SetAssocScript(sc)
			// finalizers would close a leaked connection at some later garbage collection: keep the collector
			// out of the observation window so that "released" means released by the code
			gcOld := debug.SetGCPercent(-1)
			datagrams := 0
			for k := 0; k < ph.N; k++ {
				c := x.nextExtra()
				for j := 0; j < 2; j++ { // every datagram is a new attempt (a failed initialisation leaves no entry)
					c.Send(c.NextSeq(), x.dIP[0], 16)
					datagrams++
					time.Sleep(15 * time.Millisecond)
				}
			}
			auth := "noauth"
			if p.ClientAuth {
				auth = "auth"
			}
			attempted := udpsvc.WaitFor(time.Second, func() bool { a, _ := x.up.ControlConns(); return a-acc0 >= int64(ph.N) })
			wait := 2 * time.Second
			if ph.Variant == "close-after-reply" {
				wait = T + slackFor(T) // the association succeeded; its UDP socket lives until the idle timeout
			}
			released := udpsvc.WaitFor(wait, func() bool { _, o := x.up.ControlConns(); return o <= open0 && x.sockets() <= x.sIdle })
			debug.SetGCPercent(gcOld)
			x.up.SetAssocScript(nil)
			acc1, open1 := x.up.ControlConns()
			switch {
			case !attempted:
				x.label("late-fail-not-attempted")
			case p.ClientAuth && x.up.AuthOK() == 0:
				x.label("late-fail-auth-not-exercised")
			case !released:
				x.miss("failed-session-init-holds-resources", fmt.Sprintf("socks5-%s client, upstream scripted %q: %d datagrams caused %d control connections; %v later %d of them are still open on the relay's side and the process has %d sockets (idle level %d)",
					auth, ph.Variant, datagrams, acc1-acc0, wait, open1-open0, x.sockets(), x.sIdle))
			default:
				short := map[string]string{"bound-domain-unresolvable": "assoc-bound-domain-unresolvable", "bound-domain-wrong-family": "assoc-bound-domain-wrong-family",
					"reply-failure": "assoc-reply-failure", "close-after-reply": "upstream-closes-after-reply"}[ph.Variant]
				x.label("socks5-" + auth + "/" + short + "/control-conn-closed")
			}
		case phRefused:
			if tunnel {
				x.label("phase-skipped:refused")
				break
			}
			// N datagrams per session that the relay's outbound socket cannot send (EINVAL for port 0), written
			// back to back so that several of them share one sendmmsg batch, then a valid datagram behind them
			x.settled = false
			for _, c := range x.main {
				dests := make([]int, ph.N)
				fills := make([]int, ph.N)
				for j := range dests {
					dests[j] = x.dP0
					fills[j] = 16
				}
				c.BurstFills(dests, fills)
			}
			x.pacedAll("paced-no-reply", "valid datagram behind refused sends")
			x.established = true
			if proxy {
				x.label("refused-sends:via-upstream")
			} else {
				x.label("refused-sends:" + p.BatchMode)
			}
		case phIdleHalf:
			// One datagram per session; the relay re-arms the session's idle deadline when it forwards it, i.e. not
			// before the harness sent it (t0). Half a NAT timeout after t0 the destination sends one more reply:
			// the session must still be there and relay it. Judged per session when the datagram was seen at the
			// destination and the harness was not late (reply sent before t0 + 0.75 x natTimeout).
			x.stopStreams()
			x.stopFloods()
			x.settled = false
			held := make([]int, len(x.main)) // 0 unjudged, 1 held, 2 lost
			var hwg sync.WaitGroup
			for i, c := range x.main {
				d := x.mainDest[i]
				hwg.Go(func() {
					seq := c.NextSeq()
					t0 := time.Now()
					c.Send(seq, d, 16)
					if !udpsvc.WaitFor(T/4, func() bool { a, ok := x.w.Last(c.ID); return ok && a.Tag.Seq == seq }) {
						return
					}
					time.Sleep(time.Until(t0.Add(T / 2)))
					before := c.ReplyCount(seq)
					if time.Since(t0) > T*3/4 || x.w.Flood(c.ID, 1, 0, nil) != 1 {
						return
					}
					if udpsvc.WaitFor(2*time.Second, func() bool { return c.ReplyCount(seq) > before }) {
						held[i] = 1
					} else {
						held[i] = 2
					}
				})
			}
			hwg.Wait()
			x.established = true
			nHeld := 0
			for i, h := range held {
				switch h {
				case 1:
					nHeld++
				case 2:
					x.miss("reply-within-timeout-not-relayed", fmt.Sprintf("session %d: a reply sent by the destination %v after the session's last datagram (configured natTimeout %v, %s form) did not reach the client within 2 s", i, T/2, T, formName(p.ConfigForm)))
				}
			}
			if nHeld == len(x.main) {
				x.label("idle-half-held")
			} else {
				x.label("idle-half-unjudged")
			}
		case phRefusedMix:
			if tunnel {
				x.label("phase-skipped:refusedMix")
				break
			}
			// One burst per session, written back to back so that it shares a sendmmsg batch: ordinary datagrams
			// with one (Variant "double": two) addressed to port 0, which the relay's outbound socket refuses to
			// send (EINVAL). Every ordinary datagram - before and BEHIND the refused one - must reach the
			// destination. Judged only when nothing else can make the relay drop a datagram legitimately: no
			// stream/flood running, and the sessions' send queues known to be empty (fresh sessions, or a paced
			// echo since the last unpaced traffic; per session the relay is FIFO). The bursts are far smaller than
			// the smallest send channel (64).
			judged := !x.streamOn && !x.floodOn
			if judged && x.established && !x.settled {
				x.pacedAll("paced-no-reply", "before the refused-mix burst")
				judged = x.settled
			}
			x.settled = false
			refusedAt := map[int]bool{ph.Pct: true}
			if ph.Variant == "double" && ph.Pct+2 <= ph.N-2 {
				refusedAt[ph.Pct+2] = true
			}
			n0 := len(x.w.Arrivals())
			want := map[[2]uint32]int{} // (session, seq) -> position in the burst
			var wmu sync.Mutex
			var bwg sync.WaitGroup
			for i, c := range x.main {
				d := x.mainDest[i]
				bwg.Go(func() {
					dests := make([]int, ph.N)
					fills := make([]int, ph.N)
					for j := range dests {
						dests[j], fills[j] = d, 16
						if refusedAt[j] {
							dests[j] = x.dP0
						}
					}
					seqs := c.BurstFills(dests, fills)
					wmu.Lock()
					for j, seq := range seqs {
						if !refusedAt[j] && seq != 0 {
							want[[2]uint32{uint32(c.ID), seq}] = j
						}
					}
					wmu.Unlock()
				})
			}
			bwg.Wait()
			x.established = true
			missing := func() []string {
				seen := map[[2]uint32]bool{}
				for _, a := range x.w.Arrivals()[n0:] {
					if a.Err == nil {
						seen[[2]uint32{uint32(a.Tag.Session), a.Tag.Seq}] = true
					}
				}
				var m []string
				for k, pos := range want {
					if !seen[k] {
						m = append(m, fmt.Sprintf("session %d seq %d (datagram %d of %d)", k[0], k[1], pos+1, ph.N))
					}
				}
				sort.Strings(m)
				return m
			}
			mixClass := p.BatchMode
			if proxy {
				mixClass = "via-upstream" // the port-0 target travels inside the datagram to the upstream: nothing is refused
			}
			if !judged {
				x.label("refused-mix-unjudged")
				time.Sleep(20 * time.Millisecond)
			} else if !udpsvc.WaitFor(3*time.Second, func() bool { return len(missing()) == 0 }) {
				m := missing()
				x.miss("datagram-behind-refused-send-lost", fmt.Sprintf("%d session(s) each wrote %d datagrams back to back, number %v of them addressed to port 0 (batch mode %s, relay batch %d, client %s); 3 s later %d of the %d ordinary datagrams have not reached the destination: %s",
					len(x.main), ph.N, keysOf(refusedAt), p.BatchMode, p.RelayBatch, p.ClientProto, len(m), len(want), strings.Join(m[:min(len(m), 8)], "; ")))
			} else {
				x.label("refused-mix:" + mixClass)
				if refusedAt[0] {
					x.label("refused-mix-first-in-batch:" + mixClass)
				}
			}
			// and the sessions keep working in both directions
			x.pacedAll("paced-no-reply", "valid datagram after the refused-mix burst")
		case phReinit:
			// New clients whose first datagrams make the session initialisation fail; then the cause is removed and
			// the SAME client socket (same address:port at the relay) sends a valid datagram: it must start a
			// working session and be answered.
			variant := ph.Variant
			avail := func(v string) bool {
				switch v {
				case reinitReject:
					return !tunnel
				case reinitName:
					return proxy && p.EndpointByName
				case reinitRefused:
					return p.ClientProto == "socks5" && p.EndpointByName
				case reinitAssocRep:
					return p.ClientProto == "socks5"
				}
				return false
			}
			if !avail(variant) {
				variant = reinitReject
			}
			dead := netip.MustParseAddr("127.0.0.9") // nothing of the harness listens there
			if variant == reinitRefused {
				// make sure the connection really is refused at once (another process of the machine could hold the port)
				c, err := net.DialTimeout("tcp", netip.AddrPortFrom(dead, x.up.Addr.Port()).String(), 200*time.Millisecond)
				if err == nil {
					c.Close()
					variant = reinitReject
				}
			}
			if !avail(variant) {
				x.label("phase-skipped:reinit")
				for k := 0; k < ph.N; k++ {
					x.nextExtra()
				}
				break
			}
			judged := !x.streamOn && !x.floodOn
			x.settled = false
			failDest := x.dIP[0]
			switch variant {
			case reinitReject:
				failDest = x.dRej
			case reinitName:
				udpsvc.SetName(x.nameUp, udpsvc.NameRule{Fail: true})
			case reinitRefused:
				udpsvc.SetName(x.nameUp, udpsvc.NameRule{IP: dead})
			case reinitAssocRep:
				x.up.SetAssocScript(&udpsvc.AssocScript{Mode: "reply-failure"})
			}
			var accBefore int64
			if x.up != nil && p.ClientProto == "socks5" {
				accBefore, _ = x.up.ControlConns()
			}
			cs := make([]*hclient, ph.N)
			for k := range cs {
				cs[k] = x.nextExtra()
			}
			for j := 0; j < 2; j++ { // every datagram is a new attempt (a failed initialisation leaves no entry)
				for _, c := range cs {
					c.Send(c.NextSeq(), failDest, 16)
				}
				time.Sleep(15 * time.Millisecond)
			}
			// the failing attempts must have happened before the cause is removed (a loaded machine may be slow)
			observed := true
			switch variant {
			case reinitName, reinitRefused:
				observed = udpsvc.WaitFor(time.Second, func() bool { return udpsvc.NameQueries(x.nameUp) > 0 })
			case reinitAssocRep:
				observed = udpsvc.WaitFor(time.Second, func() bool { acc, _ := x.up.ControlConns(); return acc > accBefore })
			}
			time.Sleep(45 * time.Millisecond)
			// remove the cause
			switch variant {
			case reinitName, reinitRefused:
				udpsvc.SetName(x.nameUp, udpsvc.NameRule{IP: lo})
			case reinitAssocRep:
				x.up.SetAssocScript(nil)
			}
			if !observed {
				x.label("reinit-failure-not-observed")
			}
			okDest := x.dIP[0]
			var rwg sync.WaitGroup
			for _, c := range cs {
				rwg.Go(func() {
					if !judged {
						c.Paced(okDest, 16, pacedWait/10, 1)
						return
					}
					if seq, ok, n := c.Paced(okDest, 16, pacedWait, pacedTries); !ok {
						x.miss("no-service-after-failed-init", fmt.Sprintf("client %s (session %d): its first datagrams could not start a session (%s); after the cause was removed, %d more datagrams (seq %d) from the same address:port got no echo (listener %s, batch mode %s, client %s)",
							c.LocalAddr(), c.ID, variant, n, seq, listenName(p.Listen), p.BatchMode, p.ClientProto))
					} else if observed {
						x.label("reinit-ok:" + variant)
						if c.V6 {
							x.label("reinit-ok-v6-client")
						}
					}
				})
			}
			rwg.Wait()
			if !judged {
				x.label("reinit-under-load-unjudged")
			}
			x.established = true // the new sessions exist now and must be evicted by a following pause
		case phSteady:
			// continuous client traffic with gaps far below the NAT timeout for longer than the NAT timeout:
			// the session must stay (the destination sees one source address for the whole flow)
			x.stopStreams()
			x.settled = false
			x.pacedAll("paced-no-reply", "steady-flow start")
			x.established = true
			interval := T / 30
			dur := T * 5 / 2
			type span struct{ first, last uint32 }
			spans := make([]span, len(x.main))
			var maxGapNs atomic.Int64
			var swg sync.WaitGroup
			for i, c := range x.main {
				d := x.mainDest[i]
				swg.Go(func() {
					end := time.Now().Add(dur)
					last := time.Now()
					for time.Now().Before(end) {
						seq := c.NextSeq()
						if spans[i].first == 0 {
							spans[i].first = seq
						}
						spans[i].last = seq
						c.Send(seq, d, 16)
						now := time.Now()
						if g := now.Sub(last).Nanoseconds(); g > maxGapNs.Load() {
							maxGapNs.Store(g)
						}
						last = now
						time.Sleep(interval)
					}
				})
			}
			swg.Wait()
			time.Sleep(40 * time.Millisecond)
			maxGap := time.Duration(maxGapNs.Load())
			if maxGap >= T/6 {
				x.label("steady-gaps-too-long")
				break
			}
			ports := make([]map[uint16]int, len(x.main))
			for i := range ports {
				ports[i] = map[uint16]int{}
			}
			for _, a := range x.w.Arrivals() {
				if a.Err != nil || int(a.Tag.Session) >= len(x.main) {
					continue
				}
				if sp := spans[a.Tag.Session]; a.Tag.Seq >= sp.first && a.Tag.Seq <= sp.last {
					ports[a.Tag.Session][a.From.Port()]++
				}
			}
			for i, m := range ports {
				if len(m) > 1 {
					x.miss("steady-flow-session-restarted", fmt.Sprintf("session %d sent a datagram every %v (largest gap %v, natTimeout %v) for %v, yet the destination saw %d different relay sockets: %v",
						i, interval, maxGap.Round(time.Millisecond), T, dur, len(m), m))
				}
			}
			x.label("steady-flow-held")
		case phPackFail:
			// first let everything that exists be evicted, so that the sessions created below are the only ones
			x.stopStreams()
			x.stopFloods()
			if !udpsvc.WaitFor(T+slackFor(T), func() bool { return x.sockets() <= x.sIdle }) {
				x.miss("idle-session-not-evicted", fmt.Sprintf("before the pack-failure phase: %d sockets, idle level %d (natTimeout %v)", x.sockets(), x.sIdle, T))
				break
			}
			x.established = false
			variant := ph.Variant
			if variant == "unresolvable" && (proxy || tunnel) {
				variant = "toobig" // names are only resolved by a direct client, and a tunnel has a fixed target
			}
			for k := 0; k < ph.N; k++ {
				c := x.nextExtra()
				for j := 0; j < 3; j++ {
					if variant == "unresolvable" {
						c.Send(c.NextSeq(), x.dNx, 16)
					} else {
						d := x.dIP[k%2]
						if tunnel {
							d = x.dIP[0]
						}
						c.Send(c.NextSeq(), d, 1300) // 1324-byte payload: fits the server side, not the 1280-MTU outbound path
					}
					time.Sleep(2 * time.Millisecond)
				}
			}
			created := udpsvc.WaitFor(300*time.Millisecond, func() bool { return x.sockets() > x.sIdle })
			if !created {
				x.label("pack-fail-session-not-observed")
				break
			}
			if !udpsvc.WaitFor(T+slackFor(T), func() bool { return x.sockets() <= x.sIdle }) {
				x.miss("unforwardable-session-not-evicted", fmt.Sprintf("%d sessions whose datagrams all fail to pack (%s) were created; %v after their last datagram (natTimeout %v) the process still has %d sockets, idle level %d; relay goroutines:\n%s",
					ph.N, variant, T+slackFor(T), T, x.sockets(), x.sIdle, udpsvc.Summaries(udpsvc.RepoGoroutines())))
				break
			}
			if !udpsvc.WaitFor(3*time.Second, func() bool { return len(udpsvc.RepoGoroutines()) <= x.gIdle }) {
				fail("goroutines-after-eviction", "pack-failure sessions were evicted (sockets back to %d) but relay goroutines remain:\n%s", x.sIdle, udpsvc.Summaries(udpsvc.RepoGoroutines()))
			}
			x.label("pack-fail-session-evicted:" + variant)
		case phExpiry:
			// Each session sends one paced datagram; the relay extended that session's idle deadline when
			// it forwarded it, i.e. at some instant between the harness's send (t0) and the echo (t1). One
			// more datagram is then timed into [t0+T, t1+T+2ms] so that it arrives while the idle
			// timeout fires / the session is being torn down.
			x.stopStreams()
			x.settled = false
			var wg sync.WaitGroup
			for i, c := range x.main {
				d := x.mainDest[i]
				wg.Go(func() {
					t0 := time.Now()
					if _, ok, _ := c.Paced(d, 16, pacedWait, 1); !ok {
						return
					}
					t1 := time.Now()
					span := t1.Sub(t0) + 2*time.Millisecond
					at := t0.Add(T + span*time.Duration(i%8)/8 + time.Duration(i/8)*span/16)
					time.Sleep(time.Until(at))
					c.Send(c.NextSeq(), d, 16)
				})
			}
			wg.Wait()
			x.established = true
			time.Sleep(20 * time.Millisecond)
			x.label("expiry-probe")
		case phPauseEvict:
			x.stopStreams()
			if !x.established {
				x.label("pause-without-sessions")
				time.Sleep(T / 4)
				break
			}
			time.Sleep(10 * time.Millisecond)
			sEst := x.sockets()
			x.lastFrom = x.snapshotFrom()
			t0 := time.Now()
			gone := udpsvc.WaitFor(T+slackFor(T), func() bool { return x.sockets() <= x.sIdle })
			took := time.Since(t0)
			if !gone {
				x.miss("idle-session-not-evicted", fmt.Sprintf("%v after the last client datagram (natTimeout %v) the process still has %d sockets, %d without sessions (had %d with sessions); relay goroutines:\n%s",
					took.Round(time.Millisecond), T, x.sockets(), x.sIdle, sEst, udpsvc.Summaries(udpsvc.RepoGoroutines())))
				break
			}
			if !udpsvc.WaitFor(3*time.Second, func() bool { return len(udpsvc.RepoGoroutines()) <= x.gIdle }) {
				fail("goroutines-after-eviction", "sessions were evicted (sockets back to %d) but relay goroutines remain: %d, idle level %d\n%s", x.sIdle, len(udpsvc.RepoGoroutines()), x.gIdle, udpsvc.Summaries(udpsvc.RepoGoroutines()))
			}
			if sEst >= x.sIdle+len(x.main) {
				x.label("eviction-observed")
				if p.ConfigForm == formLegacy {
					// the timeout came from natTimeoutSec: the sessions went away within natTimeout + slack, not after the 5-minute default
					x.label("legacy-evicted-at-configured-timeout")
				}
				x.evictions++
				if x.floodOn {
					x.label("eviction-under-reply-flood")
				}
			} else {
				x.label("eviction-vacuous")
			}
			x.established = false
		case phReject:
			if tunnel {
				x.label("phase-skipped:reject")
				break
			}
			quiet := !x.streamOn && !x.floodOn && x.settled
			sBefore := x.sockets()
			for k := 0; k < ph.N; k++ {
				c := x.nextExtra()
				c.Send(c.NextSeq(), x.dRej, 16)
			}
			time.Sleep(60 * time.Millisecond)
			if quiet {
				x.label("reject-socket-count-judged")
				if s := x.sockets(); s > sBefore {
					fail("rejected-session-holds-socket", "after %d datagrams to a destination the router rejects the process has %d sockets, before %d", ph.N, s, sBefore)
				}
			}
			x.label("router-reject")
		case phFailInit:
			switch {
			case proxy && p.EndpointByName:
				udpsvc.SetName(x.nameUp, udpsvc.NameRule{Fail: true})
				sBefore := x.sockets()
				quiet := !x.streamOn && !x.floodOn && x.settled
				for k := 0; k < ph.N; k++ {
					c := x.nextExtra()
					d := x.dIP[0]
					c.Send(c.NextSeq(), d, 16)
				}
				time.Sleep(60 * time.Millisecond)
				udpsvc.SetName(x.nameUp, udpsvc.NameRule{IP: lo})
				if quiet {
					if s := x.sockets(); s > sBefore {
						fail("failed-session-holds-socket", "after %d sessions whose initialisation failed the process has %d sockets, before %d", ph.N, s, sBefore)
					}
				}
				x.label("init-fails:endpoint-name")
			case !proxy && !tunnel:
				x.settled = false
				for k := 0; k < ph.N; k++ {
					c := x.nextExtra()
					c.Send(c.NextSeq(), x.dNx, 16)
				}
				time.Sleep(30 * time.Millisecond)
				x.label("pack-fails:target-name")
			default:
				x.label("phase-skipped:failInit")
			}
		case phBlockInit:
			x.settled = false
			switch {
			case p.ClientProto == "socks5" && (!p.EndpointByName || ph.N%2 == 0):
				// the upstream accepts the TCP connection but holds its UDP ASSOCIATE reply: the
				// session's client-session creation keeps running (that read is not cancelled by Stop)
				if !x.hsHeld {
					x.hsGate = make(chan struct{})
					x.hsHeld = true
					x.up.HoldHandshakes(x.hsGate)
				}
				for k := 0; k < ph.N; k++ {
					c := x.nextExtra()
					c.Send(c.NextSeq(), x.dIP[0], 16)
				}
				udpsvc.WaitFor(500*time.Millisecond, func() bool { return x.up.Held() >= int64(ph.N) })
				x.label("init-blocked:socks5-handshake")
			case proxy && p.EndpointByName:
				if !x.gateOpen {
					udpsvc.SetName(x.nameUp, udpsvc.NameRule{IP: lo, Gate: x.gate})
				}
				for k := 0; k < ph.N; k++ {
					c := x.nextExtra()
					c.Send(c.NextSeq(), x.dIP[0], 16)
				}
				x.label("init-blocked:endpoint-name")
			case !proxy && !tunnel:
				for k := 0; k < ph.N; k++ {
					c := x.nextExtra()
					c.Send(c.NextSeq(), x.dSlow, 16)
				}
				x.label("pack-blocked:target-name")
			default:
				x.label("phase-skipped:blockInit")
			}
			time.Sleep(20 * time.Millisecond)
			if !last {
				// let the blocked sessions complete before the next phase
				x.openGate()
				x.releaseHandshakes()
				udpsvc.SetName(x.nameUp, udpsvc.NameRule{IP: lo})
				time.Sleep(30 * time.Millisecond)
			} else {
				x.label("stop-while-init-blocked")
			}
		}
	}

	// ---- Stop ----
	time.Sleep(time.Duration(p.StopDelayMs) * time.Millisecond)
	up, down := x.streamOn, x.floodOn
	gBefore := len(udpsvc.RepoGoroutines())
	bound := stopBound
	if x.hsHeld {
		// scripted in-flight work: the held handshakes complete HandshakeMs after the cancel
		d := time.Duration(p.HandshakeMs) * time.Millisecond
		bound += d
		time.AfterFunc(d, func() { close(x.hsGate); x.up.HoldHandshakes(nil) })
		x.hsHeld = false
		x.label("stop-while-handshake-held")
	}
	done := svc.StopAsync()
	stopped = true
	afterStop := time.NewTimer(100 * time.Millisecond) // generators keep going for a moment after cancel
	var (
		returned bool
		blocked  []udpsvc.Goroutine
		dump     string
	)
	select {
	case <-done:
		returned = true
	case <-time.After(bound):
		for _, g := range udpsvc.RepoGoroutines() {
			if g.HasFrame("relayNatConnToServerConn") && strings.Contains(g.Header, "IO wait") {
				blocked = append(blocked, g)
			}
		}
		dump = udpsvc.Summaries(udpsvc.RepoGoroutines())
	}
	<-afterStop.C
	x.stopStreams()
	x.stopFloods()
	if !returned {
		// release scripted in-flight work, then wait for the natural end (never longer than the NAT timeout plus slack)
		x.openGate()
		select {
		case <-done:
		case <-time.After(T + 15*time.Second):
			out.fatal = true
			fail("stop-hangs", "Manager.Run has not returned %v after cancel (natTimeout %v); relay goroutines:\n%s", svc.StoppedFor().Round(time.Millisecond), T, udpsvc.Summaries(udpsvc.RepoGoroutines()))
			return
		}
	}
	x.openGate()
	x.genWG.Wait()
	D := svc.StopDuration()
	out.stopDur = D
	judged := T >= 2*stopBound
	if !returned {
		switch {
		case judged && len(blocked) > 0 && D >= T*8/10:
			fail(sigStopBlocks, "Manager.Run returned %v after cancel with natTimeout %v (bound %v). %v after cancel %d downlink goroutine(s) were parked reading their NAT socket "+
				"with a read deadline in the future: Stop did not force it into the past for these sessions, or something re-armed it afterwards (uplink traffic at Stop: %v, reply traffic: %v, relay goroutines before Stop: %d):\n%s",
				D.Round(time.Millisecond), T, bound, bound, len(blocked), up, down, gBefore, udpsvc.Summaries(blocked))
		case judged:
			x.miss("stop-exceeds-bound", fmt.Sprintf("Manager.Run returned %v after cancel (bound %v, natTimeout %v); at the bound:\n%s", D.Round(time.Millisecond), bound, T, dump))
		default:
			x.label("stop-slow-unjudged")
		}
	} else {
		x.label("stop-prompt")
	}

	// ---- after Run returned: nothing of the relay may remain ----
	for _, c := range x.main {
		c.Close()
	}
	for _, c := range x.extra {
		c.Close()
	}
	w.Close()
	if !udpsvc.WaitFor(5*time.Second, func() bool { return len(udpsvc.RepoGoroutines()) == 0 }) {
		fail("goroutines-after-stop", "relay goroutines remain after Manager.Run returned:\n%s", udpsvc.Summaries(udpsvc.RepoGoroutines()))
		out.fatal = true
	}
	if !udpsvc.WaitFor(5*time.Second, func() bool { n, _ := udpsvc.FDs(); return n <= fdBase }) {
		n, s := udpsvc.FDs()
		fail("sockets-after-stop", "descriptors remain after Manager.Run returned: %d (%d sockets), before the scenario %d: %v", n, s, fdBase, fdTargets())
		out.fatal = true
	}
	if !svc.RunOK() {
		fail("run-reported-failure", "Manager.Run returned false")
	}

	if up {
		x.label("stop-under-uplink")
	}
	if down {
		x.label("stop-under-reply-traffic")
	}
	out.nontrivial = (up && down) || x.evictions > 0
	if up && down {
		x.label("stop-under-bidirectional-traffic")
	}
	x.label("server:" + p.ServerProto)
	x.label("client:" + p.ClientProto)
	x.label("batch:" + p.BatchMode)
	x.label("listen:" + listenName(p.Listen))
	x.label("form:" + formName(p.ConfigForm))
	if judged {
		x.label("stop-bound-judged")
	}
	out.sample = map[string]any{"class": p.class(), "stopMs": D.Milliseconds(), "evictions": x.evictions, "arrivals": len(w.Arrivals())}
	return
}

// fracName renders a percentage of the NAT timeout as "0.55T", "0.7T".
func fracName(pct int) string {
	return strings.TrimRight(fmt.Sprintf("0.%02d", pct), "0") + "T"
}

// slackFor is the scheduling allowance on top of the NAT timeout: 3 s plus a tenth of the timeout. The
// 60 s Shadowsocks 2022 scenario was once judged 3.2 s late on a machine with load > 100 while the
// evicting goroutine was runnable (a false alarm); the property gives no numeric bound, and a relay
// that doubles or forgets the timeout is still far outside this allowance.
func slackFor(T time.Duration) time.Duration { return evictSlack + T/10 }

func keysOf(m map[int]bool) []int {
	var ks []int
	for k := range m {
		ks = append(ks, k+1)
	}
	sort.Ints(ks)
	return ks
}

// fdTargets lists what the open descriptors point to (for failure messages).
func fdTargets() []string {
	ents, _ := os.ReadDir("/proc/self/fd")
	var out []string
	for _, e := range ents {
		if l, err := os.Readlink("/proc/self/fd/" + e.Name()); err == nil {
			out = append(out, e.Name()+"->"+l)
		}
	}
	return out
}
