package c12

import (
	"net"
	"net/netip"
	"sync"
	"time"

	"verif/internal/udpsvc"
)

// hclient is one harness client session of C12: a protocol speaker (udpsvc.ClientCodec) and ONE
// socket that lives as long as the plan, so that "a later datagram from the same client" really
// comes from the same address:port. Unlike udpsvc.Client it can be bound to either loopback family
// (127.0.0.1 or ::1) and addresses the relay at the matching address: an IPv4 client of a
// dual-stack listener is what the relay sees as an IPv4-mapped IPv6 source.
type hclient struct {
	ID     uint16
	V6     bool
	codec  udpsvc.ClientCodec
	server netip.AddrPort
	world  *udpsvc.World
	sock   *net.UDPConn

	mu   sync.Mutex
	cond *sync.Cond
	seq  uint32
	got  map[uint32]int // seq -> number of well-formed echoes
	wg   sync.WaitGroup
}

func newHClient(w *udpsvc.World, id uint16, codec udpsvc.ClientCodec, server netip.AddrPort) (*hclient, error) {
	network, bind := "udp4", netip.MustParseAddr("127.0.0.1")
	if server.Addr().Is6() {
		network, bind = "udp6", netip.IPv6Loopback()
	}
	s, err := net.ListenUDP(network, net.UDPAddrFromAddrPort(netip.AddrPortFrom(bind, 0)))
	if err != nil {
		return nil, err
	}
	s.SetReadBuffer(4 << 20)
	c := &hclient{ID: id, V6: server.Addr().Is6(), codec: codec, server: server, world: w, sock: s, got: map[uint32]int{}}
	c.cond = sync.NewCond(&c.mu)
	c.wg.Go(c.recvLoop)
	return c, nil
}

func (c *hclient) LocalAddr() netip.AddrPort { return c.sock.LocalAddr().(*net.UDPAddr).AddrPort() }

func (c *hclient) recvLoop() {
	buf := make([]byte, 65536)
	for {
		n, from, err := c.sock.ReadFromUDPAddrPort(buf)
		if err != nil {
			return
		}
		from = netip.AddrPortFrom(from.Addr().Unmap(), from.Port())
		_, payload, err := c.codec.Unpack(buf[:n], from)
		if err != nil {
			continue
		}
		tag, err := udpsvc.DecodePayload(payload)
		if err != nil || tag.Session != c.ID || tag.Kind != udpsvc.KindReply {
			continue
		}
		c.mu.Lock()
		c.got[tag.Seq]++
		c.cond.Broadcast()
		c.mu.Unlock()
	}
}

// NextSeq reserves a sequence number.
func (c *hclient) NextSeq() uint32 { c.mu.Lock(); defer c.mu.Unlock(); c.seq++; return c.seq }

func (c *hclient) pack(seq uint32, dest, fill int) ([]byte, error) {
	tag := udpsvc.Tag{Kind: udpsvc.KindRequest, Scenario: c.world.Scenario, Session: c.ID, Seq: seq, Target: uint16(dest), Responder: udpsvc.NoResponder, Fill: uint16(fill)}
	return c.codec.Pack(c.world.DestAddr(dest), udpsvc.EncodePayload(nil, tag))
}

// Send emits one datagram with the given seq to dest.
func (c *hclient) Send(seq uint32, dest int, fill int) error {
	pkt, err := c.pack(seq, dest, fill)
	if err != nil {
		return err
	}
	_, err = c.sock.WriteToUDPAddrPort(pkt, c.server)
	return err
}

// BurstFills packs one datagram per entry of dests first and then writes them back to back, so that
// they reach the relay faster than it forwards them (queues and sendmmsg batches form). It returns
// the sequence numbers in sending order (0 where packing failed).
func (c *hclient) BurstFills(dests []int, fills []int) []uint32 {
	pkts := make([][]byte, len(dests))
	seqs := make([]uint32, len(dests))
	for i, dest := range dests {
		seq := c.NextSeq()
		pkt, err := c.pack(seq, dest, fills[i])
		if err != nil {
			continue
		}
		pkts[i], seqs[i] = pkt, seq
	}
	for _, pkt := range pkts {
		if pkt != nil {
			c.sock.WriteToUDPAddrPort(pkt, c.server)
		}
	}
	return seqs
}

// WaitReply waits until a well-formed echo for seq has been received.
func (c *hclient) WaitReply(seq uint32, d time.Duration) bool {
	deadline := time.Now().Add(d)
	t := time.AfterFunc(d, func() { c.mu.Lock(); c.cond.Broadcast(); c.mu.Unlock() })
	defer t.Stop()
	c.mu.Lock()
	defer c.mu.Unlock()
	for c.got[seq] == 0 {
		if !time.Now().Before(deadline) {
			return false
		}
		c.cond.Wait()
	}
	return true
}

// Paced sends one datagram and waits up to wait for its echo, retrying (same seq) up to tries times
// in total. It returns whether an echo arrived and how many datagrams were sent.
func (c *hclient) Paced(dest, fill int, wait time.Duration, tries int) (seq uint32, ok bool, attempts int) {
	seq = c.NextSeq()
	for attempts < tries {
		attempts++
		if err := c.Send(seq, dest, fill); err != nil {
			continue
		}
		if c.WaitReply(seq, wait) {
			return seq, true, attempts
		}
	}
	return seq, false, attempts
}

// ReplyCount returns how many well-formed echoes for seq have arrived.
func (c *hclient) ReplyCount(seq uint32) int { c.mu.Lock(); defer c.mu.Unlock(); return c.got[seq] }

// Close closes the socket and waits for the receive loop.
func (c *hclient) Close() {
	c.sock.Close()
	c.wg.Wait()
}
