package c20

import (
	"context"
	"encoding/json"
	"fmt"
	"os"
	"path/filepath"
	"strings"
	"testing"
	"testing/synctest"
	"time"

	"pgregory.net/rapid"

	"verif/internal/credx"
	"verif/internal/ev"
)

// "Changes acknowledged before shutdown begins are written before the service stops": plans of
// acknowledged changes at chosen instants of the save debounce, then cancel + Stop, then the
// store file must hold every acknowledged change. Fake clock (synctest), real file.

type phaseStep struct {
	Reload bool   `json:"reload,omitempty"` // instead of a change: POST reload-users on the file nobody touched
	Op     opSpec `json:"op"`
	After  int64  `json:"after_ns"` // sleep after the acknowledgement
	Park   bool   `json:"park"`     // then let every goroutine run until it blocks (synctest.Wait)
}

type phasePlan struct {
	KeyLen    int            `json:"key_len"`
	Stores    credx.Mode     `json:"stores"`
	Prev      map[string]int `json:"prev"`
	ParkFirst bool           `json:"park_first"` // let the save goroutine reach its wait before the first request
	Steps     []phaseStep    `json:"steps"`
	Reps      int            `json:"reps"` // select picks among ready cases at random: repeat the same plan
}

func (p phasePlan) String() string { b, _ := json.Marshal(p); return string(b) }

var delays = []int64{0, 0, 0, 1, int64(time.Millisecond), int64(2500 * time.Millisecond), int64(5*time.Second) - 1,
	int64(5 * time.Second), int64(5*time.Second) + 1, int64(6 * time.Second), int64(11 * time.Second)}

func drawPhasePlan(rt *rapid.T) phasePlan {
	p := phasePlan{
		KeyLen:    rapid.SampledFrom([]int{16, 32}).Draw(rt, "kl"),
		Stores:    rapid.SampledFrom([]credx.Mode{credx.TCPOnly, credx.UDPOnly, credx.Both}).Draw(rt, "stores"),
		Prev:      map[string]int{},
		ParkFirst: rapid.Bool().Draw(rt, "parkFirst"),
		Reps:      rapid.IntRange(3, 10).Draw(rt, "reps"),
	}
	nu := rapid.IntRange(0, 3).Draw(rt, "users")
	for i := 0; i < nu; i++ {
		p.Prev[names[i]] = i
	}
	state := applyModel(p.Prev, opSpec{})
	n := rapid.IntRange(1, 5).Draw(rt, "nsteps")
	for i := 0; i < n; i++ {
		if i > 0 && rapid.IntRange(0, 3).Draw(rt, "reload") == 0 {
			p.Steps = append(p.Steps, phaseStep{Reload: true,
				After: rapid.SampledFrom(delays).Draw(rt, "after"),
				Park:  rapid.Bool().Draw(rt, "park")})
			continue
		}
		name := names[rapid.IntRange(0, 3).Draw(rt, "name")]
		var op opSpec
		if _, ok := state[name]; !ok {
			op = opSpec{"add", name, 10 + i}
		} else if rapid.Bool().Draw(rt, "del") {
			op = opSpec{"delete", name, 0}
		} else {
			op = opSpec{"update", name, 10 + i}
		}
		state = applyModel(state, op)
		p.Steps = append(p.Steps, phaseStep{Op: op,
			After: rapid.SampledFrom(delays).Draw(rt, "after"),
			Park:  rapid.Bool().Draw(rt, "park")})
	}
	return p
}

// phaseAtCancel is the reference model of the documented debounce (1-slot queue + 5 s
// cool-down): which phase is the save machinery in when shutdown begins, and is a change still
// unsaved at that instant?
func phaseAtCancel(p phasePlan) (phase string, unsaved bool, reloadPending, reloadPendingAfterSave bool) {
	const cool = int64(5 * time.Second)
	now := int64(0)
	coolingUntil := int64(-1) // >=0: a cool-down is running and ends (with a save) at that time
	dirty := false            // acknowledged change not yet written
	saves := 0
	advance := func(to int64) {
		for coolingUntil >= 0 && coolingUntil <= to {
			dirty = false // the save happens at coolingUntil; a token queued meanwhile is cleared before it
			saves++
			coolingUntil = -1
		}
		now = to
	}
	lastImmediate := false
	for _, s := range p.Steps {
		if s.Reload {
			if dirty {
				reloadPending = true
				if saves > 0 {
					reloadPendingAfterSave = true
				}
			}
		} else {
			dirty = true
			if coolingUntil < 0 {
				coolingUntil = now + cool
			}
		}
		lastImmediate = !s.Reload && s.After == 0 && !s.Park
		advance(now + s.After)
	}
	switch {
	case !dirty:
		return "idle-after-save", false, reloadPending, reloadPendingAfterSave
	case lastImmediate && coolingUntil == now+cool:
		return "queued", true, reloadPending, reloadPendingAfterSave // the job was queued and shutdown begins before the saver could take it
	default:
		return "cooling-down", true, reloadPending, reloadPendingAfterSave
	}
}

type phaseResult struct {
	violation string
	lost      int
}

func runPhasePlan(t *testing.T, p phasePlan, dir string) phaseResult {
	kl := p.KeyLen
	path := filepath.Join(dir, "upsks.json")
	res := phaseResult{}
	for rep := 0; rep < p.Reps; rep++ {
		if err := os.WriteFile(path, credx.EncodeStore(users(kl, p.Prev), true), 0o644); err != nil {
			res.violation = "HARNESS " + err.Error()
			return res
		}
		state := applyModel(p.Prev, opSpec{})
		var harness, lostMidPlan string
		reloadSeen := false
		synctest.Test(t, func(t *testing.T) {
			rig, err := credx.NewRig(path, kl, p.Stores, nil)
			if err != nil {
				harness = "start: " + err.Error()
				return
			}
			ctx, cancel := context.WithCancel(context.Background())
			rig.Start(ctx)
			if p.ParkFirst {
				synctest.Wait()
			}
			for _, s := range p.Steps {
				if s.Reload {
					// nobody has touched the file: this must not change anything
					reloadSeen = true
					if code, body := rig.Reload(); code < 200 || code > 299 {
						harness = fmt.Sprintf("reload of the untouched file -> %d %s", code, body)
						cancel()
						rig.Stop()
						return
					}
				} else {
					if code := doOp(rig, kl, s.Op); code < 200 || code > 299 {
						if reloadSeen {
							// every request of a plan is valid against the acknowledged state; after a
							// reload of the untouched file one is refused: acknowledged state was lost
							lostMidPlan = fmt.Sprintf("%s(%s) is valid against the acknowledged state %s but was answered %d after a reload of the untouched file",
								s.Op.Op, s.Op.Name, credx.Show(users(kl, state), kl), code)
						} else {
							harness = fmt.Sprintf("%+v -> %d", s.Op, code)
						}
						cancel()
						rig.Stop()
						return
					}
					state = applyModel(state, s.Op)
				}
				if s.After > 0 {
					time.Sleep(time.Duration(s.After))
				}
				if s.Park {
					synctest.Wait()
				}
			}
			cancel()   // shutdown begins: everything above was acknowledged before
			rig.Stop() // returns when the save goroutine has finished
		})
		if harness != "" {
			res.violation = "HARNESS " + harness
			return res
		}
		if lostMidPlan != "" {
			res.lost++
			if res.violation == "" {
				res.violation = fmt.Sprintf("SIG=C20/%s start on %s: %s", sigLostByReload, credx.Show(users(kl, p.Prev), kl), lostMidPlan)
			}
			continue
		}
		b, err := os.ReadFile(path)
		if err != nil {
			res.violation = "HARNESS " + err.Error()
			return res
		}
		got, complete, derr := credx.DecodeStore(b, kl)
		want := users(kl, state)
		if derr != nil || !complete {
			res.violation = fmt.Sprintf("SIG=C20/store-not-loadable-after-stop after Stop the store file %q does not decode: %v", clip(b, 200), derr)
			return res
		}
		if !credx.SameUsers(got, want) {
			res.lost++
			if res.violation == "" {
				var sb strings.Builder
				for _, s := range p.Steps {
					what := fmt.Sprintf("%s(%s) acknowledged", s.Op.Op, s.Op.Name)
					if s.Reload {
						what = "POST reload-users (file untouched) -> 2xx"
					}
					fmt.Fprintf(&sb, "%s, +%v%s; ", what, time.Duration(s.After), map[bool]string{true: ", all goroutines parked", false: ""}[s.Park])
				}
				sig := sigNotSaved
				for _, s := range p.Steps {
					if s.Reload {
						sig = sigLostByReload // a different mechanism: the reload of the untouched file threw the change away
					}
				}
				res.violation = fmt.Sprintf("SIG=C20/%s start on %s (save goroutine parked first: %v); %scancel; Stop returned; store file holds %s, acknowledged state is %s",
					sig, credx.Show(users(kl, p.Prev), kl), p.ParkFirst, sb.String(), credx.Show(got, kl), credx.Show(want, kl))
			}
		}
	}
	if res.lost > 0 {
		res.violation += fmt.Sprintf(" [lost in %d of %d repetitions of this plan]", res.lost, p.Reps)
	}
	return res
}

var recPhases = ev.New("C20", "shutdown-phases",
	"rapid plans on a fake clock: 1-5 steps, each an acknowledged change or (1 in 4) a POST reload-users on the file nobody touched, each followed by a delay from {0,1ns,1ms,2.5s,5s-1ns,5s,5s+1ns,6s,11s} and "+
		"optionally synctest.Wait (save goroutine parked), then cancel + Stop; save goroutine parked or not before the first request; each plan "+
		"repeated 3-10 times because select order is random. After Stop the decoded store file must equal the acknowledged state. One "+
		"evaluation = one repetition. Non-trivial: at cancel a change is unsaved (phase queued or cooling-down per the reference debounce model). "+
		"Distinct key = phase + delays + parks").
	Require("phase/queued", "phase/cooling-down", "phase/idle-after-save", "reload-of-unmodified-file-with-change-pending-after-an-earlier-save")

func TestShutdownPhases(t *testing.T) {
	dir, err := os.MkdirTemp(workDir(), "verif-c20-p-")
	if err != nil {
		t.Fatal(err)
	}
	defer os.RemoveAll(dir)
	rapid.Check(t, func(rt *rapid.T) {
		p := drawPhasePlan(rt)
		res := runPhasePlan(t, p, dir)
		phase, unsaved, reloadPending, reloadPendingAfterSave := phaseAtCancel(p)
		if res.violation != "" {
			if strings.Contains(res.violation, "SIG=C20/"+sigNotSaved) && isKnown(sigNotSaved) {
				recPhases.KnownHit(listedSig(sigNotSaved))
			} else if strings.Contains(res.violation, "SIG=C20/"+sigLostByReload) && isKnown(sigLostByReload) {
				recPhases.KnownHit(listedSig(sigLostByReload))
			} else {
				rt.Fatalf("%s\n  phase at cancel (model): %s\n  plan: %s", res.violation, phase, p)
			}
		}
		var ds []string
		for _, s := range p.Steps {
			ds = append(ds, fmt.Sprintf("%d%v%v", s.After, s.Park, s.Reload))
		}
		extra := []string{"phase/" + phase, fmt.Sprintf("steps/%d", len(p.Steps))}
		if reloadPending {
			extra = append(extra, "reload-of-unmodified-file-with-change-pending")
		}
		if reloadPendingAfterSave {
			extra = append(extra, "reload-of-unmodified-file-with-change-pending-after-an-earlier-save")
		}
		key := fmt.Sprintf("%s/%v/%s", phase, p.ParkFirst, strings.Join(ds, ","))
		for i := 0; i < p.Reps; i++ {
			recPhases.Case(key, unsaved || reloadPending, extra...)
		}
		if unsaved {
			recPhases.Sample(map[string]any{"plan": p, "phase": phase})
		}
	})
}

// Frozen minimal history of the second C20 defect: one acknowledged change, shutdown at once.
func TestRegressionAckThenStop(t *testing.T) {
	dir, err := os.MkdirTemp(workDir(), "verif-c20-g-")
	if err != nil {
		t.Fatal(err)
	}
	defer os.RemoveAll(dir)
	plans := []phasePlan{}
	for _, park := range []bool{true, false} {
		plans = append(plans, phasePlan{KeyLen: 16, Stores: credx.Both, Prev: map[string]int{}, ParkFirst: park,
			Steps: []phaseStep{{Op: opSpec{"add", "alice", 1}}}, Reps: 60})
	}
	// a change is saved; a second change is cooling down; the untouched file is reloaded; shutdown
	plans = append(plans, phasePlan{KeyLen: 32, Stores: credx.Both, Prev: map[string]int{"carol": 0}, ParkFirst: true, Reps: 20,
		Steps: []phaseStep{{Op: opSpec{"add", "alice", 1}, After: int64(6 * time.Second), Park: true},
			{Op: opSpec{"add", "bob", 2}, After: int64(time.Second), Park: true}, {Reload: true, After: int64(time.Millisecond)}}})
	for _, p := range plans {
		park := p.ParkFirst
		res := runPhasePlan(t, p, dir)
		if res.violation != "" {
			if strings.Contains(res.violation, sigNotSaved) && isKnown(sigNotSaved) {
				recPhases.KnownHit(listedSig(sigNotSaved))
				continue
			}
			if strings.Contains(res.violation, sigLostByReload) && isKnown(sigLostByReload) {
				recPhases.KnownHit(listedSig(sigLostByReload))
				continue
			}
			t.Errorf("%s\n  plan: %s", res.violation, p)
		}
		phase, _, _, rpas := phaseAtCancel(p)
		labels := []string{"phase/" + phase, "regression"}
		if rpas {
			labels = append(labels, "reload-of-unmodified-file-with-change-pending-after-an-earlier-save")
		}
		for i := 0; i < p.Reps; i++ {
			recPhases.Case(fmt.Sprintf("regression/%v/%d", park, len(p.Steps)), true, labels...)
		}
	}
}
