package c20

import (
	"context"
	"encoding/json"
	"fmt"
	"os"
	"os/signal"
	"path/filepath"
	"strings"
	"sync/atomic"
	"syscall"
	"testing"
	"testing/synctest"
	"time"

	"go.uber.org/zap"
	"go.uber.org/zap/zapcore"

	"verif/internal/credx"
)

// Everything in this file runs in a re-executed copy of the test binary (selected with
// -test.run and the VERIF_C20_CHILD environment variable), because it changes process-wide
// limits (RLIMIT_FSIZE) or gets killed.

type opSpec struct {
	Op   string `json:"op"` // add update delete
	Name string `json:"name"`
	Key  int    `json:"key"`
}

type faultSpec struct {
	Mode   string         `json:"mode"` // "faults" or "killloop"
	KeyLen int            `json:"key_len"`
	Stores credx.Mode     `json:"stores"`
	Prev   map[string]int `json:"prev"`
	Op     opSpec         `json:"op"`
	Via    string         `json:"via"` // "debounce": the save fires after the 5 s cool-down; "cancel": it is forced by shutdown
	Ks     []int          `json:"ks"`  // file size limits to inject; nil: every k in 0..len(new document)
	Dir    string         `json:"dir"`
	Out    string         `json:"out"`
	// Loc is the store-location class: how the configured uPSKStorePath relates to the file.
	// "plain" (absolute path of a regular file), "subdir" (file in a nested directory),
	// "symlink-abs"/"symlink-rel" (the configured path is a symbolic link to the real file, link
	// target absolute / relative), "relative"/"relative-subdir" (path relative to the working directory).
	Loc string `json:"loc,omitempty"`
	// After (Via "debounce" only): what happens in the same process once the write limit is lifted
	// after the faulted save: "redo" (undo and re-apply the very change whose save failed, within
	// one cool-down), "reload" (POST reload-users on the file nobody touched, then one more
	// change), "more" (one more change); then a graceful stop.
	After string `json:"after,omitempty"`
}

// afterOps returns the requests of the second part and the user set acknowledged at its end.
func afterOps(spec faultSpec) (ops []opSpec, reload bool, final map[string]int) {
	next := applyModel(spec.Prev, spec.Op)
	switch spec.After {
	case "redo":
		var undo opSpec
		switch spec.Op.Op {
		case "add":
			undo = opSpec{"delete", spec.Op.Name, 0}
		case "delete":
			undo = opSpec{"add", spec.Op.Name, spec.Prev[spec.Op.Name]}
		case "update":
			undo = opSpec{"update", spec.Op.Name, spec.Prev[spec.Op.Name]}
		}
		return []opSpec{undo, spec.Op}, false, next
	case "reload":
		zed := opSpec{"add", "zed", 777}
		return []opSpec{zed}, true, applyModel(next, zed)
	case "more":
		zed := opSpec{"add", "zed", 777}
		return []opSpec{zed}, false, applyModel(next, zed)
	}
	return nil, false, next
}

// Locs lists the store-location classes.
var Locs = []string{"plain", "symlink-abs", "relative", "subdir", "symlink-rel", "relative-subdir"}

// placeStore creates the store document under dir according to the location class and returns
// the path to configure (possibly relative: the working directory is then changed to dir) and an
// absolute path that reaches the same file through the same link.
func placeStore(dir, loc string, doc []byte) (configured, absolute string, err error) {
	abs := filepath.Join(dir, "upsks.json")
	switch loc {
	case "", "plain":
		return abs, abs, os.WriteFile(abs, doc, 0o644)
	case "subdir":
		abs = filepath.Join(dir, "etc", "shadowsocks-go", "upsks.json")
		if err = os.MkdirAll(filepath.Dir(abs), 0o755); err != nil {
			return
		}
		return abs, abs, os.WriteFile(abs, doc, 0o644)
	case "symlink-abs", "symlink-rel":
		real := filepath.Join(dir, "real", "store.json")
		if err = os.MkdirAll(filepath.Dir(real), 0o755); err != nil {
			return
		}
		if err = os.WriteFile(real, doc, 0o644); err != nil {
			return
		}
		target := real
		if loc == "symlink-rel" {
			target = filepath.Join("real", "store.json")
		}
		return abs, abs, os.Symlink(target, abs)
	case "relative", "relative-subdir":
		rel := "upsks.json"
		if loc == "relative-subdir" {
			rel = filepath.Join("conf.d", "upsks.json")
			if err = os.MkdirAll(filepath.Join(dir, "conf.d"), 0o755); err != nil {
				return
			}
		}
		if err = os.Chdir(dir); err != nil {
			return
		}
		return rel, filepath.Join(dir, rel), os.WriteFile(filepath.Join(dir, rel), doc, 0o644)
	}
	return "", "", fmt.Errorf("unknown location class %q", loc)
}

type faultResult struct {
	K         int    `json:"k"`
	File      []byte `json:"file"`      // store file bytes after the fault
	SaveErr   bool   `json:"save_err"`  // the server logged "Failed to save credentials"
	Leftovers int    `json:"leftovers"` // other files left in the store directory
	AckCode   int    `json:"ack_code"`  // status of the management request
	NoSave    bool   `json:"no_save"`   // file unchanged and no error logged: the save was never attempted
	Err       string `json:"err,omitempty"`
	// second part (spec.After): the limit is lifted, further changes are acknowledged in the same
	// process, then a graceful stop
	AfterFile   []byte `json:"after_file,omitempty"`   // store file after the graceful stop
	AfterNote   string `json:"after_note,omitempty"`   // what was done, with status codes
	AfterBad    string `json:"after_bad,omitempty"`    // a request of the second part was refused / the list was wrong
	AfterErrors int64  `json:"after_errors,omitempty"` // "Failed to save credentials" lines logged in the second part
}

type faultOutput struct {
	NewDocLen int           `json:"new_doc_len"`
	Results   []faultResult `json:"results"`
}

func users(kl int, m map[string]int) map[string][]byte {
	out := map[string][]byte{}
	for n, k := range m {
		out[n] = credx.Key(kl, k)
	}
	return out
}

func applyModel(prev map[string]int, op opSpec) map[string]int {
	m := map[string]int{}
	for n, k := range prev {
		m[n] = k
	}
	switch op.Op {
	case "add", "update":
		m[op.Name] = op.Key
	case "delete":
		delete(m, op.Name)
	}
	return m
}

func doOp(r *credx.Rig, kl int, op opSpec) int {
	var code int
	switch op.Op {
	case "add":
		code, _ = r.Add(op.Name, credx.Key(kl, op.Key))
	case "update":
		code, _ = r.Update(op.Name, credx.Key(kl, op.Key))
	case "delete":
		code, _ = r.Delete(op.Name)
	}
	return code
}

func setFileSizeLimit(k uint64) error {
	return syscall.Setrlimit(syscall.RLIMIT_FSIZE, &syscall.Rlimit{Cur: k, Max: ^uint64(0)})
}

func countingLogger(saveErrs *atomic.Int64) *zap.Logger {
	core := zapcore.NewCore(zapcore.NewJSONEncoder(zap.NewProductionEncoderConfig()), zapcore.AddSync(discard{}), zap.ErrorLevel)
	return zap.New(core, zap.Hooks(func(e zapcore.Entry) error {
		if e.Message == "Failed to save credentials" {
			saveErrs.Add(1)
		}
		return nil
	}))
}

type discard struct{}

func (discard) Write(b []byte) (int, error) { return len(b), nil }

func TestChildFaults(t *testing.T) {
	specPath := os.Getenv("VERIF_C20_CHILD")
	if specPath == "" {
		t.Skip("child-only")
	}
	b, err := os.ReadFile(specPath)
	if err != nil {
		t.Fatal(err)
	}
	var spec faultSpec
	if err := json.Unmarshal(b, &spec); err != nil {
		t.Fatal(err)
	}
	switch spec.Mode {
	case "faults":
		childFaults(t, spec)
	case "killloop":
		childKillLoop(t, spec)
	default:
		t.Fatalf("unknown child mode %q", spec.Mode)
	}
}

// childFaults: for every k, a fresh server on a fresh copy of the previous store, one
// acknowledged change, then the save runs with RLIMIT_FSIZE=k (SIGXFSZ ignored, so the write
// fails with EFBIG after exactly k bytes, like a full disk would after k bytes).
func childFaults(t *testing.T, spec faultSpec) {
	signal.Ignore(syscall.SIGXFSZ)
	kl := spec.KeyLen
	prevDoc := credx.EncodeStore(users(kl, spec.Prev), true)
	newLen := len(credx.EncodeStore(users(kl, applyModel(spec.Prev, spec.Op)), true))
	ks := spec.Ks
	if ks == nil {
		for k := 0; k <= newLen; k++ {
			ks = append(ks, k)
		}
	}
	out := faultOutput{NewDocLen: newLen}
	for _, k := range ks {
		res := faultResult{K: k}
		dir := filepath.Join(spec.Dir, fmt.Sprintf("k%d", k))
		if err := os.MkdirAll(dir, 0o755); err != nil {
			t.Fatal(err)
		}
		path, absPath, err := placeStore(dir, spec.Loc, prevDoc)
		if err != nil {
			t.Fatal(err)
		}
		var saveErrs atomic.Int64
		var firstErrs int64
		fileTaken := false
		synctest.Test(t, func(t *testing.T) {
			rig, err := credx.NewRig(path, kl, spec.Stores, countingLogger(&saveErrs))
			if err != nil {
				res.Err = "start: " + err.Error()
				return
			}
			ctx, cancel := context.WithCancel(context.Background())
			rig.Start(ctx)
			synctest.Wait()
			res.AckCode = doOp(rig, kl, spec.Op)
			if spec.Via == "debounce" {
				if err := setFileSizeLimit(uint64(k)); err != nil {
					res.Err = "setrlimit: " + err.Error()
				}
				time.Sleep(6 * time.Second) // the save is attempted at +5 s on the bubble's clock
				synctest.Wait()
				_ = setFileSizeLimit(^uint64(0))
				res.File, _ = os.ReadFile(absPath)
				fileTaken = true
				firstErrs = saveErrs.Load()
				if spec.After != "" {
					ops, reload, final := afterOps(spec)
					var note []string
					if reload {
						code, _ := rig.Reload()
						note = append(note, fmt.Sprintf("POST reload-users (file untouched) -> %d", code))
						if code < 200 || code > 299 {
							res.AfterBad = "reload of the untouched file refused"
						}
						if l, err := rig.List(); err != nil || !credx.SameUsers(l, users(kl, applyModel(spec.Prev, spec.Op))) {
							res.AfterBad = fmt.Sprintf("after the reload of the untouched file the API lists %s, acknowledged is %s",
								credx.Show(l, kl), credx.Show(users(kl, applyModel(spec.Prev, spec.Op)), kl))
						}
					}
					for _, op := range ops {
						code := doOp(rig, kl, op)
						note = append(note, fmt.Sprintf("%s(%s) -> %d", op.Op, op.Name, code))
						if (code < 200 || code > 299) && res.AfterBad == "" {
							res.AfterBad = fmt.Sprintf("%s(%s), valid against the acknowledged state, answered %d", op.Op, op.Name, code)
						}
					}
					_ = final
					res.AfterNote = strings.Join(note, "; ")
				}
				cancel()
				rig.Stop()
			} else {
				synctest.Wait() // the save goroutine has taken the job and is cooling down
				if err := setFileSizeLimit(uint64(k)); err != nil {
					res.Err = "setrlimit: " + err.Error()
				}
				cancel() // shutdown forces the save now
				rig.Stop()
				_ = setFileSizeLimit(^uint64(0))
			}
		})
		_ = setFileSizeLimit(^uint64(0))
		// what a restarting server would read through the configured path
		if !fileTaken {
			res.File, _ = os.ReadFile(absPath)
			firstErrs = saveErrs.Load()
		} else if spec.After != "" {
			res.AfterFile, _ = os.ReadFile(absPath)
			res.AfterErrors = saveErrs.Load() - firstErrs
		}
		res.SaveErr = firstErrs > 0
		res.NoSave = !res.SaveErr && string(res.File) == string(prevDoc)
		if ents, err := os.ReadDir(filepath.Dir(absPath)); err == nil {
			res.Leftovers = len(ents) - 1
		}
		_ = os.Chdir(spec.Dir)
		os.RemoveAll(dir)
		out.Results = append(out.Results, res)
	}
	ob, _ := json.Marshal(out)
	if err := os.WriteFile(spec.Out, ob, 0o644); err != nil {
		t.Fatal(err)
	}
}

// childKillLoop: an endless loop of acknowledged changes, each followed by its debounce save
// (fake clock, so saves follow each other as fast as the disk allows). Before each request the
// state it leads to is appended to a journal ("I"), after the acknowledgement "A", after the
// save's due time has passed "S". The parent kills the process at a random instant.
func childKillLoop(t *testing.T, spec faultSpec) {
	kl := spec.KeyLen
	j, err := os.OpenFile(filepath.Join(spec.Dir, "journal"), os.O_CREATE|os.O_WRONLY|os.O_APPEND, 0o644)
	if err != nil {
		t.Fatal(err)
	}
	state := map[string]int{}
	for n, k := range spec.Prev {
		state[n] = k
	}
	storeDir := filepath.Join(spec.Dir, "store")
	if err := os.MkdirAll(storeDir, 0o755); err != nil {
		t.Fatal(err)
	}
	path, absPath, err := placeStore(storeDir, spec.Loc, credx.EncodeStore(users(kl, state), true))
	if err != nil {
		t.Fatal(err)
	}
	// tell the parent how to reach the store the way the configured path does
	if err := os.WriteFile(filepath.Join(spec.Dir, "store-path"), []byte(absPath), 0o644); err != nil {
		t.Fatal(err)
	}
	line := func(kind string, i int, st map[string]int) {
		b, _ := json.Marshal(st)
		fmt.Fprintf(j, "%s %d %s\n", kind, i, b)
	}
	line("S", -1, state)
	names := []string{"alice", "bob", "carol", "dave", "erin", "frank"}
	synctest.Test(t, func(t *testing.T) {
		rig, err := credx.NewRig(path, kl, spec.Stores, nil)
		if err != nil {
			fmt.Fprintf(j, "E start %v\n", err)
			return
		}
		rig.Start(context.Background())
		_ = os.WriteFile(filepath.Join(spec.Dir, "ready"), []byte("1"), 0o644)
		for i := 0; ; i++ {
			// deterministic walk: toggle users, rotate keys
			n := names[(i*7+i/5)%len(names)]
			var op opSpec
			if _, ok := state[n]; !ok {
				op = opSpec{"add", n, 0}
				for k := 0; k < 8; k++ { // first free key
					used := false
					for _, uk := range state {
						used = used || uk == k
					}
					if !used {
						op.Key = k
						break
					}
				}
			} else if i%3 == 0 {
				op = opSpec{"delete", n, 0}
			} else {
				op = opSpec{"update", n, 0}
				for k := 0; k < 8; k++ {
					used := false
					for _, uk := range state {
						used = used || uk == k
					}
					if !used {
						op.Key = k
						break
					}
				}
			}
			next := applyModel(state, op)
			line("I", i, next)
			code := doOp(rig, kl, op)
			if code < 200 || code > 299 {
				fmt.Fprintf(j, "E op %d %+v -> %d\n", i, op, code)
				return
			}
			state = next
			line("A", i, state)
			time.Sleep(6 * time.Second)
			synctest.Wait()
			line("S", i, state)
		}
	})
}
