package c20

import (
	"bytes"
	"context"
	"encoding/base64"
	"encoding/json"
	"fmt"
	"net/url"
	"os"
	"path/filepath"
	"strings"
	"testing"
	"testing/synctest"
	"time"

	"pgregory.net/rapid"

	"verif/internal/credx"
	"verif/internal/ev"
)

// Usernames are arbitrary JSON strings to the management API. Whatever name the API accepted
// and lists must survive the automatic save: the store must still load and hold exactly the
// acknowledged set, names compared as the API returns them.

// nameLits are JSON string literals (the bytes between the quotes of the request body), so that
// escapes, raw bytes and invalid UTF-8 reach the API's decoder exactly as written here.
// Written with Go escapes only, so that this source file stays plain ASCII.
var nameTable = []struct{ class, lit string }{
	{"control", `\u0001`}, {"control", `\u0007bell`}, {"control", "del\x7f"}, {"control", `nul\u0000nul`},
	{"control", `tab\there\nnewline\rcr`}, {"control", `\u001b[31mred`}, {"control", "raw-del-\x7f-and-c1-\u0085"},
	{"quote-backslash", `he said \"hi\" \\ back\\slash`}, {"quote-backslash", `\\u0041 literally`}, {"quote-backslash", `\/slash\\`},
	{"non-bmp", `\udb40\udc01tag`}, {"non-bmp", "\U000e0001raw-tag"}, {"non-bmp", `\ud83d\ude00`}, {"non-bmp", "\U0001f600raw"},
	{"unicode-separators", `ls\u2028ps\u2029`}, {"unicode-separators", "raw\u2028ls"}, {"unicode-separators", "zero\u200bwidth"},
	{"unicode-separators", `\ufeffbom`}, {"unicode-separators", "\ufeffrawbom"}, {"unicode-separators", `\ufffe-nonchar`},
	{"unicode-separators", "\u00a0nbsp"}, {"unicode-separators", "rtl\u202eoverride"},
	{"invalid-utf8", "\xff\xfeinvalid-utf8"}, {"invalid-utf8", `\ud800lone-surrogate`}, {"invalid-utf8", "trunc\xe2\x82"},
	{"other", `<script>&amp;'`}, {"other", `{\"a\":1}`}, {"other", ` leading and trailing `}, {"other", `.`}, {"other", `..`},
	{"other", `a/b`}, {"other", `a%2Fb`}, {"other", `per%cent`}, {"other", "\u00fcn\u00efc\u00f6d\u00e9"}, {"other", "\u540d\u524d"},
	{"long", strings.Repeat("a", 5000)}, {"long", strings.Repeat("\u20ac", 1500)}, {"long", strings.Repeat(`\u0001`, 300)},
}

var nameLits = func() []string {
	out := make([]string, len(nameTable))
	for i, e := range nameTable {
		out[i] = e.lit
	}
	return out
}()

var recNames = ev.New("C20", "exotic-usernames-survive-save",
	"rapid, fake clock: initial store of 0-3 users and 1-5 requests (POST users with a raw JSON body, sometimes DELETE with the "+
		"escaped name) whose usernames are drawn from control characters, DEL, NUL, quotes/backslashes, escapes written literally, "+
		"non-BMP (raw and as surrogate pairs), U+2028/2029, zero-width/BOM/noncharacters, invalid UTF-8 and lone surrogates as the API's "+
		"decoder maps them, HTML/JSON/path look-alikes, 5 000-character names; after the 5 s debounce the store file must decode (README "+
		"codec) to exactly the set the API lists (= the acknowledged names as echoed by the API), and a fresh server started on it must "+
		"list the same set and attribute each key to that name. Non-trivial: a name outside printable ASCII was acknowledged and saved").
	Require("class/control", "class/quote-backslash", "class/non-bmp", "class/invalid-utf8", "class/long", "class/unicode-separators")

func classOfLit(lit string) string {
	for _, e := range nameTable {
		if e.lit == lit {
			return e.class
		}
	}
	return "other"
}

// decodeLit is what a JSON decoder makes of the literal (the standard library's decoder, the
// same family the API uses; not code under test).
func decodeLit(lit string) (string, error) {
	var s string
	err := json.Unmarshal([]byte(`"`+lit+`"`), &s)
	return s, err
}

type nameStep struct {
	Lit    string `json:"lit"`
	Delete bool   `json:"delete,omitempty"`
	Key    int    `json:"key"`
}

type namePlan struct {
	KeyLen  int        `json:"key_len"`
	Stores  credx.Mode `json:"stores"`
	Initial []string   `json:"initial"` // literals
	Steps   []nameStep `json:"steps"`
}

func runNamePlan(t *testing.T, p namePlan, dir string) (violation string, classes map[string]bool, saved int) {
	kl := p.KeyLen
	classes = map[string]bool{}
	path := filepath.Join(dir, "upsks.json")
	model := map[string][]byte{}
	for i, lit := range p.Initial {
		n, err := decodeLit(lit)
		if err != nil || n == "" {
			continue
		}
		if _, dup := model[n]; !dup {
			model[n] = credx.Key(kl, 50+i)
		}
	}
	if err := os.WriteFile(path, credx.EncodeStore(model, true), 0o644); err != nil {
		return "HARNESS " + err.Error(), nil, 0
	}
	synctest.Test(t, func(t *testing.T) {
		rig, err := credx.NewRig(path, kl, p.Stores, nil)
		if err != nil {
			violation = fmt.Sprintf("SIG=C20/store-with-unusual-names-refused a store written by a standard JSON encoder is refused at start-up: %v", err)
			return
		}
		ctx, cancel := context.WithCancel(context.Background())
		rig.Start(ctx)
		defer func() { cancel(); rig.Stop() }()
		var history []string
		for i, st := range p.Steps {
			want, derr := decodeLit(st.Lit)
			if st.Delete {
				if derr != nil {
					continue
				}
				code, _ := rig.DoRaw("DELETE", credx.UsersPath+"/"+url.PathEscape(want), nil)
				_, exists := model[want]
				history = append(history, fmt.Sprintf("DELETE %q -> %d", clip([]byte(want), 40), code))
				switch {
				case exists && code >= 200 && code < 300:
					delete(model, want)
				case !exists && code >= 400:
				case want == "" || want == "." || want == "..":
					// not addressable as one path segment (the mux cleans the path); nothing was acknowledged
					if code >= 200 && code < 300 {
						violation = fmt.Sprintf("SIG=C20/exotic-name-delete DELETE of %q acknowledged with %d", want, code)
						return
					}
				default:
					violation = fmt.Sprintf("SIG=C20/exotic-name-delete DELETE users/%s -> %d (user exists: %v); history %v", url.PathEscape(want), code, exists, history)
					return
				}
				continue
			}
			key := credx.Key(kl, 10+i)
			body := []byte(`{"username":"` + st.Lit + `","uPSK":"` + base64.StdEncoding.EncodeToString(key) + `"}`)
			code, resp := rig.DoRaw("POST", credx.UsersPath, body)
			history = append(history, fmt.Sprintf("POST %s -> %d", clip([]byte(st.Lit), 40), code))
			if code < 200 || code > 299 {
				continue // refused: nothing acknowledged (the API may refuse any name it likes)
			}
			var echo struct {
				Name string `json:"username"`
			}
			if err := json.Unmarshal(resp, &echo); err != nil {
				violation = fmt.Sprintf("SIG=C20/exotic-name-echo the 201 body does not decode: %v (%q)", err, clip(resp, 80))
				return
			}
			if derr == nil && echo.Name != want {
				violation = fmt.Sprintf("SIG=C20/exotic-name-echo POST of name literal %s acknowledged as %q, a JSON decoder reads it as %q", clip([]byte(st.Lit), 60), echo.Name, want)
				return
			}
			model[echo.Name] = key
			classes[classOfLit(st.Lit)] = true
		}
		listed, err := rig.List()
		if err != nil {
			violation = "SIG=C20/exotic-name-list " + err.Error()
			return
		}
		if !credx.SameUsers(listed, model) {
			violation = fmt.Sprintf("SIG=C20/exotic-name-list API lists %d users, %d were acknowledged; history %v", len(listed), len(model), history)
			return
		}
		time.Sleep(6 * time.Second) // debounce save
		synctest.Wait()
		b, err := os.ReadFile(path)
		if err != nil {
			violation = "SIG=C20/store-not-loadable-after-save " + err.Error()
			return
		}
		got, complete, derr := credx.DecodeStore(b, kl)
		p2 := filepath.Join(dir, "restart.json")
		_ = os.WriteFile(p2, b, 0o644)
		fresh, rerr := credx.NewRig(p2, kl, p.Stores, nil)
		restart := "a restarting server loads it"
		if rerr != nil {
			restart = "a restarting server refuses it: " + rerr.Error()
		}
		if derr != nil || !complete {
			violation = fmt.Sprintf("SIG=C20/save-writes-unloadable-store after the automatic save the store is not a valid document (%v); %s; history %v; file %q",
				derr, restart, history, clip(b, 300))
			return
		}
		if !credx.SameUsers(got, listed) {
			violation = fmt.Sprintf("SIG=C20/saved-names-differ the saved store decodes to %d users that are not the %d the API lists; history %v; file %q", len(got), len(listed), history, clip(b, 300))
			return
		}
		if rerr != nil {
			violation = fmt.Sprintf("SIG=C20/save-writes-unloadable-store the saved store decodes per README but %s; history %v", restart, history)
			return
		}
		fl, err := fresh.List()
		if err != nil || !credx.SameUsers(fl, listed) {
			violation = fmt.Sprintf("SIG=C20/saved-names-differ a server restarted on the saved store lists %d users, the API listed %d (%v); history %v", len(fl), len(listed), err, history)
			return
		}
		for n, k := range listed {
			var probes []credx.Probe
			if p.Stores.HasTCP() {
				probes = append(probes, fresh.ProbeTCP(k))
			}
			if p.Stores.HasUDP() {
				probes = append(probes, fresh.ProbeUDP(k))
			}
			for _, pr := range probes {
				if !pr.OK || pr.User != n || !pr.ReplyOK {
					violation = fmt.Sprintf("SIG=C20/saved-names-differ after restart the key of %q is accepted=%v as %q", clip([]byte(n), 40), pr.OK, clip([]byte(pr.User), 40))
					return
				}
			}
		}
		saved = len(listed)
	})
	return violation, classes, saved
}

func TestExoticUsernames(t *testing.T) {
	base, err := os.MkdirTemp(workDir(), "verif-c20-n-")
	if err != nil {
		t.Fatal(err)
	}
	defer os.RemoveAll(base)
	n := 0
	rapid.Check(t, func(rt *rapid.T) {
		n++
		p := namePlan{
			KeyLen: rapid.SampledFrom([]int{16, 32}).Draw(rt, "kl"),
			Stores: rapid.SampledFrom([]credx.Mode{credx.TCPOnly, credx.UDPOnly, credx.Both}).Draw(rt, "stores"),
		}
		for i, k := 0, rapid.IntRange(0, 3).Draw(rt, "ninit"); i < k; i++ {
			p.Initial = append(p.Initial, rapid.SampledFrom(nameLits).Draw(rt, "init"))
		}
		for i, k := 0, rapid.IntRange(1, 5).Draw(rt, "nsteps"); i < k; i++ {
			p.Steps = append(p.Steps, nameStep{Lit: rapid.SampledFrom(nameLits).Draw(rt, "lit"), Delete: rapid.IntRange(0, 4).Draw(rt, "del") == 0})
		}
		dir := filepath.Join(base, fmt.Sprint(n))
		os.MkdirAll(dir, 0o755)
		defer os.RemoveAll(dir)
		v, classes, saved := runNamePlan(t, p, dir)
		if v != "" {
			pb, _ := json.Marshal(p)
			rt.Fatalf("%s\n  plan: %s", v, clip(pb, 1500))
		}
		var labels []string
		var key bytes.Buffer
		for c := range classes {
			labels = append(labels, "class/"+c)
		}
		for _, st := range p.Steps {
			fmt.Fprintf(&key, "%s%v,", classOfLit(st.Lit), st.Delete)
		}
		recNames.Case(key.String(), len(classes) > 0 && saved > 0, labels...)
	})
}
