package c20

import (
	"bytes"
	"crypto/sha256"
	"encoding/json"
	"fmt"
	"os"
	"os/exec"
	"path/filepath"
	"sort"
	"strconv"
	"strings"
	"sync"
	"testing"

	"pgregory.net/rapid"

	"verif/internal/credx"
	"verif/internal/ev"
)

func TestMain(m *testing.M) { ev.Main(m) }

const (
	sigPartial      = "partial-write-destroys-store"
	sigNotSaved     = "acknowledged-change-not-saved-on-stop"
	sigLostByReload = "acknowledged-change-lost-by-reload-of-untouched-file"
	sigAfterFault   = "change-after-failed-save-not-written"
)

var scratchOnce sync.Once
var scratchBase string

// workDir is where per-case store directories are created (see credx.ScratchBase).
func workDir() string {
	scratchOnce.Do(func() { scratchBase = credx.ScratchBase("verif-c20-") })
	return scratchBase
}

func envInt(name string, def int) int {
	if v, err := strconv.Atoi(os.Getenv(name)); err == nil && v > 0 {
		return v
	}
	return def
}

func seedInt() int {
	if v, err := strconv.Atoi(os.Getenv("VERIF_SEED")); err == nil {
		return v
	}
	return 0
}

var names = []string{"alice", "bob", "carol", "dave", "erin", "frank", "grace"}

// storeCases enumerates (previous store, change) pairs: stores of 0..maxUsers users, each of
// add / update / delete where applicable, both key sizes.
func storeCases(maxUsers int) []faultSpec {
	var out []faultSpec
	for _, kl := range []int{16, 32} {
		for n := 0; n <= maxUsers; n++ {
			prev := map[string]int{}
			for i := 0; i < n; i++ {
				prev[names[i]] = i
			}
			ops := []opSpec{{"add", names[n], n}}
			if n > 0 {
				ops = append(ops, opSpec{"update", names[n/2], n + 1}, opSpec{"delete", names[(n-1)/2], 0})
			}
			for _, op := range ops {
				out = append(out, faultSpec{Mode: "faults", KeyLen: kl, Prev: prev, Op: op})
			}
		}
	}
	return out
}

func runChild(spec faultSpec, timeoutArg string) ([]byte, error) {
	sb, _ := json.Marshal(spec)
	specPath := filepath.Join(spec.Dir, "spec.json")
	if err := os.WriteFile(specPath, sb, 0o644); err != nil {
		return nil, err
	}
	cmd := exec.Command(os.Args[0], "-test.run", "^TestChildFaults$", "-test.count=1", "-test.timeout", timeoutArg)
	cmd.Env = append(os.Environ(), "VERIF_C20_CHILD="+specPath, "VERIF_EVDIR=")
	return cmd.CombinedOutput()
}

var recFaults = ev.New("C20", "write-fault-enumeration",
	"for each (previous store of 0..N users, one acknowledged add/update/delete through the ssm handlers, key size, stores, save "+
		"trigger = 5 s debounce on a fake clock or shutdown, store location = plain absolute path / file in a nested directory / "+
		"configured path is a symbolic link (absolute or relative target) to the real file / path relative to the working directory): a child process repeats the scenario with RLIMIT_FSIZE=k for EVERY k in "+
		"0..len(new document) (SIGXFSZ ignored: the write fails after exactly k bytes). After each fault the parent decodes what the configured path leads to "+
		"with a codec written from the README (must be one complete document equal to the previous or the new user set) and starts a fresh "+
		"server on it (must start and accept exactly that set's keys). For debounce-triggered cases the child then lifts the limit "+
		"and, in the same process, either re-applies the very change whose save failed (undo+redo within one cool-down), or reloads the "+
		"untouched file and makes one more change, or just makes one more change, and stops gracefully: the store must equal the "+
		"acknowledged set. One evaluation = one fault point. Non-trivial: 0<k<len(document) and "+
		"the save was actually attempted. Distinct key = (key size, stores, users before, op, trigger, k)").
	Require("k-inside-document", "k-zero", "k-full-length", "via/debounce", "via/cancel", "users/0", "op/add", "op/update", "op/delete",
		"loc/plain", "loc/symlink-abs", "loc/symlink-rel", "loc/relative", "loc/relative-subdir", "loc/subdir",
		"after/redo", "after/reload", "after/more", "changes-after-a-failed-save-written")

type verdict struct {
	set   string // "prev", "new" or ""
	descr string
}

// judge applies the oracle to one store-file content.
func judge(content []byte, kl int, stores credx.Mode, prev, next map[string][]byte, scratch string, cache map[[32]byte]verdict) verdict {
	h := sha256.Sum256(append([]byte(fmt.Sprintf("%d/%d/%s/%s|", kl, stores, credx.Show(prev, kl), credx.Show(next, kl))), content...))
	if v, ok := cache[h]; ok {
		return v
	}
	v := func() verdict {
		got, complete, err := credx.DecodeStore(content, kl)
		// what does a restarting server make of it?
		p := filepath.Join(scratch, fmt.Sprintf("restart-%x.json", h[:6]))
		_ = os.WriteFile(p, content, 0o644)
		defer os.Remove(p)
		rig, rerr := credx.NewRig(p, kl, stores, nil)
		restart := "a restarting server refuses it: "
		if rerr == nil {
			l, _ := rig.List()
			restart = fmt.Sprintf("a restarting server loads it as %s", credx.Show(l, kl))
		} else {
			restart += rerr.Error()
		}
		if err != nil || !complete {
			return verdict{"", fmt.Sprintf("not a complete store document (decode error: %v); %s", err, restart)}
		}
		which := ""
		switch {
		case credx.SameUsers(got, next):
			which = "new"
		case credx.SameUsers(got, prev):
			which = "prev"
		default:
			return verdict{"", fmt.Sprintf("holds %s, neither the previous nor the new set; %s", credx.Show(got, kl), restart)}
		}
		if rerr != nil {
			return verdict{"", "decodes per README but " + restart}
		}
		// the fresh server must accept exactly the decoded set's keys
		keys := map[string][]byte{}
		for _, m := range []map[string][]byte{prev, next} {
			for _, k := range m {
				keys[string(k)] = k
			}
		}
		keys["stranger"] = credx.Key(kl, 7)
		for _, k := range keys {
			owner, listed := "", false
			for n, gk := range got {
				if bytes.Equal(gk, k) {
					owner, listed = n, true
				}
			}
			var probes []credx.Probe
			if stores.HasTCP() {
				probes = append(probes, rig.ProbeTCP(k))
			}
			if stores.HasUDP() {
				probes = append(probes, rig.ProbeUDP(k))
			}
			for _, pr := range probes {
				if pr.OK != listed || (listed && pr.User != owner) || (listed && !pr.ReplyOK) {
					return verdict{"", fmt.Sprintf("fresh server on the file: key %s accepted=%v as %q (reply round trip: %v %s), file says listed=%v owner=%q", credx.KeyName(k, kl), pr.OK, pr.User, pr.ReplyOK, pr.ReplyErr, listed, owner)}
				}
			}
		}
		return verdict{which, ""}
	}()
	cache[h] = v
	return v
}

func TestFaultEnumeration(t *testing.T) {
	maxUsers := envInt("VERIF_C20_MAXUSERS", 2)
	cases := storeCases(maxUsers)
	// spread triggers and store kinds over the cases deterministically (seed rotates the assignment)
	seed := seedInt()
	for i := range cases {
		cases[i].Via = []string{"debounce", "cancel"}[(i+seed)%2]
		cases[i].Stores = []credx.Mode{credx.Both, credx.TCPOnly, credx.UDPOnly}[(i/2+seed)%3]
		cases[i].Loc = Locs[(i+seed)%len(Locs)]
		if cases[i].Via == "debounce" {
			cases[i].After = []string{"redo", "reload", "more"}[(i/2+seed)%3]
		}
	}
	if shards := envInt("VERIF_SHARDS", 1); shards > 1 {
		sh, _ := strconv.Atoi(os.Getenv("VERIF_SHARD"))
		var mine []faultSpec
		for i, c := range cases {
			if i%shards == sh {
				mine = append(mine, c)
			}
		}
		cases = mine
	}
	base, err := os.MkdirTemp(workDir(), "verif-c20-f-")
	if err != nil {
		t.Fatal(err)
	}
	defer os.RemoveAll(base)

	type job struct {
		spec faultSpec
		out  faultOutput
		err  string
	}
	jobs := make([]*job, len(cases))
	sem := make(chan struct{}, envInt("VERIF_C20_PAR", 4))
	var wg sync.WaitGroup
	for i, c := range cases {
		c.Dir = filepath.Join(base, fmt.Sprintf("case%d", i))
		c.Out = filepath.Join(c.Dir, "out.json")
		os.MkdirAll(c.Dir, 0o755)
		j := &job{spec: c}
		jobs[i] = j
		wg.Go(func() {
			sem <- struct{}{}
			defer func() { <-sem }()
			o, err := runChild(j.spec, "10m")
			if err != nil {
				j.err = fmt.Sprintf("child failed: %v\n%s", err, o)
				return
			}
			b, err := os.ReadFile(j.spec.Out)
			if err != nil {
				j.err = fmt.Sprintf("child wrote no result: %v\n%s", err, o)
				return
			}
			if err := json.Unmarshal(b, &j.out); err != nil {
				j.err = "bad child result: " + err.Error()
			}
		})
	}
	wg.Wait()

	cache := map[[32]byte]verdict{}
	var violations, afterViolations []string
	knownCount := 0
	for _, j := range jobs {
		if j.err != "" {
			t.Fatalf("HARNESS %s", j.err)
		}
		sp := j.spec
		kl := sp.KeyLen
		prev, next := users(kl, sp.Prev), users(kl, applyModel(sp.Prev, sp.Op))
		prevDoc := credx.EncodeStore(prev, true)
		class := fmt.Sprintf("%d/%v/users%d/%s/%s/%s", kl, sp.Stores, len(sp.Prev), sp.Op.Op, sp.Via, sp.Loc)
		firstBad := ""
		nBad := 0
		for _, r := range j.out.Results {
			if r.Err != "" || r.AckCode < 200 || r.AckCode > 299 {
				t.Fatalf("HARNESS case %s k=%d: err=%q ack=%d", class, r.K, r.Err, r.AckCode)
			}
			inside := r.K > 0 && r.K < j.out.NewDocLen
			labels := []string{"via/" + sp.Via, "op/" + sp.Op.Op, fmt.Sprintf("users/%d", len(sp.Prev)), fmt.Sprintf("keylen/%d", kl), "stores/" + sp.Stores.String(), "loc/" + sp.Loc}
			switch {
			case r.K == 0:
				labels = append(labels, "k-zero")
			case inside:
				labels = append(labels, "k-inside-document")
			default:
				labels = append(labels, "k-full-length")
			}
			if r.NoSave {
				labels = append(labels, "save-not-attempted")
			}
			if r.SaveErr {
				labels = append(labels, "save-error-logged")
			}
			if sp.After != "" {
				labels = append(labels, "after/"+sp.After)
				_, _, final := afterOps(sp)
				wantAfter := users(kl, final)
				got, complete, derr := credx.DecodeStore(r.AfterFile, kl)
				bad := r.AfterBad
				if bad == "" && (derr != nil || !complete || !credx.SameUsers(got, wantAfter)) {
					bad = fmt.Sprintf("after the graceful stop the store file holds %s (decode error %v), the acknowledged set is %s; save errors logged in this part: %d",
						credx.Show(got, kl), derr, credx.Show(wantAfter, kl), r.AfterErrors)
				}
				if bad != "" {
					msg := fmt.Sprintf("SIG=C20/%s case %s: previous store %s, %s(%s) acknowledged, its save limited to %d of %d bytes (error logged: %v); limit lifted; then in the same process: %s; graceful stop: %s",
						sigAfterFault, class, credx.Show(prev, kl), sp.Op.Op, sp.Op.Name, r.K, j.out.NewDocLen, r.SaveErr, r.AfterNote, bad)
					if isKnown(sigAfterFault) {
						recFaults.KnownHit(listedSig(sigAfterFault))
					} else if r.SaveErr || len(afterViolations) == 0 {
						afterViolations = append(afterViolations, msg)
					}
				} else if r.SaveErr {
					labels = append(labels, "changes-after-a-failed-save-written")
				}
			}
			v := judge(r.File, kl, sp.Stores, prev, next, base, cache)
			if v.set == "" {
				nBad++
				if firstBad == "" || (inside && !strings.Contains(firstBad, "0<k<len")) {
					tag := ""
					if inside {
						tag = " (0<k<len)"
					}
					firstBad = fmt.Sprintf("write limit k=%d%s of a %d-byte document: store file is now %q: %s", r.K, tag, j.out.NewDocLen, clip(r.File, 120), v.descr)
				}
				continue
			}
			labels = append(labels, "file-holds-"+v.set)
			if r.K >= j.out.NewDocLen && v.set != "new" && !r.NoSave {
				// no fault was injected (limit >= document) and the save ran: the change must be there
				violations = append(violations, fmt.Sprintf("SIG=C20/unlimited-save-lost-change case %s k=%d: file still holds the previous set", class, r.K))
			}
			sort.Strings(labels)
			recFaults.Case(fmt.Sprintf("%s/k%d", class, r.K), inside && !r.NoSave, labels...)
		}
		if nBad > 0 {
			msg := fmt.Sprintf("SIG=C20/%s case %s: previous store %q, change %s(%s) acknowledged, then %d of %d fault points left a store that is neither the previous nor the new document; e.g. %s",
				sigPartial, class, prevDoc, sp.Op.Op, sp.Op.Name, nBad, len(j.out.Results), firstBad)
			if isKnown(sigPartial) {
				knownCount += nBad
				for i := 0; i < nBad; i++ {
					recFaults.KnownHit(listedSig(sigPartial))
				}
			} else {
				violations = append(violations, msg)
			}
		}
		recFaults.Sample(map[string]any{"case": class, "prev": sp.Prev, "op": sp.Op, "doc_len": j.out.NewDocLen, "fault_points": len(j.out.Results)})
	}
	sort.Slice(afterViolations, func(a, b int) bool { return len(afterViolations[a]) < len(afterViolations[b]) })
	if len(afterViolations) > 0 {
		t.Errorf("%s", afterViolations[0])
		if len(afterViolations) > 1 {
			t.Errorf("%s", afterViolations[len(afterViolations)/2])
			t.Errorf("(%d fault points failed this way)", len(afterViolations))
		}
	}
	sort.Slice(violations, func(a, b int) bool { return len(violations[a]) < len(violations[b]) })
	for i, v := range violations {
		if i < 3 {
			t.Errorf("%s", v)
		}
	}
	if len(violations) > 3 {
		t.Errorf("(%d more cases failed the same way)", len(violations)-3)
	}
}

func clip(b []byte, n int) string {
	if len(b) > n {
		return string(b[:n]) + fmt.Sprintf("…(%d bytes)", len(b))
	}
	return string(b)
}

// ---- randomised fault points on larger stores (rapid picks store, change and a handful of k)

var recFaultsRandom = ev.New("C20", "write-fault-random-stores",
	"rapid: stores of 0..7 users drawn from the universe, random change, random trigger; a child injects RLIMIT_FSIZE=k for 8 drawn k "+
		"(boundaries 0,1,len-1,len plus uniform); same oracle as write-fault-enumeration. Non-trivial: 0<k<len and save attempted")

func TestFaultRandomStores(t *testing.T) {
	base, err := os.MkdirTemp(workDir(), "verif-c20-r-")
	if err != nil {
		t.Fatal(err)
	}
	defer os.RemoveAll(base)
	cache := map[[32]byte]verdict{}
	n := 0
	rapid.Check(t, func(rt *rapid.T) {
		n++
		kl := rapid.SampledFrom([]int{16, 32}).Draw(rt, "kl")
		stores := rapid.SampledFrom([]credx.Mode{credx.TCPOnly, credx.UDPOnly, credx.Both}).Draw(rt, "stores")
		nu := rapid.IntRange(0, 6).Draw(rt, "users")
		perm := rapid.Permutation([]int{0, 1, 2, 3, 4, 5, 6}).Draw(rt, "perm")
		prev := map[string]int{}
		for i := 0; i < nu; i++ {
			prev[names[perm[i]]] = i
		}
		var op opSpec
		switch k := rapid.IntRange(0, 2).Draw(rt, "op"); {
		case k == 0 || nu == 0:
			op = opSpec{"add", names[perm[nu]], 7}
		case k == 1:
			op = opSpec{"update", names[perm[rapid.IntRange(0, nu-1).Draw(rt, "who")]], 7}
		default:
			op = opSpec{"delete", names[perm[rapid.IntRange(0, nu-1).Draw(rt, "who")]], 0}
		}
		via := rapid.SampledFrom([]string{"debounce", "cancel"}).Draw(rt, "via")
		loc := rapid.SampledFrom(Locs).Draw(rt, "loc")
		next := applyModel(prev, op)
		docLen := len(credx.EncodeStore(users(kl, next), true))
		ks := []int{}
		for i := 0; i < 8; i++ {
			switch rapid.IntRange(0, 5).Draw(rt, "kkind") {
			case 0:
				ks = append(ks, 0)
			case 1:
				ks = append(ks, 1)
			case 2:
				ks = append(ks, docLen-1)
			case 3:
				ks = append(ks, docLen)
			default:
				ks = append(ks, rapid.IntRange(0, docLen).Draw(rt, "k"))
			}
		}
		spec := faultSpec{Mode: "faults", KeyLen: kl, Stores: stores, Prev: prev, Op: op, Via: via, Ks: ks, Loc: loc,
			Dir: filepath.Join(base, fmt.Sprintf("c%d", n))}
		spec.Out = filepath.Join(spec.Dir, "out.json")
		os.MkdirAll(spec.Dir, 0o755)
		defer os.RemoveAll(spec.Dir)
		o, err := runChild(spec, "5m")
		if err != nil {
			rt.Fatalf("HARNESS child failed: %v\n%s", err, o)
		}
		var out faultOutput
		b, _ := os.ReadFile(spec.Out)
		if err := json.Unmarshal(b, &out); err != nil {
			rt.Fatalf("HARNESS bad child result: %v\n%s", err, o)
		}
		pu, nuu := users(kl, prev), users(kl, next)
		for _, r := range out.Results {
			if r.Err != "" || r.AckCode < 200 || r.AckCode > 299 {
				rt.Fatalf("HARNESS k=%d err=%q ack=%d", r.K, r.Err, r.AckCode)
			}
			v := judge(r.File, kl, stores, pu, nuu, base, cache)
			inside := r.K > 0 && r.K < out.NewDocLen
			if v.set == "" {
				if isKnown(sigPartial) {
					recFaultsRandom.KnownHit(listedSig(sigPartial))
					continue
				}
				rt.Fatalf("SIG=C20/%s previous store %s, %s(%s) acknowledged, save via %s limited to k=%d of %d bytes: store file is now %q: %s",
					sigPartial, credx.Show(pu, kl), op.Op, op.Name, via, r.K, out.NewDocLen, clip(r.File, 120), v.descr)
			}
			recFaultsRandom.Case(fmt.Sprintf("%d/%v/%d/%s/%s/%d", kl, stores, nu, op.Op, via, r.K), inside && !r.NoSave,
				"via/"+via, "op/"+op.Op, fmt.Sprintf("users/%d", nu), "file-holds-"+v.set, "loc/"+loc)
		}
	})
}
