package c20

import (
	"bytes"
	"encoding/json"
	"fmt"
	"os"
	"path/filepath"
	"regexp"
	"sort"
	"sync"
	"sync/atomic"
	"syscall"
	"testing"
	"time"

	"verif/internal/credx"
	"verif/internal/ev"
)

// Shared pieces of the round-6 tests (asstart_test.go, stream_test.go, burst_test.go,
// cooldown_test.go): completion bounds for API calls / saves / Stop, the restart oracle and the
// plan journal.

const sigHang = "save-or-api-call-did-not-return"

// fakeHangBound is the completion bound on a synctest clock. Fake time only advances when every
// goroutine of the bubble is durably blocked, so a call that has not returned after an hour of
// fake time waits for something that nothing in the bubble will ever do.
const fakeHangBound = time.Hour

// realHangBound is the completion bound in real time (a whole fake-time plan takes milliseconds;
// a 20 000-user save tens of milliseconds).
const realHangBound = 45 * time.Second

// noProgressBound: real time without any step of a fake-time plan starting or finishing.
const noProgressBound = 30 * time.Second

// hangExit reports a call that did not return. The goroutines that hang cannot be unblocked or
// abandoned (a synctest bubble only ends when all its goroutines have), so the process reports
// the violation in the form the driver recognises even on a non-zero exit and ends.
func hangExit(kind string, plan any, what string) {
	env, _ := json.Marshal(map[string]any{"kind": kind, "plan": plan})
	fmt.Fprintf(os.Stderr, "VERIF-VIOLATION SIG=C20/%s %s\nPLAN-JSON %s\n", sigHang, what, env)
	fmt.Fprintf(os.Stdout, "--- FAIL: SIG=C20/%s %s\n", sigHang, what)
	ev.Flush()
	os.Exit(1)
}

// progress is what a plan was doing, readable by a watchdog outside the bubble.
type progress struct {
	v   atomic.Value
	seq atomic.Int64
}

func (p *progress) Set(format string, a ...any) {
	p.v.Store(fmt.Sprintf(format, a...))
	p.seq.Add(1)
}
func (p *progress) Get() string {
	if s, ok := p.v.Load().(string); ok {
		return s
	}
	return "(nothing yet)"
}

// realWatchdog arms a real-time bound around one fake-time plan (call it OUTSIDE the bubble: its
// clock is then the real one). A bubble whose goroutines wait on each other through a sync.Mutex /
// RWMutex is not durably blocked: its fake clock stops and synctest reports nothing; only real time
// shows it. The bound is on the time WITHOUT PROGRESS (no new request started or finished), so
// a slow machine does not trip it: a step of a fake-time plan takes well under a millisecond.
func realWatchdog(kind string, plan any, prog *progress) (disarm func()) {
	stop := make(chan struct{})
	go func() {
		last, since := prog.seq.Load(), time.Now()
		tk := time.NewTicker(250 * time.Millisecond)
		defer tk.Stop()
		for {
			select {
			case <-stop:
				return
			case <-tk.C:
			}
			if s := prog.seq.Load(); s != last {
				last, since = s, time.Now()
			} else if time.Since(since) > noProgressBound {
				hangExit(kind, plan, fmt.Sprintf("no step of the plan finished within %v of real time (the fake clock is stopped: goroutines wait on each other through a mutex); last step started: %s", noProgressBound, prog.Get()))
			}
		}
	}()
	return func() { close(stop) }
}

// guarded runs f in its own goroutine and waits for it with a bound on the clock of the caller
// (fake inside a bubble, real outside).
func guarded(kind string, plan any, bound time.Duration, prog *progress, what string, f func()) {
	prog.Set("%s", what)
	done := make(chan struct{})
	go func() { defer close(done); f() }()
	tm := time.NewTimer(bound)
	defer tm.Stop()
	select {
	case <-done:
	case <-tm.C:
		hangExit(kind, plan, fmt.Sprintf("%s did not return within %v (%s clock)", what, bound, map[bool]string{true: "fake", false: "real"}[bound == fakeHangBound]))
	}
}

// waitGuarded waits for a WaitGroup with the same bound.
func waitGuarded(kind string, plan any, bound time.Duration, prog *progress, what string, wg *sync.WaitGroup) {
	done := make(chan struct{})
	go func() { wg.Wait(); close(done) }()
	tm := time.NewTimer(bound)
	defer tm.Stop()
	select {
	case <-done:
	case <-tm.C:
		hangExit(kind, plan, fmt.Sprintf("%s: not all calls returned within %v; last step: %s", what, bound, prog.Get()))
	}
}

// journal writes the plan about to be executed where the driver picks it up if the process dies
// (concurrent map access in the code under test is a fatal error, not a panic).
func journal(kind string, plan any) (remove func()) {
	w := os.Getenv("VERIF_WORK")
	if w == "" {
		return func() {}
	}
	p := filepath.Join(w, "journal-c20-"+kind+".json")
	b, _ := json.Marshal(map[string]any{"kind": kind, "plan": plan})
	_ = os.WriteFile(p, b, 0o644)
	return func() { os.Remove(p) }
}

var planLine = regexp.MustCompile(`\{"kind":"[a-z-]+","plan":\{.*\}\}`)

// recordedPlan finds a plan envelope in a replay file (a journal, or a log with a PLAN-JSON line).
func recordedPlan(b []byte) (kind string, plan json.RawMessage, ok bool) {
	m := planLine.Find(b)
	if m == nil {
		return "", nil, false
	}
	var envl struct {
		Kind string          `json:"kind"`
		Plan json.RawMessage `json:"plan"`
	}
	if json.Unmarshal(m, &envl) != nil {
		return "", nil, false
	}
	return envl.Kind, envl.Plan, true
}

// fileID identifies one generation of the store file: an atomic save replaces the file (new
// inode), an in-place rewrite changes size and modification time.
type fileID struct {
	ino   uint64
	size  int64
	mtime int64
}

func inodeOf(path string) fileID {
	fi, err := os.Stat(path)
	if err != nil {
		return fileID{}
	}
	id := fileID{size: fi.Size(), mtime: fi.ModTime().UnixNano()}
	if st, ok := fi.Sys().(*syscall.Stat_t); ok {
		id.ino = st.Ino
	}
	return id
}

var restartSeq atomic.Int64

// restartCheck is what "the server restarts and accepts exactly the persisted users" means here:
// a fresh credential manager and fresh protocol objects on the given store bytes must start, list
// exactly want, accept every key of want as its owner (request and reply round trip) and refuse
// every other key of probe (keys that were deleted, replaced or never issued).
func restartCheck(content []byte, kl int, stores credx.Mode, want map[string][]byte, probe [][]byte, scratch string) string {
	p := filepath.Join(scratch, fmt.Sprintf("restart-%d-%d.json", os.Getpid(), restartSeq.Add(1)))
	if err := os.WriteFile(p, content, 0o644); err != nil {
		return "HARNESS " + err.Error()
	}
	defer os.Remove(p)
	rig, err := credx.NewRig(p, kl, stores, nil)
	if err != nil {
		return fmt.Sprintf("a restarting server refuses the store: %v", err)
	}
	l, err := rig.List()
	if err != nil || !credx.SameUsers(l, want) {
		return fmt.Sprintf("a restarted server lists %s (%v), the acknowledged set is %s", showSet(l, kl), err, showSet(want, kl))
	}
	keys := map[string][]byte{}
	for _, k := range probe {
		keys[string(k)] = k
	}
	// small sets are probed completely; of a large one (padding users) the named keys and a sample
	wn := make([]string, 0, len(want))
	for n := range want {
		wn = append(wn, n)
	}
	sort.Strings(wn)
	for i, n := range wn {
		if len(want) <= 24 || i < 3 || i >= len(wn)-3 {
			keys[string(want[n])] = want[n]
		}
	}
	order := make([]string, 0, len(keys))
	for s := range keys {
		order = append(order, s)
	}
	sort.Strings(order)
	for _, s := range order {
		k := keys[s]
		owner, listed := "", false
		for n, wk := range want {
			if bytes.Equal(wk, k) {
				owner, listed = n, true
			}
		}
		var probes []credx.Probe
		var trs []string
		if stores.HasTCP() {
			probes, trs = append(probes, rig.ProbeTCP(k)), append(trs, "tcp")
		}
		if stores.HasUDP() {
			probes, trs = append(probes, rig.ProbeUDP(k)), append(trs, "udp")
		}
		for i, pr := range probes {
			if pr.OK != listed || (listed && (pr.User != owner || !pr.ReplyOK)) {
				return fmt.Sprintf("a restarted server: %s client with key %x… accepted=%v as %q (reply round trip %v %s %s); the acknowledged set says listed=%v owner=%q",
					trs[i], k[:4], pr.OK, pr.User, pr.ReplyOK, pr.Err, pr.ReplyErr, listed, owner)
			}
		}
	}
	return ""
}

// showSet renders a user set of any size (credx.Show is meant for a handful of users).
func showSet(m map[string][]byte, kl int) string {
	if len(m) <= 12 {
		return credx.Show(m, kl)
	}
	return fmt.Sprintf("{%d users}", len(m))
}

// diffSets names what differs between the store and the acknowledged set.
func diffSets(got, want map[string][]byte) string {
	var extra, missing, other []string
	for n, k := range got {
		if wk, ok := want[n]; !ok {
			extra = append(extra, n)
		} else if !bytes.Equal(k, wk) {
			other = append(other, n)
		}
	}
	for n := range want {
		if _, ok := got[n]; !ok {
			missing = append(missing, n)
		}
	}
	sort.Strings(extra)
	sort.Strings(missing)
	sort.Strings(other)
	clipN := func(s []string) []string {
		if len(s) > 8 {
			return append(s[:8:8], fmt.Sprintf("…(%d)", len(s)))
		}
		return s
	}
	return fmt.Sprintf("on disk but not acknowledged %v, acknowledged but not on disk %v, other key on disk %v", clipN(extra), clipN(missing), clipN(other))
}

func is2xx(code int) bool { return code >= 200 && code <= 299 }

// TestReplayRound6 re-runs a recorded round-6 plan (bin/check C20 --replay FILE; the file is a
// journal or a failure log with a PLAN-JSON line).
func TestReplayRound6(t *testing.T) {
	p := os.Getenv("VERIF_REPLAY")
	if p == "" {
		t.Skip("no VERIF_REPLAY")
	}
	b, err := os.ReadFile(p)
	if err != nil {
		t.Fatal(err)
	}
	kind, raw, ok := recordedPlan(b)
	if !ok {
		t.Skip("no round-6 plan in the replay file")
	}
	dir, err := os.MkdirTemp(workDir(), "verif-c20-rp-")
	if err != nil {
		t.Fatal(err)
	}
	defer os.RemoveAll(dir)
	switch kind {
	case "as-save-starts":
		var pl startPlan
		if err := json.Unmarshal(raw, &pl); err != nil {
			t.Fatal(err)
		}
		if r := runStartPlan(t, pl, dir); r.violation != "" {
			t.Errorf("%s\n  plan: %s", r.violation, pl)
		}
	case "burst-in-one-window":
		var pl burstPlan
		if err := json.Unmarshal(raw, &pl); err != nil {
			t.Fatal(err)
		}
		if r := runBurstPlan(t, pl, dir); r.violation != "" {
			t.Errorf("%s\n  plan: %s", r.violation, pl)
		}
	case "shutdown-in-cooldown":
		var pl coolPlan
		if err := json.Unmarshal(raw, &pl); err != nil {
			t.Fatal(err)
		}
		if r := runCoolPlan(t, pl, dir); r.violation != "" {
			t.Errorf("%s\n  plan: %s", r.violation, pl)
		}
	default:
		t.Skipf("plan kind %q is not replayable (real-time trial)", kind)
	}
}
